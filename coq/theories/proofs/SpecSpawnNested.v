(* STRETCH of SpecSpawn.v: user code may itself spawn threads (a nested `join_spawn!` reached
   through `msem` / `dotsem` / `callsem` / `awaitsem`, at any depth).

   Then children spawn grandchildren, handles (pool indices) depend on the schedule, and the
   deterministic-handle evaluator `evalT` of SpecSpawn.v no longer applies.  What replaces
   "events only" is PARAMETRICITY: code may spawn and join, but
     - it treats handles abstractly (a handle only ever reaches `Join`),
     - what it does, and what it returns, does not depend on the thread's name
       (names only flow into the names of the threads it spawns),
     - a spawned thread starts with no handles and returns a value without handles.
   This is a logical relation `crel` between two copies of the code running under different
   thread names with handles related by a (growing) list of pairs; `pcode Q c` = c is related to
   itself (and its results satisfy Q).  The generated thread step is `pcode` (`pcode_thread_step`:
   the `__tb` names differ, the handles differ, the joined values agree), so the hypothesis is
   closed under nesting: `ExNested` feeds a whole `join_spawn!` back in as user code.

   The reference `evalN` reads thread operations sequentially: `Spawn` runs the child to its end,
   at once, and remembers the outcome; `Join` looks it up.  (On code without thread operations it
   is `eval` of SpecSpawn.v: `evalN_nothr`.)

   Machine (`nested_run_is_evalN`): every thread x of the pool runs code related - by `crel`, with a
   per-thread renaming of handles - to a residual of the code it was spawned with, whose `evalN`
   is the predicted outcome `outs[x]`, fixed at spawn time.  A one-step invariant; handles are
   never compared across schedules.  The world is stateless, so a detached sibling that runs on
   after the caller panicked influences nobody: no strictness, no name discipline is needed. *)
From Coq Require Import ZArith Lia List.
From Join Require Import Tok Names Ast Comp Std Denote Spec CompLaws Leaves SpecProps Threads ThreadsProps SpecCode SpecSpawn.
Import ListNotations.

Local Notation top := (fun _ => True).

(* ================================================================== *)
(** * 1. Parametric code                                               *)
(* ================================================================== *)

(* pairs (handle on the left, handle on the right) *)
Definition hrel := list (nat * nat).

Fixpoint crel {A} (Q : hrel -> A -> A -> Prop) (nm1 nm2 : option string) (rho : hrel) (c1 c2 : comp A)
         {struct c1} : Prop :=
  match c1, c2 with
  | Ret a1, Ret a2 => Q rho a1 a2
  | Panic _, Panic _ => True
  | Vis e1 k1, Vis e2 k2 =>
      e1 = e2 /\
      match e1 with
      | EThreadName => crel Q nm1 nm2 rho (k1 (name_val nm1)) (k2 (name_val nm2))
      | _ => forall v, crel Q nm1 nm2 rho (k1 v) (k2 v)
      end
  | Spawn n1 t1 k1, Spawn n2 t2 k2 =>
      crel (fun _ v1 v2 => v1 = v2) (Some n1) (Some n2) [] t1 t2 /\
      forall h1 h2, crel Q nm1 nm2 ((h1, h2) :: rho) (k1 h1) (k2 h2)
  | Join h1 k1, Join h2 k2 => In (h1, h2) rho /\ forall r, crel Q nm1 nm2 rho (k1 r) (k2 r)
  | _, _ => False
  end.

(* the class: related to itself under all names and all handle relations; results satisfy Q *)
Definition pcode {A} (Q : A -> Prop) (c : comp A) : Prop :=
  forall nm1 nm2 rho, crel (fun _ a1 a2 => a1 = a2 /\ Q a1) nm1 nm2 rho c c.

Lemma crel_weaken {A} (Q R : hrel -> A -> A -> Prop) (c1 : comp A) :
  (forall rho a1 a2, Q rho a1 a2 -> R rho a1 a2) ->
  forall c2 nm1 nm2 rho, crel Q nm1 nm2 rho c1 c2 -> crel R nm1 nm2 rho c1 c2.
Proof.
  intros HQ. induction c1 as [A a|A n|A e k IH|A name t IHt k IH|A i k IH];
    intros [a2|n2|e2 k2|name2 t2 k2|i2 k2] nm1 nm2 rho H; cbn in H |- *; try contradiction; auto.
  - destruct H as [He Hk]. split; [exact He|]. destruct e; eauto.
  - destruct H as [Ht Hk]. split; [exact Ht|]. eauto.
  - destruct H as [Hi Hk]. split; [exact Hi|]. eauto.
Qed.

Lemma crel_bind {A B} (Q : hrel -> A -> A -> Prop) (R : hrel -> B -> B -> Prop) (c1 : comp A) :
  forall (c2 : comp A) (f1 f2 : A -> comp B) nm1 nm2 rho,
    crel Q nm1 nm2 rho c1 c2 ->
    (forall rho' a1 a2, incl rho rho' -> Q rho' a1 a2 -> crel R nm1 nm2 rho' (f1 a1) (f2 a2)) ->
    crel R nm1 nm2 rho (bind c1 f1) (bind c2 f2).
Proof.
  induction c1 as [A a|A n|A e k IH|A name t IHt k IH|A i k IH];
    intros [a2|n2|e2 k2|name2 t2 k2|i2 k2] f1 f2 nm1 nm2 rho H Hf; cbn in H; try contradiction; cbn [bind].
  - apply Hf; [apply incl_refl|exact H].
  - exact I.
  - destruct H as [He Hk]. cbn. split; [exact He|]. destruct e; eauto.
  - destruct H as [Ht Hk]. cbn. split; [exact Ht|]. intros h1 h2.
    eapply IH; [apply Hk|]. intros rho' a1 a2 Hi. apply Hf. intros x Hx. apply Hi. now right.
  - destruct H as [Hi Hk]. cbn. split; [exact Hi|]. eauto.
Qed.

Lemma pcode_class : code_class (@pcode).
Proof.
  split.
  - intros A Q a Ha nm1 nm2 rho. cbn. auto.
  - intros A Q n nm1 nm2 rho. exact I.
  - intros A Q e k He Hk nm1 nm2 rho. cbn. split; [reflexivity|].
    destruct e; try congruence; intros v; apply Hk.
  - intros A B Q R c f Hc Hf nm1 nm2 rho.
    eapply crel_bind; [apply Hc|]. intros rho' a1 a2 _ [<- Ha]. apply Hf, Ha.
Qed.

Lemma pcode_weaken {A} (Q R : A -> Prop) (c : comp A) : (forall a, Q a -> R a) -> pcode Q c -> pcode R c.
Proof.
  intros HQ Hc nm1 nm2 rho. eapply crel_weaken; [|apply Hc]. cbn. intros _ a1 a2 [E Ha]. auto.
Qed.

(* the closed form used for whole threads: equal results *)
Lemma pcode_closed (Q : val -> Prop) (c : comp val) nm1 nm2 rho :
  pcode Q c -> crel (fun _ v1 v2 => v1 = v2) nm1 nm2 rho c c.
Proof. intros Hc. eapply crel_weaken; [|apply Hc]. cbn. intros _ a1 a2 [E _]. exact E. Qed.

(* events-only code is parametric *)
Lemma ucode_pcode {A} (Q : A -> Prop) (c : comp A) : ucode Q c -> pcode Q c.
Proof.
  induction c as [A a|A n|A e k IH|A name t IHt k IH|A i k IH]; cbn; intros Hc nm1 nm2 rho; try contradiction.
  - cbn. auto.
  - exact I.
  - destruct Hc as [He Hk]. cbn. split; [reflexivity|]. destruct e; try congruence; intros v; apply IH, Hk.
Qed.

Notation dval_okP := (dval_okC (@pcode)).
Notation st_okP := (st_okC (@pcode)).
(* THE HYPOTHESIS ON USER CODE, nested version: `SpecCode.user_codeC` at the class `pcode` *)
Notation user_code_nested := (user_codeC (@pcode)).

(* ---- the generated thread step is parametric ---- *)
Definition builders_rel (bs1 bs2 : list dval) : Prop :=
  Forall2 (fun d1 d2 => exists n1 n2, d1 = DBuilder n1 /\ d2 = DBuilder n2) bs1 bs2.
Definition handles_rel (rho : hrel) (hs1 hs2 : list dval) : Prop :=
  Forall2 (fun d1 d2 => exists h1 h2, d1 = DV (VHandle h1) /\ d2 = DV (VHandle h2) /\ In (h1, h2) rho) hs1 hs2.

Lemma crel_builders nm1 nm2 acts : forall rho,
  crel (fun _ => builders_rel) nm1 nm2 rho
       (mapM (fun b => thread_builder (Z.of_nat b)) acts) (mapM (fun b => thread_builder (Z.of_nat b)) acts).
Proof.
  induction acts as [|b acts IH]; intros rho; cbn [mapM]; [constructor|].
  eapply crel_bind with (Q := fun _ d1 d2 => exists n1 n2, d1 = DBuilder n1 /\ d2 = DBuilder n2).
  - unfold thread_builder. cbn. split; [reflexivity|]. rewrite !tb_name_child_name. cbn. eauto.
  - intros rho' d1 d2 _ Hd. eapply crel_bind; [apply IH|]. intros rho'' ds1 ds2 _ Hds. cbn. constructor; assumption.
Qed.

Lemma crel_spawn_all nm1 nm2 (child : nat -> comp val) bs1 bs2 :
  (forall b, pcode top (child b)) -> builders_rel bs1 bs2 ->
  forall acts rho,
    crel handles_rel nm1 nm2 rho
         (mapM (std_spawn_one child) (combine bs1 acts)) (mapM (std_spawn_one child) (combine bs2 acts)).
Proof.
  intros Hch Hbs. induction Hbs as [|d1 d2 bs1 bs2 (n1 & n2 & -> & ->) Hbs IH]; intros acts rho.
  - cbn. constructor.
  - destruct acts as [|a acts]; [cbn; constructor|]. cbn [combine mapM].
    unfold std_spawn_one at 1 3. cbn [fst snd]. unfold std_spawn. cbn [bind std_unwrap]. cbn.
    split; [apply (pcode_closed top), Hch|]. intros h1 h2.
    eapply crel_bind; [apply IH|]. intros rho' hs1 hs2 Hi Hhs. cbn. constructor; [|exact Hhs].
    exists h1, h2. repeat split. apply Hi. now left.
Qed.

Lemma handles_rel_shape rho hs1 hs2 :
  handles_rel rho hs1 hs2 ->
  exists l, hs1 = map (fun h => DV (VHandle h)) (map fst l) /\ hs2 = map (fun h => DV (VHandle h)) (map snd l) /\
            Forall (fun p => In p rho) l.
Proof.
  induction 1 as [|d1 d2 hs1 hs2 (h1 & h2 & -> & -> & Hin) _ (l & -> & -> & Hl)].
  - exists []. repeat split. constructor.
  - exists ((h1, h2) :: l). repeat split. constructor; assumption.
Qed.

Lemma crel_join_all nm1 nm2 l : forall rho,
  Forall (fun p => In p rho) l ->
  crel (fun _ vs1 vs2 => vs1 = vs2) nm1 nm2 rho
       (mapM std_join_one (map VHandle (map fst l))) (mapM std_join_one (map VHandle (map snd l))).
Proof.
  induction l as [|[h1 h2] l IH]; intros rho Hl; cbn [map mapM fst snd]; [reflexivity|].
  inversion Hl as [|? ? Hin Hl']; subst.
  eapply crel_bind with (Q := fun _ v1 v2 => v1 = v2).
  - unfold std_join_one, std_join. cbn. split; [exact Hin|]. intros [v|]; cbn; auto.
  - intros rho' v1 v2 Hi <-. eapply crel_bind.
    + apply IH. eapply Forall_impl; [|exact Hl']. intros pr Hp. apply Hi, Hp.
    + intros rho'' vs1 vs2 _ <-. cbn. reflexivity.
Qed.

(* THE GENERATED STEP IS PARAMETRIC: under two names the `__tb` names differ and under two handle
   relations the handles differ, but handles only reach `Join` and the joined values agree *)
Lemma pcode_thread_step {C} acts (caps : comp C) (child : C -> nat -> comp val) :
  pcode top caps -> (forall cp b, pcode top (child cp b)) ->
  pcode dval_okP (std_thread_step acts caps child).
Proof.
  intros Hcaps Hchild nm1 nm2 rho. unfold std_thread_step.
  eapply crel_bind; [apply crel_builders|]. intros rho1 bs1 bs2 _ Hbs.
  eapply crel_bind; [apply Hcaps|]. intros rho2 cp ? _ [<- _].
  unfold std_spawn_join.
  eapply crel_bind; [apply crel_spawn_all; [apply Hchild|exact Hbs]|]. intros rho3 hs1 hs2 _ Hhs.
  destruct (handles_rel_shape _ _ _ Hhs) as (l & -> & -> & Hl).
  unfold vals_tuple. rewrite !all_vals_handles. cbn [bind].
  eapply crel_bind; [apply crel_join_all, Hl|]. intros rho4 vs ? _ <-. cbn. auto.
Qed.

(* ================================================================== *)
(** * 2. The sequential reading of thread operations                    *)
(* ================================================================== *)

Section World.
  Variable h : ev -> option val.

  (* `Spawn` runs the child to its end at once and remembers its outcome; `Join i` looks up the
     outcome of the i-th thread this code spawned; None = panic (or a handle that is not in scope) *)
  Fixpoint evalN {A} (nm : option string) (c : comp A) (rs : list (option val)) {struct c}
    : option (A * list (option val)) :=
    match c with
    | Ret a => Some (a, rs)
    | Panic _ => None
    | Vis e k => match ans h nm e with Some v => evalN nm (k v) rs | None => None end
    | Spawn name t k => evalN nm (k (List.length rs)) (rs ++ [option_map fst (evalN (Some name) t [])])
    | Join i k => match nth_error rs i with Some r => evalN nm (k r) rs | None => None end
    end.

  (* the outcome of a whole thread *)
  Definition outN (nm : option string) (c : comp val) : option val := option_map fst (evalN nm c []).

  Lemma evalN_bind {A B} nm (c : comp A) (f : A -> comp B) : forall rs,
    evalN nm (bind c f) rs = match evalN nm c rs with Some (a, rs') => evalN nm (f a) rs' | None => None end.
  Proof.
    induction c as [A a|A n|A e k IH|A name t IHt k IH|A i k IH]; cbn; intros rs; auto.
    - destruct (ans h nm e); auto.
    - destruct (nth_error rs i); auto.
  Qed.

  (* without thread operations it is `eval` *)
  Lemma evalN_nothr {A} nm (c : comp A) rs :
    nothr c -> evalN nm c rs = option_map (fun a => (a, rs)) (eval h nm c).
  Proof.
    induction c as [A a|A n|A e k IH|A name t IHt k IH|A i k IH]; cbn; intros Hc; auto; try contradiction.
    destruct (ans h nm e); auto.
  Qed.

  Lemma outN_nothr nm (c : comp val) : nothr c -> outN nm c = eval h nm c.
  Proof. intros Hc. unfold outN. rewrite evalN_nothr by exact Hc. destruct (eval h nm c); reflexivity. Qed.

  (* ---- the fundamental lemma: related code, related outcome lists => related results ---- *)
  Definition rs_rel (rho : hrel) (rs1 rs2 : list (option val)) : Prop :=
    forall h1 h2, In (h1, h2) rho -> exists o, nth_error rs1 h1 = Some o /\ nth_error rs2 h2 = Some o.

  Definition res_rel {A} (Q : hrel -> A -> A -> Prop) (rho : hrel)
             (r1 r2 : option (A * list (option val))) : Prop :=
    match r1, r2 with
    | Some (a1, rs1), Some (a2, rs2) => exists rho', incl rho rho' /\ Q rho' a1 a2 /\ rs_rel rho' rs1 rs2
    | None, None => True
    | _, _ => False
    end.

  Lemma rs_rel_snoc rho rs1 rs2 o :
    rs_rel rho rs1 rs2 -> rs_rel ((List.length rs1, List.length rs2) :: rho) (rs1 ++ [o]) (rs2 ++ [o]).
  Proof.
    intros Hr h1 h2 [E|Hin].
    - injection E as <- <-. exists o. split; apply nth_error_app_new.
    - destruct (Hr _ _ Hin) as (o' & H1 & H2). exists o'.
      rewrite !nth_error_app1 by (eapply nth_error_Some_lt; eauto). auto.
  Qed.

  Lemma evalN_crel {A} (c1 : comp A) :
    forall (c2 : comp A) (Q : hrel -> A -> A -> Prop) nm1 nm2 rho rs1 rs2,
      crel Q nm1 nm2 rho c1 c2 -> rs_rel rho rs1 rs2 ->
      res_rel Q rho (evalN nm1 c1 rs1) (evalN nm2 c2 rs2).
  Proof.
    induction c1 as [A a|A n|A e k IH|A name t IHt k IH|A i k IH];
      intros [a2|n2|e2 k2|name2 t2 k2|i2 k2] Q nm1 nm2 rho rs1 rs2 H Hrs; cbn in H; try contradiction.
    - cbn. exists rho. split; [apply incl_refl|]. auto.
    - exact I.
    - destruct H as [<- Hk]. cbn [evalN]. destruct e; cbn [ans].
      + destruct (h _); [apply IH; auto|exact I].
      + destruct (h _); [apply IH; auto|exact I].
      + apply IH; auto.
    - destruct H as [Ht Hk]. cbn [evalN].
      assert (E : option_map fst (evalN (Some name) t []) = option_map fst (evalN (Some name2) t2 [])).
      { pose proof (IHt t2 _ _ _ [] [] [] Ht ltac:(intros ? ? [])) as Hr. unfold res_rel in Hr.
        destruct (evalN (Some name) t []) as [[v1 r1]|], (evalN (Some name2) t2 []) as [[v2 r2]|]; try contradiction; [|reflexivity].
        destruct Hr as (_ & _ & -> & _). reflexivity. }
      rewrite <- E.
      pose proof (IH (List.length rs1) (k2 (List.length rs2)) Q nm1 nm2 _ _ _ (Hk _ _)
                     (rs_rel_snoc rho rs1 rs2 (option_map fst (evalN (Some name) t [])) Hrs)) as Hr.
      unfold res_rel in Hr |- *.
      destruct (evalN nm1 (k (List.length rs1)) _) as [[a1 r1]|], (evalN nm2 (k2 (List.length rs2)) _) as [[a2' r2]|]; auto.
      destruct Hr as (rho' & Hi & HQ & Hrr). exists rho'. split; [|auto].
      intros x Hx. apply Hi. now right.
    - destruct H as [Hin Hk]. cbn [evalN]. destruct (Hrs _ _ Hin) as (o & -> & ->). apply IH; auto.
  Qed.

  (* parametric code: the outcome depends neither on the name nor on the outcomes so far *)
  Lemma evalN_pcode_indep {A} (Q : A -> Prop) (c : comp A) nm1 nm2 rs1 rs2 :
    pcode Q c -> option_map fst (evalN nm1 c rs1) = option_map fst (evalN nm2 c rs2).
  Proof.
    intros Hc. pose proof (evalN_crel c c _ nm1 nm2 [] rs1 rs2 (Hc nm1 nm2 []) ltac:(intros ? ? [])) as Hr.
    unfold res_rel in Hr. destruct (evalN nm1 c rs1) as [[a1 r1]|], (evalN nm2 c rs2) as [[a2 r2]|]; try contradiction; [|reflexivity].
    destruct Hr as (_ & _ & [-> _] & _). reflexivity.
  Qed.

  Lemma evalN_pcode_post {A} (Q : A -> Prop) (c : comp A) nm rs a rs' :
    pcode Q c -> evalN nm c rs = Some (a, rs') -> Q a.
  Proof.
    intros Hc E. pose proof (evalN_crel c c _ nm nm [] rs rs (Hc nm nm []) ltac:(intros ? ? [])) as Hr.
    unfold res_rel in Hr. rewrite E in Hr. destruct Hr as (_ & _ & [_ Ha] & _). exact Ha.
  Qed.

  (* ================================================================== *)
  (** * 3. The machine                                                   *)
  (* ================================================================== *)

  Section Machine.
    Variable W : Type.
    Variable handle : option string -> ev -> W -> option val * W.
    Hypothesis Hstateless : stateless h W handle.

    (* thread x, in a pool whose predicted outcomes are `outs`: its code is related to a residual cv
       (running under a name vnm, with its own handles and outcome list rsv) whose sequential
       reading is the prediction for x *)
    Definition tinv (outs : list (option val)) (x : nat) (th : thread) : Prop :=
      exists vnm (cv : comp val) rsv rho,
        crel (fun _ v1 v2 => v1 = v2) vnm (th_name th) rho cv (th_code th) /\
        rs_rel rho rsv outs /\
        nth_error outs x = Some (option_map fst (evalN vnm cv rsv)).

    Definition ninv (R : option val) (s : Threads.state W) : Prop :=
      exists outs,
        List.length outs = List.length (pool s) /\ nth_error outs 0 = Some R /\
        forall x th, nth_error (pool s) x = Some th -> tinv outs x th.

    Lemma tinv_grow outs o x th : tinv outs x th -> tinv (outs ++ [o]) x th.
    Proof.
      intros (vnm & cv & rsv & rho & Hc & Hr & Hx). exists vnm, cv, rsv, rho. split; [exact Hc|]. split.
      - intros h1 h2 Hin. destruct (Hr _ _ Hin) as (o' & H1 & H2). exists o'. split; [exact H1|].
        rewrite nth_error_app1 by (eapply nth_error_Some_lt; eauto). exact H2.
      - rewrite nth_error_app1 by (eapply nth_error_Some_lt; eauto). exact Hx.
    Qed.

    (* a finished thread holds its prediction *)
    Lemma tinv_outcome outs x th r :
      tinv outs x th -> outcome (th_code th) = Some r -> nth_error outs x = Some r.
    Proof.
      intros (vnm & cv & rsv & rho & Hc & _ & Hx) Ho. rewrite Hx. f_equal.
      destruct (th_code th) as [v|n|e k|name t k|i k]; cbn in Ho; try discriminate; injection Ho as <-;
        destruct cv as [v1|n1|e1 k1|name1 t1 k1|i1 k1]; cbn in Hc; try contradiction.
      - subst. reflexivity.
      - reflexivity.
    Qed.

    Lemma ninv_step R i s s' : ninv R s -> step_rel W handle i s s' -> ninv R s'.
    Proof.
      intros (outs & Hlen & H0 & Hall) Hst.
      destruct Hst as [th e k r w' Hth Hc Ha ->|th name t k Hth Hc ->|th j k th' r Hth Hc Hth' Ho ->];
        unfold thr_of in *; pose proof (nth_error_Some_lt _ _ _ Hth) as Hi.
      - (* an event *)
        assert (Er : r = ans h (th_name th) e).
        { rewrite <- (answer_ans h W handle Hstateless (th_name th) e (world s)), Ha. reflexivity. }
        exists outs. cbn [pool]. rewrite upd_length. split; [exact Hlen|]. split; [exact H0|].
        intros x thx Hx. destruct (Nat.eq_dec x i) as [->|Hne].
        2:{ rewrite nth_error_upd_neq in Hx by congruence. apply Hall, Hx. }
        rewrite nth_error_upd_eq in Hx by exact Hi. injection Hx as <-.
        destruct (Hall _ _ Hth) as (vnm & cv & rsv & rho & Hcr & Hr & Hout). rewrite Hc in Hcr.
        destruct cv as [v1|n1|e1 k1|name1 t1 k1|i1 k1]; cbn in Hcr; try contradiction.
        destruct Hcr as [-> Hk]. cbn [evalN] in Hout. cbn [set_code th_name th_code].
        destruct e; cbn [ans] in Er, Hout.
        + destruct (h _) as [v|]; subst r; cbn [vis_next].
          * exists vnm, (k1 v), rsv, rho. cbn [set_code th_name th_code]. auto.
          * exists vnm, (Panic P_USER), rsv, rho. cbn. auto.
        + destruct (h _) as [v|]; subst r; cbn [vis_next].
          * exists vnm, (k1 v), rsv, rho. cbn [set_code th_name th_code]. auto.
          * exists vnm, (Panic P_USER), rsv, rho. cbn. auto.
        + subst r. cbn [vis_next]. exists vnm, (k1 (name_val vnm)), rsv, rho. cbn [set_code th_name th_code]. auto.
      - (* a spawn *)
        destruct (Hall _ _ Hth) as (vnm & cv & rsv & rho & Hcr & Hr & Hout). rewrite Hc in Hcr.
        destruct cv as [v1|n1|e1 k1|name1 t1 k1|i1 k1]; cbn in Hcr; try contradiction.
        destruct Hcr as [Ht Hk]. cbn [evalN] in Hout.
        set (o := option_map fst (evalN (Some name1) t1 [])) in *.
        exists (outs ++ [o]). cbn [pool]. rewrite !app_length, upd_length. cbn [List.length].
        split; [lia|]. split; [rewrite nth_error_app1 by (eapply nth_error_Some_lt; eauto); exact H0|].
        intros x thx Hx.
        destruct (Nat.lt_ge_cases x (List.length (pool s))) as [Hlt|Hge].
        + rewrite nth_error_app1 in Hx by (rewrite upd_length; exact Hlt).
          destruct (Nat.eq_dec x i) as [->|Hne].
          * rewrite nth_error_upd_eq in Hx by exact Hi. injection Hx as <-. cbn [set_code th_name th_code].
            exists vnm, (k1 (List.length rsv)), (rsv ++ [o]), ((List.length rsv, List.length (pool s)) :: rho).
            split; [apply Hk|]. split.
            -- rewrite <- Hlen. apply rs_rel_snoc, Hr.
            -- rewrite nth_error_app1 by (eapply nth_error_Some_lt; eauto). exact Hout.
          * rewrite nth_error_upd_neq in Hx by congruence. apply tinv_grow, Hall, Hx.
        + assert (x = List.length (pool s)) as ->.
          { apply nth_error_Some_lt in Hx. rewrite app_length, upd_length in Hx. cbn in Hx. lia. }
          rewrite nth_error_app2 in Hx by (rewrite upd_length; lia).
          rewrite upd_length, Nat.sub_diag in Hx. cbn in Hx. injection Hx as <-.
          exists (Some name1), t1, [], []. cbn [th_name th_code]. split; [exact Ht|]. split; [intros ? ? []|].
          rewrite <- Hlen. apply nth_error_app_new.
      - (* a join: the joined thread is finished, so it holds its prediction *)
        exists outs. cbn [pool]. rewrite upd_length. split; [exact Hlen|]. split; [exact H0|].
        intros x thx Hx. destruct (Nat.eq_dec x i) as [->|Hne].
        2:{ rewrite nth_error_upd_neq in Hx by congruence. apply Hall, Hx. }
        rewrite nth_error_upd_eq in Hx by exact Hi. injection Hx as <-.
        destruct (Hall _ _ Hth) as (vnm & cv & rsv & rho & Hcr & Hr & Hout). rewrite Hc in Hcr.
        destruct cv as [v1|n1|e1 k1|name1 t1 k1|i1 k1]; cbn in Hcr; try contradiction.
        destruct Hcr as [Hin Hk]. cbn [evalN] in Hout. cbn [set_code th_name th_code].
        destruct (Hr _ _ Hin) as (o & Hv & Hj).
        rewrite (tinv_outcome outs j th' r (Hall _ _ Hth') Ho) in Hj. injection Hj as <-.
        rewrite Hv in Hout.
        exists vnm, (k1 r), rsv, rho. cbn [set_code th_name th_code]. auto.
    Qed.

    (* every schedule; `c` = the caller's whole program, any parametric code *)
    Theorem nested_run_is_evalN (c : comp val) nm w sched :
      pcode top c ->
      let s := run_thr handle sched (init nm c w) in
      thr_finished 0 s = true -> result_of 0 s = Some (outN nm c).
    Proof.
      intros Hc s Hfin.
      assert (Hinv : ninv (outN nm c) s).
      { apply (run_thr_invariant W handle (ninv (outN nm c))).
        - intros i s1 s2. apply ninv_step.
        - exists [outN nm c]. cbn. split; [reflexivity|]. split; [reflexivity|].
          intros [|[|x]] th Hx; cbn in Hx; try discriminate. injection Hx as <-.
          exists nm, c, [], []. cbn. split; [apply (pcode_closed top), Hc|]. split; [intros ? ? []|reflexivity]. }
      destruct Hinv as (outs & _ & H0 & Hall).
      unfold thr_finished in Hfin. unfold result_of.
      destruct (nth_error (pool s) 0) as [th|] eqn:Hth; [|discriminate].
      destruct (outcome (th_code th)) as [r|] eqn:Ho.
      - rewrite (tinv_outcome outs 0 th r (Hall _ _ Hth) Ho) in H0. congruence.
      - destruct (th_code th); cbn in *; discriminate.
    Qed.
  End Machine.

  (* ================================================================== *)
  (** * 4. Thread code against plain code                                *)
  (* ================================================================== *)

  Definition agreesN {A} (nm : option string) (c1 c2 : comp A) : Prop :=
    forall rs1 rs2, option_map fst (evalN nm c1 rs1) = option_map fst (evalN nm c2 rs2).

  Definition simN {A} (nm : option string) (Q : A -> Prop) (c1 c2 : comp A) : Prop :=
    pcode Q c1 /\ pcode Q c2 /\ agreesN nm c1 c2.

  Lemma simN_refl {A} nm (Q : A -> Prop) (c : comp A) : pcode Q c -> simN nm Q c c.
  Proof.
    intros Hc. split; [exact Hc|]. split; [exact Hc|]. intros rs1 rs2. eapply evalN_pcode_indep; eauto.
  Qed.

  Lemma simN_bind {A B} nm (Q : A -> Prop) (R : B -> Prop) (c1 c2 : comp A) (f1 f2 : A -> comp B) :
    simN nm Q c1 c2 -> (forall a, Q a -> simN nm R (f1 a) (f2 a)) -> simN nm R (bind c1 f1) (bind c2 f2).
  Proof.
    intros (H1 & H2 & Hag) Hf. split; [|split].
    - eapply (cc_bind _ pcode_class); [exact H1|]. intros a Ha. apply (Hf a Ha).
    - eapply (cc_bind _ pcode_class); [exact H2|]. intros a Ha. apply (Hf a Ha).
    - intros rs1 rs2. rewrite !evalN_bind. specialize (Hag rs1 rs2).
      destruct (evalN nm c1 rs1) as [[a1 r1]|] eqn:E1, (evalN nm c2 rs2) as [[a2 r2]|] eqn:E2;
        cbn in Hag; try discriminate; [|reflexivity].
      injection Hag as <-.
      assert (Ha : Q a1) by (eapply evalN_pcode_post; eauto).
      apply (Hf a1 Ha).
  Qed.

  (* ---- the thread step ---- *)
  Lemma evalN_builders nm acts rs :
    evalN nm (mapM (fun b => thread_builder (Z.of_nat b)) acts) rs =
    Some (map (fun b => DBuilder (child_name nm b)) acts, rs).
  Proof.
    induction acts as [|b acts IH]; cbn [mapM map]; [reflexivity|].
    rewrite evalN_bind. unfold thread_builder at 1. cbn [evalN ans]. rewrite tb_name_child_name. cbn [evalN].
    rewrite evalN_bind, IH. reflexivity.
  Qed.

  Lemma evalN_spawn_all nm (name : nat -> string) (child : nat -> comp val) acts : forall rs,
    evalN nm (mapM (std_spawn_one child) (combine (map (fun b => DBuilder (name b)) acts) acts)) rs =
    Some (map (fun i => DV (VHandle i)) (seq (List.length rs) (List.length acts)),
          rs ++ map (fun b => outN (Some (name b)) (child b)) acts).
  Proof.
    induction acts as [|b acts IH]; intros rs; cbn [mapM map combine List.length seq].
    - now rewrite app_nil_r.
    - rewrite evalN_bind. unfold std_spawn_one at 1. cbn [fst snd]. unfold std_spawn. cbn [bind evalN std_unwrap].
      rewrite evalN_bind, IH. rewrite app_length. cbn [List.length]. rewrite Nat.add_1_r.
      cbn [evalN]. rewrite <- app_assoc. reflexivity.
  Qed.

  Lemma evalN_join_all nm rs hs outs :
    Forall2 (fun i r => nth_error rs i = Some r) hs outs ->
    evalN nm (mapM std_join_one (map VHandle hs)) rs = option_map (fun vs => (vs, rs)) (all_some outs).
  Proof.
    induction 1 as [|i r hs outs Hi _ IH]; cbn [mapM map all_some]; [reflexivity|].
    rewrite evalN_bind. unfold std_join_one at 1. unfold std_join. cbn [bind evalN]. rewrite Hi.
    destruct r as [v|]; cbn [evalN std_unwrap bind to_val]; [|reflexivity].
    rewrite evalN_bind, IH. destruct (all_some outs); reflexivity.
  Qed.

  (* plain code runs the chains one after the other; each is parametric, so what came before does not matter *)
  Lemma evalN_mapM_pcode {A B} (Q : B -> Prop) nm (f : A -> comp B) (l : list A) : (forall x, pcode Q (f x)) ->
    forall rs, option_map fst (evalN nm (mapM f l) rs) = all_some (map (fun x => option_map fst (evalN nm (f x) [])) l).
  Proof.
    intros Hf. induction l as [|x l IH]; intros rs; cbn [mapM map all_some]; [reflexivity|].
    rewrite evalN_bind. pose proof (evalN_pcode_indep Q (f x) nm nm rs [] (Hf x)) as E.
    destruct (evalN nm (f x) rs) as [[y r1]|], (evalN nm (f x) []) as [[y' r2]|]; cbn in E; try discriminate; [|reflexivity].
    injection E as <-. cbn [option_map fst]. rewrite evalN_bind. specialize (IH r1).
    destruct (evalN nm (mapM f l) r1) as [[ys r3]|]; cbn in IH |- *; rewrite <- IH; reflexivity.
  Qed.

  Lemma simN_thread_step {C} nm acts (caps : comp C) (child : C -> nat -> comp dval) :
    pcode top caps -> (forall cp b, pcode dval_okP (child cp b)) ->
    simN nm dval_okP
         (std_thread_step acts caps (fun cp b => let! d := child cp b in to_val d))
         (let! cp := caps in let! ds := mapM (child cp) acts in Spec.vals_tuple ds).
  Proof.
    intros Hcaps Hchild.
    assert (Hcv : forall cp b, pcode top (let! d := child cp b in to_val d)).
    { intros cp b. eapply (cc_bind _ pcode_class); [apply Hchild|]. intros d _.
      destruct d; first [apply (cc_ret _ pcode_class); exact I | apply (cc_panic _ pcode_class)]. }
    split; [|split].
    - apply pcode_thread_step; assumption.
    - eapply (cc_bind _ pcode_class); [exact Hcaps|]. intros cp _.
      eapply (cc_bind _ pcode_class); [apply (c_mapM _ pcode_class); intros b _; apply Hchild|]. intros ds _.
      unfold Spec.vals_tuple. destruct (all_vals ds); [apply (cc_ret _ pcode_class); exact I|apply (cc_panic _ pcode_class)].
    - intros rs1 rs2. unfold std_thread_step.
      rewrite evalN_bind, evalN_builders, !evalN_bind.
      pose proof (evalN_pcode_indep top caps nm nm rs1 rs2 Hcaps) as Ecaps.
      destruct (evalN nm caps rs1) as [[cp r1]|], (evalN nm caps rs2) as [[cp' r2]|]; cbn in Ecaps; try discriminate; [|reflexivity].
      injection Ecaps as <-.
      unfold std_spawn_join.
      rewrite evalN_bind, (evalN_spawn_all nm (child_name nm) (fun b => let! d := child cp b in to_val d)).
      rewrite evalN_bind. unfold vals_tuple at 1. rewrite all_vals_handles. cbn [evalN].
      rewrite evalN_bind.
      rewrite (evalN_join_all nm _ _ (map (fun b => outN (Some (child_name nm b)) (let! d := child cp b in to_val d)) acts)).
      2:{ pose proof (nth_error_outs (map (fun b => outN (Some (child_name nm b)) (let! d := child cp b in to_val d)) acts) r1) as H.
          rewrite map_length in H. exact H. }
      rewrite evalN_bind.
      pose proof (evalN_mapM_pcode dval_okP nm (child cp) acts (Hchild cp) r2) as Em.
      assert (E : map (fun b => outN (Some (child_name nm b)) (let! d := child cp b in to_val d)) acts =
                  map (fun o => match o with Some (DV v) => Some v | _ => None end)
                      (map (fun b => option_map fst (evalN nm (child cp b) [])) acts)).
      { rewrite map_map. apply map_ext. intros b. unfold outN.
        rewrite (evalN_pcode_indep top _ (Some (child_name nm b)) nm [] []) by apply Hcv.
        rewrite evalN_bind.
        destruct (evalN nm (child cp b) []) as [[d r]|]; [|reflexivity]. destruct d; reflexivity. }
      rewrite E, all_some_vals.
      destruct (evalN nm (mapM (child cp) acts) r2) as [[ds r3]|]; cbn in Em; rewrite <- Em; cbn [option_map]; [|reflexivity].
      unfold Spec.vals_tuple. destruct (all_vals ds); reflexivity.
  Qed.

  (* ---- the whole program: `SpecCode.walk_program` at the class `pcode` and the relation `simN` ---- *)
  Lemma simN_program msem dotsem callsem awaitsem (HU : user_code_nested msem dotsem callsem awaitsem)
        (p : sprog) (Hsync : is_async (sp_cfg p) = false) (nm : option string) :
    simN nm top (let! d := spec msem dotsem callsem awaitsem (with_spawn true p) in to_val d)
                (let! d := spec msem dotsem callsem awaitsem (with_spawn false p) in to_val d).
  Proof.
    apply (walk_program (@pcode) pcode_class (fun A => @simN A nm)); try assumption.
    - intros A Q c. apply simN_refl.
    - intros A B Q R c1 c2 f1 f2. apply simN_bind.
    - intros C acts caps child. apply simN_thread_step.
  Qed.
End World.

(* ================================================================== *)
(** * 5. The theorem                                                   *)
(* ================================================================== *)

(* As `SpecSpawn.spawn_macro_agrees_with_plain`, but user code may spawn threads itself (parametric
   code, e.g. nested `join_spawn!` invocations).  The plain program is read sequentially by `evalN`
   (a nested thread block runs its children in order, on the spot). *)
Theorem spawn_macro_agrees_with_plain_nested :
  forall (h : ev -> option val)
         (W : Type) (handle : option string -> ev -> W -> option val * W)
         msem dotsem callsem awaitsem (p : sprog) (nm : option string) (w : W) (sched : list nat),
    stateless h W handle ->
    user_code_nested msem dotsem callsem awaitsem ->
    is_async (sp_cfg p) = false ->
    let spawn_prog := (let! d := spec msem dotsem callsem awaitsem (with_spawn true p) in to_val d) in
    let plain_prog := (let! d := spec msem dotsem callsem awaitsem (with_spawn false p) in to_val d) in
    let s := run_thr handle sched (init nm spawn_prog w) in
    thr_finished 0 s = true ->
    result_of 0 s = Some (outN h nm plain_prog).
Proof.
  intros h W handle msem dotsem callsem awaitsem p nm w sched Hw HU Hsync spawn_prog plain_prog s Hfin.
  destruct (simN_program h msem dotsem callsem awaitsem HU p Hsync nm) as (Hp & _ & Hag).
  unfold s. rewrite (nested_run_is_evalN h W handle Hw spawn_prog nm w sched Hp Hfin).
  f_equal. apply Hag.
Qed.
Print Assumptions spawn_macro_agrees_with_plain_nested.

Corollary spawn_macro_any_two_schedules_agree_nested :
  forall (h : ev -> option val)
         (W : Type) (handle : option string -> ev -> W -> option val * W)
         msem dotsem callsem awaitsem (p : sprog) (nm : option string) (w : W) (sched1 sched2 : list nat),
    stateless h W handle ->
    user_code_nested msem dotsem callsem awaitsem ->
    is_async (sp_cfg p) = false ->
    let spawn_prog := (let! d := spec msem dotsem callsem awaitsem (with_spawn true p) in to_val d) in
    let s1 := run_thr handle sched1 (init nm spawn_prog w) in
    let s2 := run_thr handle sched2 (init nm spawn_prog w) in
    thr_finished 0 s1 = true -> thr_finished 0 s2 = true ->
    result_of 0 s1 = result_of 0 s2.
Proof.
  intros h W handle msem dotsem callsem awaitsem p nm w sched1 sched2 Hw HU Hsync spawn_prog s1 s2 H1 H2.
  unfold s1, s2, spawn_prog.
  rewrite (spawn_macro_agrees_with_plain_nested h W handle msem dotsem callsem awaitsem p nm w sched1 Hw HU Hsync H1).
  rewrite (spawn_macro_agrees_with_plain_nested h W handle msem dotsem callsem awaitsem p nm w sched2 Hw HU Hsync H2).
  reflexivity.
Qed.
Print Assumptions spawn_macro_any_two_schedules_agree_nested.

(* the thread-spawning macro over parametric user code is parametric user code again: the
   hypothesis is closed under nesting *)
Lemma pcode_spec_spawn msem dotsem callsem awaitsem (p : sprog) :
  user_code_nested msem dotsem callsem awaitsem -> is_async (sp_cfg p) = false ->
  pcode dval_okP (spec msem dotsem callsem awaitsem (with_spawn true p)).
Proof.
  intros HU Hsync.
  refine (proj1 (walk_spec (@pcode) pcode_class (fun A => @simN (fun _ => None) A None) _ _ _
                           msem dotsem callsem awaitsem HU p Hsync)).
  - intros A Q c. apply simN_refl.
  - intros A B Q R c1 c2 f1 f2. apply simN_bind.
  - intros C acts caps child. apply simN_thread_step.
Qed.

(* ================================================================== *)
(** * 6. Example: a `join_spawn!` whose branch runs a `join_spawn!`      *)
(* ================================================================== *)

Module ExNested.
  Import ExSpawn.

  (* `recv.nested` runs the 2-branch program of `ExSpawn` as a thread-spawning macro of its own *)
  Definition inner : comp dval := spec msemE dotsemE callsemE awaitsemE (with_spawn true (prog2 false "dbl")).
  Definition dotsemN (o : operand) (sn : list (string * option val)) (recv : dval) : comp dval :=
    match o with
    | [TI x] => if String.eqb x "nested" then inner else dotsemE o sn recv
    | _ => dotsemE o sn recv
    end.

  Lemma user_code_nested_ex : user_code_nested msemE dotsemN callsemE awaitsemE.
  Proof.
    pose proof (user_code_ex_cls _ pcode_class) as HE. split.
    - apply (uc_msem _ _ _ _ _ HE).
    - intros o sn recv Hrecv. unfold dotsemN.
      assert (Hd : pcode dval_okP (dotsemE o sn recv)) by (apply (uc_dotsem _ _ _ _ _ HE), Hrecv).
      destruct o as [|[c j|x|l|d ts] [|]]; try exact Hd.
      destruct (String.eqb x "nested"); [|exact Hd].
      apply pcode_spec_spawn; [exact HE|reflexivity].
    - apply (uc_callsem _ _ _ _ _ HE).
    - apply (uc_awaitsem _ _ _ _ _ HE).
  Qed.

  (* join_spawn! { one -> nested,  two -> inc } : five threads, two levels *)
  Definition progN : sprog :=
    mkSprog (mkConfig false false false) [None; None]
            [ [ [NAct 0 (ini "one"); NAct 1 (dot false "nested")] ];
              [ [NAct 0 (ini "two"); NAct 1 (dot false "inc")] ] ] None.
  Definition spawnN : comp val := let! d := spec msemE dotsemN callsemE awaitsemE (with_spawn true progN) in to_val d.
  Definition plainN : comp val := let! d := spec msemE dotsemN callsemE awaitsemE (with_spawn false progN) in to_val d.

  Definition sched_rr : list nat := List.concat (repeat [0; 1; 2; 3; 4] 40).
  (* the first child runs ahead and spawns its own children before the caller spawns the second child *)
  Definition sched_deep : list nat := repeat 0 3 ++ repeat 1 20 ++ List.concat (repeat [4; 3; 2; 1; 0] 40).
  Definition runN (sched : list nat) := run_thr handleE sched (init (Some "main") spawnN 0).

  Definition expectedN : val := VTuple [VTuple [VInt 4; VInt 3]; VInt 3].

  Example plainN_value : outN h (Some "main") plainN = Some expectedN.
  Proof. vm_compute. reflexivity. Qed.
  Example spawnN_rr : result_of 0 (runN sched_rr) = Some (Some expectedN).
  Proof. vm_compute. reflexivity. Qed.
  Example spawnN_deep : result_of 0 (runN sched_deep) = Some (Some expectedN).
  Proof. vm_compute. reflexivity. Qed.
  (* handles differ between the two runs: the pool is ordered differently *)
  Example namesN_rr :
    map th_name (pool (runN sched_rr)) =
    [Some "main"; Some "main_join_0"; Some "main_join_1"; Some "main_join_0_join_0"; Some "main_join_0_join_1"].
  Proof. vm_compute. reflexivity. Qed.
  Example namesN_deep :
    map th_name (pool (runN sched_deep)) =
    [Some "main"; Some "main_join_0"; Some "main_join_0_join_0"; Some "main_join_0_join_1"; Some "main_join_1"].
  Proof. vm_compute. reflexivity. Qed.

  (* the theorem, instantiated: for ALL schedules *)
  Example spawnN_all_schedules sched :
    thr_finished 0 (runN sched) = true -> result_of 0 (runN sched) = Some (Some expectedN).
  Proof.
    intros Hfin.
    exact (spawn_macro_agrees_with_plain_nested h nat handleE msemE dotsemN callsemE awaitsemE progN
             (Some "main") 0 sched stateless_ex user_code_nested_ex eq_refl Hfin).
  Qed.
End ExNested.
