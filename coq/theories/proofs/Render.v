(* The wrapper stack machine of the generator renders exactly the bracket tree `nest`
   (C02: `X >>> inner <<< rest`, implicit closing at the end of the step, any depth). *)
From Coq Require Import Lia.
From Join Require Import Tok Names Ast Ir Gen Comp Std Denote Spec.

Definition rstate := (list rstmt * rexpr)%type.

(* the tree, rendered without any stack *)
Fixpoint render_node (cfg : config) (b : nat) (n : node) (st : rstate) {struct n} : res rstate :=
  let render_nodes := fix go (l : list node) (st : rstate) {struct l} : res rstate :=
                        match l with [] => Ok st | x :: r => do st' <- render_node cfg b x st; go r st' end in
  match n with
  | NAct e a => gen_def_and_step cfg (fst st) (snd st) (mk_pos a b e)
  | NWrap e a inner =>
      do inner' <- render_nodes inner (fst st, RVar n_v);
      match replace_inner (a_comb a) [wrapper_closure cfg (snd inner')] with
      | None => InternalBug 4
      | Some args => gen_def_and_step cfg (fst inner') (snd st) (set_args (mk_pos a b e) args)
      end
  end.
Definition render_nodes (cfg : config) (b : nat) : list node -> rstate -> res rstate :=
  fix go (l : list node) (st : rstate) {struct l} : res rstate :=
    match l with [] => Ok st | x :: r => do st' <- render_node cfg b x st; go r st' end.

Lemma render_nodes_cons cfg b x r st :
  render_nodes cfg b (x :: r) st = (do st' <- render_node cfg b x st; render_nodes cfg b r st').
Proof. reflexivity. Qed.
Lemma render_nodes_nil cfg b st : render_nodes cfg b [] st = Ok st.
Proof. reflexivity. Qed.

Lemma render_node_NWrap cfg b e a inner st :
  render_node cfg b (NWrap e a inner) st =
  (do inner' <- render_nodes cfg b inner (fst st, RVar n_v);
   match replace_inner (a_comb a) [wrapper_closure cfg (snd inner')] with
   | None => InternalBug 4
   | Some args => gen_def_and_step cfg (fst inner') (snd st) (set_args (mk_pos a b e) args)
   end).
Proof. reflexivity. Qed.

(* the machine state read against the remaining levels of the tree *)
Fixpoint close_with (cfg : config) (b : nat) (T : list (list node)) (a : acc) {struct T} : res rstate :=
  match T with
  | [] => InternalBug 0
  | t0 :: rest =>
      match a_stk a with
      | [] => InternalBug 0
      | (s, _) :: stk' =>
          do st <- render_nodes cfg b t0 (a_defs a, s);
          let a' := {| a_defs := fst st; a_stk := (snd st, None) :: stk' |} in
          match rest with
          | [] => close_all (List.length (a_stk a')) cfg a'
          | _ :: _ => do a'' <- wrap_last cfg a'; close_with cfg b rest a''
          end
      end
  end.

Lemma wrap_last_top_irrelevant cfg ds s w w' stk :
  wrap_last cfg {| a_defs := ds; a_stk := (s, w) :: stk |} =
  wrap_last cfg {| a_defs := ds; a_stk := (s, w') :: stk |}.
Proof. reflexivity. Qed.

Lemma close_all_top_irrelevant fuel cfg ds s w w' stk :
  close_all fuel cfg {| a_defs := ds; a_stk := (s, w) :: stk |} =
  close_all fuel cfg {| a_defs := ds; a_stk := (s, w') :: stk |}.
Proof.
  destruct fuel as [|fuel]; cbn [close_all a_stk a_defs]; destruct stk as [|x stk']; try reflexivity.
Qed.

Lemma nest_fold_nonempty l : fold_right nest_step [[]] l <> [].
Proof.
  induction l as [|[e x] l IH]; cbn [fold_right]; [discriminate|].
  set (F := fold_right nest_step [[]] l) in *.
  unfold nest_step. cbn [fst snd].
  destruct (a_mv x); destruct F as [|cur [|outer rest]]; try discriminate; try congruence.
Qed.

(* one machine transition against one tree-building step *)
Lemma step_close_with cfg b e x T a :
  T <> [] -> a_stk a <> [] ->
  (do a1 <- process_action cfg (mk_pos x b e) (a_mv x) a; close_with cfg b T a1)
  = close_with cfg b (nest_step (e, x) T) a.
Proof.
  intros HT Hs. destruct a as [ds stk]. cbn [a_stk] in Hs.
  destruct stk as [|[s w] stk']; [congruence|].
  destruct T as [|t0 rest]; [congruence|].
  unfold nest_step; cbn [fst snd]. unfold process_action.
  destruct (a_mv x).
  - (* Wrap *)
    cbn [a_stk a_defs rbind].
    destruct rest as [|outer rest'].
    + (* implicit closing at the end of the step *)
      cbn [close_with a_stk a_defs render_nodes]. rewrite render_node_NWrap. cbn [fst snd].
      destruct (render_nodes cfg b t0 (ds, RVar n_v)) as [[ds' body]| |]; cbn [rbind fst snd]; try reflexivity.
      cbn [List.length close_all a_stk wrap_last a_defs].
      change (p_comb (mk_pos x b e)) with (a_comb x).
      destruct (replace_inner (a_comb x) [wrapper_closure cfg body]) as [args|]; [|reflexivity].
      destruct (gen_def_and_step cfg ds' s (set_args (mk_pos x b e) args)) as [[ds'' s'']| |]; cbn [rbind fst snd]; try reflexivity.
    + cbn [close_with a_stk a_defs render_nodes]. rewrite render_node_NWrap. cbn [fst snd].
      destruct (render_nodes cfg b t0 (ds, RVar n_v)) as [[ds' body]| |]; cbn [rbind fst snd]; try reflexivity.
      cbn [wrap_last a_stk a_defs].
      change (p_comb (mk_pos x b e)) with (a_comb x).
      destruct (replace_inner (a_comb x) [wrapper_closure cfg body]) as [args|]; [|reflexivity].
      destruct (gen_def_and_step cfg ds' s (set_args (mk_pos x b e) args)) as [[ds'' s'']| |]; cbn [rbind fst snd]; try reflexivity.
  - (* Unwrap *)
    cbn [close_with a_stk a_defs render_nodes rbind fst snd].
    rewrite (wrap_last_top_irrelevant cfg ds s None w stk').
    reflexivity.
  - (* NoMove *)
    cbn [a_stk a_defs].
    cbn [close_with a_stk a_defs render_nodes render_node fst snd].
    destruct (gen_def_and_step cfg ds s (mk_pos x b e)) as [[ds' s']| |]; cbn [rbind fst snd]; reflexivity.
Qed.

Lemma process_action_stack_nonempty cfg p m a a1 :
  process_action cfg p m a = Ok a1 -> a_stk a1 <> [].
Proof.
  unfold process_action, wrap_last. destruct a as [ds stk]; cbn [a_stk a_defs].
  destruct m.
  - destruct stk as [|[s w] r]; [discriminate|]. intros H; inversion H; cbn; discriminate.
  - destruct stk as [|[s w] r]; [discriminate|]. destruct r as [|[c [w'|]] r']; try discriminate.
    destruct (replace_inner _ _); [|discriminate].
    destruct (gen_def_and_step _ _ _ _) as [x| |]; cbn [rbind]; try discriminate.
    intros H; inversion H; cbn; discriminate.
  - destruct stk as [|[s w] r]; [discriminate|].
    destruct (gen_def_and_step _ _ _ _) as [x| |]; cbn [rbind]; try discriminate.
    intros H; inversion H; cbn; discriminate.
Qed.

Lemma machine_close_with cfg b acts : forall e a,
  a_stk a <> [] ->
  (do a' <- process_actions cfg b e acts a; close_all (List.length (a_stk a')) cfg a')
  = close_with cfg b (fold_right nest_step [[]] (enum_from e acts)) a.
Proof.
  induction acts as [|x r IH]; intros e a Hs.
  - cbn [process_actions rbind enum_from fold_right close_with render_nodes fst snd].
    destruct a as [ds [|[s w] stk']]; cbn [a_stk a_defs] in *; [congruence|].
    cbn [rbind fst snd]. apply close_all_top_irrelevant.
  - cbn [process_actions enum_from fold_right].
    rewrite <- step_close_with by (auto using nest_fold_nonempty).
    destruct (process_action cfg (mk_pos x b e) (a_mv x) a) as [a1| |] eqn:Hp; cbn [rbind]; try reflexivity.
    apply IH. eapply process_action_stack_nonempty; eauto.
Qed.

(* C02, syntactic half: a step whose brackets balance is rendered as its tree *)
Theorem gen_branch_step_is_render j b prev acts t :
  nest acts = Some t ->
  gen_branch_step j b prev acts = render_nodes (j_cfg j) b t ([], wrap_into_block j (RVar prev)).
Proof.
  unfold nest, nest_levels, gen_branch_step. intros Hn.
  rewrite machine_close_with by (cbn; discriminate).
  destruct (fold_right nest_step [[]] (enum_from 0 acts)) as [|t0 [|t1 rest]]; try discriminate.
  inversion Hn; subst t0.
  cbn [close_with a_stk a_defs].
  destruct (render_nodes (j_cfg j) b t ([], wrap_into_block j (RVar prev))) as [[ds s]| |]; cbn [rbind fst snd]; reflexivity.
Qed.

(* ... and a `<<<` without a matching `>>>` in its step is the only way to get there with more
   levels: the machine then stops with an internal error (this is defect F2 of the pinned tree;
   after the fix the parser rejects such input) *)
Theorem gen_branch_step_unbalanced j b prev acts :
  nest acts = None -> forall r, gen_branch_step j b prev acts <> Ok r.
Proof.
  unfold nest, nest_levels, gen_branch_step. intros Hn r.
  rewrite machine_close_with by (cbn; discriminate).
  pose proof (nest_fold_nonempty (enum_from 0 acts)) as Hne.
  destruct (fold_right nest_step [[]] (enum_from 0 acts)) as [|t0 [|t1 rest]]; try congruence.
  cbn [close_with a_stk a_defs].
  destruct (render_nodes (j_cfg j) b t0 ([], wrap_into_block j (RVar prev))) as [[ds s]| |]; cbn [rbind fst snd]; try discriminate.
Qed.
