(* Theorems about the thread machine of Threads.v - each one for EVERY world (`wstate`, `handle`
   are section variables that become universally quantified) and EVERY schedule (a list of thread
   indices of arbitrary length; every prefix of a schedule is a schedule, so "in every state
   reachable under every schedule" covers every prefix of every interleaving at event granularity).

   Contents
     0-1  lists, thread-local steps, the step relation, frame lemmas, the invariant rule
     2    (b) well-scoped code: no deadlock; termination (well-founded multiset order; explicit fuel)
     3-4  blocks (spawn all, join all in order) and THE block invariant:
          (a) barrier (state and trace form), (d) all children alive at once
     4b   (b) explicit fuel bound from a numeric measure
     5    algebra of blocks; the generated step shape of Spec.step_result is a block
     6    (c) panic propagation through `.join().unwrap()`
     7    the block of the task statement (`block names ts K`)
     8    (d) any finishing order; a step does not depend on the siblings' codes
     9    (e) thread names; one active branch stays on the caller
     10   (a) nesting: blocks inside children, descendants
     11   (f) schedule independence for per-name worlds - PARTIAL (one block, events-only children);
          nested blocks of any depth: proofs/ThreadsIndep.v
     Ex*  modules after the sections: examples (vm_compute) and instantiations - the hypotheses
          are satisfiable, the machine runs (a 3-child program under two schedules, ...)
   `Print Assumptions` follows each group of main theorems.  The only axiom that appears is
   functional_extensionality_dep (through CompLaws), and only in the three equational lemmas
   about `bind` (bind_gblock, std_spawn_join_is_ublock, tbnamed_std_thread_step).
   Nothing is assumed beyond that and nothing is left open.  See THREADS_NOTES.md. *)
From Coq Require Import ZArith Lia List Relations Wellfounded Permutation FunctionalExtensionality.
From Join Require Import Tok Names Comp Std Threads CompLaws NamesInj.

(* ================================================================== *)
(** * 0. Lists: [upd], [nth_error]                                      *)
(* ================================================================== *)

Lemma upd_length {A} (l : list A) i x : List.length (upd l i x) = List.length l.
Proof. revert i; induction l as [|y l IH]; intros [|i]; cbn; auto. Qed.

Lemma nth_error_upd_eq {A} (l : list A) i x :
  i < List.length l -> nth_error (upd l i x) i = Some x.
Proof.
  revert i; induction l as [|y l IH]; intros [|i] Hlt; cbn in *; try lia; auto.
  apply IH; lia.
Qed.

Lemma nth_error_upd_neq {A} (l : list A) i j x :
  i <> j -> nth_error (upd l i x) j = nth_error l j.
Proof.
  revert i j; induction l as [|y l IH]; intros [|i] [|j] Hne; cbn; auto; try congruence.
Qed.

Lemma upd_app_mid {A} (l1 l2 : list A) c x :
  upd (l1 ++ c :: l2) (List.length l1) x = l1 ++ x :: l2.
Proof. induction l1 as [|y l1 IH]; cbn; [reflexivity|now rewrite IH]. Qed.

Lemma nth_error_Some_lt {A} (l : list A) i x : nth_error l i = Some x -> i < List.length l.
Proof. intros H. apply nth_error_Some. congruence. Qed.

Lemma nth_error_app_new {A} (l : list A) x : nth_error (l ++ [x]) (List.length l) = Some x.
Proof. rewrite nth_error_app2 by lia. now rewrite Nat.sub_diag. Qed.

(* ================================================================== *)
(** * 1. Thread-local steps                                            *)
(* ================================================================== *)

(* induction over `comp val` (the generated principle quantifies over the result type) *)
Lemma comp_val_ind (P : comp val -> Prop) :
  (forall v, P (Ret v)) -> (forall n, P (Panic n)) ->
  (forall e k, (forall v, P (k v)) -> P (Vis e k)) ->
  (forall name t k, P t -> (forall h, P (k h)) -> P (Spawn name t k)) ->
  (forall h k, (forall r, P (k r)) -> P (Join h k)) ->
  forall c, P c.
Proof.
  intros HR HP HV HS HJ. fix IH 1. intros [v|n|e k|name t k|h k].
  - apply HR.
  - apply HP.
  - apply HV. intros v. apply IH.
  - apply HS; [apply IH|intros h; apply IH].
  - apply HJ. intros r. apply IH.
Qed.

(* what one machine step can turn the code of the running thread into *)
Inductive tstep : comp val -> comp val -> Prop :=
| ts_vis e k r : tstep (Vis e k) (vis_next k r)
| ts_spawn n t k h : tstep (Spawn n t k) (k h)
| ts_join h k r : tstep (Join h k) (k r).

(* [cdesc c d]: d is what is left of c after some steps of the thread that runs c *)
Inductive cdesc (c : comp val) : comp val -> Prop :=
| cd_refl : cdesc c c
| cd_step d d' : cdesc c d -> tstep d d' -> cdesc c d'.

Lemma tstep_unfinished c d : tstep c d -> outcome c = None.
Proof. now destruct 1. Qed.

Section Props.
  Variable wstate : Type.
  Variable handle : option string -> ev -> wstate -> option val * wstate.
  Notation state := (state wstate).
  Notation step_thr := (step_thr handle).
  Notation run_thr := (run_thr handle).
  Notation run_fuel := (run_fuel handle).
  Notation round := (round handle).
  Notation enabled := (enabled handle).

  Definition thr_of (s : state) (i : nat) : option thread := nth_error (pool s) i.
  Notation thr := thr_of.

  (* thread i exists and is finished with outcome r *)
  Definition fin (s : state) (i : nat) (r : option val) : Prop :=
    exists th, thr s i = Some th /\ outcome (th_code th) = Some r.

  Definition unfinished (s : state) (i : nat) : Prop :=
    exists th, thr s i = Some th /\ outcome (th_code th) = None.

  (* ---------------------------------------------------------------- *)
  (** ** The step function as a relation                               *)

  Inductive step_rel (i : nat) (s s' : state) : Prop :=
  | SR_vis th e k r w' :
      thr s i = Some th -> th_code th = Vis e k ->
      answer handle (th_name th) e (world s) = (r, w') ->
      s' = mkState (upd (pool s) i (set_code th (vis_next k r))) w' ((i, e) :: trace s) ->
      step_rel i s s'
  | SR_spawn th name t k :
      thr s i = Some th -> th_code th = Spawn name t k ->
      s' = mkState (upd (pool s) i (set_code th (k (List.length (pool s))))
                      ++ [mkThread (Some name) (Some i) t]) (world s) (trace s) ->
      step_rel i s s'
  | SR_join th h k th' r :
      thr s i = Some th -> th_code th = Join h k ->
      thr s h = Some th' -> outcome (th_code th') = Some r ->
      s' = mkState (upd (pool s) i (set_code th (k r))) (world s) (trace s) ->
      step_rel i s s'.

  Lemma step_thr_rel i s s' : step_thr i s = Some s' <-> step_rel i s s'.
  Proof.
    unfold Threads.step_thr. split.
    - destruct (nth_error (pool s) i) as [th|] eqn:Hth; [|discriminate].
      destruct (th_code th) as [v|n|e k|name t k|h k] eqn:Hc; try discriminate.
      + intros H; injection H as <-.
        destruct (answer handle (th_name th) e (world s)) as [r w'] eqn:Ha.
        eapply SR_vis; eauto.
      + intros H; injection H as <-. eapply SR_spawn; eauto.
      + destruct (nth_error (pool s) h) as [th'|] eqn:Hth'; [|discriminate].
        destruct (outcome (th_code th')) as [r|] eqn:Ho; [|discriminate].
        intros H; injection H as <-. eapply SR_join; eauto.
    - intros [th e k r w' Hth Hc Ha ->|th name t k Hth Hc ->|th h k th' r Hth Hc Hth' Ho ->];
        unfold thr_of in *; rewrite Hth, Hc.
      + now rewrite Ha.
      + reflexivity.
      + now rewrite Hth', Ho.
  Qed.

  (* ---------------------------------------------------------------- *)
  (** ** Frame properties of one step                                  *)

  Lemma step_length i s s' : step_rel i s s' -> List.length (pool s) <= List.length (pool s').
  Proof.
    intros [th e k r w' Hth Hc Ha ->|th name t k Hth Hc ->|th h k th' r Hth Hc Hth' Ho ->]; cbn;
      rewrite ?app_length, ?upd_length; cbn; lia.
  Qed.

  Lemma step_other i s s' j :
    step_rel i s s' -> j <> i -> j < List.length (pool s) -> thr s' j = thr s j.
  Proof.
    intros [th e k r w' Hth Hc Ha ->|th name t k Hth Hc ->|th h k th' r Hth Hc Hth' Ho ->] Hne Hlt;
      unfold thr_of; cbn; rewrite ?nth_error_app1 by (rewrite upd_length; lia);
      apply nth_error_upd_neq; congruence.
  Qed.

  Lemma step_self i s s' :
    step_rel i s s' ->
    exists th c', thr s i = Some th /\ thr s' i = Some (set_code th c') /\ tstep (th_code th) c'.
  Proof.
    intros [th e k r w' Hth Hc Ha ->|th name t k Hth Hc ->|th h k th' r Hth Hc Hth' Ho ->];
      pose proof (nth_error_Some_lt _ _ _ Hth) as Hlt;
      exists th; eexists; (split; [exact Hth|]); unfold thr_of; cbn;
      rewrite ?nth_error_app1 by (rewrite upd_length; lia);
      rewrite nth_error_upd_eq by exact Hlt; (split; [reflexivity|]); rewrite Hc; constructor.
  Qed.

  (* a thread that did not exist before the step was spawned by it *)
  Lemma step_new i s s' j th' :
    step_rel i s s' -> List.length (pool s) <= j -> thr s' j = Some th' ->
    j = List.length (pool s) /\ List.length (pool s') = S (List.length (pool s)) /\
    exists th name t k, thr s i = Some th /\ th_code th = Spawn name t k /\
                        th' = mkThread (Some name) (Some i) t.
  Proof.
    intros [th e k r w' Hth Hc Ha ->|th name t k Hth Hc ->|th h k th'' r Hth Hc Hth' Ho ->] Hge Hj;
      unfold thr_of in Hj; cbn in Hj.
    - apply nth_error_Some_lt in Hj. rewrite upd_length in Hj. lia.
    - assert (Hlt : j < List.length (upd (pool s) i (set_code th (k (List.length (pool s)))) ++
                                   [mkThread (Some name) (Some i) t]))
        by (eapply nth_error_Some_lt; eauto).
      rewrite app_length, upd_length in Hlt. cbn in Hlt.
      assert (j = List.length (pool s)) as -> by lia.
      split; [reflexivity|]. split; [cbn; rewrite app_length, upd_length; cbn; lia|].
      rewrite nth_error_app2 in Hj by (rewrite upd_length; lia).
      rewrite upd_length, Nat.sub_diag in Hj. cbn in Hj. injection Hj as <-.
      exists th, name, t, k. auto.
    - apply nth_error_Some_lt in Hj. rewrite upd_length in Hj. lia.
  Qed.

  Lemma step_trace i s s' :
    step_rel i s s' -> trace s' = trace s \/ exists e, trace s' = (i, e) :: trace s.
  Proof.
    intros [th e k r w' Hth Hc Ha ->|th name t k Hth Hc ->|th h k th' r Hth Hc Hth' Ho ->]; cbn; eauto.
  Qed.

  (* name and parent never change; only the running thread's code changes *)
  Lemma step_thr_stable i s s' x th :
    step_rel i s s' -> thr s x = Some th ->
    exists th', thr s' x = Some th' /\ th_name th' = th_name th /\ th_parent th' = th_parent th /\
                (x <> i -> th' = th) /\ (x = i -> tstep (th_code th) (th_code th')).
  Proof.
    intros Hst Hx. destruct (Nat.eq_dec x i) as [->|Hne].
    - destruct (step_self _ _ _ Hst) as (th0 & c' & H1 & H2 & H3).
      rewrite Hx in H1; injection H1 as <-.
      exists (set_code th c'). cbn. repeat split; auto. congruence.
    - exists th. rewrite (step_other _ _ _ _ Hst Hne (nth_error_Some_lt _ _ _ Hx)).
      repeat split; auto. congruence.
  Qed.

  Lemma step_unfinished i s s' : step_rel i s s' -> unfinished s i.
  Proof.
    intros Hst. destruct (step_self _ _ _ Hst) as (th & c' & H1 & _ & H3).
    exists th. split; [exact H1|]. eapply tstep_unfinished; eauto.
  Qed.

  Lemma fin_not_unfinished s i r : fin s i r -> unfinished s i -> False.
  Proof. intros (th & H1 & H2) (th' & H3 & H4). congruence. Qed.

  (* finished is forever *)
  Lemma step_fin_stable i s s' x r : step_rel i s s' -> fin s x r -> fin s' x r.
  Proof.
    intros Hst (th & Hx & Ho).
    destruct (step_thr_stable _ _ _ _ _ Hst Hx) as (th' & Hx' & _ & _ & Hne & Heq).
    destruct (Nat.eq_dec x i) as [->|Hn].
    - specialize (Heq eq_refl). apply tstep_unfinished in Heq. congruence.
    - rewrite (Hne Hn) in Hx'. exists th; auto.
  Qed.

  Lemma fin_inj s x r r' : fin s x r -> fin s x r' -> r = r'.
  Proof. intros (th & H1 & H2) (th' & H3 & H4). congruence. Qed.

  (* ---------------------------------------------------------------- *)
  (** ** Schedules; the invariant rule                                 *)

  Lemma run_thr_app a b s : run_thr (a ++ b) s = run_thr b (run_thr a s).
  Proof. revert s; induction a as [|i a IH]; intros s; cbn; auto. Qed.

  (* THE proof rule for "every prefix of every schedule": an invariant of single steps *)
  Lemma run_thr_invariant (P : state -> Prop) :
    (forall i s s', P s -> step_rel i s s' -> P s') ->
    forall sched s, P s -> P (run_thr sched s).
  Proof.
    intros Hstep sched. induction sched as [|i r IH]; intros s Hs; cbn; [exact Hs|].
    apply IH. unfold step_or_skip. destruct (step_thr i s) as [s'|] eqn:E; [|exact Hs].
    apply (Hstep i s s' Hs). now apply step_thr_rel.
  Qed.

  Definition sstep (s' s : state) : Prop := exists i, step_rel i s s'.

  Lemma run_thr_steps sched s : clos_refl_trans _ sstep (run_thr sched s) s.
  Proof.
    revert s; induction sched as [|i r IH]; intros s; cbn; [apply rt_refl|].
    unfold step_or_skip. destruct (step_thr i s) as [s'|] eqn:E; [|apply IH].
    eapply rt_trans; [apply IH|]. apply rt_step. exists i. now apply step_thr_rel.
  Qed.

  Lemma run_thr_fin_stable sched s x r : fin s x r -> fin (run_thr sched s) x r.
  Proof.
    revert s. apply (run_thr_invariant (fun s => fin s x r)).
    intros i s s' H Hst. eapply step_fin_stable; eauto.
  Qed.

  Lemma run_thr_length sched s : List.length (pool s) <= List.length (pool (run_thr sched s)).
  Proof.
    apply (run_thr_invariant (fun s' => List.length (pool s) <= List.length (pool s'))); [|lia].
    intros i s1 s2 H Hst. apply step_length in Hst. lia.
  Qed.

  (* the trace only grows, at its head *)
  Lemma run_thr_trace sched s : exists new, trace (run_thr sched s) = new ++ trace s.
  Proof.
    apply (run_thr_invariant (fun s' => exists new, trace s' = new ++ trace s)); [|now exists []].
    intros i s1 s2 [new H] Hst. destruct (step_trace _ _ _ Hst) as [E|[e E]]; rewrite E, H.
    - now exists new.
    - now exists ((i, e) :: new).
  Qed.

  (* ---------------------------------------------------------------- *)
  (** ** Computing single steps                                        *)

  Lemma enabled_iff i s : enabled i s = true <-> exists s', step_rel i s s'.
  Proof.
    unfold Threads.enabled. split.
    - destruct (step_thr i s) as [s'|] eqn:E; [|discriminate]. intros _. exists s'. now apply step_thr_rel.
    - intros [s' H]. apply step_thr_rel in H. now rewrite H.
  Qed.

  Lemma finished_iff s : finished s = true <-> forall i, ~ unfinished s i.
  Proof.
    unfold finished. rewrite forallb_forall. split.
    - intros H i (th & Hth & Ho). specialize (H th (nth_error_In _ _ Hth)).
      destruct (th_code th); cbn in *; congruence.
    - intros H th Hin. apply In_nth_error in Hin. destruct Hin as [i Hi].
      destruct (th_code th) eqn:E; cbn; auto; exfalso; apply (H i); exists th; rewrite E; auto.
  Qed.

  Lemma finished_false s : finished s = false -> exists i, unfinished s i.
  Proof.
    unfold finished. intros H.
    assert (Hex : existsb (fun th => negb (is_finished (th_code th))) (pool s) = true).
    { revert H. induction (pool s) as [|th l IH]; cbn; [discriminate|].
      destruct (is_finished (th_code th)); cbn; auto. }
    apply existsb_exists in Hex. destruct Hex as (th & Hin & Hn).
    apply In_nth_error in Hin. destruct Hin as [i Hi]. exists i, th. split; [exact Hi|].
    destruct (th_code th); cbn in *; congruence.
  Qed.
End Props.

(* ================================================================== *)
(** * 2. (b) Well-scoped computations, no deadlock, fair termination   *)
(* ================================================================== *)

(* [ws c H]: every `Join h` in c joins a handle in H or one obtained from a `Spawn`
   executed earlier by the same thread; a spawned thread starts with no handles. *)
Fixpoint ws (c : comp val) (H : list nat) : Prop :=
  match c with
  | Ret _ | Panic _ => True
  | Vis e k => forall v, ws (k v) H
  | Spawn n t k => ws t [] /\ forall h, ws (k h) (h :: H)
  | Join h k => In h H /\ forall r, ws (k r) H
  end.

Lemma ws_mono c : forall H H', incl H H' -> ws c H -> ws c H'.
Proof.
  induction c as [v|n|e k IH|name t k IHt IH|h k IH] using comp_val_ind; cbn; intros H H' Hi Hw; auto.
  - intros v. eapply IH; eauto.
  - destruct Hw as [Ht Hk]. split; [exact Ht|]. intros h. eapply IH; [|apply Hk].
    intros x [->|Hx]; [now left|right; auto].
  - destruct Hw as [Hin Hk]. split; [auto|]. intros r. eapply IH; eauto.
Qed.

(* the order that makes computation trees a termination measure:
   a continuation, the panic a `Vis` may turn into, or the body of a spawned thread *)
Inductive csub : comp val -> comp val -> Prop :=
| csub_step c d : tstep c d -> csub d c
| csub_child n t k : csub t (Spawn n t k).

Lemma csub_wf : well_founded csub.
Proof.
  assert (HP : forall n, Acc csub (Panic n)).
  { intros n. constructor. intros y Hy. inversion Hy as [c d Ht|]; subst. inversion Ht. }
  intros c. induction c as [v|n|e k IH|name t k IHt IH|h k IH] using comp_val_ind.
  - constructor. intros y Hy. inversion Hy as [c d Ht|]; subst. inversion Ht.
  - apply HP.
  - constructor. intros y Hy. inversion Hy as [c d Ht|]; subst. inversion Ht; subst.
    destruct r; cbn; auto.
  - constructor. intros y Hy. inversion Hy as [c d Ht|]; subst; [|exact IHt].
    inversion Ht; subst. apply IH.
  - constructor. intros y Hy. inversion Hy as [c d Ht|]; subst. inversion Ht; subst. apply IH.
Qed.

(* one element of a list is replaced by a smaller one, and smaller elements are appended:
   the multiset extension, in the positional form the machine produces *)
Inductive lstep : list (comp val) -> list (comp val) -> Prop :=
| lstep_intro l1 c l2 c' K :
    csub c' c -> Forall (fun d => csub d c) K -> lstep (l1 ++ c' :: l2 ++ K) (l1 ++ c :: l2).

Lemma app_cons_split {A} (l1 : list A) a l2 m1 c m2 :
  l1 ++ a :: l2 = m1 ++ c :: m2 ->
  (exists x, m1 = l1 ++ a :: x /\ l2 = x ++ c :: m2) \/
  (m1 = l1 /\ a = c /\ l2 = m2) \/
  (exists x, l1 = m1 ++ c :: x /\ m2 = x ++ a :: l2).
Proof.
  revert m1. induction l1 as [|y l1 IH]; intros [|z m1] H; cbn in *.
  - injection H as -> ->. right; left; auto.
  - injection H as -> ->. left. exists m1; auto.
  - injection H as -> <-. right; right. exists l1; auto.
  - injection H as -> H. destruct (IH _ H) as [[x [-> ->]]|[[-> [-> ->]]|[x [-> ->]]]].
    + left. exists x; auto.
    + right; left; auto.
    + right; right. exists x; auto.
Qed.

Lemma lstep_insert a :
  forall l, Acc lstep l -> forall l1 l2, l = l1 ++ l2 -> Acc lstep (l1 ++ a :: l2).
Proof.
  induction (csub_wf a) as [a _ IHa].
  intros l Hl. induction Hl as [l Hacc IHl]. intros l1 l2 ->.
  constructor. intros y Hy. inversion Hy as [m1 c m2 c' K Hc HK Ey Ex]; subst.
  symmetry in Ex. apply app_cons_split in Ex. destruct Ex as [[x [-> ->]]|[[-> [-> ->]]|[x [-> ->]]]].
  - (* the step is right of a *)
    replace ((l1 ++ a :: x) ++ c' :: m2 ++ K) with (l1 ++ a :: (x ++ c' :: m2 ++ K))
      by (now rewrite <- app_assoc).
    eapply IHl; [|reflexivity].
    replace (l1 ++ x ++ c' :: m2 ++ K) with ((l1 ++ x) ++ c' :: m2 ++ K) by (now rewrite <- app_assoc).
    replace (l1 ++ x ++ c :: m2) with ((l1 ++ x) ++ c :: m2) by (now rewrite <- app_assoc).
    now constructor.
  - (* the step is at a *)
    assert (Hbase : Acc lstep (l1 ++ c' :: m2)).
    { eapply IHa; [exact Hc| |reflexivity]. constructor. exact Hacc. }
    assert (Happ : forall K', Forall (fun d => csub d c) K' ->
                     forall M, Acc lstep M -> Acc lstep (M ++ K')).
    { induction K' as [|d K' IHK]; intros HK' M HM; [now rewrite app_nil_r|].
      inversion HK' as [|? ? Hd HK'']; subst.
      eapply (IHa d Hd); [apply (IHK HK'' M HM)|reflexivity]. }
    replace (l1 ++ c' :: m2 ++ K) with ((l1 ++ c' :: m2) ++ K) by (now rewrite <- app_assoc).
    apply Happ; assumption.
  - (* the step is left of a *)
    replace (m1 ++ c' :: (x ++ a :: l2) ++ K) with ((m1 ++ c' :: x) ++ a :: (l2 ++ K))
      by (now rewrite <- !app_assoc).
    eapply IHl; [|reflexivity].
    replace ((m1 ++ c' :: x) ++ l2 ++ K) with (m1 ++ c' :: (x ++ l2) ++ K) by (now rewrite <- !app_assoc).
    replace ((m1 ++ c :: x) ++ l2) with (m1 ++ c :: (x ++ l2)) by (now rewrite <- !app_assoc).
    now constructor.
Qed.

Lemma lstep_wf : well_founded lstep.
Proof.
  intros l. induction l as [|a l IH].
  - constructor. intros y Hy. inversion Hy as [m1 c m2 c' K Hc HK Ey Ex]. destruct m1; discriminate.
  - apply (lstep_insert a l IH [] l eq_refl).
Qed.

Section Progress.
  Variable wstate : Type.
  Variable handle : option string -> ev -> wstate -> option val * wstate.
  Notation state := (state wstate).
  Notation step_thr := (step_thr handle).
  Notation run_thr := (run_thr handle).
  Notation run_fuel := (run_fuel handle).
  Notation round := (round handle).
  Notation enabled := (enabled handle).
  Notation step_rel := (step_rel wstate handle).
  Notation sstep := (sstep wstate handle).

  (* every thread is well-scoped w.r.t. a set of handles that exist and are younger than itself *)
  Definition ws_state (s : state) : Prop :=
    forall i th, thr_of _ s i = Some th ->
      exists H, ws (th_code th) H /\ forall h, In h H -> i < h < List.length (pool s).

  Lemma ws_init name c w : ws c [] -> ws_state (init name c w).
  Proof.
    intros Hc [|i] th Hth; unfold thr_of in Hth; cbn in Hth.
    - injection Hth as <-. exists []. split; [exact Hc|]. intros h [].
    - destruct i; discriminate.
  Qed.

  Lemma ws_tstep_same c d H : tstep c d -> (forall n t k, c <> Spawn n t k) -> ws c H -> ws d H.
  Proof.
    intros Ht Hns Hw. destruct Ht as [e k r|n t k h|h k r]; cbn in *.
    - destruct r; cbn; auto.
    - exfalso. eapply Hns; eauto.
    - apply Hw.
  Qed.

  Lemma ws_step i s s' : ws_state s -> step_rel i s s' -> ws_state s'.
  Proof.
    intros Hws Hst x thx Hx.
    pose proof (step_length _ _ _ _ _ Hst) as Hlen.
    destruct (Nat.lt_ge_cases x (List.length (pool s))) as [Hlt|Hge].
    - destruct (Nat.eq_dec x i) as [->|Hne].
      + (* the running thread *)
        destruct Hst as [th e k r w' Hth Hc Ha ->|th name t k Hth Hc ->|th h k th' r Hth Hc Hth' Ho ->];
          destruct (Hws _ _ Hth) as (H & HwH & Hb); rewrite Hc in HwH; cbn in HwH;
          unfold thr_of in Hx; cbn in Hx, Hlen |- *;
          rewrite ?nth_error_app1 in Hx by (rewrite upd_length; lia);
          rewrite nth_error_upd_eq in Hx by lia; injection Hx as <-; cbn.
        * exists H. split; [destruct r; cbn; auto|]. rewrite upd_length. exact Hb.
        * exists (List.length (pool s) :: H). split; [apply HwH|].
          rewrite app_length, upd_length; cbn. intros h [<-|Hin]; [lia|]. specialize (Hb _ Hin). lia.
        * exists H. split; [apply HwH|]. rewrite upd_length. exact Hb.
      + rewrite (step_other _ _ _ _ _ _ Hst Hne Hlt) in Hx.
        destruct (Hws _ _ Hx) as (H & HwH & Hb). exists H. split; [exact HwH|].
        intros h Hin. specialize (Hb _ Hin). lia.
    - destruct (step_new _ _ _ _ _ _ _ Hst Hge Hx) as (-> & Hl & th & name & t & k & Hth & Hc & ->).
      destruct (Hws _ _ Hth) as (H & HwH & Hb). rewrite Hc in HwH. cbn in HwH.
      exists []. cbn. split; [apply HwH|]. intros h [].
  Qed.

  Lemma ws_reachable sched s : ws_state s -> ws_state (run_thr sched s).
  Proof. apply (run_thr_invariant _ handle ws_state). intros i s1 s2 H Hst. eapply ws_step; eauto. Qed.

  (* the greatest index below n that satisfies p *)
  Lemma greatest_below (p : nat -> bool) n :
    (exists i, i < n /\ p i = true) ->
    exists m, m < n /\ p m = true /\ forall j, m < j < n -> p j = false.
  Proof.
    induction n as [|n IH]; intros (i & Hi & Hp); [lia|].
    destruct (p n) eqn:En.
    - exists n. repeat split; auto. intros j Hj. lia.
    - destruct IH as (m & Hm & Hpm & Hmax).
      + exists i. split; [|exact Hp]. destruct (Nat.eq_dec i n) as [->|]; [congruence|lia].
      + exists m. repeat split; auto. intros j Hj.
        destruct (Nat.eq_dec j n) as [->|]; [exact En|]. apply Hmax. lia.
  Qed.

  Definition unfin_b (s : state) (i : nat) : bool :=
    match thr_of _ s i with Some th => negb (is_finished (th_code th)) | None => false end.

  Lemma unfin_b_true s i : unfin_b s i = true <-> unfinished _ s i.
  Proof.
    unfold unfin_b, unfinished. split.
    - destruct (thr_of _ s i) as [th|]; [|discriminate]. intros H. exists th. split; [reflexivity|].
      destruct (th_code th); cbn in *; congruence.
    - intros (th & -> & Ho). destruct (th_code th); cbn in *; congruence.
  Qed.

  (* NO DEADLOCK, one state: the youngest unfinished thread is enabled *)
  Lemma ws_progress s : ws_state s -> (exists i, unfinished _ s i) -> exists j, enabled j s = true.
  Proof.
    intros Hws (i & Hi).
    destruct (greatest_below (unfin_b s) (List.length (pool s))) as (m & Hm & Hpm & Hmax).
    { exists i. split; [|now apply unfin_b_true]. destruct Hi as (th & Hth & _).
      eapply nth_error_Some_lt; eauto. }
    exists m. apply unfin_b_true in Hpm. destruct Hpm as (th & Hth & Ho).
    destruct (Hws _ _ Hth) as (H & HwH & Hb).
    unfold Threads.enabled, Threads.step_thr. unfold thr_of in Hth. rewrite Hth.
    destruct (th_code th) as [v|n|e k|name t k|h k] eqn:Hc; cbn in Ho; try discriminate; auto.
    cbn in HwH. destruct HwH as [Hin _]. specialize (Hb _ Hin).
    specialize (Hmax h Hb). unfold unfin_b, thr_of in Hmax.
    destruct (nth_error (pool s) h) as [th'|] eqn:Hh.
    - destruct (th_code th'); cbn in *; congruence.
    - apply nth_error_None in Hh. lia.
  Qed.

  (* (b) NO DEADLOCK: in every state reachable from a well-scoped state, under every schedule,
     if some thread is unfinished then some thread is enabled. *)
  Theorem no_deadlock s0 :
    ws_state s0 ->
    forall sched, let s := run_thr sched s0 in
    (exists i, unfinished _ s i) -> exists j, enabled j s = true.
  Proof. intros Hws sched s. apply ws_progress. now apply ws_reachable. Qed.

  (* the caller in particular is never left blocked for good: whenever it waits in a `Join`
     (or is unfinished in any other way), the machine can move *)
  Corollary caller_never_stuck s0 c :
    ws_state s0 ->
    forall sched, let s := run_thr sched s0 in
    unfinished _ s c -> exists j, enabled j s = true.
  Proof. intros Hws sched s Hu. apply (no_deadlock s0 Hws sched). now exists c. Qed.

  (* ---------------------------------------------------------------- *)
  (** ** Termination: the pool of trees is a well-founded measure       *)

  Lemma step_lstep i s s' :
    step_rel i s s' -> lstep (map th_code (pool s')) (map th_code (pool s)).
  Proof.
    intros Hst.
    assert (Hsplit : forall th, thr_of _ s i = Some th ->
              exists l1 l2, pool s = l1 ++ th :: l2 /\ List.length l1 = i).
    { intros th Hth. apply nth_error_split in Hth. exact Hth. }
    destruct Hst as [th e k r w' Hth Hc Ha ->|th name t k Hth Hc ->|th h k th' r Hth Hc Hth' Ho ->];
      destruct (Hsplit _ Hth) as (l1 & l2 & Hp & Hl); rewrite Hp; subst i; cbn;
      rewrite upd_app_mid, ?map_app; cbn; rewrite ?map_app, Hc; cbn.
    - replace (map th_code l1 ++ vis_next k r :: map th_code l2)
        with (map th_code l1 ++ vis_next k r :: map th_code l2 ++ []) by (now rewrite app_nil_r).
      constructor; [|constructor]. constructor. constructor.
    - rewrite <- app_assoc. cbn. constructor; [constructor; constructor|].
      constructor; [|constructor]. apply csub_child.
    - replace (map th_code l1 ++ k r :: map th_code l2)
        with (map th_code l1 ++ k r :: map th_code l2 ++ []) by (now rewrite app_nil_r).
      constructor; [|constructor]. constructor. constructor.
  Qed.

  (* every state is strongly normalising: there is no infinite run, whatever the schedule *)
  Theorem sstep_wf : well_founded sstep.
  Proof.
    intros s.
    assert (H : Acc lstep (map th_code (pool s))) by apply lstep_wf.
    remember (map th_code (pool s)) as l eqn:El. revert s El.
    induction H as [l _ IH]. intros s ->. constructor. intros s' [i Hst].
    eapply IH; [|reflexivity]. eapply step_lstep; eauto.
  Qed.

  Lemma run_thr_progress sched s j :
    In j sched -> enabled j s = true -> clos_trans _ sstep (run_thr sched s) s.
  Proof.
    revert s. induction sched as [|i r IH]; intros s Hin He; [destruct Hin|]. cbn.
    unfold step_or_skip. destruct (step_thr i s) as [s1|] eqn:E.
    - apply step_thr_rel in E.
      pose proof (run_thr_steps _ handle r s1) as Hrt.
      apply clos_rt_rt1n in Hrt.
      induction Hrt as [|x y z Hxy Hrt IHr].
      + apply t_step. now exists i.
      + eapply t_trans; [apply t_step; exact Hxy|]. apply IHr. exact E.
    - destruct Hin as [->|Hin].
      + unfold Threads.enabled in He. rewrite E in He. discriminate.
      + apply IH; auto.
  Qed.

  (* the round-robin is one of the schedules the theorems quantify over *)
  Lemma run_fuel_is_a_schedule fuel : forall s, exists sched, run_fuel fuel s = run_thr sched s.
  Proof.
    induction fuel as [|f IH]; intros s; cbn; [now exists []|].
    destruct (finished s); [now exists []|].
    destruct (IH (round s)) as [sched Hs]. exists (seq 0 (List.length (pool s)) ++ sched).
    rewrite run_thr_app. exact Hs.
  Qed.

  (* (b) A FAIR SCHEDULE FINISHES: the round-robin, given enough fuel, ends with every thread
     finished - for every well-scoped state, every world, and ALL trees (they are well-founded:
     the measure is the pool of trees itself under the multiset order [lstep]). *)
  Theorem fair_schedule_finishes s0 :
    ws_state s0 -> exists fuel, finished (run_fuel fuel s0) = true.
  Proof.
    intros Hws.
    pose proof (Acc_clos_trans _ _ _ (sstep_wf s0)) as Hacc.
    induction Hacc as [s _ IH].
    destruct (finished s) eqn:Ef.
    - exists 0. exact Ef.
    - destruct (finished_false _ _ Ef) as [i Hi].
      destruct (ws_progress s Hws (ex_intro _ i Hi)) as [j Hj].
      assert (Hin : In j (seq 0 (List.length (pool s)))).
      { apply in_seq. apply enabled_iff in Hj. destruct Hj as [s' Hs'].
        apply step_unfinished in Hs'. destruct Hs' as (th & Hth & _).
        apply nth_error_Some_lt in Hth. lia. }
      pose proof (run_thr_progress _ s j Hin Hj) as Hlt.
      destruct (IH (round s) Hlt) as [fuel Hf].
      { apply ws_reachable; exact Hws. }
      exists (S fuel). cbn. rewrite Ef. exact Hf.
  Qed.
End Progress.

Print Assumptions no_deadlock.
Print Assumptions caller_never_stuck.
Print Assumptions sstep_wf.
Print Assumptions fair_schedule_finishes.

(* ================================================================== *)
(** * 3. Blocks: spawn all, then join all in order                     *)
(* ================================================================== *)

Lemma Forall2_impl' {A B} (R1 R2 : A -> B -> Prop) l1 l2 :
  (forall a b, R1 a b -> R2 a b) -> Forall2 R1 l1 l2 -> Forall2 R2 l1 l2.
Proof. intros H. induction 1; constructor; auto. Qed.

Lemma Forall2_len {A B} (R : A -> B -> Prop) l1 l2 : Forall2 R l1 l2 -> List.length l1 = List.length l2.
Proof. induction 1; cbn; auto. Qed.

Lemma Forall2_In_l {A B} (R : A -> B -> Prop) l1 l2 x :
  Forall2 R l1 l2 -> In x l1 -> exists y, In y l2 /\ R x y.
Proof.
  induction 1 as [|a b l1 l2 Hab HF IH]; intros Hin; [destruct Hin|].
  destruct Hin as [->|Hin]; [exists b; cbn; auto|].
  destruct (IH Hin) as (y & Hy & HR). exists y; cbn; auto.
Qed.

Lemma Forall2_snoc {A B} (R : A -> B -> Prop) l1 l2 x y :
  Forall2 R l1 l2 -> R x y -> Forall2 R (l1 ++ [x]) (l2 ++ [y]).
Proof. intros H1 H2. apply Forall2_app; auto. Qed.

Lemma NoDup_snoc {A} (l : list A) x : NoDup l -> ~ In x l -> NoDup (l ++ [x]).
Proof.
  induction 1 as [|y l Hy Hl IH]; intros Hx; cbn.
  - constructor; [intros []|constructor].
  - constructor.
    + rewrite in_app_iff. cbn. intros [H|[H|[]]]; [auto|subst; apply Hx; now left].
    + apply IH. intros H. apply Hx. now right.
Qed.

Section BlockDef.
  Context {B : Type}.
  (* what the caller does with the outcome of one join, before the next join:
     inl b = go on with b, inr n = panic with code n.  (`.join()` alone: inl;  `.join().unwrap()`:
     None |-> inr P_UNWRAP.)  It is pure: no events, no spawns, no joins. *)
  Variable post : option val -> B + N.

  Fixpoint join_all_acc (hs : list nat) (acc : list B) (K : list B -> comp val) : comp val :=
    match hs with
    | [] => K (rev acc)
    | h :: r => Join h (fun x => match post x with
                                 | inl b => join_all_acc r (b :: acc) K
                                 | inr n => Panic n
                                 end)
    end.

  Fixpoint spawn_all_acc (nts : list (string * comp val)) (acc : list nat) (k : list nat -> comp val)
    : comp val :=
    match nts with
    | [] => k (rev acc)
    | nt :: r => Spawn (fst nt) (snd nt) (fun h => spawn_all_acc r (h :: acc) k)
    end.

  (* spawn t_1 .. t_n under the given names, in order; join the n handles in order
     (each outcome goes through [post]); continue with K [b_1 .. b_n] *)
  Definition gblock (nts : list (string * comp val)) (K : list B -> comp val) : comp val :=
    spawn_all_acc nts [] (fun hs => join_all_acc hs [] K).
End BlockDef.

(* the block of the task statement: K receives the raw outcomes r_i : option val *)
Definition block (names : list string) (ts : list (comp val)) (K : list (option val) -> comp val)
  : comp val := gblock (@inl (option val) N) (combine names ts) K.

(* the post-processing of the generated `.join().unwrap()` *)
Definition unwrap_post (r : option val) : val + N :=
  match r with Some v => inl v | None => inr P_UNWRAP end.
Definition ublock (names : list string) (ts : list (comp val)) (K : list val -> comp val) : comp val :=
  gblock unwrap_post (combine names ts) K.

Example block_shape_2 n1 n2 t1 t2 K :
  block [n1; n2] [t1; t2] K =
  Spawn n1 t1 (fun h1 => Spawn n2 t2 (fun h2 =>
    Join h1 (fun r1 => Join h2 (fun r2 => K [r1; r2])))).
Proof. reflexivity. Qed.

Example ublock_shape_2 n1 n2 t1 t2 K :
  ublock [n1; n2] [t1; t2] K =
  Spawn n1 t1 (fun h1 => Spawn n2 t2 (fun h2 =>
    Join h1 (fun r1 => match unwrap_post r1 with
                       | inl v1 => Join h2 (fun r2 => match unwrap_post r2 with
                                                      | inl v2 => K [v1; v2]
                                                      | inr n => Panic n end)
                       | inr n => Panic n end))).
Proof. reflexivity. Qed.

(* ================================================================== *)
(** * 4. The block invariant (a: barrier, c: panic propagation, d: all alive at once) *)
(* ================================================================== *)

Section BlockInv.
  Variable wstate : Type.
  Variable handle : option string -> ev -> wstate -> option val * wstate.
  Notation state := (state wstate).
  Notation step_thr := (step_thr handle).
  Notation run_thr := (run_thr handle).
  Notation step_rel := (step_rel wstate handle).
  Notation thr := (thr_of wstate).
  Notation fin := (fin wstate).
  Notation unfinished := (unfinished wstate).

  Context {B : Type}.
  Variable post : option val -> B + N.
  Variable nts : list (string * comp val).       (* names and bodies of the children *)
  Variable K : list B -> comp val.               (* what follows the block *)
  Variable s0 : state.                           (* the state in which the caller is about to run the block *)
  Variable c : nat.                              (* the caller: ANY thread of the pool *)

  (* the i-th child so far is thread h_i: it carries the i-th name, was spawned by c,
     and did not exist in s0; the h_i are pairwise distinct *)
  Definition kids (s : state) (hs : list nat) (nts' : list (string * comp val)) : Prop :=
    Forall2 (fun h nt => exists th, thr s h = Some th /\ th_name th = Some (fst nt) /\
                                    th_parent th = Some c) hs nts' /\
    NoDup hs /\ (forall h, In h hs -> List.length (pool s0) <= h).

  (* threads hs are finished, and [post] turned their outcomes into bs *)
  Definition joined (s : state) (hs : list nat) (bs : list B) : Prop :=
    Forall2 (fun h b => exists r, fin s h r /\ post r = inl b) hs bs.

  (* the caller has made no trace entry since s0 *)
  Definition quiet (s : state) : Prop :=
    exists tnew, trace s = tnew ++ trace s0 /\ forall x, In x tnew -> fst x <> c.

  Definition ccode (s : state) (d : comp val) : Prop :=
    exists th, thr s c = Some th /\ th_code th = d.

  (* the caller is still spawning: the children hs exist, nt is next; the caller has been silent *)
  Definition spawning (s : state) (hs : list nat) : Prop :=
    exists ntsd nt todo,
      nts = ntsd ++ nt :: todo /\ kids s hs ntsd /\
      List.length (pool s0) <= List.length (pool s) /\
      ccode s (spawn_all_acc (nt :: todo) (rev hs) (fun hs' => join_all_acc post hs' [] K)) /\
      quiet s.

  (* ALL n children exist (n distinct threads, names as given, spawned by c) and the caller has not
     joined any of them yet *)
  Definition all_alive (s : state) (hs : list nat) : Prop :=
    kids s hs nts /\ ccode s (join_all_acc post hs [] K) /\ quiet s.

  (* Where the caller is; hs = the children spawned so far.  The cases are exhaustive:
     theorem [spawn_all_join_all] below says one of them holds in EVERY reachable state. *)
  Inductive block_inv (s : state) (hs : list nat) : Prop :=
  | BI_spawning : spawning s hs -> block_inv s hs
  | BI_joining done bs h todo :
      (* all n children exist; those in [done] are finished and joined; the caller waits for h *)
      kids s hs nts -> hs = done ++ h :: todo -> joined s done bs ->
      ccode s (join_all_acc post (h :: todo) (rev bs) K) ->
      quiet s -> block_inv s hs
  | BI_past bs th tpost tpre :
      (* the caller is past the block: ALL n children are finished; what the caller runs is what is
         left of K [b_1..b_n]; the trace splits into what happened before the caller left the block
         (no entry of the caller) and after it (no entry of a child) *)
      kids s hs nts -> joined s hs bs ->
      thr s c = Some th -> cdesc (K bs) (th_code th) ->
      trace s = tpost ++ tpre ++ trace s0 ->
      (forall x, In x tpre -> fst x <> c) ->
      (forall x, In x tpost -> ~ In (fst x) hs) ->
      block_inv s hs
  | BI_failed done bs h todo r n :
      (* a join delivered an outcome that [post] turns into a panic: the caller is finished with
         that panic, was silent, and never looked at the children after h *)
      kids s hs nts -> hs = done ++ h :: todo -> joined s done bs ->
      fin s h r -> post r = inr n -> ccode s (Panic n) ->
      quiet s -> block_inv s hs.

  (* ---------------- stability of the ingredients ------------------- *)

  Lemma kids_stable i s s' hs nts' : step_rel i s s' -> kids s hs nts' -> kids s' hs nts'.
  Proof.
    intros Hst (HF & Hnd & Hge). split; [|split; auto].
    eapply Forall2_impl'; [|exact HF]. cbn. intros h nt (th & Hth & Hn & Hp).
    destruct (step_thr_stable _ _ _ _ _ _ _ Hst Hth) as (th' & Hth' & Hn' & Hp' & _).
    exists th'. rewrite Hn', Hp'. auto.
  Qed.

  Lemma joined_stable i s s' hs bs : step_rel i s s' -> joined s hs bs -> joined s' hs bs.
  Proof.
    intros Hst HF. eapply Forall2_impl'; [|exact HF]. cbn. intros h b (r & Hf & Hp).
    exists r. split; [|exact Hp]. eapply step_fin_stable; eauto.
  Qed.

  Lemma ccode_stable i s s' d : step_rel i s s' -> i <> c -> ccode s d -> ccode s' d.
  Proof.
    intros Hst Hne (th & Hth & Hc).
    destruct (step_thr_stable _ _ _ _ _ _ _ Hst Hth) as (th' & Hth' & _ & _ & Hsame & _).
    rewrite (Hsame (not_eq_sym Hne)) in Hth'. exists th; auto.
  Qed.

  Lemma quiet_stable i s s' : step_rel i s s' -> i <> c -> quiet s -> quiet s'.
  Proof.
    intros Hst Hne (tnew & Ht & Hq). destruct (step_trace _ _ _ _ _ Hst) as [E|[e E]]; unfold quiet; rewrite E, Ht.
    - exists tnew; auto.
    - exists ((i, e) :: tnew). split; [reflexivity|]. intros x [<-|Hin]; cbn; auto.
  Qed.

  Lemma quiet_same s s' : trace s' = trace s -> quiet s -> quiet s'.
  Proof. intros E (tnew & Ht & Hq). exists tnew. rewrite E; auto. Qed.

  Lemma kids_lt s hs nts' h : kids s hs nts' -> In h hs -> h < List.length (pool s).
  Proof.
    intros (HF & _) Hin. destruct (Forall2_In_l _ _ _ _ HF Hin) as (nt & _ & th & Hth & _).
    eapply nth_error_Some_lt; eauto.
  Qed.

  Lemma joined_fin s hs bs h : joined s hs bs -> In h hs -> exists r b, fin s h r /\ post r = inl b.
  Proof.
    intros HF Hin. destruct (Forall2_In_l _ _ _ _ HF Hin) as (b & _ & r & Hf & Hp). eauto.
  Qed.

  Lemma all_alive_inv s hs : all_alive s hs -> block_inv s hs.
  Proof.
    intros (Hk & Hcode & Hq). destruct hs as [|h todo].
    - destruct Hcode as (th & Hth & Hcode). destruct Hq as (tnew & Htr & Hqn).
      apply (BI_past s [] [] th [] tnew); auto.
      + constructor.
      + cbn in Hcode. rewrite Hcode. constructor.
    - apply (BI_joining s (h :: todo) [] [] h todo); auto. constructor.
  Qed.

  (* ---------------- one step ------------------- *)

  Lemma spawning_step i s s' hs :
    spawning s hs -> step_rel i s s' ->
    exists ext, spawning s' (hs ++ ext) \/ all_alive s' (hs ++ ext).
  Proof.
    intros (ntsd & nt & todo & Hnts & Hk & Hlen & Hcode & Hq) Hst.
    pose proof (step_length _ _ _ _ _ Hst) as Hlen'.
    destruct (Nat.eq_dec i c) as [->|Hne].
    2:{ exists []. rewrite app_nil_r. left. exists ntsd, nt, todo.
        split; [|split; [|split; [|split]]]; eauto using kids_stable, ccode_stable, quiet_stable; lia. }
    pose proof (kids_stable _ _ _ _ _ Hst Hk) as Hk'.
    destruct Hcode as (th & Hth & Hcode). cbn in Hcode.
    destruct Hst as [th1 e k r w' Hth1 Hc1 Ha ->|th1 name t k Hth1 Hc1 ->|th1 h k th' r Hth1 Hc1 Hth' Ho ->];
      rewrite Hth in Hth1; injection Hth1 as <-; rewrite Hcode in Hc1; try discriminate.
    injection Hc1 as <- <- <-.
    set (L := List.length (pool s)) in *.
    set (s' := mkState _ _ _) in *.
    assert (Hcl : c < L) by (eapply nth_error_Some_lt; eauto).
    assert (HL : thr s' L = Some (mkThread (Some (fst nt)) (Some c) (snd nt))).
    { unfold thr_of, s'; cbn. rewrite nth_error_app2 by (rewrite upd_length; fold L; lia).
      rewrite upd_length. fold L. now rewrite Nat.sub_diag. }
    assert (Hc' : ccode s' (spawn_all_acc todo (rev (hs ++ [L])) (fun hs' => join_all_acc post hs' [] K))).
    { exists (set_code th (spawn_all_acc todo (L :: rev hs) (fun hs' => join_all_acc post hs' [] K))).
      split; [|cbn; now rewrite rev_unit].
      unfold thr_of, s'; cbn. rewrite nth_error_app1 by (rewrite upd_length; exact Hcl).
      apply nth_error_upd_eq. exact Hcl. }
    assert (Hk2 : kids s' (hs ++ [L]) (ntsd ++ [nt])).
    { destruct Hk' as (HF & Hnd & Hge). split; [|split].
      - apply Forall2_snoc; [exact HF|]. eexists; split; [exact HL|]. cbn; auto.
      - apply NoDup_snoc; [exact Hnd|]. intros Hin.
        pose proof (kids_lt _ _ _ _ Hk Hin). unfold L in *; lia.
      - intros h Hin. apply in_app_iff in Hin. destruct Hin as [Hin|[<-|[]]]; [auto|exact Hlen]. }
    assert (Hq' : quiet s') by (apply (quiet_same s); [reflexivity|exact Hq]).
    exists [L]. destruct todo as [|nt' todo'].
    - (* that was the last spawn *)
      right. cbn in Hc'. rewrite rev_involutive in Hc'. split; [|split]; auto.
      rewrite Hnts. exact Hk2.
    - left. exists (ntsd ++ [nt]), nt', todo'.
      split; [|split; [|split; [|split]]]; auto; try lia.
      rewrite Hnts, <- app_assoc. reflexivity.
  Qed.

  Lemma block_inv_step i s s' hs :
    block_inv s hs -> step_rel i s s' -> exists ext, block_inv s' (hs ++ ext).
  Proof.
    intros Hinv Hst.
    destruct Hinv as [Hsp
                     |done bs h todo Hk Hhs Hj Hcode Hq
                     |bs th tpost tpre Hk Hj Hth Hcd Htr Hpre Hpost
                     |done bs h todo r n Hk Hhs Hj Hf Hp Hcode Hq].
    - (* spawning *)
      destruct (spawning_step _ _ _ _ Hsp Hst) as [ext [H|H]]; exists ext.
      + now apply BI_spawning.
      + now apply all_alive_inv.
    - (* joining *)
      exists []. rewrite app_nil_r.
      destruct (Nat.eq_dec i c) as [->|Hne].
      2:{ eapply BI_joining; eauto using kids_stable, joined_stable, ccode_stable, quiet_stable. }
      pose proof (kids_stable _ _ _ _ _ Hst Hk) as Hk'.
      pose proof (joined_stable _ _ _ _ _ Hst Hj) as Hj'.
      destruct Hcode as (th & Hth & Hcode). cbn in Hcode.
      assert (Hfs : forall r, fin s h r -> fin s' h r) by (intros r0; eapply step_fin_stable; eauto).
      destruct Hst as [th1 e k r w' Hth1 Hc1 Ha ->|th1 name t k Hth1 Hc1 ->|th1 h1 k th' r Hth1 Hc1 Hth' Ho ->];
        rewrite Hth in Hth1; injection Hth1 as <-; rewrite Hcode in Hc1; try discriminate.
      injection Hc1 as <- <-.
      set (s' := mkState _ _ _) in *.
      assert (Hcl : c < List.length (pool s)) by (eapply nth_error_Some_lt; eauto).
      assert (Hfin : fin s' h r) by (apply Hfs; exists th'; auto).
      assert (Hq' : quiet s') by (apply (quiet_same s); [reflexivity|exact Hq]).
      assert (Hthc : forall d, d = match post r with
                                   | inl b => join_all_acc post todo (b :: rev bs) K
                                   | inr n => Panic n end ->
                     thr s' c = Some (set_code th d)).
      { intros d ->. unfold thr_of, s'; cbn. apply nth_error_upd_eq. exact Hcl. }
      destruct (post r) as [b|n] eqn:Epost.
      * assert (Hj2 : joined s' (done ++ [h]) (bs ++ [b])).
        { apply Forall2_snoc; [exact Hj'|]. exists r; auto. }
        destruct todo as [|h' todo'].
        -- (* that was the last join: the caller leaves the block *)
           destruct Hq' as (tnew & Htr & Hqn).
           apply (BI_past s' hs (bs ++ [b]) (set_code th (K (bs ++ [b]))) [] tnew); auto.
           ++ rewrite Hhs. exact Hj2.
           ++ apply Hthc. cbn. now rewrite rev_involutive.
           ++ cbn. constructor.
        -- apply (BI_joining s' hs (done ++ [h]) (bs ++ [b]) h' todo'); auto.
           ++ rewrite Hhs, <- app_assoc. reflexivity.
           ++ eexists; split; [apply Hthc; reflexivity|]. cbn. now rewrite rev_unit.
      * apply (BI_failed s' hs done bs h todo r n); auto.
        eexists; split; [apply Hthc; reflexivity|]. reflexivity.
    - (* past *)
      exists []. rewrite app_nil_r.
      pose proof (kids_stable _ _ _ _ _ Hst Hk) as Hk'.
      pose proof (joined_stable _ _ _ _ _ Hst Hj) as Hj'.
      destruct (step_thr_stable _ _ _ _ _ _ _ Hst Hth) as (th' & Hth' & _ & _ & Hsame & Hrun).
      assert (Hcd' : cdesc (K bs) (th_code th')).
      { destruct (Nat.eq_dec c i) as [E|E]; [|now rewrite (Hsame E)].
        eapply cd_step; [exact Hcd|]. apply Hrun. exact E. }
      assert (Hnot : ~ In i hs).
      { intros Hin. destruct (joined_fin _ _ _ _ Hj Hin) as (r & b & Hr & _).
        eapply fin_not_unfinished; [exact Hr|]. eapply step_unfinished; eauto. }
      destruct (step_trace _ _ _ _ _ Hst) as [E|[e E]].
      + apply (BI_past s' hs bs th' tpost tpre); auto. now rewrite E.
      + apply (BI_past s' hs bs th' ((i, e) :: tpost) tpre); auto.
        * rewrite E, Htr. reflexivity.
        * intros x [<-|Hin]; cbn; auto.
    - (* failed *)
      exists []. rewrite app_nil_r.
      destruct (Nat.eq_dec i c) as [->|Hne].
      + exfalso. destruct Hcode as (th & Hth & Hcode).
        destruct (step_unfinished _ _ _ _ _ Hst) as (th1 & Hth1 & Ho).
        rewrite Hth in Hth1; injection Hth1 as <-. rewrite Hcode in Ho. discriminate.
      + eapply BI_failed; eauto using kids_stable, joined_stable, ccode_stable, quiet_stable, step_fin_stable.
  Qed.

  (* from ANY state that satisfies the invariant, under every schedule; the list of children only grows *)
  Lemma block_inv_run sched : forall s hs,
    block_inv s hs -> exists ext, block_inv (run_thr sched s) (hs ++ ext).
  Proof.
    induction sched as [|i r IH]; intros s hs Hinv; cbn.
    - exists []. now rewrite app_nil_r.
    - unfold step_or_skip. destruct (step_thr i s) as [s'|] eqn:E; [|now apply IH].
      apply step_thr_rel in E. destruct (block_inv_step _ _ _ _ Hinv E) as [ext1 H1].
      destruct (IH _ _ H1) as [ext2 H2]. exists (ext1 ++ ext2). now rewrite app_assoc.
  Qed.

  (* ---------------- the block, from its beginning ------------------- *)

  Hypothesis Hc0 : ccode s0 (gblock post nts K).

  Lemma block_start : spawning s0 [] \/ all_alive s0 [].
  Proof.
    assert (Hk : forall l, l = [] -> kids s0 [] l).
    { intros l ->. split; [constructor|]. split; [constructor|]. intros h []. }
    assert (Hq : quiet s0) by (exists []; split; [reflexivity|intros x []]).
    unfold gblock in Hc0. destruct nts as [|nt todo] eqn:En.
    - right. split; [|split]; auto.
    - left. exists [], nt, todo. split; [|split; [|split; [|split]]]; auto.
  Qed.

  Lemma block_inv_init : block_inv s0 [].
  Proof. destruct block_start as [H|H]; [now apply BI_spawning|now apply all_alive_inv]. Qed.

  (* (a) THE BARRIER, state form (C03/C08 `spawn_all_join_all`): under EVERY schedule, in every
     reachable state, the caller is spawning, or joining, or has failed in a join, or - only with
     ALL n children finished - is past the block. *)
  Theorem spawn_all_join_all sched : exists hs, block_inv (run_thr sched s0) hs.
  Proof. destruct (block_inv_run sched _ _ block_inv_init) as [ext H]. now exists ([] ++ ext). Qed.

  (* ---------------- (a) readings of the invariant ------------------- *)

  Lemma kids_length s hs nts' : kids s hs nts' -> List.length hs = List.length nts'.
  Proof. intros (HF & _). eapply Forall2_len; eauto. Qed.

  Lemma quiet_no_entry s tnew x :
    quiet s -> trace s = tnew ++ trace s0 -> In x tnew -> fst x <> c.
  Proof.
    intros (tnew' & Ht & Hq) Ht' Hin. rewrite Ht in Ht'. apply app_inv_tail in Ht'. subst. auto.
  Qed.

  Lemma spawning_quiet s hs : spawning s hs -> quiet s.
  Proof. intros (? & ? & ? & _ & _ & _ & _ & Hq). exact Hq. Qed.

  (* (a) the caller makes an event (it "executes a part of K": the block itself is silent)
     only if all n children are finished *)
  Theorem barrier_events sched :
    let s := run_thr sched s0 in
    forall tnew x, trace s = tnew ++ trace s0 -> In x tnew -> fst x = c ->
    exists hs bs, kids s hs nts /\ joined s hs bs.
  Proof.
    intros s tnew x Htr Hin Hx. destruct (spawn_all_join_all sched) as [hs Hinv]. fold s in Hinv.
    destruct Hinv as [Hsp
                     |done bs h todo Hk Hhs Hj Hcode Hq
                     |bs th tpost tpre Hk Hj Hth Hcd Htr' Hpre Hpost
                     |done bs h todo r n Hk Hhs Hj Hf Hp Hcode Hq].
    - exfalso. eapply quiet_no_entry; eauto using spawning_quiet.
    - exfalso. eapply quiet_no_entry; eauto.
    - exists hs, bs. auto.
    - exfalso. eapply quiet_no_entry; eauto.
  Qed.

  (* (a) the caller is finished only if all n children are finished, or a join failed *)
  Theorem barrier_finished sched :
    let s := run_thr sched s0 in
    forall r, fin s c r ->
    exists hs, (exists bs, kids s hs nts /\ joined s hs bs) \/
               (exists done h todo r' n, hs = done ++ h :: todo /\ kids s hs nts /\
                                         fin s h r' /\ post r' = inr n /\ r = None).
  Proof.
    intros s r Hfin. destruct (spawn_all_join_all sched) as [hs Hinv]. fold s in Hinv. exists hs.
    destruct Hfin as (thc & Hthc & Hout).
    destruct Hinv as [Hsp
                     |done bs h todo Hk Hhs Hj Hcode Hq
                     |bs th tpost tpre Hk Hj Hth Hcd Htr' Hpre Hpost
                     |done bs h todo r' n Hk Hhs Hj Hf Hp Hcode Hq].
    - exfalso. destruct Hsp as (? & ? & ? & _ & _ & _ & (th & Hth & Hcode) & _).
      rewrite Hthc in Hth; injection Hth as <-. rewrite Hcode in Hout. discriminate.
    - exfalso. destruct Hcode as (th & Hth & Hcode).
      rewrite Hthc in Hth; injection Hth as <-. rewrite Hcode in Hout. discriminate.
    - left. eauto.
    - right. destruct Hcode as (th & Hth & Hcode).
      rewrite Hthc in Hth; injection Hth as <-. rewrite Hcode in Hout. cbn in Hout. injection Hout as <-.
      exists done, h, todo, r', n. auto.
  Qed.

  (* (a) THE BARRIER, trace form.  The trace is most recent first.  In every reachable state the
     new part of the trace splits into an older part [tpre] without any entry of the caller and a
     more recent part [tpost] without any entry of a child: every entry made by a child precedes
     every entry the caller makes after s0 (= after the block, which is silent). *)
  Theorem barrier_trace sched :
    let s := run_thr sched s0 in
    exists hs tpost tpre,
      kids s hs (firstn (List.length hs) nts) /\
      trace s = tpost ++ tpre ++ trace s0 /\
      (forall x, In x tpre -> fst x <> c) /\
      (forall x, In x tpost -> ~ In (fst x) hs).
  Proof.
    intros s. destruct (spawn_all_join_all sched) as [hs Hinv]. fold s in Hinv. exists hs.
    assert (Hfull : forall l, kids s l nts -> kids s l (firstn (List.length l) nts)).
    { intros l Hk. rewrite (kids_length _ _ _ Hk), firstn_all. exact Hk. }
    assert (Hquiet : quiet s -> exists tpost tpre, trace s = tpost ++ tpre ++ trace s0 /\
                       (forall x, In x tpre -> fst x <> c) /\ (forall x, In x tpost -> ~ In (fst x) hs)).
    { intros (tnew & Ht & Hq). exists [], tnew. split; [exact Ht|]. split; [exact Hq|]. intros x []. }
    destruct Hinv as [Hsp
                     |done bs h todo Hk Hhs Hj Hcode Hq
                     |bs th tpost tpre Hk Hj Hth Hcd Htr' Hpre Hpost
                     |done bs h todo r' n Hk Hhs Hj Hf Hp Hcode Hq].
    - destruct (Hquiet (spawning_quiet _ _ Hsp)) as (tpost & tpre & H).
      exists tpost, tpre. split; [|exact H].
      destruct Hsp as (ntsd & nt & todo & Hnts & Hk & _).
      rewrite (kids_length _ _ _ Hk), Hnts, firstn_app, firstn_all, Nat.sub_diag. cbn.
      now rewrite app_nil_r.
    - destruct (Hquiet Hq) as (tpost & tpre & H). exists tpost, tpre. auto.
    - exists tpost, tpre. auto.
    - destruct (Hquiet Hq) as (tpost & tpre & H). exists tpost, tpre. auto.
  Qed.

  (* the same by positions in the trace (position 0 = the most recent entry): an entry of the
     caller made after s0 is more recent than any entry of any child *)
  Corollary barrier_trace_positions sched :
    let s := run_thr sched s0 in
    exists hs, kids s hs (firstn (List.length hs) nts) /\
    forall i j x y,
      nth_error (trace s) i = Some x -> fst x = c ->
      i < List.length (trace s) - List.length (trace s0) ->
      nth_error (trace s) j = Some y -> In (fst y) hs ->
      i < j.
  Proof.
    intros s. destruct (barrier_trace sched) as (hs & tpost & tpre & Hk & Htr & Hpre & Hpost).
    fold s in Hk, Htr. exists hs. split; [exact Hk|].
    intros i j x y Hi Hx Hnew Hj Hy. rewrite Htr in Hi, Hj, Hnew.
    rewrite !app_length in Hnew.
    destruct (Nat.lt_ge_cases i (List.length tpost)) as [Hlt|Hge].
    - destruct (Nat.lt_ge_cases j (List.length tpost)) as [Hjlt|Hjge]; [|lia].
      exfalso. rewrite nth_error_app1 in Hj by exact Hjlt.
      apply nth_error_In in Hj. exact (Hpost _ Hj Hy).
    - exfalso. rewrite nth_error_app2 in Hi by exact Hge.
      rewrite nth_error_app1 in Hi by lia. apply nth_error_In in Hi. exact (Hpre _ Hi Hx).
  Qed.

  (* ---------------- (d) all alive at once ------------------- *)

  Lemma block_inv_length s hs : block_inv s hs -> List.length hs <= List.length nts.
  Proof.
    intros [Hsp|done bs h todo Hk _ _ _ _|bs th tpost tpre Hk _ _ _ _ _ _|done bs h todo r n Hk _ _ _ _ _ _];
      try (rewrite (kids_length _ _ _ Hk); lia).
    destruct Hsp as (ntsd & nt & todo & Hnts & Hk & _).
    rewrite (kids_length _ _ _ Hk), Hnts, app_length. lia.
  Qed.

  (* (d) EVERY schedule that takes the caller beyond its last spawn passes through a state in which
     all n children exist at once - n distinct threads with the given names - while the caller has
     not yet joined (waited for) any of them. *)
  Theorem all_alive_at_once sched :
    (exists hs, spawning (run_thr sched s0) hs) \/
    (exists sched1 sched2 hs, sched = sched1 ++ sched2 /\ all_alive (run_thr sched1 s0) hs).
  Proof.
    induction sched as [|i sched IH] using rev_ind.
    - cbn. destruct block_start as [H|H]; [left; eauto|right]. exists [], [], []. auto.
    - destruct IH as [[hs Hsp]|(sched1 & sched2 & hs & -> & Hal)].
      + rewrite run_thr_app. cbn. unfold step_or_skip.
        destruct (step_thr i (run_thr sched s0)) as [s'|] eqn:E; [|left; eauto].
        apply step_thr_rel in E. destruct (spawning_step _ _ _ _ Hsp E) as [ext [H|H]]; [left; eauto|].
        right. exists (sched ++ [i]), [], (hs ++ ext). rewrite app_nil_r. split; [reflexivity|].
        rewrite run_thr_app. cbn. unfold step_or_skip. apply step_thr_rel in E. now rewrite E.
      + right. exists sched1, (sched2 ++ [i]), hs. split; [now rewrite app_assoc|exact Hal].
  Qed.

  (* ... and these children are the ones every later state knows: the list of children of a later
     state extends the one of an earlier state *)
  Theorem children_persist sched1 sched2 hs1 :
    block_inv (run_thr sched1 s0) hs1 ->
    exists ext, block_inv (run_thr (sched1 ++ sched2) s0) (hs1 ++ ext).
  Proof. intros H. rewrite run_thr_app. now apply block_inv_run. Qed.
End BlockInv.

Print Assumptions spawn_all_join_all.
Print Assumptions barrier_events.
Print Assumptions barrier_finished.
Print Assumptions barrier_trace.
Print Assumptions barrier_trace_positions.
Print Assumptions all_alive_at_once.
Print Assumptions children_persist.

(* ================================================================== *)
(** * 4b. (b) continued: an explicit fuel bound from a numeric measure   *)
(* ================================================================== *)

(* [size_le c n]: along every path (whatever the world answers, whatever handles come back) c makes
   at most n steps, the steps of the threads it spawns included *)
Inductive size_le : comp val -> nat -> Prop :=
| sz_ret v n : size_le (Ret v) n
| sz_panic w n : size_le (Panic w) n
| sz_vis e k n : (forall v, size_le (k v) n) -> size_le (Vis e k) (S n)
| sz_spawn name t k a b : size_le t a -> (forall h, size_le (k h) b) -> size_le (Spawn name t k) (S (a + b))
| sz_join h k n : (forall r, size_le (k r) n) -> size_le (Join h k) (S n).

Lemma size_le_mono c n : size_le c n -> forall m, n <= m -> size_le c m.
Proof.
  induction 1 as [v n|w n|e k n Hk IH|name t k a b Ht IHt Hk IH|h k n Hk IH]; intros m Hm.
  - constructor.
  - constructor.
  - destruct m as [|m]; [lia|]. constructor. intros v. apply IH. lia.
  - destruct m as [|m]; [lia|]. replace m with (a + (m - a)) by lia. constructor; [exact Ht|].
    intros h. apply IH. lia.
  - destruct m as [|m]; [lia|]. constructor. intros r. apply IH. lia.
Qed.

Lemma size_le_join_all {B} (post : option val -> B + N) K b hs : forall acc,
  (forall bs, size_le (K bs) b) -> size_le (join_all_acc post hs acc K) (List.length hs + b).
Proof.
  induction hs as [|h r IH]; intros acc HK; cbn; [apply HK|].
  constructor. intros x. destruct (post x); [now apply IH|constructor].
Qed.

(* the measure of a block: its children, one step per spawn and per join, its continuation *)
Lemma size_le_gblock {B} (post : option val -> B + N) nts K szs b :
  Forall2 (fun nt a => size_le (snd nt) a) nts szs -> (forall bs, size_le (K bs) b) ->
  size_le (gblock post nts K) (list_sum szs + 2 * List.length nts + b).
Proof.
  intros HF HK. unfold gblock.
  (* the list of handles has the length of nts: generalise over it *)
  assert (H : forall todo szs' acc, Forall2 (fun nt a => size_le (snd nt) a) todo szs' ->
            List.length acc + List.length todo = List.length nts ->
            size_le (spawn_all_acc todo acc (fun hs => join_all_acc post hs [] K))
                    (list_sum szs' + List.length todo + (List.length nts + b))).
  { induction todo as [|nt r IH]; intros szs' acc HF' Hlen; inversion HF' as [|? a ? szs'' Ha HF'']; subst.
    - cbn. rewrite <- Hlen, Nat.add_0_r, <- rev_length. now apply size_le_join_all.
    - cbn [spawn_all_acc]. change (list_sum (a :: szs'')) with (a + list_sum szs'').
      eapply (size_le_mono _ (S (a + (list_sum szs'' + List.length r + (List.length nts + b)))));
        [|cbn [List.length]; lia].
      constructor; [exact Ha|]. intros h. apply IH; [exact HF''|]. cbn in *. lia. }
  eapply size_le_mono; [apply (H nts szs [] HF eq_refl)|]. lia.
Qed.

Section Fuel.
  Variable wstate : Type.
  Variable handle : option string -> ev -> wstate -> option val * wstate.
  Notation state := (state wstate).
  Notation run_thr := (run_thr handle).
  Notation run_fuel := (run_fuel handle).
  Notation round := (round handle).
  Notation step_rel := (step_rel wstate handle).
  Notation sstep := (sstep wstate handle).

  Definition pool_size_le (s : state) (N : nat) : Prop :=
    exists ns, Forall2 size_le (map th_code (pool s)) ns /\ list_sum ns <= N.

  Lemma size_step i s s' N :
    step_rel i s s' -> pool_size_le s N -> exists M, N = S M /\ pool_size_le s' M.
  Proof.
    intros Hst (ns & HF & Hsum).
    assert (Hsplit : forall th, thr_of _ s i = Some th ->
              exists l1 l2, pool s = l1 ++ th :: l2 /\ List.length l1 = i).
    { intros th Hth. apply nth_error_split in Hth. exact Hth. }
    destruct Hst as [th e k r w' Hth Hc Ha ->|th name t k Hth Hc ->|th h k th' r Hth Hc Hth' Ho ->];
      destruct (Hsplit _ Hth) as (l1 & l2 & Hp & Hl); rewrite Hp in HF; subst i;
      rewrite map_app in HF; cbn [map] in HF;
      apply Forall2_app_inv_l in HF; destruct HF as (n1 & n2' & HF1 & HF2 & ->);
      inversion HF2 as [|? a ? n2 Ha' HF2']; subst; rewrite Hc in Ha';
      rewrite list_sum_app in Hsum; cbn in Hsum.
    - inversion Ha' as [| |? ? a' Hk| |]; subst.
      exists (N - 1). split; [lia|]. exists (n1 ++ a' :: n2). cbn [pool]. rewrite Hp, upd_app_mid, map_app. cbn [map].
      split; [|rewrite list_sum_app; cbn; lia].
      apply Forall2_app; [exact HF1|]. constructor; [|exact HF2']. cbn.
      destruct r; cbn; [apply Hk|constructor].
    - inversion Ha' as [| | |? ? ? x y Ht Hk|]; subst.
      exists (N - 1). split; [lia|]. exists ((n1 ++ y :: n2) ++ [x]). cbn [pool].
      rewrite Hp, upd_app_mid, !map_app. cbn [map].
      split; [|rewrite !list_sum_app; cbn; lia].
      apply Forall2_app; [apply Forall2_app; [exact HF1|]|].
      + constructor; [|exact HF2']. cbn. apply Hk.
      + constructor; [exact Ht|constructor].
    - inversion Ha' as [| | | |? ? a' Hk]; subst.
      exists (N - 1). split; [lia|]. exists (n1 ++ a' :: n2). cbn [pool]. rewrite Hp, upd_app_mid, map_app. cbn [map].
      split; [|rewrite list_sum_app; cbn; lia].
      apply Forall2_app; [exact HF1|]. constructor; [|exact HF2']. cbn. apply Hk.
  Qed.

  Lemma size_steps s s' : clos_trans _ sstep s' s -> forall N, pool_size_le s (S N) -> pool_size_le s' N.
  Proof.
    intros H. apply clos_trans_tn1 in H. induction H as [s1 [i Hst]|s1 s2 [i Hst] Hrest IH]; intros N Hs.
    - destruct (size_step _ _ _ _ Hst Hs) as (M & E & HM). injection E as <-. exact HM.
    - destruct (size_step _ _ _ _ Hst Hs) as (M & E & HM). injection E as <-.
      destruct N as [|N'].
      + (* nothing can step from s1 *) exfalso. clear IH.
        apply clos_tn1_trans in Hrest. apply clos_trans_t1n in Hrest.
        assert (Hstuck : forall y, sstep y s1 -> False).
        { intros y [i' Hst']. destruct (size_step _ _ _ _ Hst' HM) as (M' & E' & _). discriminate. }
        clear - Hrest Hstuck. induction Hrest as [x y Hxy|x y z Hxy Hrest IHr]; eauto.
      + destruct (IH N' HM) as (ns & HF & Hsum). exists ns. split; [exact HF|lia].
  Qed.

  (* (b) with an explicit bound: if the trees of the pool make at most N steps altogether, the fair
     round-robin with fuel N ends with every thread finished *)
  Theorem fair_schedule_finishes_within N : forall s,
    ws_state _ s -> pool_size_le s N -> finished (run_fuel N s) = true.
  Proof.
    induction N as [|N IH]; intros s Hws Hsz.
    - cbn. destruct (finished s) eqn:Ef; [reflexivity|]. exfalso.
      destruct (finished_false _ _ Ef) as [i Hi].
      destruct (ws_progress _ handle s Hws (ex_intro _ i Hi)) as [j Hj].
      apply enabled_iff in Hj. destruct Hj as [s' Hs'].
      destruct (size_step _ _ _ _ Hs' Hsz) as (M & E & _). discriminate.
    - cbn. destruct (finished s) eqn:Ef; [exact Ef|].
      destruct (finished_false _ _ Ef) as [i Hi].
      destruct (ws_progress _ handle s Hws (ex_intro _ i Hi)) as [j Hj].
      assert (Hin : In j (seq 0 (List.length (pool s)))).
      { apply in_seq. apply enabled_iff in Hj. destruct Hj as [s' Hs'].
        apply step_unfinished in Hs'. destruct Hs' as (th & Hth & _).
        apply nth_error_Some_lt in Hth. lia. }
      apply IH.
      + now apply ws_reachable.
      + eapply size_steps; [|exact Hsz]. eapply run_thr_progress; eauto.
  Qed.
End Fuel.

Print Assumptions fair_schedule_finishes_within.

(* ================================================================== *)
(** * 5. Blocks: algebra, well-scopedness, the shape of the generated step *)
(* ================================================================== *)

(* "bind-like": a block followed by more code is a block with a longer continuation *)
Lemma bind_join_all_acc {B} (post : option val -> B + N) hs : forall acc K (f : val -> comp val),
  bind (join_all_acc post hs acc K) f = join_all_acc post hs acc (fun bs => bind (K bs) f).
Proof.
  induction hs as [|h r IH]; intros acc K f; cbn; [reflexivity|].
  f_equal. extensionality x. destruct (post x); [apply IH|reflexivity].
Qed.

Lemma bind_spawn_all_acc nts : forall acc k (f : val -> comp val),
  bind (spawn_all_acc nts acc k) f = spawn_all_acc nts acc (fun hs => bind (k hs) f).
Proof.
  induction nts as [|nt r IH]; intros acc k f; cbn; [reflexivity|].
  f_equal. extensionality h. apply IH.
Qed.

Lemma bind_gblock {B} (post : option val -> B + N) nts K (f : val -> comp val) :
  bind (gblock post nts K) f = gblock post nts (fun bs => bind (K bs) f).
Proof.
  unfold gblock. rewrite bind_spawn_all_acc. f_equal. extensionality hs. apply bind_join_all_acc.
Qed.

Lemma bind_block names ts K (f : val -> comp val) :
  bind (block names ts K) f = block names ts (fun rs => bind (K rs) f).
Proof. apply bind_gblock. Qed.

(* a block is well-scoped if its parts are *)
Lemma ws_join_all_acc {B} (post : option val -> B + N) hs : forall acc K H,
  incl hs H -> (forall bs, ws (K bs) H) -> ws (join_all_acc post hs acc K) H.
Proof.
  induction hs as [|h r IH]; intros acc K H Hi HK; cbn; [apply HK|].
  split; [apply Hi; now left|]. intros x. destruct (post x); cbn; auto.
  apply IH; auto. intros y Hy. apply Hi. now right.
Qed.

Lemma ws_spawn_all_acc nts : forall acc k H,
  Forall (fun nt => ws (snd nt) []) nts ->
  (forall hs H', incl H H' -> incl hs H' -> ws (k hs) H') ->
  incl acc H ->
  ws (spawn_all_acc nts acc k) H.
Proof.
  induction nts as [|nt r IH]; intros acc k H Hts Hk Hacc; cbn.
  - apply Hk; [apply incl_refl|]. intros x Hx. apply Hacc. now apply in_rev.
  - inversion Hts as [|? ? Ht Hr]; subst. split; [exact Ht|]. intros h. apply IH; auto.
    + intros hs H' Hi Hhs. apply Hk; auto. intros x Hx. apply Hi. now right.
    + intros x [->|Hx]; [now left|right; auto].
Qed.

Theorem ws_gblock {B} (post : option val -> B + N) nts K H :
  Forall (fun nt => ws (snd nt) []) nts -> (forall bs, ws (K bs) H) -> ws (gblock post nts K) H.
Proof.
  intros Hts HK. apply ws_spawn_all_acc.
  - exact Hts.
  - intros hs H' Hi Hhs. apply ws_join_all_acc; [exact Hhs|].
    intros bs. apply (ws_mono _ H H' Hi). apply HK.
  - intros x [].
Qed.

Corollary ws_block names ts K H :
  Forall (fun t => ws t []) ts -> (forall rs, ws (K rs) H) -> ws (block names ts K) H.
Proof.
  intros Hts HK. apply ws_gblock; auto.
  revert names. induction Hts as [|t ts Ht Hts IH]; intros [|n names]; cbn; constructor; auto.
Qed.

(* ---------------------------------------------------------------- *)
(** ** The generated code of a step with n > 1 active branches of a spawn kind
       (transcribed from Spec.step_result, the `is_spawn cfg && multi` branch) is a block *)

Definition vals_tuple (ds : list dval) : comp dval :=
  match all_vals ds with Some vs => Ret (DV (VTuple vs)) | None => Panic P_ILLTYPED end.

Definition std_spawn_one (child : nat -> comp val) (nb : dval * nat) : comp dval :=
  match fst nb with
  | DBuilder name => let! h := std_spawn name (fun _ => child (snd nb)) in std_unwrap h
  | _ => Panic P_ILLTYPED
  end.
Definition std_join_one (h : val) : comp val :=
  match h with
  | VHandle i => let! r := std_join i in let! u := std_unwrap r in to_val u
  | _ => Panic P_ILLTYPED
  end.

(* after the builders and the captures: spawn one thread per branch (unwrap), join each in branch
   order (unwrap), deliver the tuple *)
Definition std_spawn_join (builders : list dval) (acts : list nat) (child : nat -> comp val) : comp dval :=
  let! handles := mapM (std_spawn_one child) (combine builders acts) in
  let! hs := vals_tuple handles in
  let! vs := mapM std_join_one (match hs with DV (VTuple l) => l | _ => [] end) in
  Ret (DV (VTuple vs)).

(* the whole step: builders first (each reads the current thread's name), then the captures *)
Definition std_thread_step {C} (acts : list nat) (caps : comp C) (child : C -> nat -> comp val) : comp dval :=
  let! builders := mapM (fun b => thread_builder (Z.of_nat b)) acts in
  let! cp := caps in
  std_spawn_join builders acts (child cp).

Lemma std_join_all_is_join_all hs : forall acc (g : list val -> comp val),
  bind (mapM std_join_one (map VHandle hs)) (fun vs => g (rev acc ++ vs)) =
  join_all_acc unwrap_post hs acc g.
Proof.
  induction hs as [|h r IH]; intros acc g; cbn.
  - now rewrite app_nil_r.
  - f_equal. extensionality x. destruct x as [v|]; cbn; [|reflexivity].
    rewrite bind_assoc. rewrite <- IH. apply bind_ext. intros vs. cbn.
    now rewrite <- app_assoc.
Qed.

Lemma std_spawn_all_is_spawn_all (child : nat -> comp val) names acts :
  List.length names = List.length acts ->
  forall acc (g : list dval -> comp val),
  bind (mapM (std_spawn_one child) (combine (map DBuilder names) acts))
       (fun ds => g (map (fun h => DV (VHandle h)) (rev acc) ++ ds)) =
  spawn_all_acc (combine names (map child acts)) acc (fun hs => g (map (fun h => DV (VHandle h)) hs)).
Proof.
  revert acts. induction names as [|n names IH]; intros [|a acts] Hlen acc g; cbn in *; try discriminate.
  - now rewrite app_nil_r.
  - f_equal. extensionality h. rewrite bind_assoc.
    rewrite <- (IH acts (eq_add_S _ _ Hlen) (h :: acc) g).
    apply bind_ext. intros ds. cbn. rewrite map_app, <- app_assoc. reflexivity.
Qed.

Lemma all_vals_handles hs : all_vals (map (fun h => DV (VHandle h)) hs) = Some (map VHandle hs).
Proof. induction hs as [|h r IH]; cbn; [reflexivity|now rewrite IH]. Qed.

(* THE GENERATED SHAPE IS A BLOCK (with `.join().unwrap()` as post-processing): *)
Theorem std_spawn_join_is_ublock names acts (child : nat -> comp val) (f : dval -> comp val) :
  List.length names = List.length acts ->
  bind (std_spawn_join (map DBuilder names) acts child) f =
  ublock names (map child acts) (fun vs => f (DV (VTuple vs))).
Proof.
  intros Hlen. unfold std_spawn_join, ublock, gblock.
  rewrite bind_assoc.
  pose proof (std_spawn_all_is_spawn_all child names acts Hlen []
                (fun ds => bind (let! hs := vals_tuple ds in
                                 let! vs := mapM std_join_one (match hs with DV (VTuple l) => l | _ => [] end) in
                                 Ret (DV (VTuple vs))) f)) as H.
  cbn [rev map app] in H. rewrite H. f_equal. extensionality hs.
  unfold vals_tuple. rewrite all_vals_handles. cbn [bind].
  rewrite bind_assoc.
  pose proof (std_join_all_is_join_all hs [] (fun vs => f (DV (VTuple vs)))) as H2.
  cbn [rev app] in H2. exact H2.
Qed.

(* ================================================================== *)
(** * 6. (c) Panic propagation through `.join().unwrap()`              *)
(* ================================================================== *)

Section Panic.
  Variable wstate : Type.
  Variable handle : option string -> ev -> wstate -> option val * wstate.
  Notation state := (state wstate).
  Notation run_thr := (run_thr handle).
  Notation fin := (fin wstate).

  Variable nts : list (string * comp val).
  Variable K : list val -> comp val.
  Variable s0 : state.
  Variable c : nat.
  Hypothesis Hc0 : ccode wstate c s0 (gblock unwrap_post nts K).

  Notation binv := (block_inv wstate unwrap_post nts K s0 c).
  Notation quiet := (quiet wstate s0 c).
  Notation ccode := (ccode wstate c).

  Lemma unwrap_post_inl r b : unwrap_post r = inl b -> r = Some b.
  Proof. destruct r; cbn; congruence. Qed.
  Lemma unwrap_post_inr r n : unwrap_post r = inr n -> r = None /\ n = P_UNWRAP.
  Proof. destruct r; cbn; [discriminate|]. intros H; injection H as <-. auto. Qed.

  Lemma joined_returned s hs bs d :
    joined wstate unwrap_post s hs bs -> In d hs -> exists v, fin s d (Some v).
  Proof.
    intros Hj Hin. destruct (joined_fin _ _ _ _ _ _ Hj Hin) as (r & b & Hf & Hp).
    apply unwrap_post_inl in Hp. subst. eauto.
  Qed.

  (* one state *)
  Lemma panic_state s hs h :
    binv s hs -> In h hs -> fin s h None ->
    quiet s /\
    forall r, fin s c r ->
      r = None /\ ccode s (Panic P_UNWRAP) /\
      exists done h1 todo, hs = done ++ h1 :: todo /\ fin s h1 None /\
                           forall d, In d done -> exists v, fin s d (Some v).
  Proof.
    intros Hinv Hin Hpan.
    destruct Hinv as [Hsp
                     |done bs h1 todo Hk Hhs Hj Hcode Hq
                     |bs th tpost tpre Hk Hj Hth Hcd Htr' Hpre Hpost
                     |done bs h1 todo r' n Hk Hhs Hj Hf Hp Hcode Hq].
    - split; [eapply spawning_quiet; eauto|]. intros r (thc & Hthc & Hout). exfalso.
      destruct Hsp as (? & ? & ? & _ & _ & _ & (th & Hth & Hcode) & _).
      rewrite Hthc in Hth; injection Hth as <-. rewrite Hcode in Hout. discriminate.
    - split; [exact Hq|]. intros r (thc & Hthc & Hout). exfalso.
      destruct Hcode as (th & Hth & Hcode).
      rewrite Hthc in Hth; injection Hth as <-. rewrite Hcode in Hout. discriminate.
    - exfalso. destruct (joined_returned _ _ _ _ Hj Hin) as [v Hv].
      pose proof (fin_inj _ _ _ _ _ Hv Hpan). discriminate.
    - split; [exact Hq|]. apply unwrap_post_inr in Hp. destruct Hp as [-> ->].
      intros r (thc & Hthc & Hout). destruct Hcode as (th & Hth & Hcode).
      rewrite Hthc in Hth; injection Hth as <-. rewrite Hcode in Hout. cbn in Hout. injection Hout as <-.
      split; [reflexivity|]. split; [exists thc; auto|].
      exists done, h1, todo. split; [exact Hhs|]. split; [exact Hf|].
      intros d Hd. eapply joined_returned; eauto.
  Qed.

  (* (c) PANIC PROPAGATION.  Once a child of the block has ended in `Panic` (state reached by
     sched1), then under EVERY continuation sched2: the caller makes no event - no event of K
     ever occurs -, and if the caller is finished, it is finished with `Panic P_UNWRAP`, having
     joined exactly the children before the first panicked one h1, all of which had returned.
     What the model gives for the children AFTER h1: nothing - they are never waited for
     (see the examples ExPanic.unwaited_child_1/2 below). *)
  Theorem panic_propagation sched1 hs1 h :
    binv (run_thr sched1 s0) hs1 -> In h hs1 -> fin (run_thr sched1 s0) h None ->
    forall sched2, let s := run_thr (sched1 ++ sched2) s0 in
    quiet s /\
    forall r, fin s c r ->
      r = None /\ ccode s (Panic P_UNWRAP) /\
      exists hs done h1 todo, hs = done ++ h1 :: todo /\ kids wstate s0 c s hs nts /\
                              fin s h1 None /\ forall d, In d done -> exists v, fin s d (Some v).
  Proof.
    intros Hinv Hin Hpan sched2 s.
    destruct (children_persist _ handle _ _ _ _ _ sched1 sched2 hs1 Hinv) as [ext Hinv2]. fold s in Hinv2.
    assert (Hpan2 : fin s h None).
    { unfold s. rewrite run_thr_app. now apply run_thr_fin_stable. }
    destruct (panic_state s (hs1 ++ ext) h Hinv2 (in_or_app _ _ _ (or_introl Hin)) Hpan2) as [Hq Hr].
    split; [exact Hq|]. intros r Hfin. destruct (Hr r Hfin) as (-> & Hcode & done & h1 & todo & Hhs & Hf1 & Hd).
    split; [reflexivity|]. split; [exact Hcode|]. exists (hs1 ++ ext), done, h1, todo.
    split; [exact Hhs|]. split; [|split; [exact Hf1|exact Hd]].
    destruct Hinv2 as [Hsp|? ? ? ? Hk|? ? ? ? Hk|? ? ? ? ? ? Hk]; auto.
    exfalso. destruct Hfin as (thc & Hthc & Hout).
    destruct Hsp as (? & ? & ? & _ & _ & _ & (th & Hth & Hcode') & _).
    rewrite Hthc in Hth; injection Hth as <-. rewrite Hcode' in Hout. discriminate.
  Qed.

  (* with a complete schedule (every thread finished, e.g. the fair round-robin of theorem
     [fair_schedule_finishes]): the caller HAS ended in `Panic P_UNWRAP`, silently *)
  Corollary caller_ends_in_unwrap_panic sched hs h :
    let s := run_thr sched s0 in
    binv s hs -> In h hs -> fin s h None -> finished s = true ->
    ccode s (Panic P_UNWRAP) /\ quiet s.
  Proof.
    intros s Hinv Hin Hpan Hfin.
    destruct (panic_state s hs h Hinv Hin Hpan) as [Hq Hr]. split; [|exact Hq].
    assert (Hex : exists th, thr_of _ s c = Some th).
    { destruct Hinv as [Hsp|? ? ? ? _ _ _ (th & Hth & _) _|? th ? ? _ _ Hth|? ? ? ? ? ? _ _ _ _ _ (th & Hth & _) _]; eauto.
      destruct Hsp as (? & ? & ? & _ & _ & _ & (th & Hth & _) & _). eauto. }
    destruct Hex as [th Hth]. rewrite finished_iff in Hfin.
    destruct (outcome (th_code th)) as [r|] eqn:Eo.
    - destruct (Hr r) as (_ & Hcode & _); [exists th; auto|exact Hcode].
    - exfalso. apply (Hfin c). exists th; auto.
  Qed.

  (* the converse reading: the caller gets past the block only if every child RETURNED *)
  Theorem past_block_all_returned sched :
    let s := run_thr sched s0 in
    forall tnew x, trace s = tnew ++ trace s0 -> In x tnew -> fst x = c ->
    exists hs vs, kids wstate s0 c s hs nts /\ Forall2 (fun h v => fin s h (Some v)) hs vs.
  Proof.
    intros s tnew x Htr Hin Hx.
    destruct (barrier_events _ handle _ _ _ _ _ Hc0 sched tnew x Htr Hin Hx) as (hs & bs & Hk & Hj).
    exists hs, bs. split; [exact Hk|]. eapply Forall2_impl'; [|exact Hj].
    cbn. intros h b (r & Hf & Hp). apply unwrap_post_inl in Hp. now subst.
  Qed.
End Panic.

(* ================================================================== *)
(** * 7. The block of the task statement (post = identity): no failure case *)
(* ================================================================== *)

Section PlainBlock.
  Variable wstate : Type.
  Variable handle : option string -> ev -> wstate -> option val * wstate.
  Notation state := (state wstate).
  Notation run_thr := (run_thr handle).
  Notation fin := (fin wstate).

  Variable names : list string.
  Variable ts : list (comp val).
  Variable K : list (option val) -> comp val.
  Variable s0 : state.
  Variable c : nat.
  Hypothesis Hlen : List.length names = List.length ts.
  Hypothesis Hc0 : ccode wstate c s0 (block names ts K).

  (* the children hs are n distinct new threads, named as given, spawned by c, ALL finished,
     and rs are their outcomes *)
  Definition all_children_finished (s : state) (hs : list nat) (rs : list (option val)) : Prop :=
    kids wstate s0 c s hs (combine names ts) /\ List.length hs = List.length ts /\
    Forall2 (fun h r => fin s h r) hs rs.

  (* (a) `spawn_all_join_all` for `block names ts K`: in every state reachable under every schedule,
     EITHER the caller is still inside the block - its code has a `Spawn` or `Join` at its head and
     it has made no event since s0 - OR all n children are finished and the caller runs what is
     left of K [r_1 .. r_n], r_i the outcome of child i. *)
  Theorem block_barrier sched :
    let s := run_thr sched s0 in
    (exists th, thr_of _ s c = Some th /\ quiet wstate s0 c s /\
                ((exists n t k, th_code th = Spawn n t k) \/ (exists h k, th_code th = Join h k))) \/
    (exists hs rs th, all_children_finished s hs rs /\ thr_of _ s c = Some th /\ cdesc (K rs) (th_code th)).
  Proof.
    intros s. destruct (spawn_all_join_all _ handle _ _ _ _ _ Hc0 sched) as [hs Hinv]. fold s in Hinv.
    destruct Hinv as [Hsp
                     |done bs h1 todo Hk Hhs Hj Hcode Hq
                     |bs th tpost tpre Hk Hj Hth Hcd Htr' Hpre Hpost
                     |done bs h1 todo r' n Hk Hhs Hj Hf Hp Hcode Hq].
    - left. destruct Hsp as (? & nt & ? & _ & _ & _ & (th & Hth & Hcode) & Hq).
      exists th. split; [exact Hth|]. split; [exact Hq|]. left. rewrite Hcode. cbn. eauto.
    - left. destruct Hcode as (th & Hth & Hcode).
      exists th. split; [exact Hth|]. split; [exact Hq|]. right. rewrite Hcode. cbn. eauto.
    - right. exists hs, bs, th. split; [|auto]. split; [exact Hk|]. split.
      + rewrite (kids_length _ _ _ _ _ _ Hk), combine_length, Hlen. apply Nat.min_id.
      + eapply Forall2_impl'; [|exact Hj]. cbn. intros h b (r & Hf & Hp). now injection Hp as <-.
    - discriminate.
  Qed.
End PlainBlock.

Print Assumptions bind_gblock.
Print Assumptions ws_gblock.
Print Assumptions std_spawn_join_is_ublock.
Print Assumptions panic_propagation.
Print Assumptions caller_ends_in_unwrap_panic.
Print Assumptions past_block_all_returned.
Print Assumptions block_barrier.

(* ---- Examples for sections 2-5 (machine, no deadlock, termination, blocks): hypotheses are satisfiable, the machine runs ---- *)
Module ExBlock.
  (* a world with ONE shared counter: every event bumps it, a call of closure n answers n + counter,
     closure 13 panics.  (Threads do communicate through this world: results depend on the schedule.) *)
  Definition w_handle (nm : option string) (e : ev) (w : nat) : option val * nat :=
    match e with
    | ECall (VOpq 13) _ => (None, S w)
    | ECall (VOpq n) _ => (Some (VInt (n + Z.of_nat w)), S w)
    | _ => (Some VUnit, S w)
    end.

  Definition call (n : Z) (k : val -> comp val) : comp val := Vis (ECall (VOpq n) []) k.
  (* a child: two calls, returns the first answer *)
  Definition child (n : Z) : comp val := call n (fun v => call (n + 100) (fun _ => Ret v)).

  Definition K3 (rs : list (option val)) : comp val :=
    call 7 (fun v => Ret (VTuple (v :: map (fun r => match r with Some x => VSome x | None => VNone end) rs))).
  Definition prog3 : comp val := block ["a"; "b"; "c"] [child 1; child 2; child 3] K3.

  Definition s3 := init None prog3 0.

  (* the caller spawns (3 steps); then children in order 1,2,3; then the caller joins and runs K *)
  Definition schedA := [0;0;0; 1;1; 2;2; 3;3; 0;0;0; 0].
  (* interleaved, youngest first; entries for blocked / finished / non-existent threads are skipped *)
  Definition schedB := [0;3;0;0;7; 3;2;0;1;3; 2;1;0;1;0; 0;0;0;0].

  Example run_A :
    result_of 0 (run_thr w_handle schedA s3) =
      Some (Some (VTuple [VInt 13; VSome (VInt 1); VSome (VInt 4); VSome (VInt 7)])) /\
    map fst (rev (trace (run_thr w_handle schedA s3))) = [1;1;2;2;3;3;0].
  Proof. vm_compute. split; reflexivity. Qed.

  Example run_B :
    result_of 0 (run_thr w_handle schedB s3) =
      Some (Some (VTuple [VInt 13; VSome (VInt 3); VSome (VInt 3); VSome (VInt 3)])) /\
    map fst (rev (trace (run_thr w_handle schedB s3))) = [3;2;1;3;2;1;0].
  Proof. vm_compute. split; reflexivity. Qed.

  (* in both runs: the caller's only entry is the most recent one - after all entries of the children *)

  Example run_fair : finished (run_fuel w_handle 10 s3) = true /\
                     finished (run_fuel w_handle 4 s3) = false.
  Proof. vm_compute. split; reflexivity. Qed.

  (* hypotheses of the theorems hold for this program *)
  Example prog3_ws : ws prog3 [].
  Proof. apply ws_block; [repeat constructor|]; cbn; auto. Qed.
  Example prog3_ws_state : ws_state nat s3.
  Proof. apply ws_init, prog3_ws. Qed.
  Example prog3_ccode : ccode nat 0 s3 (block ["a"; "b"; "c"] [child 1; child 2; child 3] K3).
  Proof. eexists. split; reflexivity. Qed.

  (* the numeric measure: children 2 steps each, 3 spawns, 3 joins, K 1 step *)
  Lemma size_child n : size_le (child n) 2.
  Proof. constructor; intros v. constructor; intros w. constructor. Qed.
  Example prog3_size : pool_size_le nat s3 13.
  Proof.
    exists [13]. split; [|cbn; lia]. constructor; [|constructor].
    apply (size_le_gblock (@inl (option val) N) (combine ["a"; "b"; "c"] [child 1; child 2; child 3]) K3 [2; 2; 2] 1).
    - repeat constructor; apply size_child.
    - intros bs. constructor; intros v. constructor.
  Qed.
  (* theorem (b) with explicit fuel, instantiated (not computed) *)
  Example prog3_finishes_within : finished (run_fuel w_handle 13 s3) = true.
  Proof. apply fair_schedule_finishes_within; [apply prog3_ws_state|apply prog3_size]. Qed.
End ExBlock.

(* ---- Examples for section 6 (panic propagation): hypotheses are satisfiable, the machine runs ---- *)
Module ExPanic.
  Import ExBlock.
  (* (c) panic propagation, and what is NOT guaranteed: child "a" panics, child "c" is slow *)
  Definition slow : comp val := call 1 (fun _ => call 2 (fun _ => call 3 (fun _ => Ret VUnit))).
  Definition progP : comp val :=
    ublock ["a"; "b"; "c"] [call 13 (fun v => Ret v); child 2; slow] (fun vs => call 7 (fun _ => Ret (VTuple vs))).
  Definition sP := init (Some "main") progP 0.
  (* spawn all; a panics; b runs; c makes one step; the caller joins a: panic *)
  Definition schedP := [0;0;0; 1; 2;2; 3; 0].

  Example unwaited_child_1 :
    let s := run_thr w_handle schedP sP in
    result_of 0 s = Some None /\                      (* the caller has panicked ... *)
    option_map th_code (nth_error (pool s) 0) = Some (Panic P_UNWRAP) /\
    result_of 1 s = Some None /\                      (* ... because child a panicked; *)
    thr_finished 3 s = false /\                       (* child c is still running: it was never waited for *)
    filter (fun p => Nat.eqb (fst p) 0) (trace s) = [].   (* no event of K *)
  Proof. vm_compute. repeat split; reflexivity. Qed.

  (* ... and goes on making events after the caller's panic *)
  Example unwaited_child_2 :
    let s := run_thr w_handle (schedP ++ [3; 3; 0; 0]) sP in
    result_of 0 s = Some None /\ result_of 3 s = Some (Some VUnit) /\
    map fst (firstn 2 (trace s)) = [3; 3] /\
    filter (fun p => Nat.eqb (fst p) 0) (trace s) = [].
  Proof. vm_compute. repeat split; reflexivity. Qed.

  (* when nobody panics the same program reaches K *)
  Definition progOK : comp val :=
    ublock ["a"; "b"] [child 1; child 2] (fun vs => call 7 (fun _ => Ret (VTuple vs))).
  Example run_ok :
    result_of 0 (run_fuel w_handle 10 (init None progOK 0)) = Some (Some (VTuple [VInt 1; VInt 4])).
  Proof. vm_compute. reflexivity. Qed.
End ExPanic.

(* ================================================================== *)
(** * 8. (d) None waits for a sibling: any finishing order; sibling independence *)
(* ================================================================== *)

Lemma upd_upd_comm {A} (l : list A) i j x y : i <> j -> upd (upd l i x) j y = upd (upd l j y) i x.
Proof.
  revert i j; induction l as [|a l IH]; intros [|i] [|j] Hne; cbn; auto; try congruence.
  f_equal. apply IH. congruence.
Qed.

Lemma upd_upd_same {A} (l : list A) i x y : upd (upd l i x) i y = upd l i y.
Proof. revert i; induction l as [|a l IH]; intros [|i]; cbn; auto. f_equal. apply IH. Qed.

Lemma upd_app_l {A} (l m : list A) j x : j < List.length l -> upd (l ++ m) j x = upd l j x ++ m.
Proof.
  revert j; induction l as [|a l IH]; intros [|j] Hlt; cbn in *; try lia; auto.
  f_equal. apply IH. lia.
Qed.

Lemma Forall2_nth {A B} (R : A -> B -> Prop) l1 l2 :
  List.length l1 = List.length l2 ->
  (forall i a b, nth_error l1 i = Some a -> nth_error l2 i = Some b -> R a b) ->
  Forall2 R l1 l2.
Proof.
  revert l2; induction l1 as [|a l1 IH]; intros [|b l2] Hlen H; cbn in *; try discriminate; constructor.
  - apply (H 0); reflexivity.
  - apply IH; [lia|]. intros i a' b' Ha Hb. apply (H (S i)); assumption.
Qed.

(* join-free: the computation never waits for another thread (it may spawn) *)
Fixpoint jf (c : comp val) : Prop :=
  match c with
  | Ret _ | Panic _ => True
  | Vis e k => forall v, jf (k v)
  | Spawn n t k => forall h, jf (k h)
  | Join _ _ => False
  end.

Lemma jf_tstep c c' : jf c -> tstep c c' -> jf c'.
Proof.
  intros Hj Ht. destruct Ht as [e k r|n t k h|h k r]; cbn in *; auto; [|contradiction].
  destruct r; cbn; auto.
Qed.

Section Order.
  Variable wstate : Type.
  Variable handle : option string -> ev -> wstate -> option val * wstate.
  Notation state := (state wstate).
  Notation step_thr := (step_thr handle).
  Notation run_thr := (run_thr handle).
  Notation step_rel := (step_rel wstate handle).
  Notation thr := (thr_of wstate).
  Notation fin := (fin wstate).
  Notation unfinished := (unfinished wstate).

  (* a join-free thread can always run, alone, until it is finished; nobody else is touched *)
  Lemma run_alone t :
    jf t -> forall s i th, thr s i = Some th -> th_code th = t ->
    exists m r, fin (run_thr (repeat i m) s) i r /\
                forall j, j <> i -> j < List.length (pool s) -> thr (run_thr (repeat i m) s) j = thr s j.
  Proof.
    induction (csub_wf t) as [t _ IH]. intros Hjf s i th Hth Hc.
    destruct (outcome t) as [o|] eqn:Eo.
    - exists 0, o. cbn. split; [|auto]. exists th. subst t. auto.
    - assert (Hen : exists s1, step_thr i s = Some s1).
      { unfold Threads.step_thr. unfold thr_of in Hth. rewrite Hth, Hc.
        destruct t; cbn in *; try discriminate; eauto. contradiction. }
      destruct Hen as [s1 E]. pose proof E as Hst. apply step_thr_rel in Hst.
      destruct (step_self _ _ _ _ _ Hst) as (th0 & c' & H1 & H2 & H3).
      rewrite Hth in H1; injection H1 as <-. rewrite Hc in H3.
      destruct (IH c' (csub_step _ _ H3) (jf_tstep _ _ Hjf H3) s1 i (set_code th c') H2 eq_refl)
        as (m & r & Hf & Ho).
      exists (S m), r. cbn. unfold step_or_skip. rewrite E. split; [exact Hf|].
      intros j Hne Hlt. rewrite Ho; auto.
      + eapply step_other; eauto.
      + pose proof (step_length _ _ _ _ _ Hst). lia.
  Qed.

  (* [in_order s p]: from s there is a schedule that finishes the threads p one after the other, in
     exactly this order: when h is finished, all threads after h in p are still unfinished *)
  Fixpoint in_order (s : state) (p : list nat) : Prop :=
    match p with
    | [] => True
    | h :: rest =>
        exists seg, let s' := run_thr seg s in
          (exists r, fin s' h r) /\ (forall x, In x rest -> unfinished s' x) /\ in_order s' rest
    end.

  (* the segments concatenate to ONE schedule *)
  Lemma in_order_one_schedule p : forall s,
    in_order s p -> exists sched, forall h, In h p -> exists r, fin (run_thr sched s) h r.
  Proof.
    induction p as [|h rest IH]; intros s Hio; [exists []; intros h []|].
    destruct Hio as (seg & (r & Hf) & _ & Hrest). destruct (IH _ Hrest) as [sched Hs].
    exists (seg ++ sched). intros x [<-|Hx]; rewrite run_thr_app; [|auto].
    exists r. now apply run_thr_fin_stable.
  Qed.

  Lemma any_order_of_join_free p : forall s,
    NoDup p ->
    (forall h, In h p -> exists th, thr s h = Some th /\ jf (th_code th) /\ outcome (th_code th) = None) ->
    in_order s p.
  Proof.
    induction p as [|h rest IH]; intros s Hnd Hall; cbn; [exact I|].
    inversion Hnd as [|? ? Hnotin Hnd']; subst.
    destruct (Hall h (or_introl eq_refl)) as (th & Hth & Hjf & Hout).
    destruct (run_alone _ Hjf s h th Hth eq_refl) as (m & r & Hf & Hothers).
    exists (repeat h m). cbn.
    assert (Hsame : forall x, In x rest -> thr (run_thr (repeat h m) s) x = thr s x).
    { intros x Hx. apply Hothers; [intros ->; contradiction|].
      destruct (Hall x (or_intror Hx)) as (thx & Hthx & _). eapply nth_error_Some_lt; eauto. }
    split; [eauto|]. split.
    - intros x Hx. destruct (Hall x (or_intror Hx)) as (thx & Hthx & _ & Hox).
      exists thx. rewrite Hsame; auto.
    - apply IH; [exact Hnd'|]. intros x Hx. rewrite Hsame by exact Hx. apply Hall. now right.
  Qed.

  (* ---------------------------------------------------------------- *)
  (** ** The caller alone: n steps of the caller create the n children   *)

  Definition child_thread (c : nat) (nt : string * comp val) : thread :=
    mkThread (Some (fst nt)) (Some c) (snd nt).

  Lemma set_code_set_code th a b : set_code (set_code th a) b = set_code th b.
  Proof. reflexivity. Qed.

  Lemma spawn_run c (k : list nat -> comp val) todo : forall s done th,
    thr s c = Some th -> th_code th = spawn_all_acc todo (rev done) k ->
    let L := List.length (pool s) in
    let s' := run_thr (repeat c (List.length todo)) s in
    List.length (pool s') = L + List.length todo /\
    thr s' c = Some (set_code th (k (done ++ seq L (List.length todo)))) /\
    (forall i nt, nth_error todo i = Some nt -> thr s' (L + i) = Some (child_thread c nt)) /\
    (forall j, j <> c -> j < L -> thr s' j = thr s j) /\
    world s' = world s /\ trace s' = trace s.
  Proof.
    induction todo as [|nt r IH]; intros s done th Hth Hc L s'.
    - cbn in *. rewrite rev_involutive in Hc. rewrite app_nil_r, <- Hc.
      repeat split; auto; try lia.
      + rewrite Hth. destruct th; reflexivity.
      + intros [|i] nt; discriminate.
    - cbn in Hc. assert (Hcl : c < L) by (eapply nth_error_Some_lt; eauto).
      set (th1 := set_code th (spawn_all_acc r (L :: rev done) k)).
      set (s1 := mkState (upd (pool s) c th1 ++ [child_thread c nt]) (world s) (trace s)).
      assert (E : step_thr c s = Some s1).
      { unfold Threads.step_thr. unfold thr_of in Hth. rewrite Hth, Hc. reflexivity. }
      assert (Hs' : s' = run_thr (repeat c (List.length r)) s1).
      { unfold s'. cbn. unfold step_or_skip. now rewrite E. }
      assert (HL1 : List.length (pool s1) = S L).
      { unfold s1; cbn. rewrite app_length, upd_length. cbn. fold L. lia. }
      assert (Hth1 : thr s1 c = Some th1).
      { unfold thr_of, s1; cbn. rewrite nth_error_app1 by (rewrite upd_length; exact Hcl).
        now apply nth_error_upd_eq. }
      assert (Hc1 : th_code th1 = spawn_all_acc r (rev (done ++ [L])) k).
      { unfold th1; cbn. now rewrite rev_unit. }
      destruct (IH s1 (done ++ [L]) th1 Hth1 Hc1) as (H1 & H2 & H3 & H4 & H5 & H6).
      rewrite <- Hs', HL1 in *. cbn [List.length].
      split; [lia|]. split; [|split; [|split; [|split]]].
      + rewrite H2. unfold th1. rewrite set_code_set_code, <- app_assoc. reflexivity.
      + intros [|i] nt' Hnt; cbn in Hnt.
        * injection Hnt as <-. rewrite Nat.add_0_r, H4 by lia.
          unfold thr_of, s1; cbn. rewrite nth_error_app2 by (rewrite upd_length; fold L; lia).
          rewrite upd_length. fold L. now rewrite Nat.sub_diag.
        * replace (L + S i) with (S L + i) by lia. now apply H3.
      + intros j Hne Hlt. rewrite H4 by lia.
        unfold thr_of, s1; cbn. rewrite nth_error_app1 by (rewrite upd_length; fold L; lia).
        apply nth_error_upd_neq. congruence.
      + rewrite H5. reflexivity.
      + rewrite H6. reflexivity.
  Qed.

  (* (d) ALL ALIVE AT ONCE, and ANY FINISHING ORDER.  After the caller's n spawn steps all n
     children exist, none of them has made a step (so, if their bodies are not already values, none
     is finished), the caller has joined none; and if the children are join-free then for EVERY
     permutation p of the children there is a schedule that finishes them in exactly the order p. *)
  Theorem all_alive_any_order {B} (post : option val -> B + N) nts K s0 c :
    ccode wstate c s0 (gblock post nts K) ->
    let n := List.length nts in
    let hs := seq (List.length (pool s0)) n in
    let s1 := run_thr (repeat c n) s0 in
    all_alive wstate post nts K s0 c s1 hs /\
    Forall2 (fun h nt => thr s1 h = Some (child_thread c nt)) hs nts /\
    (Forall (fun nt => jf (snd nt) /\ outcome (snd nt) = None) nts ->
     forall p, Permutation p hs -> in_order s1 p).
  Proof.
    intros (th & Hth & Hc) n hs s1. unfold gblock in Hc.
    destruct (spawn_run c _ nts s0 [] th Hth Hc) as (H1 & H2 & H3 & H4 & H5 & H6).
    fold n s1 in H1, H2, H3, H4, H5, H6. cbn [app] in H2. fold hs in H2.
    assert (HF : Forall2 (fun h nt => thr s1 h = Some (child_thread c nt)) hs nts).
    { apply Forall2_nth; [unfold hs; now rewrite seq_length|].
      intros i h nt Hh Hnt. pose proof (nth_error_Some_lt _ _ _ Hnt) as Hi.
      unfold hs in Hh. rewrite (nth_error_nth' _ 0) in Hh by (rewrite seq_length; exact Hi).
      rewrite seq_nth in Hh by exact Hi. injection Hh as <-. now apply H3. }
    split; [|split; [exact HF|]].
    - split; [|split].
      + split; [|split].
        * eapply Forall2_impl'; [|exact HF]. cbn. intros h nt Hh. eexists; split; [exact Hh|]. cbn; auto.
        * apply seq_NoDup.
        * intros h Hh. apply in_seq in Hh. lia.
      + eexists; split; [exact H2|]. reflexivity.
      + exists []. split; [exact H6|]. intros x [].
    - intros Hjf p Hperm. apply any_order_of_join_free.
      + eapply Permutation_NoDup; [apply Permutation_sym; exact Hperm|apply seq_NoDup].
      + intros h Hh. apply (Permutation_in _ Hperm) in Hh.
        destruct (Forall2_In_l _ _ _ _ HF Hh) as (nt & Hnt & Hthh).
        rewrite Forall_forall in Hjf. destruct (Hjf _ Hnt) as [Hj Ho].
        eexists; split; [exact Hthh|]. cbn. auto.
  Qed.

  (* ---------------------------------------------------------------- *)
  (** ** A thread's step does not depend on its siblings' codes          *)

  (* replace the code of thread j *)
  Definition poke (j : nat) (d : comp val) (s : state) : state :=
    match nth_error (pool s) j with
    | Some th => mkState (upd (pool s) j (set_code th d)) (world s) (trace s)
    | None => s
    end.

  (* (d) Enabledness and the result of a step of thread i depend on i's own code and the world only:
     replacing the code of ANY other existing thread j by ANY code d commutes with the step - unless
     i's head is `Join j`, and then only j's OUTCOME (finished or not, which result) matters. *)
  Theorem step_ignores_sibling_code i j d s thi thj :
    i <> j -> thr s i = Some thi -> thr s j = Some thj ->
    (forall k, th_code thi <> Join j k) \/ outcome d = outcome (th_code thj) ->
    step_thr i (poke j d s) = option_map (poke j d) (step_thr i s).
  Proof.
    intros Hne Hi Hj Hcond. unfold thr_of in Hi, Hj.
    pose proof (nth_error_Some_lt _ _ _ Hi) as Hil. pose proof (nth_error_Some_lt _ _ _ Hj) as Hjl.
    unfold poke at 1. rewrite Hj. unfold Threads.step_thr. cbn [pool world trace].
    rewrite (nth_error_upd_neq _ j i) by congruence. rewrite Hi.
    destruct (th_code thi) as [v|n|e k|name t k|h k] eqn:Ec; cbn [option_map]; try reflexivity.
    - unfold poke. cbn [pool world trace]. rewrite (nth_error_upd_neq _ i j) by congruence. rewrite Hj.
      rewrite (upd_upd_comm _ j i) by congruence. reflexivity.
    - unfold poke. cbn [pool world trace]. rewrite upd_length.
      rewrite nth_error_app1 by (rewrite upd_length; exact Hjl).
      rewrite (nth_error_upd_neq _ i j) by congruence. rewrite Hj.
      rewrite upd_app_l by (rewrite upd_length; exact Hjl).
      rewrite (upd_upd_comm _ j i) by congruence. reflexivity.
    - assert (Hout : match nth_error (upd (pool s) j (set_code thj d)) h with
                     | Some th' => outcome (th_code th') | None => None end =
                     match nth_error (pool s) h with
                     | Some th' => outcome (th_code th') | None => None end).
      { destruct (Nat.eq_dec h j) as [->|Hh].
        - rewrite nth_error_upd_eq by exact Hjl. rewrite Hj. cbn.
          destruct Hcond as [Hc|Hc]; [exfalso; eapply Hc; reflexivity|exact Hc].
        - now rewrite nth_error_upd_neq by congruence. }
      destruct (nth_error (upd (pool s) j (set_code thj d)) h) as [th1|];
        destruct (nth_error (pool s) h) as [th2|]; cbn in Hout.
      + rewrite Hout. destruct (outcome (th_code th2)) as [r|]; cbn [option_map]; [|reflexivity].
        unfold poke. cbn [pool world trace]. rewrite (nth_error_upd_neq _ i j) by congruence. rewrite Hj.
        rewrite (upd_upd_comm _ j i) by congruence. reflexivity.
      + rewrite Hout. reflexivity.
      + rewrite <- Hout. reflexivity.
      + reflexivity.
  Qed.

  Corollary enabled_ignores_sibling_code i j d s thi thj :
    i <> j -> thr s i = Some thi -> thr s j = Some thj ->
    (forall k, th_code thi <> Join j k) \/ outcome d = outcome (th_code thj) ->
    enabled handle i (poke j d s) = enabled handle i s.
  Proof.
    intros Hne Hi Hj Hc. unfold enabled.
    rewrite (step_ignores_sibling_code i j d s thi thj Hne Hi Hj Hc).
    destruct (step_thr i s); reflexivity.
  Qed.
End Order.

Print Assumptions all_alive_any_order.
Print Assumptions step_ignores_sibling_code.
Print Assumptions enabled_ignores_sibling_code.

(* ---- Examples for section 8 (finishing orders): hypotheses are satisfiable, the machine runs ---- *)
Module ExOrder.
  Import ExBlock.
  Example prog3_children_join_free :
    Forall (fun nt => jf (snd nt) /\ outcome (snd nt) = None) (combine ["a"; "b"; "c"] [child 1; child 2; child 3]).
  Proof. repeat constructor; cbn; auto. Qed.
  (* theorem (d) instantiated: any of the 6 orders, e.g. c, a, b *)
  Example prog3_order_cab :
    in_order nat w_handle (run_thr w_handle [0;0;0] s3) [3; 1; 2].
  Proof.
    destruct (all_alive_any_order nat w_handle _ _ _ s3 0 prog3_ccode) as (_ & _ & H).
    apply (H prog3_children_join_free).
    change (seq (List.length (pool s3)) 3) with [1;2;3].
    apply perm_trans with [1;3;2]; [apply perm_swap|]. apply perm_skip. apply perm_swap.
  Qed.
End ExOrder.

(* ================================================================== *)
(** * 9. (e) Thread names; a single active branch stays on the caller   *)
(* ================================================================== *)

Lemma sapp_assoc (a b c : string) : (a +++ b) +++ c = a +++ (b +++ c).
Proof. induction a as [|ch a IH]; cbn; [reflexivity|now rewrite IH]. Qed.

Lemma sapp_nil_r (a : string) : a +++ "" = a.
Proof. induction a as [|ch a IH]; cbn; [reflexivity|now rewrite IH]. Qed.

Lemma sapp_inj_l (a b c : string) : a +++ b = a +++ c -> b = c.
Proof. induction a as [|ch a IH]; cbn; intros H; [exact H|]. injection H as H. auto. Qed.

(* the name `__tb(i)` gives a thread spawned by a thread named nm *)
Definition child_name (nm : option string) (i : nat) : string :=
  match nm with
  | Some s => s +++ "_join_" +++ dec i
  | None => "join_" +++ dec i
  end.

(* C08 `thread_name_format` *)
Lemma tb_name_child_name nm i : tb_name (name_val nm) (Z.of_nat i) = Some (child_name nm i).
Proof. destruct nm; cbn; now rewrite Nat2Z.id. Qed.

Lemma child_name_named p i : child_name (Some p) i = p +++ "_join_" +++ dec i.
Proof. reflexivity. Qed.
Lemma child_name_unnamed i : child_name None i = "join_" +++ dec i.
Proof. reflexivity. Qed.

(* siblings carry different names *)
Lemma child_name_inj nm i j : child_name nm i = child_name nm j -> i = j.
Proof.
  destruct nm as [s|]; cbn; intros H.
  - apply sapp_inj_l in H. apply (sapp_inj_l "_join_") in H. now apply dec_inj.
  - apply (sapp_inj_l "join_") in H. now apply dec_inj.
Qed.

(* the name at the end of a nesting path *)
Fixpoint path_name (nm : option string) (p : list nat) : option string :=
  match p with
  | [] => nm
  | i :: r => path_name (Some (child_name nm i)) r
  end.

Lemma path_name_snoc nm p i : path_name nm (p ++ [i]) = Some (child_name (path_name nm p) i).
Proof. revert nm; induction p as [|j p IH]; intros nm; cbn; auto. Qed.

Fixpoint path_suffix (p : list nat) : string :=
  match p with [] => "" | i :: r => "_join_" +++ dec i +++ path_suffix r end.

(* C08 `nested_thread_name`, as a string: c_join_i1_..._join_im *)
Lemma path_name_named c p : path_name (Some c) p = Some (c +++ path_suffix p).
Proof.
  revert c; induction p as [|i p IH]; intros c; cbn.
  - now rewrite sapp_nil_r.
  - rewrite IH. f_equal. now rewrite !sapp_assoc.
Qed.

Lemma path_name_unnamed i p : path_name None (i :: p) = Some ("join_" +++ dec i +++ path_suffix p).
Proof. cbn [path_name child_name]. rewrite path_name_named. reflexivity. Qed.

Example path_name_ex : path_name (Some "main") [2; 0; 11] = Some "main_join_2_join_0_join_11".
Proof. reflexivity. Qed.
Example path_name_ex' : path_name None [1; 3] = Some "join_1_join_3".
Proof. reflexivity. Qed.

(* the naming discipline of generated code: a thread named nm gives every thread it spawns a name
   `child_name nm i` - where nm is what `EThreadName` answers; hereditarily for the spawned bodies.
   Q is a postcondition on the returned value (used to follow the builders through `bind`). *)
Fixpoint tbn (A : Type) (nm : option string) (Q : A -> Prop) (c : comp A) {struct c} : Prop :=
  match c with
  | Ret a => Q a
  | Panic _ => True
  | Vis e k => match e with
               | EThreadName => tbn A nm Q (k (name_val nm))
               | _ => forall v, tbn A nm Q (k v)
               end
  | Spawn name t k => (exists i, name = child_name nm i) /\ tbn val (Some name) (fun _ => True) t /\
                      forall h, tbn A nm Q (k h)
  | Join h k => forall r, tbn A nm Q (k r)
  end.
Arguments tbn {A} nm Q c.
Definition tbnamed {A} (nm : option string) (c : comp A) : Prop := tbn nm (fun _ => True) c.

Lemma tbn_bind {A B} nm (c : comp A) (f : A -> comp B) Q R :
  tbn nm Q c -> (forall a, Q a -> tbn nm R (f a)) -> tbn nm R (bind c f).
Proof.
  revert B f Q R. induction c as [A a|A n|A e k IH|A name t IHt k IH|A h k IH];
    intros B f Q R Hc Hf; cbn in *; auto.
  - destruct e; eauto.
  - destruct Hc as (Hn & Ht & Hk). eauto.
  - eauto.
Qed.

Lemma tbn_weaken {A} nm (c : comp A) (Q R : A -> Prop) :
  (forall a, Q a -> R a) -> tbn nm Q c -> tbn nm R c.
Proof.
  intros HQR. revert Q R HQR. induction c as [A a|A n|A e k IH|A name t IHt k IH|A h k IH];
    intros Q R HQR Hc; cbn in *; auto.
  - destruct e; eauto.
  - destruct Hc as (Hn & Ht & Hk). eauto.
  - eauto.
Qed.

Lemma tbnamed_bind {A B} nm (c : comp A) (f : A -> comp B) :
  tbnamed nm c -> (forall a, tbnamed nm (f a)) -> tbnamed nm (bind c f).
Proof. intros Hc Hf. eapply tbn_bind; [exact Hc|]. intros a _. apply Hf. Qed.

(* `__tb(i)` followed by `builder.spawn(thunk)`: the generated way to spawn *)
Definition tb_spawn (i : nat) (thunk : closure) (k : dval -> comp val) : comp val :=
  let! b := thread_builder (Z.of_nat i) in
  match b with
  | DBuilder name => let! h := std_spawn name thunk in k h
  | _ => Panic P_ILLTYPED
  end.

Lemma tbnamed_tb_spawn nm i thunk k :
  tbnamed (Some (child_name nm i)) (thunk []) -> (forall d, tbnamed nm (k d)) ->
  tbnamed nm (tb_spawn i thunk k).
Proof.
  intros Ht Hk. unfold tbnamed, tb_spawn, thread_builder. cbn. rewrite tb_name_child_name. cbn.
  split; [eauto|]. split; [exact Ht|]. intros h. apply Hk.
Qed.

Lemma tbn_builders nm acts :
  tbn nm (fun bs => bs = map (fun b => DBuilder (child_name nm b)) acts)
      (mapM (fun b => thread_builder (Z.of_nat b)) acts).
Proof.
  induction acts as [|b r IH]; cbn [mapM map]; [reflexivity|].
  unfold thread_builder at 1. cbn. rewrite tb_name_child_name. cbn.
  eapply tbn_bind; [exact IH|]. intros bs ->. reflexivity.
Qed.

Lemma tbnamed_join_all_acc {B} (post : option val -> B + N) nm hs : forall acc K,
  (forall bs, tbnamed nm (K bs)) -> tbnamed nm (join_all_acc post hs acc K).
Proof.
  induction hs as [|h r IH]; intros acc K HK; cbn; [apply HK|].
  intros x. destruct (post x); [now apply IH|exact I].
Qed.

Lemma tbnamed_spawn_all_acc nm nts : forall acc k,
  Forall (fun nt => (exists i, fst nt = child_name nm i) /\ tbnamed (Some (fst nt)) (snd nt)) nts ->
  (forall hs, tbnamed nm (k hs)) -> tbnamed nm (spawn_all_acc nts acc k).
Proof.
  induction nts as [|nt r IH]; intros acc k Hts Hk; cbn; [apply Hk|].
  inversion Hts as [|? ? [Hn Ht] Hr]; subst. split; [exact Hn|]. split; [exact Ht|].
  intros h. now apply IH.
Qed.

(* a block whose children are named by `__tb` follows the discipline *)
Lemma tbnamed_gblock {B} (post : option val -> B + N) nm nts K :
  Forall (fun nt => (exists i, fst nt = child_name nm i) /\ tbnamed (Some (fst nt)) (snd nt)) nts ->
  (forall bs, tbnamed nm (K bs)) -> tbnamed nm (gblock post nts K).
Proof.
  intros Hts HK. apply tbnamed_spawn_all_acc; [exact Hts|]. intros hs. now apply tbnamed_join_all_acc.
Qed.

(* (e) THE GENERATED STEP (builders, captures, spawn all, join all) follows the discipline: the
   child for branch b of a caller named nm is named child_name nm b *)
Theorem tbnamed_std_thread_step {C} nm acts (caps : comp C) (child : C -> nat -> comp val)
        (f : dval -> comp val) :
  tbnamed nm caps ->
  (forall cp b, tbnamed (Some (child_name nm b)) (child cp b)) ->
  (forall d, tbnamed nm (f d)) ->
  tbnamed nm (bind (std_thread_step acts caps child) f).
Proof.
  intros Hcaps Hchild Hf. unfold std_thread_step. rewrite !CompLaws.bind_assoc.
  eapply tbn_bind; [apply tbn_builders|]. intros bs ->. cbn beta.
  rewrite CompLaws.bind_assoc. eapply tbn_bind; [exact Hcaps|]. intros cp _.
  rewrite <- (map_map (child_name nm) DBuilder).
  rewrite std_spawn_join_is_ublock by (now rewrite map_length).
  apply tbnamed_gblock; [|intros; apply Hf].
  clear - Hchild. induction acts as [|b r IH]; cbn; constructor; auto. cbn. split; [eauto|apply Hchild].
Qed.

Section NamesMachine.
  Variable wstate : Type.
  Variable handle : option string -> ev -> wstate -> option val * wstate.
  Notation state := (state wstate).
  Notation step_thr := (step_thr handle).
  Notation run_thr := (run_thr handle).
  Notation step_rel := (step_rel wstate handle).
  Notation thr := (thr_of wstate).
  Notation fin := (fin wstate).

  (* (e) two steps of a thread named nm that runs `tb_spawn i thunk k` create a thread named
     child_name nm i = nm_join_i (join_i for an unnamed thread) that runs the thunk *)
  Theorem builder_spawn_name s x th i thunk k :
    thr s x = Some th -> th_code th = tb_spawn i thunk k ->
    let s' := run_thr [x; x] s in
    thr s' (List.length (pool s)) =
      Some (mkThread (Some (child_name (th_name th) i)) (Some x) (thunk [])) /\
    thr s' x = Some (set_code th (k (DV (VOk (VHandle (List.length (pool s))))))).
  Proof.
    intros Hth Hc s'. pose proof (nth_error_Some_lt _ _ _ Hth) as Hx.
    set (L := List.length (pool s)).
    set (th1 := set_code th (Spawn (child_name (th_name th) i) (thunk [])
                                   (fun h => k (DV (VOk (VHandle h)))))).
    set (s1 := mkState (upd (pool s) x th1) (world s) ((x, EThreadName) :: trace s)).
    assert (E1 : step_thr x s = Some s1).
    { unfold Threads.step_thr. unfold thr_of in Hth. rewrite Hth, Hc. cbn.
      rewrite tb_name_child_name. reflexivity. }
    set (s2 := mkState (upd (pool s1) x (set_code th1 (k (DV (VOk (VHandle L)))))
                          ++ [mkThread (Some (child_name (th_name th) i)) (Some x) (thunk [])])
                       (world s1) (trace s1)).
    assert (E2 : step_thr x s1 = Some s2).
    { unfold Threads.step_thr. cbn. rewrite nth_error_upd_eq by exact Hx. cbn.
      rewrite upd_length. reflexivity. }
    assert (Es : s' = s2).
    { unfold s'. cbn. unfold step_or_skip. rewrite E1, E2. reflexivity. }
    rewrite Es. unfold thr_of, s2; cbn. split.
    - rewrite nth_error_app2 by (rewrite !upd_length; fold L; lia).
      rewrite !upd_length. fold L. now rewrite Nat.sub_diag.
    - rewrite nth_error_app1 by (rewrite !upd_length; lia).
      rewrite nth_error_upd_eq by (rewrite upd_length; exact Hx). reflexivity.
  Qed.

  (* ---------------- for all schedules ------------------- *)

  (* every thread follows the naming discipline *)
  Definition tb_state (s : state) : Prop :=
    forall x th, thr s x = Some th -> tbnamed (th_name th) (th_code th).

  (* every spawned thread carries the name `__tb` gives: its spawner's name, "_join_", an index *)
  Definition named_ok (s : state) : Prop :=
    forall x th p, thr s x = Some th -> th_parent th = Some p ->
      exists thp i, thr s p = Some thp /\ th_name th = Some (child_name (th_name thp) i).

  Lemma tb_step i s s' : tb_state s /\ named_ok s -> step_rel i s s' -> tb_state s' /\ named_ok s'.
  Proof.
    intros [Htb Hok] Hst. split.
    - intros x thx Hx.
      destruct (Nat.lt_ge_cases x (List.length (pool s))) as [Hlt|Hge].
      + destruct (Nat.eq_dec x i) as [->|Hne].
        * destruct Hst as [th e k r w' Hth Hc Ha ->|th name t k Hth Hc ->|th h k th' r Hth Hc Hth' Ho ->];
            pose proof (Htb _ _ Hth) as Hd; rewrite Hc in Hd; cbn in Hd;
            unfold thr_of in Hx; cbn in Hx;
            rewrite ?nth_error_app1 in Hx by (rewrite upd_length; lia);
            rewrite nth_error_upd_eq in Hx by lia; injection Hx as <-; cbn.
          -- destruct e; cbn in Ha; try (destruct r; cbn; [apply Hd|exact I]).
             injection Ha as <- <-. exact Hd.
          -- apply Hd.
          -- apply Hd.
        * rewrite (step_other _ _ _ _ _ _ Hst Hne Hlt) in Hx. exact (Htb _ _ Hx).
      + destruct (step_new _ _ _ _ _ _ _ Hst Hge Hx) as (-> & _ & th & name & t & k & Hth & Hc & ->).
        pose proof (Htb _ _ Hth) as Hd. rewrite Hc in Hd. cbn in Hd. cbn. apply Hd.
    - intros x thx p Hx Hp.
      destruct (Nat.lt_ge_cases x (List.length (pool s))) as [Hlt|Hge].
      + assert (Hex : exists th0, thr s x = Some th0).
        { unfold thr_of. destruct (nth_error (pool s) x) eqn:E; [eauto|]. apply nth_error_None in E. lia. }
        destruct Hex as [th0 Hx0].
        destruct (step_thr_stable _ _ _ _ _ _ _ Hst Hx0) as (th' & Hx' & Hn' & Hp' & _).
        rewrite Hx in Hx'; injection Hx' as <-.
        rewrite Hp' in Hp. destruct (Hok _ _ _ Hx0 Hp) as (thp & j & Hthp & Hname).
        destruct (step_thr_stable _ _ _ _ _ _ _ Hst Hthp) as (thp' & Hthp' & Hnp' & _).
        exists thp', j. split; [exact Hthp'|]. now rewrite Hn', Hnp'.
      + destruct (step_new _ _ _ _ _ _ _ Hst Hge Hx) as (-> & _ & th & name & t & k & Hth & Hc & ->).
        cbn in Hp. injection Hp as <-.
        pose proof (Htb _ _ Hth) as Hd. rewrite Hc in Hd. cbn in Hd. destruct Hd as ((j & ->) & _).
        destruct (step_thr_stable _ _ _ _ _ _ _ Hst Hth) as (th' & Hth' & Hn' & _).
        exists th', j. split; [exact Hth'|]. cbn. now rewrite Hn'.
  Qed.

  (* (e) under EVERY schedule, every thread spawned by code that follows the `__tb` discipline is
     named after its spawner: spawner's name (if any), "_join_" / "join_", a branch index *)
  Theorem thread_names_all_schedules s0 :
    tb_state s0 -> named_ok s0 -> forall sched, named_ok (run_thr sched s0).
  Proof.
    intros Htb Hok sched.
    apply (run_thr_invariant _ handle (fun s => tb_state s /\ named_ok s)); [|auto].
    intros i s s' H Hst. eapply tb_step; eauto.
  Qed.

  Lemma tb_init nm c w : tbnamed nm c -> tb_state (init nm c w) /\ named_ok (init nm c w).
  Proof.
    intros Hc. split.
    - intros [|[|x]] th Hx; unfold thr_of in Hx; cbn in Hx; try discriminate.
      injection Hx as <-. exact Hc.
    - intros [|[|x]] th p Hx; unfold thr_of in Hx; cbn in Hx; try discriminate.
      injection Hx as <-. cbn. discriminate.
  Qed.

  (* thread x sits at the nesting path p = i_1 .. i_m below thread c *)
  Inductive at_path (s : state) (c : nat) : nat -> list nat -> Prop :=
  | ap_here : at_path s c c []
  | ap_child y x p i thx thy :
      at_path s c y p -> thr s x = Some thx -> th_parent thx = Some y ->
      thr s y = Some thy -> th_name thx = Some (child_name (th_name thy) i) ->
      at_path s c x (p ++ [i]).

  (* (e) C08 `nested_thread_name`, by induction over the nesting path: the thread at path
     i_1 .. i_m below a caller named c is named c_join_i1_..._join_im *)
  Theorem nested_thread_name s c x p thc thx :
    at_path s c x p -> thr s c = Some thc -> thr s x = Some thx ->
    th_name thx = path_name (th_name thc) p.
  Proof.
    intros Hp Hc. revert thx. induction Hp as [|y x p i thx' thy Hp IH Hx' Hpar Hy Hname]; intros thx Hx.
    - cbn. congruence.
    - rewrite Hx' in Hx; injection Hx as <-. rewrite path_name_snoc, Hname.
      now rewrite (IH thy Hy).
  Qed.

  Corollary nested_thread_name_string s c x p thc thx cname :
    at_path s c x p -> thr s c = Some thc -> thr s x = Some thx -> th_name thc = Some cname ->
    th_name thx = Some (cname +++ path_suffix p).
  Proof.
    intros Hp Hc Hx Hn. rewrite (nested_thread_name _ _ _ _ _ _ Hp Hc Hx), Hn. apply path_name_named.
  Qed.

  (* in a state that is [named_ok], the parent links are such paths *)
  Lemma child_at_path s c y x p thx :
    named_ok s -> at_path s c y p -> thr s x = Some thx -> th_parent thx = Some y ->
    exists i, at_path s c x (p ++ [i]).
  Proof.
    intros Hok Hp Hx Hpar. destruct (Hok _ _ _ Hx Hpar) as (thy & i & Hy & Hname).
    exists i. eapply ap_child; eauto.
  Qed.

  (* ---------------- one active branch: no thread ------------------- *)

  Fixpoint nospawn (c : comp val) : Prop :=
    match c with
    | Ret _ | Panic _ => True
    | Vis e k => forall v, nospawn (k v)
    | Spawn _ _ _ => False
    | Join h k => forall r, nospawn (k r)
    end.

  Lemma nospawn_tstep c c' : nospawn c -> tstep c c' -> nospawn c'.
  Proof.
    intros Hn Ht. destruct Ht as [e k r|n t k h|h k r]; cbn in *; auto; [|contradiction].
    destruct r; cbn; auto.
  Qed.

  (* (e) C08 `single_branch_on_caller`.  A computation without a `Spawn` node, run by thread c while
     every other thread is finished: under every schedule no thread is created and EVERY new trace
     entry carries the caller's index c. *)
  Theorem single_branch_on_caller s0 c th0 :
    thr s0 c = Some th0 -> nospawn (th_code th0) ->
    (forall x, x <> c -> ~ unfinished wstate s0 x) ->
    forall sched, let s := run_thr sched s0 in
    List.length (pool s) = List.length (pool s0) /\
    exists tnew, trace s = tnew ++ trace s0 /\ forall y, In y tnew -> fst y = c.
  Proof.
    intros Hth Hns Hfin sched.
    cut ((fun s =>
      (exists th, thr s c = Some th /\ nospawn (th_code th)) /\
      (forall x, x <> c -> ~ unfinished wstate s x) /\
      List.length (pool s) = List.length (pool s0) /\
      exists tnew, trace s = tnew ++ trace s0 /\ forall y, In y tnew -> fst y = c) (run_thr sched s0)).
    { intros H. destruct H as (_ & _ & Hl & Ht). auto. }
    apply run_thr_invariant.
    2:{ split; [eauto|]. split; [exact Hfin|]. split; [reflexivity|]. exists []. split; [reflexivity|intros y []]. }
    1:{ intros i s s' ((th & Hc & Hn) & Hothers & Hlen & tnew & Htr & Hall) Hst.
        assert (i = c) as ->.
        { destruct (Nat.eq_dec i c); [assumption|]. exfalso. eapply Hothers; eauto. eapply step_unfinished; eauto. }
        destruct (step_thr_stable _ _ _ _ _ _ _ Hst Hc) as (th' & Hc' & _ & _ & _ & Hrun).
        specialize (Hrun eq_refl).
        assert (Hlen' : List.length (pool s') = List.length (pool s)).
        { destruct Hst as [th1 e k r w' Hth1 Hc1 Ha ->|th1 name t k Hth1 Hc1 ->|th1 h k th2 r Hth1 Hc1 Hth2 Ho ->];
            cbn; rewrite ?upd_length; auto.
          rewrite Hc in Hth1; injection Hth1 as <-. rewrite Hc1 in Hn. destruct Hn. }
        split; [exists th'; split; [exact Hc'|eapply nospawn_tstep; eauto]|].
        split.
        - intros x Hne (thx & Hx & Hox).
          assert (Hxl : x < List.length (pool s)).
          { rewrite <- Hlen'. eapply nth_error_Some_lt; eauto. }
          rewrite (step_other _ _ _ _ _ _ Hst Hne Hxl) in Hx. eapply Hothers; eauto. exists thx; auto.
        - split; [congruence|].
          destruct (step_trace _ _ _ _ _ Hst) as [E|[e E]]; rewrite E, Htr.
          + exists tnew; auto.
          + exists ((c, e) :: tnew). split; [reflexivity|]. intros y [<-|Hy]; auto. }
  Qed.

  (* in any pool, whatever the others do: a thread running spawn-free code never gets a child *)
  Theorem nospawn_never_spawns s0 c th0 :
    thr s0 c = Some th0 -> nospawn (th_code th0) ->
    forall sched x th, thr (run_thr sched s0) x = Some th -> List.length (pool s0) <= x ->
    th_parent th <> Some c.
  Proof.
    intros Hth Hns sched.
    cut ((fun s =>
      List.length (pool s0) <= List.length (pool s) /\
      (exists th, thr s c = Some th /\ nospawn (th_code th)) /\
      forall x th, thr s x = Some th -> List.length (pool s0) <= x -> th_parent th <> Some c)
         (run_thr sched s0)).
    { intros H. destruct H as (_ & _ & Hall). exact Hall. }
    apply run_thr_invariant.
    2:{ split; [lia|]. split; [eauto|]. intros x th Hx Hge. apply nth_error_Some_lt in Hx. lia. }
    1:{ intros i s s' (Hlen & (thc & Hc & Hn) & Hall) Hst.
        pose proof (step_length _ _ _ _ _ Hst) as Hlen'.
        destruct (step_thr_stable _ _ _ _ _ _ _ Hst Hc) as (th' & Hc' & _ & _ & Hsame & Hrun).
        split; [lia|]. split.
        - exists th'. split; [exact Hc'|]. destruct (Nat.eq_dec c i) as [E|E].
          + eapply nospawn_tstep; eauto.
          + now rewrite (Hsame E).
        - intros x th Hx Hge.
          destruct (Nat.lt_ge_cases x (List.length (pool s))) as [Hlt|Hge'].
          + assert (Hex : exists th1, thr s x = Some th1).
            { unfold thr_of. destruct (nth_error (pool s) x) eqn:E; [eauto|]. apply nth_error_None in E. lia. }
            destruct Hex as [th1 Hx1].
            destruct (step_thr_stable _ _ _ _ _ _ _ Hst Hx1) as (th2 & Hx2 & _ & Hp2 & _).
            rewrite Hx in Hx2; injection Hx2 as <-. rewrite Hp2. eapply Hall; eauto.
          + destruct (step_new _ _ _ _ _ _ _ Hst Hge' Hx) as (-> & _ & thi & name & t & k & Hthi & Hci & ->).
            cbn. intros E; injection E as ->. rewrite Hc in Hthi; injection Hthi as <-.
            rewrite Hci in Hn. destruct Hn. }
  Qed.
End NamesMachine.

Print Assumptions child_name_inj.
Print Assumptions builder_spawn_name.
Print Assumptions thread_names_all_schedules.
Print Assumptions nested_thread_name.
Print Assumptions tbnamed_std_thread_step.
Print Assumptions single_branch_on_caller.
Print Assumptions nospawn_never_spawns.

(* ---- Examples for section 9 (names, single branch): hypotheses are satisfiable, the machine runs ---- *)
Module ExNames.
  Import ExBlock.
  (* (e) names: the generated step shape, nested two levels deep, under an unnamed caller.
     Leaves report `thread::current().name()`. *)
  Definition leaf : comp val := Vis EThreadName (fun v => Ret v).
  Definition level2 (_ : unit) (b : nat) : comp val := leaf.
  Definition step2 : comp val :=
    let! d := std_thread_step [0; 1] (Ret Datatypes.tt) level2 in to_val d.
  Definition level1 (_ : unit) (b : nat) : comp val :=
    match b with 2 => step2 | _ => leaf end.
  Definition progE : comp val :=
    let! d := std_thread_step [2; 5] (Ret Datatypes.tt) level1 in to_val d.

  Example names_run :
    let s := run_fuel w_handle 30 (init None progE 0) in
    finished s = true /\
    map th_name (pool s) = [None; Some "join_2"; Some "join_5"; Some "join_2_join_0"; Some "join_2_join_1"] /\
    result_of 0 s = Some (Some (VTuple [VTuple [VSome (VStr "join_2_join_0"); VSome (VStr "join_2_join_1")];
                                        VSome (VStr "join_5")])).
  Proof. vm_compute. repeat split; reflexivity. Qed.

  Example names_run_named :
    let s := run_fuel w_handle 30 (init (Some "main") progE 0) in
    map th_name (pool s) = [Some "main"; Some "main_join_2"; Some "main_join_5";
                            Some "main_join_2_join_0"; Some "main_join_2_join_1"].
  Proof. vm_compute. reflexivity. Qed.

  Example progE_tbnamed nm : tbnamed nm progE.
  Proof.
    unfold progE. apply tbnamed_std_thread_step; [exact I| |intros []; exact I].
    intros [] b. unfold level1. destruct b as [|[|[|b]]]; try exact I.
    unfold step2. apply tbnamed_std_thread_step; [exact I| |intros []; exact I].
    intros [] b'. exact I.
  Qed.

  (* one active branch: no Spawn node; everything happens on the caller *)
  Definition single : comp val := call 1 (fun v => call 2 (fun _ => Ret v)).
  Example single_nospawn : nospawn single.
  Proof. cbn. auto. Qed.
  Example single_run :
    let s := run_fuel w_handle 5 (init (Some "t") single 0) in
    List.length (pool s) = 1 /\ map fst (trace s) = [0; 0].
  Proof. vm_compute. split; reflexivity. Qed.
End ExNames.

(* ================================================================== *)
(** * 10. (a) Nesting: blocks inside children; descendants              *)
(* ================================================================== *)

(* a join that delivers "the thread panicked" makes the caller panic (`.join().unwrap()`) *)
Definition strict_post {B} (post : option val -> B + N) : Prop := exists n, post None = inr n.

Lemma unwrap_post_strict : strict_post unwrap_post.
Proof. exists P_UNWRAP. reflexivity. Qed.

(* hereditarily block-structured code: events, and blocks (n >= 1, strict post-processing) whose
   children and continuations are again of this kind.  This is the thread structure of generated
   code: every thread a thread spawns belongs to a block, and is joined before the block ends. *)
Inductive hb : comp val -> Prop :=
| hb_ret v : hb (Ret v)
| hb_panic n : hb (Panic n)
| hb_vis e k : (forall v, hb (k v)) -> hb (Vis e k)
| hb_block B (post : option val -> B + N) nts K :
    nts <> [] -> strict_post post ->
    Forall (fun nt => hb (snd nt)) nts -> (forall bs, hb (K bs)) ->
    hb (gblock post nts K).

Lemma hb_vis_inv e k : hb (Vis e k) -> forall v, hb (k v).
Proof.
  intros H. remember (Vis e k) as c eqn:E. destruct H as [v|n|e' k' Hk|B post nts K Hne Hs Hts HK]; try discriminate.
  - injection E as -> ->. exact Hk.
  - destruct nts as [|nt r]; [contradiction|]. discriminate.
Qed.

Lemma hb_join_inv h k : hb (Join h k) -> False.
Proof.
  intros H. remember (Join h k) as c eqn:E. destruct H as [v|n|e' k' Hk|B post nts K Hne Hs Hts HK]; try discriminate.
  destruct nts as [|nt r]; [contradiction|]. discriminate.
Qed.

Lemma hb_spawn_inv name t k :
  hb (Spawn name t k) ->
  exists B (post : option val -> B + N) K nt todo,
    strict_post post /\ hb (snd nt) /\ Forall (fun nt => hb (snd nt)) todo /\ (forall bs, hb (K bs)) /\
    Spawn name t k = spawn_all_acc (nt :: todo) (rev []) (fun hs' => join_all_acc post hs' [] K).
Proof.
  intros H. remember (Spawn name t k) as c eqn:E. destruct H as [v|n|e' k' Hk|B post nts K Hne Hs Hts HK]; try discriminate.
  destruct nts as [|nt r]; [contradiction|]. inversion Hts; subst.
  exists B, post, K, nt, r. repeat split; auto.
Qed.

Section Nested.
  Variable wstate : Type.
  Variable handle : option string -> ev -> wstate -> option val * wstate.
  Notation state := (state wstate).
  Notation step_thr := (step_thr handle).
  Notation run_thr := (run_thr handle).
  Notation step_rel := (step_rel wstate handle).
  Notation thr := (thr_of wstate).
  Notation fin := (fin wstate).
  Notation unfinished := (unfinished wstate).

  (* all threads spawned by x are finished with a value, except possibly those in P *)
  Definition children_returned (s : state) (x : nat) (P : list nat) : Prop :=
    forall y thy, thr s y = Some thy -> th_parent thy = Some x -> In y P \/ exists v, fin s y (Some v).

  (* where thread x (running c) is, with respect to the blocks of its own code *)
  Inductive tinv (s : state) (x : nat) (c : comp val) : Prop :=
  | TI_idle : hb c -> children_returned s x [] -> tinv s x c
  | TI_spawning B (post : option val -> B + N) K nt todo hs :
      strict_post post -> hb (snd nt) -> Forall (fun nt => hb (snd nt)) todo -> (forall bs, hb (K bs)) ->
      c = spawn_all_acc (nt :: todo) (rev hs) (fun hs' => join_all_acc post hs' [] K) ->
      children_returned s x hs -> tinv s x c
  | TI_joining B (post : option val -> B + N) K h todo acc :
      strict_post post -> (forall bs, hb (K bs)) ->
      c = join_all_acc post (h :: todo) acc K ->
      children_returned s x (h :: todo) -> tinv s x c
  | TI_dead n : c = Panic n -> tinv s x c.

  Definition parent_ok (s : state) : Prop :=
    forall y thy p, thr s y = Some thy -> th_parent thy = Some p -> p < List.length (pool s).

  (* the global invariant *)
  Definition hb_state (s : state) : Prop :=
    parent_ok s /\ forall x th, thr s x = Some th -> tinv s x (th_code th).

  Lemma hb_init nm c w : hb c -> hb_state (init nm c w).
  Proof.
    intros Hc. split.
    - intros [|[|y]] thy p Hy; unfold thr_of in Hy; cbn in Hy; try discriminate.
      injection Hy as <-. cbn. discriminate.
    - intros [|[|x]] th Hx; unfold thr_of in Hx; cbn in Hx; try discriminate.
      injection Hx as <-. cbn. apply TI_idle; [exact Hc|].
      intros [|[|y]] thy Hy; unfold thr_of in Hy; cbn in Hy; try discriminate.
      injection Hy as <-. cbn. discriminate.
  Qed.

  Lemma thr_exists s x : x < List.length (pool s) -> exists th, thr s x = Some th.
  Proof.
    intros Hlt. unfold thr_of. destruct (nth_error (pool s) x) eqn:E; [eauto|].
    apply nth_error_None in E. lia.
  Qed.

  (* children_returned survives a step of a thread other than the spawner; and a step of the
     spawner that does not spawn *)
  Lemma children_returned_stable i s s' x P :
    step_rel i s s' -> parent_ok s ->
    (forall th name t k, thr s i = Some th -> th_code th = Spawn name t k -> i <> x) ->
    children_returned s x P -> children_returned s' x P.
  Proof.
    intros Hst Hpok Hns Hcr y thy Hy Hp.
    destruct (Nat.lt_ge_cases y (List.length (pool s))) as [Hlt|Hge].
    - destruct (thr_exists _ _ Hlt) as [th0 Hy0].
      destruct (step_thr_stable _ _ _ _ _ _ _ Hst Hy0) as (th' & Hy' & _ & Hp' & _).
      rewrite Hy in Hy'; injection Hy' as <-. rewrite Hp' in Hp.
      destruct (Hcr _ _ Hy0 Hp) as [Hin|[v Hv]]; [now left|right].
      exists v. eapply step_fin_stable; eauto.
    - exfalso. destruct (step_new _ _ _ _ _ _ _ Hst Hge Hy) as (-> & _ & th & name & t & k & Hth & Hc & ->).
      cbn in Hp. injection Hp as <-. eapply Hns; eauto.
  Qed.

  Lemma children_returned_weaken s x P P' :
    (forall y, In y P -> In y P' \/ exists v, fin s y (Some v)) ->
    children_returned s x P -> children_returned s x P'.
  Proof.
    intros HPP Hcr y thy Hy Hp. destruct (Hcr _ _ Hy Hp) as [Hin|Hv]; [|now right]. now apply HPP.
  Qed.

  Lemma tinv_stable i s s' x c :
    step_rel i s s' -> parent_ok s -> i <> x -> tinv s x c -> tinv s' x c.
  Proof.
    intros Hst Hpok Hne Ht.
    assert (Hcs : forall P, children_returned s x P -> children_returned s' x P).
    { intros P. eapply children_returned_stable; eauto. }
    destruct Ht as [Hhb Hcr|B post K nt todo hs Hs Hnt Htodo HK Hc Hcr|B post K h todo acc Hs HK Hc Hcr|n Hc].
    - apply TI_idle; auto.
    - eapply TI_spawning; eauto.
    - eapply TI_joining; eauto.
    - eapply TI_dead; eauto.
  Qed.

  Lemma hb_step i s s' : hb_state s -> step_rel i s s' -> hb_state s'.
  Proof.
    intros [Hpok Hall] Hst.
    pose proof (step_length _ _ _ _ _ Hst) as Hlen.
    assert (Hpok' : parent_ok s').
    { intros y thy p Hy Hp.
      destruct (Nat.lt_ge_cases y (List.length (pool s))) as [Hlt|Hge].
      - destruct (thr_exists _ _ Hlt) as [th0 Hy0].
        destruct (step_thr_stable _ _ _ _ _ _ _ Hst Hy0) as (th' & Hy' & _ & Hp' & _).
        rewrite Hy in Hy'; injection Hy' as <-. rewrite Hp' in Hp.
        pose proof (Hpok _ _ _ Hy0 Hp). lia.
      - destruct (step_new _ _ _ _ _ _ _ Hst Hge Hy) as (-> & _ & th & name & t & k & Hth & Hc & ->).
        cbn in Hp. injection Hp as <-. apply nth_error_Some_lt in Hth. lia. }
    split; [exact Hpok'|].
    intros x thx Hx.
    destruct (Nat.lt_ge_cases x (List.length (pool s))) as [Hlt|Hge].
    2:{ (* a new thread: its body is hb, it has no children *)
      destruct (step_new _ _ _ _ _ _ _ Hst Hge Hx) as (-> & _ & th & name & t & k & Hth & Hc & ->).
      cbn. apply TI_idle.
      - pose proof (Hall _ _ Hth) as Ht. rewrite Hc in Ht.
        destruct Ht as [Hhb Hcr|B post K nt todo hs Hs Hnt Htodo HK Hc' Hcr|B post K h todo acc Hs HK Hc' Hcr|n Hc'];
          try discriminate.
        + destruct (hb_spawn_inv _ _ _ Hhb) as (B & post & K & nt & todo & _ & Hnt & _ & _ & E).
          cbn in E. injection E as _ -> _. exact Hnt.
        + cbn in Hc'. injection Hc' as _ -> _. exact Hnt.
      - intros y thy Hy Hp. exfalso.
        destruct (Nat.lt_ge_cases y (List.length (pool s))) as [Hylt|Hyge].
        + destruct (thr_exists _ _ Hylt) as [th0 Hy0].
          destruct (step_thr_stable _ _ _ _ _ _ _ Hst Hy0) as (th' & Hy' & _ & Hp' & _).
          rewrite Hy in Hy'; injection Hy' as <-. rewrite Hp' in Hp.
          pose proof (Hpok _ _ _ Hy0 Hp). lia.
        + destruct (step_new _ _ _ _ _ _ _ Hst Hyge Hy) as (_ & _ & th1 & name1 & t1 & k1 & Hth1 & _ & ->).
          cbn in Hp. injection Hp as ->. apply nth_error_Some_lt in Hth1. lia. }
    destruct (Nat.eq_dec x i) as [->|Hne].
    2:{ rewrite (step_other _ _ _ _ _ _ Hst Hne Hlt) in Hx. eapply tinv_stable; eauto. }
    (* the running thread *)
    destruct (thr_exists _ _ Hlt) as [th Hth]. pose proof (Hall _ _ Hth) as Ht.
    assert (Hcs_nospawn : forall P, (forall name t k, th_code th <> Spawn name t k) ->
                                    children_returned s i P -> children_returned s' i P).
    { intros P Hns. eapply children_returned_stable; eauto.
      intros th1 name t k Hth1 Hc1 _. rewrite Hth in Hth1; injection Hth1 as <-. eapply Hns; eauto. }
    destruct Hst as [th1 e k r w' Hth1 Hc1 Ha Es'|th1 name t k Hth1 Hc1 Es'|th1 h k th' r Hth1 Hc1 Hth' Ho Es'];
      rewrite Hth in Hth1; injection Hth1 as <-.
    - (* Vis: only an idle thread has a Vis at its head *)
      assert (Hx' : thx = set_code th (vis_next k r)).
      { subst s'. unfold thr_of in Hx; cbn in Hx. rewrite nth_error_upd_eq in Hx by exact Hlt. congruence. }
      subst thx. cbn. rewrite Hc1 in Ht.
      destruct Ht as [Hhb Hcr|B post K nt todo hs Hs Hnt Htodo HK Hc' Hcr|B post K h todo acc Hs HK Hc' Hcr|n Hc'];
        try discriminate.
      apply TI_idle.
      + destruct r; cbn; [apply (hb_vis_inv _ _ Hhb)|constructor].
      + apply Hcs_nospawn; [intros; congruence|exact Hcr].
    - (* Spawn *)
      set (L := List.length (pool s)) in *.
      assert (Hx' : thx = set_code th (k L)).
      { subst s'. unfold thr_of in Hx; cbn in Hx.
        rewrite nth_error_app1 in Hx by (rewrite upd_length; exact Hlt).
        rewrite nth_error_upd_eq in Hx by exact Hlt. congruence. }
      subst thx. cbn. rewrite Hc1 in Ht.
      assert (Hsp : exists B (post : option val -> B + N) K nt todo hs,
                 strict_post post /\ hb (snd nt) /\ Forall (fun nt => hb (snd nt)) todo /\
                 (forall bs, hb (K bs)) /\
                 Spawn name t k = spawn_all_acc (nt :: todo) (rev hs) (fun hs' => join_all_acc post hs' [] K) /\
                 children_returned s i hs).
      { destruct Ht as [Hhb Hcr|B post K nt todo hs Hs Hnt Htodo HK Hc' Hcr|B post K h todo acc Hs HK Hc' Hcr|n Hc'];
          try discriminate.
        - destruct (hb_spawn_inv _ _ _ Hhb) as (B & post & K & nt & todo & Hs & Hnt & Htodo & HK & E).
          exists B, post, K, nt, todo, []. auto 10.
        - exists B, post, K, nt, todo, hs. auto 10. }
      destruct Hsp as (B & post & K & nt & todo & hs & Hs & Hnt & Htodo & HK & E & Hcr).
      cbn in E. injection E as -> -> ->.
      assert (Hcr' : children_returned s' i (hs ++ [L])).
      { intros y thy Hy Hp.
        destruct (Nat.lt_ge_cases y L) as [Hylt|Hyge].
        - destruct (thr_exists _ _ Hylt) as [th0 Hy0].
          assert (Hst' : step_rel i s s') by (eapply SR_spawn; eauto).
          destruct (step_thr_stable _ _ _ _ _ _ _ Hst' Hy0) as (th1 & Hy1 & _ & Hp1 & _).
          rewrite Hy in Hy1; injection Hy1 as <-. rewrite Hp1 in Hp.
          destruct (Hcr _ _ Hy0 Hp) as [Hin|[v Hv]]; [left; apply in_or_app; now left|right].
          exists v. eapply step_fin_stable; eauto.
        - left. apply in_or_app. right. left.
          apply nth_error_Some_lt in Hy. subst s'. cbn in Hy.
          rewrite app_length, upd_length in Hy. cbn in Hy. fold L in Hy. lia. }
      destruct todo as [|nt' todo'].
      + (* last spawn: the joins begin *)
        cbn. rewrite rev_involutive.
        destruct (hs ++ [L]) as [|h0 rest] eqn:Ehs; [destruct hs; discriminate|].
        eapply TI_joining; eauto.
      + inversion Htodo; subst. eapply (TI_spawning _ _ _ _ post K nt' todo' (hs ++ [L])); eauto.
        now rewrite rev_unit.
    - (* Join: only a joining thread has a Join at its head *)
      assert (Hx' : thx = set_code th (k r)).
      { subst s'. unfold thr_of in Hx; cbn in Hx. rewrite nth_error_upd_eq in Hx by exact Hlt. congruence. }
      subst thx. cbn. rewrite Hc1 in Ht.
      destruct Ht as [Hhb Hcr|B post K nt todo hs Hs Hnt Htodo HK Hc' Hcr|B post K h0 todo acc Hs HK Hc' Hcr|n Hc'];
        try discriminate.
      + exfalso. eapply hb_join_inv; eauto.
      + cbn in Hc'. injection Hc' as -> ->.
        assert (Hst' : step_rel i s s') by (eapply SR_join; eauto).
        assert (Hcr' : children_returned s' i (h0 :: todo)).
        { apply Hcs_nospawn; [intros; congruence|exact Hcr]. }
        destruct (post r) as [b|n] eqn:Ep; [|eapply TI_dead; eauto].
        assert (Hret : exists v, fin s' h0 (Some v)).
        { destruct r as [v|]; [|destruct Hs as [n Hn]; congruence].
          exists v. eapply step_fin_stable; eauto. exists th'; auto. }
        destruct todo as [|h' todo'].
        * cbn. apply TI_idle; [apply HK|].
          eapply children_returned_weaken; [|exact Hcr']. intros y [<-|[]]. now right.
        * eapply (TI_joining _ _ _ _ post K h' todo' (b :: acc)); eauto.
          eapply children_returned_weaken; [|exact Hcr']. intros y [<-|Hy]; [now right|now left].
  Qed.

  Lemma hb_reachable sched s : hb_state s -> hb_state (run_thr sched s).
  Proof. apply (run_thr_invariant _ handle hb_state). intros i s1 s2 H Hst. eapply hb_step; eauto. Qed.

  (* y was spawned by x, or by a thread spawned by x, ... *)
  Inductive anc (s : state) : nat -> nat -> Prop :=
  | anc_parent y thy x : thr s y = Some thy -> th_parent thy = Some x -> anc s y x
  | anc_up y thy p x : thr s y = Some thy -> th_parent thy = Some p -> anc s p x -> anc s y x.

  (* a thread that RETURNED has joined everything below it: all its descendants have returned *)
  Theorem returned_means_descendants_returned s x v :
    hb_state s -> fin s x (Some v) -> forall y, anc s y x -> exists v', fin s y (Some v').
  Proof.
    intros [Hpok Hall] Hfin y Hanc.
    assert (Hkids : forall x v, fin s x (Some v) -> children_returned s x []).
    { intros x0 v0 (th & Hth & Ho). pose proof (Hall _ _ Hth) as Ht.
      destruct Ht as [Hhb Hcr|B post K nt todo hs Hs Hnt Htodo HK Hc' Hcr|B post K h0 todo acc Hs HK Hc' Hcr|n Hc'];
        auto; rewrite Hc' in Ho; discriminate. }
    revert v Hfin. induction Hanc as [y thy x Hy Hp|y thy p x Hy Hp Hanc IH]; intros v Hfin.
    - destruct (Hkids _ _ Hfin _ _ Hy Hp) as [[]|Hv]. exact Hv.
    - destruct (IH _ Hfin) as [vp Hvp]. destruct (Hkids _ _ Hvp _ _ Hy Hp) as [[]|Hv]. exact Hv.
  Qed.

  Lemma anc_backward i s s' y h :
    step_rel i s s' -> parent_ok s -> y < List.length (pool s) -> anc s' y h -> anc s y h.
  Proof.
    intros Hst Hpok Hlt Hanc. induction Hanc as [y thy x Hy Hp|y thy p x Hy Hp Hanc IH].
    - destruct (thr_exists _ _ Hlt) as [th0 Hy0].
      destruct (step_thr_stable _ _ _ _ _ _ _ Hst Hy0) as (th' & Hy' & _ & Hp' & _).
      rewrite Hy in Hy'; injection Hy' as <-. rewrite Hp' in Hp. eapply anc_parent; eauto.
    - destruct (thr_exists _ _ Hlt) as [th0 Hy0].
      destruct (step_thr_stable _ _ _ _ _ _ _ Hst Hy0) as (th' & Hy' & _ & Hp' & _).
      rewrite Hy in Hy'; injection Hy' as <-. rewrite Hp' in Hp.
      eapply anc_up; eauto.
  Qed.

  (* once a set of threads has returned, they and all their descendants stay silent for ever *)
  Theorem returned_subtrees_silent s1 hs :
    hb_state s1 -> (forall h, In h hs -> exists v, fin s1 h (Some v)) ->
    forall sched, let s2 := run_thr sched s1 in
    exists tnew, trace s2 = tnew ++ trace s1 /\
      forall x, In x tnew -> forall h, In h hs -> fst x <> h /\ ~ anc s2 (fst x) h.
  Proof.
    intros Hhb Hret sched.
    cut ((fun s => hb_state s /\ (forall h, In h hs -> exists v, fin s h (Some v)) /\
            exists tnew, trace s = tnew ++ trace s1 /\
              forall x, In x tnew -> fst x < List.length (pool s) /\
                forall h, In h hs -> fst x <> h /\ ~ anc s (fst x) h) (run_thr sched s1)).
    { intros (_ & _ & tnew & Htr & Hall). exists tnew. split; [exact Htr|]. intros x Hx. now apply Hall. }
    apply run_thr_invariant.
    - intros i s s' (Hs & Hr & tnew & Htr & Hall) Hst.
      pose proof (step_length _ _ _ _ _ Hst) as Hlen.
      assert (Hr' : forall h, In h hs -> exists v, fin s' h (Some v)).
      { intros h Hh. destruct (Hr h Hh) as [v Hv]. exists v. eapply step_fin_stable; eauto. }
      split; [eapply hb_step; eauto|]. split; [exact Hr'|].
      assert (Hold : forall x, In x tnew -> fst x < List.length (pool s') /\
                       forall h, In h hs -> fst x <> h /\ ~ anc s' (fst x) h).
      { intros x Hx. destruct (Hall x Hx) as [Hlt Hh]. split; [lia|].
        intros h Hin. destruct (Hh h Hin) as [Hne Hna]. split; [exact Hne|].
        intros Ha. apply Hna. eapply anc_backward; eauto. apply Hs. }
      destruct (step_trace _ _ _ _ _ Hst) as [E|[e E]]; rewrite E, Htr.
      + exists tnew. split; [reflexivity|exact Hold].
      + exists ((i, e) :: tnew). split; [reflexivity|]. intros x [<-|Hx]; [|now apply Hold]. cbn.
        pose proof (step_unfinished _ _ _ _ _ Hst) as Hun.
        assert (Hil : i < List.length (pool s)).
        { destruct Hun as (th & Hth & _). eapply nth_error_Some_lt; eauto. }
        split; [lia|]. intros h Hin. destruct (Hr h Hin) as [v Hv]. split.
        * intros ->. eapply fin_not_unfinished; eauto.
        * intros Ha. apply (anc_backward _ _ _ _ _ Hst (proj1 Hs) Hil) in Ha.
          destruct (returned_means_descendants_returned _ _ _ Hs Hv _ Ha) as [v' Hv'].
          eapply fin_not_unfinished; eauto.
    - split; [exact Hhb|]. split; [exact Hret|]. exists []. split; [reflexivity|intros x []].
  Qed.

  (* ---------------------------------------------------------------- *)
  (** ** The barrier for a block with nested blocks inside its children  *)

  Context {B : Type}.
  Variable post : option val -> B + N.
  Variable nts : list (string * comp val).
  Variable K : list B -> comp val.
  Variable s0 : state.
  Variable c : nat.
  Hypothesis Hstrict : strict_post post.
  Hypothesis Hhb0 : hb_state s0.
  Hypothesis Hc0 : ccode wstate c s0 (gblock post nts K).

  Lemma joined_strict_returned s hs bs h :
    joined wstate post s hs bs -> In h hs -> exists v, fin s h (Some v).
  Proof.
    intros Hj Hin. destruct (joined_fin _ _ _ _ _ _ Hj Hin) as (r & b & Hf & Hp).
    destruct r as [v|]; [eauto|]. destruct Hstrict as [n Hn]. congruence.
  Qed.

  (* (a) NESTED BARRIER, state form: the caller makes an event after the block only when every
     child AND every descendant of a child (threads of nested blocks, at any depth) has returned. *)
  Theorem nested_barrier sched :
    let s := run_thr sched s0 in
    forall tnew x, trace s = tnew ++ trace s0 -> In x tnew -> fst x = c ->
    exists hs, kids wstate s0 c s hs nts /\
      forall h, In h hs -> forall y, y = h \/ anc s y h -> exists v, fin s y (Some v).
  Proof.
    intros s tnew x Htr Hin Hx.
    destruct (barrier_events _ handle _ _ _ _ _ Hc0 sched tnew x Htr Hin Hx) as (hs & bs & Hk & Hj).
    exists hs. split; [exact Hk|]. intros h Hh y Hy.
    destruct (joined_strict_returned _ _ _ _ Hj Hh) as [v Hv].
    destruct Hy as [->|Ha]; [eauto|].
    eapply returned_means_descendants_returned; eauto. now apply hb_reachable.
  Qed.

  (* (a) NESTED BARRIER, trace form.  Let sched1 lead to ANY state s1 in which the caller has left
     the block (all n children joined; before that the caller was silent, theorem [barrier_trace]).
     Then under every continuation sched2 no child and no descendant of a child makes any further
     trace entry: all their entries precede s1, hence precede every entry the caller makes after
     the block. *)
  Theorem nested_barrier_trace sched1 hs bs :
    let s1 := run_thr sched1 s0 in
    kids wstate s0 c s1 hs nts -> joined wstate post s1 hs bs ->
    forall sched2, let s2 := run_thr sched2 s1 in
    exists tnew, trace s2 = tnew ++ trace s1 /\
      forall x, In x tnew -> forall h, In h hs -> fst x <> h /\ ~ anc s2 (fst x) h.
  Proof.
    intros s1 Hk Hj sched2. apply returned_subtrees_silent.
    - now apply hb_reachable.
    - intros h Hh. eapply joined_strict_returned; eauto.
  Qed.
End Nested.

Print Assumptions returned_means_descendants_returned.
Print Assumptions returned_subtrees_silent.
Print Assumptions nested_barrier.
Print Assumptions nested_barrier_trace.

(* ---- Examples for section 10 (nesting): hypotheses are satisfiable, the machine runs ---- *)
Module ExNested.
  Import ExBlock.
  (* hereditarily block-structured code (theorems of section 10): a block whose first child
     contains a block *)
  Definition inner : comp val := ublock ["x"; "y"] [child 4; child 5] (fun vs => Ret (VTuple vs)).
  Definition progN : comp val := ublock ["p"; "q"] [inner; child 6] (fun vs => call 8 (fun _ => Ret (VTuple vs))).

  Lemma hb_call n k : (forall v, hb (k v)) -> hb (call n k).
  Proof. intros H. now constructor. Qed.
  Lemma hb_child n : hb (child n).
  Proof. apply hb_call; intros v. apply hb_call; intros _. constructor. Qed.
  Example progN_hb : hb progN.
  Proof.
    unfold progN, ublock. apply hb_block; [discriminate|apply unwrap_post_strict| |].
    - apply Forall_cons; [|apply Forall_cons; [apply hb_child|apply Forall_nil]].
      change (hb inner). unfold inner, ublock. apply hb_block; [discriminate|apply unwrap_post_strict| |].
      + apply Forall_cons; [apply hb_child|apply Forall_cons; [apply hb_child|apply Forall_nil]].
      + intros vs. constructor.
    - intros vs. apply hb_call. intros _. constructor.
  Qed.
  Example progN_hb_state : hb_state nat (init None progN 0).
  Proof. apply hb_init, progN_hb. Qed.
  Example run_nested :
    let s := run_fuel w_handle 20 (init None progN 0) in
    finished s = true /\ List.length (pool s) = 5 /\
    map th_parent (pool s) = [None; Some 0; Some 0; Some 1; Some 1].
  Proof. vm_compute. repeat split; reflexivity. Qed.
End ExNested.

(* ================================================================== *)
(** * 11. (f) Schedule independence for a world of per-thread components (partial: one block) *)
(* ================================================================== *)

Lemma firstn_snoc {A} (l : list A) m x : nth_error l m = Some x -> firstn (S m) l = firstn m l ++ [x].
Proof.
  revert m; induction l as [|a l IH]; intros [|m] H; cbn in *; try discriminate.
  - now injection H as ->.
  - f_equal. now apply IH.
Qed.

Lemma skipn_nth {A} (l : list A) j x : nth_error l j = Some x -> skipn j l = x :: skipn (S j) l.
Proof.
  revert j; induction l as [|a l IH]; intros [|j] H; cbn in *; try discriminate.
  - now injection H as ->.
  - now apply IH.
Qed.

Lemma NoDup_map_nth {A B} (f : A -> B) l i j a b :
  NoDup (map f l) -> nth_error l i = Some a -> nth_error l j = Some b -> f a = f b -> i = j.
Proof.
  intros Hnd Hi Hj Hf.
  apply (map_nth_error f) in Hi. apply (map_nth_error f) in Hj. rewrite Hf in Hi.
  eapply NoDup_nth_error; eauto. - eapply nth_error_Some_lt; eauto. - congruence.
Qed.

(* only events: no Spawn, no Join *)
Fixpoint visonly (c : comp val) : Prop :=
  match c with
  | Ret _ | Panic _ => True
  | Vis e k => forall v, visonly (k v)
  | _ => False
  end.

Lemma visonly_vis_next k r : (forall v, visonly (k v)) -> visonly (vis_next k r).
Proof. intros H. destruct r; cbn; auto. Qed.

Definition evs_of (i : nat) (t : list (nat * ev)) : list ev :=
  rev (map snd (filter (fun p => Nat.eqb (fst p) i) t)).

Lemma evs_of_cons_same i e t : evs_of i ((i, e) :: t) = evs_of i t ++ [e].
Proof. unfold evs_of. cbn. now rewrite Nat.eqb_refl. Qed.
Lemma evs_of_cons_other i j e t : j <> i -> evs_of i ((j, e) :: t) = evs_of i t.
Proof. intros H. unfold evs_of. cbn. apply Nat.eqb_neq in H. now rewrite H. Qed.
Lemma evs_of_none i t : (forall x, In x t -> fst x <> i) -> evs_of i t = [].
Proof.
  intros H. unfold evs_of. induction t as [|x t IH]; [reflexivity|]. cbn.
  destruct (Nat.eqb_spec (fst x) i) as [E|E]; [exfalso; eapply H; [now left|exact E]|].
  apply IH. intros y Hy. apply H. now right.
Qed.

Section Independent.
  Variable cstate : Type.
  (* the per-thread component of the world: thread NAME, event, that thread's own state *)
  Variable h : option string -> ev -> cstate -> option val * cstate.

  Definition name_eqb (a b : option string) : bool :=
    match a, b with
    | Some x, Some y => String.eqb x y
    | None, None => true
    | _, _ => false
    end.
  Lemma name_eqb_spec a b : name_eqb a b = true <-> a = b.
  Proof.
    destruct a as [x|], b as [y|]; cbn; split; try discriminate; auto.
    - intros H. apply String.eqb_eq in H. now subst.
    - intros H. injection H as ->. apply String.eqb_refl.
  Qed.

  (* THE PRODUCT WORLD: one component per thread name; an event of a thread named nm reads and
     writes the component nm only - threads with different names do not communicate *)
  Definition pworld := option string -> cstate.
  Definition pw_handle (nm : option string) (e : ev) (w : pworld) : option val * pworld :=
    let rs := h nm e (w nm) in
    (fst rs, fun n => if name_eqb n nm then snd rs else w n).

  Lemma answer_pw nm e w :
    fst (answer pw_handle nm e w) = fst (answer h nm e (w nm)) /\
    snd (answer pw_handle nm e w) nm = snd (answer h nm e (w nm)) /\
    forall n, n <> nm -> snd (answer pw_handle nm e w) n = w n.
  Proof.
    assert (Hrefl : name_eqb nm nm = true) by now apply name_eqb_spec.
    assert (Hne : forall n, n <> nm -> name_eqb n nm = false).
    { intros n Hn. destruct (name_eqb n nm) eqn:E; [|reflexivity]. apply name_eqb_spec in E. contradiction. }
    destruct e; cbn; rewrite ?Hrefl; repeat split; auto; intros n Hn; now rewrite (Hne n Hn).
  Qed.

  (* the reference: an events-only computation run ALONE on its own component *)
  Fixpoint seq_run (nm : option string) (c : comp val) (sg : cstate) : option val * cstate * list ev :=
    match c with
    | Ret v => (Some v, sg, [])
    | Panic _ => (None, sg, [])
    | Vis e k =>
        let a := answer h nm e sg in
        match fst a with
        | Some v => let r := seq_run nm (k v) (snd a) in (fst (fst r), snd (fst r), e :: snd r)
        | None => (None, snd a, [e])
        end
    | _ => (None, sg, [])
    end.

  (* a thread in the pool is on track towards the reference result [exp]: what it has done
     ([done]) followed by what it will do alone from here is the reference run *)
  Definition tracks (nm : option string) (code : comp val) (sg : cstate) (done : list ev)
             (exp : option val * cstate * list ev) : Prop :=
    exists rest, seq_run nm code sg = (fst (fst exp), snd (fst exp), rest) /\ snd exp = done ++ rest.

  Lemma tracks_start nm code sg : tracks nm code sg [] (seq_run nm code sg).
  Proof. exists (snd (seq_run nm code sg)). split; [|reflexivity]. now destruct (seq_run nm code sg) as [[o s'] evs]. Qed.

  Lemma tracks_step nm e k sg done exp :
    tracks nm (Vis e k) sg done exp ->
    tracks nm (vis_next k (fst (answer h nm e sg))) (snd (answer h nm e sg)) (done ++ [e]) exp.
  Proof.
    intros (rest & Hr & He). cbn in Hr. destruct (fst (answer h nm e sg)) as [v|]; cbn [vis_next].
    - injection Hr as H1 H2 H3. exists (snd (seq_run nm (k v) (snd (answer h nm e sg)))). split.
      + destruct (seq_run nm (k v) (snd (answer h nm e sg))) as [[o s'] evs]. cbn in *. congruence.
      + rewrite He, <- H3, <- app_assoc. reflexivity.
    - injection Hr as H1 H2 H3. exists []. split; [cbn; congruence|].
      rewrite He, <- H3, <- app_assoc. reflexivity.
  Qed.

  Lemma tracks_fin nm c sg done exp r :
    tracks nm c sg done exp -> outcome c = Some r -> r = fst (fst exp) /\ done = snd exp.
  Proof.
    intros (rest & Hr & He) Ho. destruct c; cbn in *; try discriminate;
      injection Ho as <-; injection Hr as H1 H2 H3; subst rest; rewrite app_nil_r in He; auto.
  Qed.

  Notation state := (state pworld).
  Notation step_thr := (step_thr pw_handle).
  Notation run_thr := (run_thr pw_handle).
  Notation step_rel := (step_rel pworld pw_handle).
  Notation thr := (thr_of pworld).
  Notation fin := (fin pworld).
  Notation unfinished := (unfinished pworld).

  Context {B : Type}.
  Variable post : option val -> B + N.
  Variable nts : list (string * comp val).
  Variable K : list B -> comp val.
  Variable s0 : state.
  Variable c : nat.
  Variable cn : option string.       (* the caller's name *)
  Variable th0 : thread.

  Hypothesis Hc0 : thr s0 c = Some th0.
  Hypothesis Hcn0 : th_name th0 = cn.
  Hypothesis Hcode0 : th_code th0 = gblock post nts K.
  Hypothesis Hothers : forall x, x <> c -> ~ unfinished s0 x.     (* nobody else is running *)
  Hypothesis Hnames : NoDup (map fst nts).                         (* the children's names differ *)
  Hypothesis Hcname : forall nt, In nt nts -> Some (fst nt) <> cn. (* and differ from the caller's *)
  Hypothesis Hvis : Forall (fun nt => visonly (snd nt)) nts.       (* children: events only *)
  Hypothesis HK : forall bs, visonly (K bs).                       (* continuation: events only *)

  Let L0 := List.length (pool s0).
  Let n := List.length nts.

  (* what child nt does when run alone on its own component of the initial world *)
  Definition expected (nt : string * comp val) : option val * cstate * list ev :=
    seq_run (Some (fst nt)) (snd nt) (world s0 (Some (fst nt))).
  Definition outcomes : list (option val) := map (fun nt => fst (fst (expected nt))) nts.

  Fixpoint posts (os : list (option val)) : list B + N :=
    match os with
    | [] => inl []
    | o :: r => match post o with
                | inl b => match posts r with inl bs => inl (b :: bs) | inr m => inr m end
                | inr m => inr m
                end
    end.

  (* what the caller does: the block is silent; then K on the joined values, alone on ITS component *)
  Definition caller_expected : option val * cstate * list ev :=
    match posts outcomes with
    | inl bs => seq_run cn (K bs) (world s0 cn)
    | inr _ => (None, world s0 cn, [])
    end.

  Lemma posts_all os bs : Forall2 (fun o b => post o = inl b) os bs -> posts os = inl bs.
  Proof. induction 1 as [|o b os bs Hob HF IH]; cbn; [reflexivity|]. now rewrite Hob, IH. Qed.

  Lemma posts_fail os m bs o n0 :
    Forall2 (fun o b => post o = inl b) (firstn m os) bs -> nth_error os m = Some o ->
    post o = inr n0 -> posts os = inr n0.
  Proof.
    revert m bs. induction os as [|o' os IH]; intros [|m] bs HF Hn Hp; cbn in *; try discriminate.
    - injection Hn as ->. now rewrite Hp.
    - inversion HF as [|? b ? bs' Hob HF']; subst. rewrite Hob. now rewrite (IH m bs' HF' Hn Hp).
  Qed.

  Definition ccode' (s : state) (d : comp val) : Prop :=
    exists th, thr s c = Some th /\ th_name th = cn /\ th_code th = d.

  Definition caller_quiet (s : state) (tnew : list (nat * ev)) : Prop :=
    world s cn = world s0 cn /\ evs_of c tnew = [].

  Inductive cphase (s : state) (tnew : list (nat * ev)) (j : nat) : Prop :=
  | CP_spawn :
      j < n ->
      ccode' s (spawn_all_acc (skipn j nts) (rev (seq L0 j)) (fun hs => join_all_acc post hs [] K)) ->
      caller_quiet s tnew -> cphase s tnew j
  | CP_join m bs :
      j = n -> m < n -> Forall2 (fun o b => post o = inl b) (firstn m outcomes) bs ->
      ccode' s (join_all_acc post (seq (L0 + m) (n - m)) (rev bs) K) ->
      caller_quiet s tnew -> cphase s tnew j
  | CP_past bs th :
      j = n -> posts outcomes = inl bs ->
      thr s c = Some th -> th_name th = cn -> visonly (th_code th) ->
      tracks cn (th_code th) (world s cn) (evs_of c tnew) (seq_run cn (K bs) (world s0 cn)) ->
      cphase s tnew j
  | CP_fail n0 :
      j = n -> posts outcomes = inr n0 -> ccode' s (Panic n0) -> caller_quiet s tnew -> cphase s tnew j.

  Definition kid_ok (s : state) (tnew : list (nat * ev)) (i : nat) (nt : string * comp val) : Prop :=
    exists th, thr s (L0 + i) = Some th /\ th_name th = Some (fst nt) /\ visonly (th_code th) /\
      tracks (Some (fst nt)) (th_code th) (world s (Some (fst nt))) (evs_of (L0 + i) tnew) (expected nt).

  Record finv (s : state) (tnew : list (nat * ev)) (j : nat) : Prop := {
    f_trace : trace s = tnew ++ trace s0;
    f_exist : forall x, In x tnew -> fst x < List.length (pool s);
    f_j : j <= n;
    f_len : List.length (pool s) = L0 + j;
    f_old : forall x, x < L0 -> x <> c -> thr s x = thr s0 x;
    f_kids : forall i nt, i < j -> nth_error nts i = Some nt -> kid_ok s tnew i nt;
    f_unborn : forall i nt, j <= i -> nth_error nts i = Some nt ->
                            world s (Some (fst nt)) = world s0 (Some (fst nt));
    f_caller : cphase s tnew j
  }.

  Lemma c_lt_L0 : c < L0.
  Proof. eapply nth_error_Some_lt; eauto. Qed.

  Lemma finv_init : finv s0 [] 0.
  Proof.
    constructor.
    - reflexivity.
    - intros x [].
    - lia.
    - fold L0. lia.
    - reflexivity.
    - intros i nt Hi. lia.
    - reflexivity.
    - unfold gblock in Hcode0. destruct (Nat.eq_dec n 0) as [E|E].
      + assert (En : nts = []) by (apply length_zero_iff_nil; exact E).
        apply (CP_past _ _ _ [] th0); auto.
        * unfold outcomes. now rewrite En.
        * rewrite Hcode0, En. apply HK.
        * rewrite Hcode0, En. cbn. apply tracks_start.
      + apply CP_spawn.
        * lia.
        * exists th0. cbn. auto.
        * split; reflexivity.
  Qed.

  (* a step that leaves the caller's thread, its component and its events alone *)
  Lemma cphase_frame s s' tnew tnew' j :
    thr s' c = thr s c -> world s' cn = world s cn -> evs_of c tnew' = evs_of c tnew ->
    cphase s tnew j -> cphase s' tnew' j.
  Proof.
    intros Ht Hw He Hp.
    assert (Hcc : forall d, ccode' s d -> ccode' s' d).
    { intros d (th & H1 & H2). exists th. rewrite Ht. auto. }
    assert (Hq : caller_quiet s tnew -> caller_quiet s' tnew').
    { intros [H1 H2]. split; congruence. }
    destruct Hp as [Hj Hc Hqq|m bs Hj Hm HF Hc Hqq|bs th Hj Hps Hth Hn Hv Htr|n0 Hj Hps Hc Hqq].
    - apply CP_spawn; auto.
    - eapply CP_join; eauto.
    - eapply CP_past; eauto; [congruence|]. now rewrite Hw, He.
    - eapply CP_fail; eauto.
  Qed.

  Lemma nth_nts_In i nt : nth_error nts i = Some nt -> In nt nts.
  Proof. apply nth_error_In. Qed.

  Lemma names_differ i i' nt nt' :
    nth_error nts i = Some nt -> nth_error nts i' = Some nt' -> i <> i' -> Some (fst nt) <> Some (fst nt').
  Proof. intros Hi Hi' Hne E. injection E as E. apply Hne. eapply NoDup_map_nth; eauto. Qed.

  (* an events-only thread i named nm makes a step: everything about it is determined by its
     component; the other components are untouched *)
  Lemma vis_step_shape i s s' th :
    step_rel i s s' -> thr s i = Some th -> visonly (th_code th) ->
    exists e k,
      th_code th = Vis e k /\ (forall v, visonly (k v)) /\
      let a := answer h (th_name th) e (world s (th_name th)) in
      pool s' = upd (pool s) i (set_code th (vis_next k (fst a))) /\
      world s' (th_name th) = snd a /\
      (forall nm', nm' <> th_name th -> world s' nm' = world s nm') /\
      trace s' = (i, e) :: trace s.
  Proof.
    intros Hst Hth Hv.
    destruct Hst as [th1 e k r w' Hth1 Hc1 Ha ->|th1 name t k Hth1 Hc1 ->|th1 h1 k th' r Hth1 Hc1 Hth' Ho ->];
      rewrite Hth in Hth1; injection Hth1 as <-; rewrite Hc1 in Hv; cbn in Hv; try contradiction.
    exists e, k. split; [exact Hc1|]. split; [exact Hv|]. cbn.
    destruct (answer_pw (th_name th) e (world s)) as (H1 & H2 & H3). rewrite Ha in H1, H2, H3. cbn in *.
    rewrite <- H1. repeat split; auto.
  Qed.

  Lemma finv_step i s s' tnew j :
    finv s tnew j -> step_rel i s s' -> exists tnew' j', finv s' tnew' j'.
  Proof.
    intros Hf Hst.
    pose proof c_lt_L0 as HcL.
    pose proof (step_unfinished _ _ _ _ _ Hst) as Hun.
    assert (Hil : i < L0 + j).
    { destruct Hun as (th & Hth & _). rewrite <- (f_len _ _ _ Hf). eapply nth_error_Some_lt; eauto. }
    destruct (Nat.eq_dec i c) as [->|Hic].
    - (* ---------------- the caller steps ---------------- *)
      destruct (f_caller _ _ _ Hf) as [Hj Hc Hq|m bs Hj Hm HF Hc Hq|bs th Hj Hps Hth Hn Hv Htr|n0 Hj Hps Hc Hq].
      + (* spawning *)
        destruct Hc as (th & Hth & Hn & Hcode).
        assert (Hnt : exists nt, nth_error nts j = Some nt).
        { destruct (nth_error nts j) eqn:E; [eauto|]. apply nth_error_None in E. fold n in E. lia. }
        destruct Hnt as [nt Hnt]. rewrite (skipn_nth _ _ _ Hnt) in Hcode. cbn [spawn_all_acc] in Hcode.
        destruct Hst as [th1 e k r w' Hth1 Hc1 Ha Es'|th1 name t k Hth1 Hc1 Es'|th1 h1 k th' r Hth1 Hc1 Hth' Ho Es'];
          rewrite Hth in Hth1; injection Hth1 as <-; rewrite Hcode in Hc1; try discriminate.
        injection Hc1 as <- <- <-.
        pose proof (f_len _ _ _ Hf) as Hlen. rewrite Hlen in Es'.
        assert (Hpool : pool s' = upd (pool s) c (set_code th
                   (spawn_all_acc (skipn (S j) nts) (rev (seq L0 (S j))) (fun hs => join_all_acc post hs [] K)))
                   ++ [mkThread (Some (fst nt)) (Some c) (snd nt)]).
        { subst s'. cbn [pool]. now rewrite seq_S, rev_unit. }
        assert (Hw : world s' = world s) by (subst s'; reflexivity).
        assert (Htr : trace s' = trace s) by (subst s'; reflexivity).
        assert (Hold : forall x, x < L0 + j -> x <> c -> thr s' x = thr s x).
        { intros x Hx Hne. unfold thr_of. rewrite Hpool.
          rewrite nth_error_app1 by (rewrite upd_length; lia). apply nth_error_upd_neq. congruence. }
        exists tnew, (S j). constructor.
        * rewrite Htr. apply (f_trace _ _ _ Hf).
        * intros x Hx. rewrite Hpool, app_length, upd_length. pose proof (f_exist _ _ _ Hf x Hx). lia.
        * lia.
        * rewrite Hpool, app_length, upd_length. cbn. lia.
        * intros x Hx Hne. rewrite Hold by lia. now apply (f_old _ _ _ Hf).
        * intros i nt' Hi Hnt'. destruct (Nat.eq_dec i j) as [->|Hij].
          -- rewrite Hnt in Hnt'; injection Hnt' as <-.
             exists (mkThread (Some (fst nt)) (Some c) (snd nt)). cbn. split; [|split; [reflexivity|split]].
             ++ unfold thr_of. rewrite Hpool. rewrite nth_error_app2 by (rewrite upd_length; lia).
                rewrite upd_length, Hlen, Nat.sub_diag. reflexivity.
             ++ rewrite Forall_forall in Hvis. apply Hvis. eapply nth_nts_In; eauto.
             ++ rewrite Hw, (f_unborn _ _ _ Hf j nt (le_n _) Hnt).
                rewrite evs_of_none; [apply tracks_start|].
                intros x Hx. pose proof (f_exist _ _ _ Hf x Hx). lia.
          -- assert (Hi' : i < j) by lia.
             destruct (f_kids _ _ _ Hf i nt' Hi' Hnt') as (thi & H1 & H2 & H3 & H4).
             exists thi. rewrite Hold by lia. rewrite Hw. auto.
        * intros i nt' Hi Hnt'. rewrite Hw. apply (f_unborn _ _ _ Hf i nt'); [lia|exact Hnt'].
        * assert (Hcc : forall d, d = spawn_all_acc (skipn (S j) nts) (rev (seq L0 (S j)))
                                        (fun hs => join_all_acc post hs [] K) -> ccode' s' d).
          { intros d ->.
            exists (set_code th (spawn_all_acc (skipn (S j) nts) (rev (seq L0 (S j)))
                                               (fun hs => join_all_acc post hs [] K))).
            split; [|split; [exact Hn|reflexivity]].
            unfold thr_of. rewrite Hpool. rewrite nth_error_app1 by (rewrite upd_length; lia).
            apply nth_error_upd_eq. lia. }
          assert (Hq' : caller_quiet s' tnew) by (destruct Hq; split; [now rewrite Hw|assumption]).
          destruct (Nat.eq_dec (S j) n) as [E|E].
          -- apply (CP_join _ _ _ 0 []); auto; try lia. { constructor. }
             apply Hcc. replace (skipn (S j) nts) with (@nil (string * comp val))
               by (rewrite E; symmetry; apply skipn_all).
             cbn [spawn_all_acc]. rewrite rev_involutive, Nat.add_0_r, Nat.sub_0_r, E. reflexivity.
          -- apply CP_spawn; auto. lia.
      + (* joining *)
        destruct Hc as (th & Hth & Hn & Hcode).
        assert (Eq : n - m = S (n - S m)) by lia. rewrite Eq in Hcode. cbn in Hcode.
        destruct Hst as [th1 e k r w' Hth1 Hc1 Ha Es'|th1 name t k Hth1 Hc1 Es'|th1 h1 k th' r Hth1 Hc1 Hth' Ho Es'];
          rewrite Hth in Hth1; injection Hth1 as <-; rewrite Hcode in Hc1; try discriminate.
        injection Hc1 as <- <-.
        assert (Hnt : exists nt, nth_error nts m = Some nt).
        { destruct (nth_error nts m) eqn:E; [eauto|]. apply nth_error_None in E. fold n in E. lia. }
        destruct Hnt as [nt Hnt].
        assert (Hmj : m < j) by lia.
        destruct (f_kids _ _ _ Hf m nt Hmj Hnt) as (thm & Hm1 & Hm2 & Hm3 & Hm4).
        rewrite Hth' in Hm1; injection Hm1 as <-.
        destruct (tracks_fin _ _ _ _ _ _ Hm4 Ho) as [Hr _].
        assert (Hom : nth_error outcomes m = Some r).
        { unfold outcomes. rewrite (map_nth_error _ _ _ Hnt). now rewrite Hr. }
        assert (Hw : world s' = world s) by (subst s'; reflexivity).
        assert (Htr : trace s' = trace s) by (subst s'; reflexivity).
        assert (Hpool : pool s' = upd (pool s) c (set_code th
                   (match post r with
                    | inl b => join_all_acc post (seq (S (L0 + m)) (n - S m)) (b :: rev bs) K
                    | inr n1 => Panic n1 end))) by (subst s'; reflexivity).
        assert (Hold : forall x, x <> c -> thr s' x = thr s x).
        { intros x Hne. unfold thr_of. rewrite Hpool. apply nth_error_upd_neq. congruence. }
        assert (Hcl : c < List.length (pool s)) by (eapply nth_error_Some_lt; eauto).
        exists tnew, j. constructor.
        * rewrite Htr. apply (f_trace _ _ _ Hf).
        * intros x Hx. rewrite Hpool, upd_length. apply (f_exist _ _ _ Hf x Hx).
        * apply (f_j _ _ _ Hf).
        * rewrite Hpool, upd_length. apply (f_len _ _ _ Hf).
        * intros x Hx Hne. rewrite Hold by exact Hne. now apply (f_old _ _ _ Hf).
        * intros i nt' Hi Hnt'. destruct (f_kids _ _ _ Hf i nt' Hi Hnt') as (thi & H1 & H2 & H3 & H4).
          exists thi. rewrite Hold by lia. rewrite Hw. auto.
        * intros i nt' Hi Hnt'. rewrite Hw. exact (f_unborn _ _ _ Hf i nt' Hi Hnt').
        * assert (Hcc : forall d, d = match post r with
                    | inl b => join_all_acc post (seq (S (L0 + m)) (n - S m)) (b :: rev bs) K
                    | inr n1 => Panic n1 end -> thr s' c = Some (set_code th d)).
          { intros d ->. unfold thr_of. rewrite Hpool. now apply nth_error_upd_eq. }
          assert (Hq' : caller_quiet s' tnew) by (destruct Hq; split; [now rewrite Hw|assumption]).
          destruct (post r) as [b|n1] eqn:Ep.
          -- assert (HF' : Forall2 (fun o b => post o = inl b) (firstn (S m) outcomes) (bs ++ [b])).
             { rewrite (firstn_snoc _ _ _ Hom). apply Forall2_app; [exact HF|]. now constructor. }
             destruct (Nat.eq_dec (S m) n) as [E|E].
             ++ (* last join *)
                assert (Hall : posts outcomes = inl (bs ++ [b])).
                { apply posts_all. rewrite E in HF'. unfold n, outcomes in HF'.
                  rewrite <- (map_length (fun nt => fst (fst (expected nt))) nts), firstn_all in HF'. exact HF'. }
                destruct Hq' as [Hq1 Hq2].
                assert (Ed : join_all_acc post (seq (S (L0 + m)) (n - S m)) (b :: rev bs) K = K (bs ++ [b])).
                { replace (n - S m) with 0 by lia. cbn. now rewrite rev_involutive. }
                rewrite Ed in Hcc.
                apply (CP_past _ _ _ (bs ++ [b]) (set_code th (K (bs ++ [b])))).
                ** exact Hj.
                ** exact Hall.
                ** now apply Hcc.
                ** exact Hn.
                ** cbn. apply HK.
                ** cbn. rewrite Hq1, Hq2. apply tracks_start.
             ++ eapply (CP_join _ _ _ (S m) (bs ++ [b])); eauto; try lia.
                eexists. split; [apply Hcc; reflexivity|]. split; [exact Hn|]. cbn.
                rewrite rev_unit. replace (L0 + S m) with (S (L0 + m)) by lia. reflexivity.
          -- eapply CP_fail; eauto.
             ++ eapply posts_fail; eauto.
             ++ eexists. split; [apply Hcc; reflexivity|]. auto.
      + (* past the block: an event of K *)
        destruct (vis_step_shape _ _ _ _ Hst Hth Hv) as (e & k & Hcode & Hk & Hpool & Hw1 & Hw2 & Htr').
        rewrite Hn in *. set (a := answer h cn e (world s cn)) in *.
        assert (Hcl : c < List.length (pool s)) by (eapply nth_error_Some_lt; eauto).
        assert (Hold : forall x, x <> c -> thr s' x = thr s x).
        { intros x Hne. unfold thr_of. rewrite Hpool. apply nth_error_upd_neq. congruence. }
        exists ((c, e) :: tnew), j. constructor.
        * rewrite Htr', (f_trace _ _ _ Hf). reflexivity.
        * intros x [<-|Hx]; rewrite Hpool, upd_length; [exact Hcl|apply (f_exist _ _ _ Hf x Hx)].
        * apply (f_j _ _ _ Hf).
        * rewrite Hpool, upd_length. apply (f_len _ _ _ Hf).
        * intros x Hx Hne. rewrite Hold by exact Hne. now apply (f_old _ _ _ Hf).
        * intros i nt' Hi Hnt'. destruct (f_kids _ _ _ Hf i nt' Hi Hnt') as (thi & H1 & H2 & H3 & H4).
          exists thi. rewrite Hold by lia. rewrite evs_of_cons_other by lia.
          rewrite Hw2 by (apply Hcname; eapply nth_nts_In; eauto). auto.
        * intros i nt' Hi Hnt'. rewrite Hw2 by (apply Hcname; eapply nth_nts_In; eauto).
          exact (f_unborn _ _ _ Hf i nt' Hi Hnt').
        * eapply (CP_past _ _ _ bs (set_code th (vis_next k (fst a)))); eauto.
          -- unfold thr_of. rewrite Hpool. now apply nth_error_upd_eq.
          -- cbn. now apply visonly_vis_next.
          -- cbn [th_code set_code]. rewrite Hw1, evs_of_cons_same. apply tracks_step. now rewrite <- Hcode.
      + (* failed: the caller is finished *)
        exfalso. destruct Hc as (th & Hth & _ & Hcode). destruct Hun as (th1 & Hth1 & Ho).
        rewrite Hth in Hth1; injection Hth1 as <-. rewrite Hcode in Ho. discriminate.
    - destruct (Nat.lt_ge_cases i L0) as [HiL|HiL].
      + (* ---------------- an old thread: finished ---------------- *)
        exfalso. apply (Hothers i Hic). destruct Hun as (th & Hth & Ho).
        rewrite (f_old _ _ _ Hf i HiL Hic) in Hth. exists th; auto.
      + (* ---------------- child k steps ---------------- *)
        set (k := i - L0). assert (Ei : i = L0 + k) by lia. assert (Hkj : k < j) by lia.
        assert (Hnt : exists nt, nth_error nts k = Some nt).
        { destruct (nth_error nts k) eqn:E; [eauto|]. apply nth_error_None in E. fold n in E.
          pose proof (f_j _ _ _ Hf). lia. }
        destruct Hnt as [nt Hnt].
        destruct (f_kids _ _ _ Hf k nt Hkj Hnt) as (th & Hth & Hname & Hv & Htrk).
        rewrite <- Ei in Hth, Htrk.
        destruct (vis_step_shape _ _ _ _ Hst Hth Hv) as (e & kk & Hcode & Hk & Hpool & Hw1 & Hw2 & Htr').
        rewrite Hname in *. set (a := answer h (Some (fst nt)) e (world s (Some (fst nt)))) in *.
        assert (Hcl : i < List.length (pool s)) by (eapply nth_error_Some_lt; eauto).
        assert (Hold : forall x, x <> i -> thr s' x = thr s x).
        { intros x Hne. unfold thr_of. rewrite Hpool. apply nth_error_upd_neq. congruence. }
        exists ((i, e) :: tnew), j. constructor.
        * rewrite Htr', (f_trace _ _ _ Hf). reflexivity.
        * intros x [<-|Hx]; rewrite Hpool, upd_length; [exact Hcl|apply (f_exist _ _ _ Hf x Hx)].
        * apply (f_j _ _ _ Hf).
        * rewrite Hpool, upd_length. apply (f_len _ _ _ Hf).
        * intros x Hx Hne. rewrite Hold by lia. now apply (f_old _ _ _ Hf).
        * intros i' nt' Hi' Hnt'. destruct (Nat.eq_dec i' k) as [->|Hne].
          -- rewrite Hnt in Hnt'; injection Hnt' as <-. unfold kid_ok. rewrite <- Ei.
             exists (set_code th (vis_next kk (fst a))). cbn [th_name th_code set_code].
             split; [|split; [exact Hname|split]].
             ++ unfold thr_of. rewrite Hpool. now apply nth_error_upd_eq.
             ++ now apply visonly_vis_next.
             ++ cbn [th_code set_code]. rewrite Hw1, evs_of_cons_same. apply tracks_step. now rewrite <- Hcode.
          -- destruct (f_kids _ _ _ Hf i' nt' Hi' Hnt') as (thi & H1 & H2 & H3 & H4).
             exists thi. rewrite Hold by lia. rewrite evs_of_cons_other by lia.
             rewrite Hw2 by (eapply names_differ; eauto). auto.
        * intros i' nt' Hi' Hnt'. rewrite Hw2 by (eapply names_differ; eauto; lia).
          exact (f_unborn _ _ _ Hf i' nt' Hi' Hnt').
        * eapply cphase_frame; [| | |apply (f_caller _ _ _ Hf)].
          -- apply Hold. congruence.
          -- apply Hw2. intros E. symmetry in E. revert E. apply Hcname. eapply nth_nts_In; eauto.
          -- apply evs_of_cons_other. exact Hic.
  Qed.

  Lemma finv_reachable sched : exists tnew j, finv (run_thr sched s0) tnew j.
  Proof.
    cut ((fun s => exists tnew j, finv s tnew j) (run_thr sched s0)); [auto|].
    apply run_thr_invariant.
    - intros i s s' (tnew & j & Hf) Hst. eapply finv_step; eauto.
    - exists [], 0. apply finv_init.
  Qed.

  (* (f), FULL STATEMENT (C07 `spawn_result_eq_sync`, NOT proved here):
       for every state s0 of the product world [pw_handle] in which all threads have pairwise distinct
       names at every moment they run concurrently, and every two schedules sched1 sched2 with
       finished (run_thr sched1 s0) = true and finished (run_thr sched2 s0) = true:
         result_of 0 (run_thr sched1 s0) = result_of 0 (run_thr sched2 s0), and for every thread NAME
         the sequence of events made under that name is the same in both runs
       - for arbitrary code (nested blocks, children that spawn and join).  This needs a diamond
       argument up to a renaming of thread indices (two threads that spawn in different orders get
       different handles, and handles are captured by HOAS continuations); it is not attempted.
       For hereditarily block-structured code (nested blocks of any depth, where handles only
       reach `Join`) it IS proved, in proofs/ThreadsIndep.v (schedule_independence_nested,
       two_schedules_agree_nested).
     What is proved HERE, for every schedule: *)
  (* (f), PARTIAL: ONE block whose children and continuation are events-only (no nested
     spawning/joining), product world, distinct names, nobody else running.  Under EVERY schedule:
     - at most the n children are ever created, child i is thread L0+i;
     - whenever child i is finished, its outcome and its own event sequence are those of running
       its body ALONE on its own component - they do not depend on the schedule;
     - whenever the caller is finished, its outcome and its own event sequence are the ones
       determined by those outcomes - they do not depend on the schedule. *)
  Theorem schedule_independence_partial sched :
    let s := run_thr sched s0 in
    exists tnew, trace s = tnew ++ trace s0 /\
      List.length (pool s) <= L0 + n /\
      (forall i nt r, nth_error nts i = Some nt -> fin s (L0 + i) r ->
         r = fst (fst (expected nt)) /\ evs_of (L0 + i) tnew = snd (expected nt)) /\
      (forall r, fin s c r ->
         r = fst (fst caller_expected) /\ evs_of c tnew = snd caller_expected).
  Proof.
    intros s. destruct (finv_reachable sched) as (tnew & j & Hf). fold s in Hf.
    exists tnew. split; [apply (f_trace _ _ _ Hf)|]. split.
    { rewrite (f_len _ _ _ Hf). pose proof (f_j _ _ _ Hf). lia. }
    split.
    - intros i nt r Hnt (th & Hth & Ho).
      assert (Hij : i < j).
      { apply nth_error_Some_lt in Hth. rewrite (f_len _ _ _ Hf) in Hth. lia. }
      destruct (f_kids _ _ _ Hf i nt Hij Hnt) as (thi & H1 & H2 & H3 & H4).
      rewrite Hth in H1; injection H1 as <-. eapply tracks_fin; eauto.
    - intros r (th & Hth & Ho). unfold caller_expected.
      destruct (f_caller _ _ _ Hf) as [Hj Hc Hq|m bs Hj Hm HF Hc Hq|bs th' Hj Hps Hth' Hn Hv Htr|n0 Hj Hps Hc Hq].
      + exfalso. destruct Hc as (th1 & Hth1 & _ & Hcode). rewrite Hth in Hth1; injection Hth1 as <-.
        rewrite Hcode in Ho. destruct (skipn j nts) eqn:E; [|discriminate].
        assert (List.length (skipn j nts) = n - j) by apply skipn_length. rewrite E in H. cbn in H. lia.
      + exfalso. destruct Hc as (th1 & Hth1 & _ & Hcode). rewrite Hth in Hth1; injection Hth1 as <-.
        rewrite Hcode in Ho. replace (n - m) with (S (n - S m)) in Ho by lia. discriminate.
      + rewrite Hps. rewrite Hth in Hth'; injection Hth' as <-. eapply tracks_fin; eauto.
      + rewrite Hps. destruct Hc as (th1 & Hth1 & _ & Hcode). rewrite Hth in Hth1; injection Hth1 as <-.
        rewrite Hcode in Ho. cbn in Ho. injection Ho as <-. destruct Hq as [_ Hq]. cbn. auto.
  Qed.

  (* the two-schedule form: any two schedules that finish the caller (a fortiori: that finish
     everything) agree on the caller's result, on the caller's own events and, for every child that
     is finished in both, on its result and its own events *)
  Corollary two_schedules_agree_partial sched1 sched2 :
    let s1 := run_thr sched1 s0 in let s2 := run_thr sched2 s0 in
    forall t1 t2, trace s1 = t1 ++ trace s0 -> trace s2 = t2 ++ trace s0 ->
    (forall r1 r2, fin s1 c r1 -> fin s2 c r2 -> r1 = r2 /\ evs_of c t1 = evs_of c t2) /\
    (forall i r1 r2, i < n -> fin s1 (L0 + i) r1 -> fin s2 (L0 + i) r2 ->
                     r1 = r2 /\ evs_of (L0 + i) t1 = evs_of (L0 + i) t2).
  Proof.
    intros s1 s2 t1 t2 Ht1 Ht2.
    destruct (schedule_independence_partial sched1) as (t1' & Ht1' & _ & Hk1 & Hc1).
    destruct (schedule_independence_partial sched2) as (t2' & Ht2' & _ & Hk2 & Hc2).
    fold s1 in Ht1', Hk1, Hc1. fold s2 in Ht2', Hk2, Hc2.
    rewrite Ht1 in Ht1'. apply app_inv_tail in Ht1'. subst t1'.
    rewrite Ht2 in Ht2'. apply app_inv_tail in Ht2'. subst t2'.
    split.
    - intros r1 r2 H1 H2. destruct (Hc1 _ H1) as [-> ->]. destruct (Hc2 _ H2) as [-> ->]. auto.
    - intros i r1 r2 Hi H1 H2.
      assert (Hnt : exists nt, nth_error nts i = Some nt).
      { destruct (nth_error nts i) eqn:E; [eauto|]. apply nth_error_None in E. fold n in E. lia. }
      destruct Hnt as [nt Hnt].
      destruct (Hk1 _ _ _ Hnt H1) as [-> ->]. destruct (Hk2 _ _ _ Hnt H2) as [-> ->]. auto.
  Qed.
End Independent.

Print Assumptions schedule_independence_partial.
Print Assumptions two_schedules_agree_partial.

(* ---- Examples for section 11 (schedule independence): hypotheses are satisfiable, the machine runs ---- *)
Module ExIndep.
  Import ExBlock.
  (* (f) a product world: every thread NAME has its own counter *)
  Definition c_handle (nm : option string) (e : ev) (sg : nat) : option val * nat :=
    match e with
    | ECall (VOpq n) _ => (Some (VInt (n + Z.of_nat sg)), S sg)
    | _ => (Some VUnit, S sg)
    end.
  Definition ntsI := combine ["a"; "b"; "c"] [child 1; child 2; child 3].
  Definition thI := mkThread (Some "main") None (block ["a"; "b"; "c"] [child 1; child 2; child 3] K3).
  Definition sI : state (pworld nat) := mkState [thI] (fun _ => 0) [].

  (* the same two schedules as above, now with the SAME result: *)
  Example indep_A :
    result_of 0 (run_thr (pw_handle nat c_handle) schedA sI) =
      Some (Some (VTuple [VInt 7; VSome (VInt 1); VSome (VInt 2); VSome (VInt 3)])).
  Proof. vm_compute. reflexivity. Qed.
  Example indep_B :
    result_of 0 (run_thr (pw_handle nat c_handle) schedB sI) =
      Some (Some (VTuple [VInt 7; VSome (VInt 1); VSome (VInt 2); VSome (VInt 3)])).
  Proof. vm_compute. reflexivity. Qed.

  (* ... as theorem (f) says for ALL pairs of schedules: its hypotheses hold here *)
  Example indep_all sched1 sched2 r1 r2 :
    fin _ (run_thr (pw_handle nat c_handle) sched1 sI) 0 r1 ->
    fin _ (run_thr (pw_handle nat c_handle) sched2 sI) 0 r2 -> r1 = r2.
  Proof.
    intros H1 H2.
    destruct (run_thr_trace _ (pw_handle nat c_handle) sched1 sI) as [t1 Ht1].
    destruct (run_thr_trace _ (pw_handle nat c_handle) sched2 sI) as [t2 Ht2].
    assert (Hoth : forall x, x <> 0 -> ~ unfinished (pworld nat) sI x).
    { intros [|x] Hx (th & Hth & _); [congruence|]. destruct x; discriminate. }
    assert (Hnd : NoDup (map fst ntsI)).
    { cbn. repeat constructor; cbn; intuition discriminate. }
    assert (Hcn : forall nt, In nt ntsI -> Some (fst nt) <> Some "main").
    { intros nt [<-|[<-|[<-|[]]]]; cbn; discriminate. }
    assert (Hv : Forall (fun nt => visonly (snd nt)) ntsI) by (repeat constructor; cbn; auto).
    assert (HK : forall bs, visonly (K3 bs)) by (intros bs; cbn; auto).
    destruct (two_schedules_agree_partial nat c_handle (@inl (option val) N) ntsI K3 sI 0 (Some "main") thI
                eq_refl eq_refl eq_refl Hoth Hnd Hcn Hv HK sched1 sched2 t1 t2 Ht1 Ht2) as [Hc _].
    destruct (Hc _ _ H1 H2) as [E _]. exact E.
  Qed.
End ExIndep.

