(* C04 (result positions) on the reference semantics for the kinds that do not involve OS threads and are
   not covered by SpecProps.result_positions_join:
     1. async non-try   (join_async!, join_async_spawn!)          result_positions_async / _spec
     2. sync try        (try_join!)                               result_positions_try_sync / _spec
     3. async try       (try_join_async!, try_join_async_spawn!)  result_positions_try_async / _spec
     4. the same facts on the meaning of the GENERATED code       den_gen_result_positions_*
   As in SpecProps, `T b k d` is an ARBITRARY predicate "d is what branch b's chain produced in step k"; here the
   hypotheses on the chains are only asked for the ACTIVE pairs (b < n, k < depth b).
   Every theorem holds for every branch count and every depth profile (induction on the number of steps left),
   for every abstract user-code semantics and every world (`leaves`). *)
From Coq Require Import Lia ZArith.
From Join Require Import Tok Names Ast Ir Gen Comp Std Denote Spec CompLaws.
From Join Require Import NamesInj Render RefineBase RefineChain RefineProg RefineSteps RefineTop RefineCorollaries.
From Join Require Import Leaves SpecProps.
Local Open Scope nat_scope.

(* ------------------------------------------------------------------ list helpers *)
Lemma F2_len {A B} (R : A -> B -> Prop) l l' : Forall2 R l l' -> List.length l' = List.length l.
Proof. induction 1; cbn; auto. Qed.

Lemma F2_map_r {A B C} (R : A -> C -> Prop) (f : B -> C) l ys :
  Forall2 (fun a y => R a (f y)) l ys -> Forall2 R l (map f ys).
Proof. induction 1; cbn; constructor; auto. Qed.

Lemma F2_in_r {A B} (R : A -> B -> Prop) l l' y : Forall2 R l l' -> In y l' -> exists x, In x l /\ R x y.
Proof.
  induction 1 as [|a b l l' Hab H2 IH]; intros Hin; [destruct Hin|].
  destruct Hin as [->|Hin]; [exists a; split; [left; reflexivity|assumption]|].
  destruct (IH Hin) as (x' & ? & ?). exists x'; split; [right|]; assumption.
Qed.

Lemma existsb_notin b l : ~ In b l -> existsb (Nat.eqb b) l = false.
Proof.
  intros H. destruct (existsb (Nat.eqb b) l) eqn:E; [|reflexivity].
  apply existsb_exists in E. destruct E as (x & Hin & Heq). apply Nat.eqb_eq in Heq. subst. contradiction.
Qed.

Lemma existsb_filter_seq (f : nat -> bool) m b : b < m -> existsb (Nat.eqb b) (filter f (seq 0 m)) = f b.
Proof.
  intros Hb. destruct (f b) eqn:E.
  - apply existsb_exists. exists b. split; [|apply Nat.eqb_refl]. apply filter_In. split; [apply in_seq; lia|assumption].
  - apply existsb_notin. intros H. apply filter_In in H. destruct H; congruence.
Qed.

Lemma bare_or_tuple_multi vs : List.length vs <> 1 -> bare_or_tuple vs = VTuple vs.
Proof. destruct vs as [|v [|v' r]]; cbn; intros H; try reflexivity; lia. Qed.

Lemma nth_map_seq (v : nat -> val) m b : b < m -> nth b (map v (seq 0 m)) VUnit = v b.
Proof.
  intros Hb. rewrite (nth_indep _ VUnit (v 0)) by (rewrite map_length, seq_length; assumption).
  rewrite (map_nth v (seq 0 m) 0 b). rewrite seq_nth by assumption. reflexivity.
Qed.

(* ------------------------------------------------------------------ leaves helpers *)
(* mapM over the results of an earlier mapM: the j-th result still belongs to the j-th element *)
Lemma leaves_mapM_F2 {A B C} (f : B -> comp C) (R : A -> B -> Prop) (R' : A -> C -> Prop) l ys :
  Forall2 R l ys -> (forall a y, In a l -> R a y -> leaves (f y) (R' a)) ->
  leaves (mapM f ys) (fun zs => Forall2 R' l zs).
Proof.
  induction 1 as [|a y l ys Hay H2 IH]; intros Hf; cbn [mapM]; [cbn; constructor|].
  apply leaves_bind. eapply leaves_weaken; [|apply (Hf a y); [left; reflexivity|assumption]].
  intros z Hz. apply leaves_bind. eapply leaves_weaken; [|apply IH; intros; apply Hf; [right|]; assumption].
  intros zs Hzs. cbn. constructor; assumption.
Qed.

Lemma leaves_to_val d (Q : val -> Prop) : (forall v, d = DV v -> Q v) -> leaves (to_val d) Q.
Proof. destruct d; cbn; auto. Qed.

Lemma max_depth_nil (p : sprog) : List.length (sp_trees p) = 0 -> max_depth p = 0.
Proof. unfold max_depth. destruct (sp_trees p); cbn; [reflexivity|discriminate]. Qed.

(* ------------------------------------------------------------------ destructuring / re-wrapping a step result *)
Lemma extract_bare acts ws :
  List.length ws = List.length acts -> extract acts (DV (bare_or_tuple ws)) = Ret (map DV ws).
Proof.
  intros Hl. destruct acts as [|a [|a' acts']].
  - destruct ws; [|discriminate]. reflexivity.
  - destruct ws as [|x [|]]; try discriminate. reflexivity.
  - rewrite bare_or_tuple_multi by (rewrite Hl; cbn; lia).
    cbn [extract]. rewrite Hl, Nat.eqb_refl. reflexivity.
Qed.

Lemma mapM_nth_error_seq (pre ws : list val) :
  mapM (fun i => match nth_error (pre ++ ws) i with
                 | Some x => Ret (DV (VOk x))
                 | None => Panic P_ILLTYPED end) (seq (List.length pre) (List.length ws))
  = Ret (map (fun x => DV (VOk x)) ws).
Proof.
  revert pre. induction ws as [|x ws IH]; intros pre; cbn [List.length seq mapM map]; [reflexivity|].
  rewrite nth_error_app2 by lia. rewrite Nat.sub_diag. cbn [nth_error bind].
  specialize (IH (pre ++ [x])). rewrite <- app_assoc in IH. cbn [app] in IH.
  rewrite app_length in IH. cbn [List.length] in IH. rewrite Nat.add_1_r in IH. rewrite IH. reflexivity.
Qed.

Lemma all_vals_oks ws : all_vals (map (fun x => DV (VOk x)) ws) = Some (map VOk ws).
Proof. induction ws as [|x ws IH]; cbn [map all_vals]; [reflexivity|]. rewrite IH. reflexivity. Qed.

(* payloads are re-wrapped in Ok and handed back to their branches, in order *)
Lemma rewrap_bare acts ws :
  List.length ws = List.length acts -> rewrap acts (bare_or_tuple ws) = Ret (map (fun x => DV (VOk x)) ws).
Proof.
  intros Hl. destruct acts as [|a [|a' acts']].
  - destruct ws; [|discriminate]. reflexivity.
  - destruct ws as [|x [|]]; try discriminate. reflexivity.
  - rewrite bare_or_tuple_multi by (rewrite Hl; cbn; lia).
    cbn [rewrap]. rewrite <- Hl. apply (mapM_nth_error_seq [] ws).
Qed.

Lemma extract_rewrapped acts ws :
  List.length ws = List.length acts ->
  let rew := map (fun x => DV (VOk x)) ws in
  extract acts (match rew with
                | [d] => d
                | _ => DV (VTuple (match all_vals rew with Some l => l | None => [] end))
                end) = Ret rew.
Proof.
  intros Hl rew. destruct acts as [|a [|a' acts']].
  - destruct ws; [|discriminate]. reflexivity.
  - destruct ws as [|x [|]]; try discriminate. reflexivity.
  - unfold rew. rewrite all_vals_oks.
    destruct ws as [|x [|x' ws']]; try discriminate.
    cbn [map]. cbn [extract]. cbn [List.length] in *. rewrite !map_length, Hl, Nat.eqb_refl. cbn [map]. rewrite map_map. reflexivity.
Qed.

(* ====================================================================== results of the try kinds *)
Section Results.
  Variable p : sprog.
  Variable T : nat -> nat -> dval -> Prop.
  Notation n := (List.length (sp_trees p)).

  (* x = the tuple (the bare payload for one branch) whose position b holds the PAYLOAD of a value
     that branch b's chain produced in its LAST step *)
  Definition PayloadsOK (fam : bool) (x : val) : Prop :=
    (n = 1 -> T 0 (depth p 0 - 1) (DV (wrapf fam x))) /\
    (n <> 1 -> exists vs, x = VTuple vs /\ List.length vs = n /\
                          forall b, b < n -> T b (depth p b - 1) (DV (wrapf fam (nth b vs VUnit)))).

  (* a try macro ends with Some/Ok of the payloads, or with the failure value of some branch's step, unchanged *)
  Definition TryResultOK (fam : bool) (r : dval) : Prop :=
    (exists x, r = DV (wrapf fam x) /\ PayloadsOK fam x) \/
    (exists b k w, b < n /\ k < depth p b /\ r = DV w /\ failf fam w = true /\ T b k (DV w)).

  Lemma failf_wrapf fam x : failf fam (wrapf fam x) = false.
  Proof. destruct fam; reflexivity. Qed.
  Lemma wrapf_inj fam x y : wrapf fam x = wrapf fam y -> x = y.
  Proof. destruct fam; cbn; intros H; inversion H; reflexivity. Qed.

  (* the two readings asked for: the success case and the failure case *)
  Corollary try_result_success fam x : TryResultOK fam (DV (wrapf fam x)) -> PayloadsOK fam x.
  Proof.
    intros [(y & E & H)|(b & k & w & _ & _ & E & Hf & _)].
    - inversion E as [E']. apply wrapf_inj in E'. subst. assumption.
    - inversion E; subst. rewrite failf_wrapf in Hf. discriminate.
  Qed.
  Corollary try_result_failure fam w : TryResultOK fam (DV w) -> failf fam w = true ->
    exists b k, b < n /\ k < depth p b /\ T b k (DV w).
  Proof.
    intros [(y & E & H)|(b & k & w' & Hb & Hk & E & _ & HT)] Hf.
    - inversion E; subst. rewrite failf_wrapf in Hf. discriminate.
    - inversion E; subst. exists b, k. auto.
  Qed.
  (* ... and a result is always one of the two *)
  Corollary try_result_cases fam r : TryResultOK fam r ->
    exists w, r = DV w /\ ((exists x, w = wrapf fam x) \/ failf fam w = true).
  Proof.
    intros [(y & E & H)|(b & k & w' & Hb & Hk & E & Hf & HT)]; subst; eexists; split; try reflexivity; eauto.
  Qed.

  Lemma payloads_ok fam (v : nat -> val) :
    1 <= n -> (forall b, b < n -> T b (depth p b - 1) (DV (wrapf fam (v b)))) ->
    PayloadsOK fam (bare_or_tuple (map v (seq 0 n))).
  Proof.
    intros Hn H. split.
    - intros E. rewrite E. cbn. apply H. lia.
    - intros Hne. rewrite bare_or_tuple_multi by (rewrite map_length, seq_length; assumption).
      exists (map v (seq 0 n)). split; [reflexivity|]. split; [rewrite map_length, seq_length; reflexivity|].
      intros b Hb. rewrite nth_map_seq by assumption. apply H; assumption.
  Qed.
End Results.

(* ====================================================================== transposing a sublist of the branches *)
Section TransposeList.
  Variable awaitsem : val -> comp val.
  Variable p : sprog.
  Notation n := (List.length (sp_trees p)).
  Variable v : nat -> val.

  (* the branches of bs hold Ok values, the others already hold their payloads: the result is Ok of all payloads *)
  Lemma transpose_ok_list : forall bs st,
    bs <> [] -> NoDup bs -> Forall (fun b => b < n) bs -> 1 <= n ->
    StEq p st (fun b => if existsb (Nat.eqb b) bs then DV (VOk (v b)) else DV (v b)) ->
    transpose awaitsem p bs st = Ret (DV (VOk (bare_or_tuple (map v (seq 0 n))))).
  Proof.
    induction bs as [|b r IH]; intros st Hne ND HF Hn H; [congruence|].
    inversion HF as [|? ? Hb HF']; subst. inversion ND as [|? ? Hnin ND']; subst.
    assert (Hnext : StEq p (set1 st b (DV (v b))) (fun b' => if existsb (Nat.eqb b') r then DV (VOk (v b')) else DV (v b'))).
    { destruct (StEq_set1 p st _ b (DV (v b)) Hb H) as [Hl Hg]. split; [assumption|].
      intros b0 Hb0. rewrite Hg by assumption. f_equal. cbn [existsb].
      destruct (Nat.eqb_spec b0 b) as [->|Hneq]; [|reflexivity].
      rewrite existsb_notin by assumption. reflexivity. }
    destruct r as [|b' r'].
    - cbn [transpose]. rewrite (get_StEq p st _ b H Hb). cbn [bind existsb]. rewrite Nat.eqb_refl. cbn [orb std_map].
      rewrite (final_tuple_payloads p v _ Hnext Hn). reflexivity.
    - rewrite transpose_cons2. rewrite (get_StEq p st _ b H Hb). cbn [bind]. cbn [existsb]. rewrite Nat.eqb_refl.
      cbn [orb std_and_then].
      rewrite (IH _ ltac:(discriminate) ND' HF' Hn Hnext). reflexivity.
  Qed.
End TransposeList.

Lemma first_fail_from_some fam w : forall m i b,
  first_fail_from fam w i m = Some b -> i <= b < i + m /\ failf fam (w b) = true.
Proof.
  induction m as [|m IH]; intros i b H; cbn [first_fail_from] in H; [discriminate|].
  destruct (failf fam (w i)) eqn:E.
  - inversion H; subst. split; [lia|assumption].
  - destruct (IH _ _ H). split; [lia|assumption].
Qed.
Lemma first_fail_from_none fam w : forall m i,
  first_fail_from fam w i m = None -> forall b, i <= b < i + m -> failf fam (w b) = false.
Proof.
  induction m as [|m IH]; intros i H b Hb; cbn [first_fail_from] in H; [lia|].
  destruct (failf fam (w i)) eqn:E; [discriminate|].
  destruct (Nat.eq_dec b i) as [->|Hne]; [assumption|]. apply (IH _ H). lia.
Qed.

(* ====================================================================== the theorems *)
Section Positions.
  Variable msem : string -> option (list operand) -> dval -> list dval -> comp dval.
  Variable dotsem : operand -> list (string * option val) -> dval -> comp dval.
  Variable callsem : val -> list dval -> comp dval.
  Variable awaitsem : val -> comp val.
  Variable p : sprog.
  Let cfg := sp_cfg p.
  Notation n := (List.length (sp_trees p)).

  Notation steps := (steps msem dotsem callsem awaitsem p).
  Notation step_result := (step_result msem dotsem callsem awaitsem p).
  Notation chain := (chain msem dotsem callsem p).
  Notation spec := (spec msem dotsem callsem awaitsem p).
  Notation st0 := (map (fun _ => None) (sp_trees p) : state).

  Variable T : nat -> nat -> dval -> Prop.
  Hypothesis depth_pos : forall b, b < n -> 1 <= depth p b.

  Lemma actives_guard k b : In b (actives p k) -> b < n /\ k < depth p b.
  Proof. intros H. apply actives_spec in H. destruct H as [Hb Ha]. apply active_depth in Ha. auto. Qed.

  Lemma StateOK_init (T' : nat -> nat -> dval -> Prop) : StateOK p T' 0 st0.
  Proof. split; [apply map_length|]. intros b _ H. lia. Qed.

  (* -------------------------------------------------------------------------------------------------
     1 and 3: the async kinds.  The chains return futures (or ready user futures awaited through
     `awaitsem`); T describes what AWAITING them returns. *)
  Section Async.
    Hypothesis chain_TA : forall sn cp k st b, b < n -> k < depth p b ->
      leaves (chain sn cp k st b) (fun d => leaves (await_d awaitsem d) (fun v => T b k (DV v))).

    (* the futures of a step, built in branch order (tokio::spawn is erased: only the shape is checked) *)
    Lemma step_futures k st sn cp :
      leaves (mapM (fun b => let! d := chain sn cp k st b in
                             if is_spawn cfg
                             then match d with DFut _ | DV _ => Ret d | _ => Panic P_ILLTYPED end
                             else Ret d) (actives p k))
             (fun futs => Forall2 (fun b d => leaves (await_d awaitsem d) (fun v => T b k (DV v))) (actives p k) futs).
    Proof.
      apply leaves_mapM. intros b Hb. destruct (actives_guard k b Hb) as [Hbn Hk].
      apply leaves_bind. eapply leaves_weaken; [|apply chain_TA; assumption].
      intros d Hd. destruct (is_spawn cfg); [|exact Hd]. destruct d; try exact I; exact Hd.
    Qed.

    (* ---- 1: async non-try ---- *)
    Lemma step_extract_async k st :
      is_async cfg = true -> is_try cfg = false ->
      leaves (let! sr := step_result k st in extract (actives p k) sr)
             (fun ds => Forall2 (fun b d => T b k d) (actives p k) ds).
    Proof.
      intros Ha Ht. unfold Spec.step_result. fold cfg. rewrite Ha, Ht.
      rewrite bind_assoc. apply leaves_bind. eapply leaves_weaken; [|apply leaves_true]. intros cp _.
      pose proof (step_futures k st (snap_of p st) cp) as HF.
      pose proof (actives_guard k) as HG.
      set (acts := actives p k) in *.
      destruct (Nat.ltb 1 (List.length acts)) eqn:Hm.
      - rewrite bind_assoc. apply leaves_bind. eapply leaves_weaken; [|exact HF].
        intros futs H2. unfold join_seq. rewrite !bind_assoc. apply leaves_bind.
        eapply leaves_weaken; [|apply (leaves_mapM_F2 _ _ (fun b v => T b k (DV v)) _ _ H2); intros a y _ H; exact H].
        intros vs Hvs. cbn [bind]. pose proof (F2_len _ _ _ Hvs) as Hl.
        apply Nat.ltb_lt in Hm. destruct acts as [|a [|a' acts']]; cbn in Hm; try lia.
        cbn [extract]. rewrite Hl, Nat.eqb_refl. cbn [leaves]. apply F2_map_r. exact Hvs.
      - destruct acts as [|a [|a' acts']] eqn:Ea.
        + cbn. exact I.
        + rewrite bind_assoc. apply leaves_bind.
          destruct (HG a (or_introl eq_refl)) as [Han Hak].
          eapply leaves_weaken; [|apply chain_TA; assumption].
          intros d Hd. rewrite bind_assoc. apply leaves_bind. eapply leaves_weaken; [|exact Hd].
          intros v Hv. cbn. constructor; [assumption|constructor].
        + cbn in Hm. discriminate.
    Qed.

    (* C04 for join_async! / join_async_spawn!, every branch count and depth profile:
       every way the steps can end lists the awaited value of branch b's last step at position b *)
    Theorem result_positions_async :
      is_async cfg = true -> is_try cfg = false ->
      forall fuel k st, fuel + k = max_depth p -> StateOK p T k st -> leaves (steps fuel k st) (ResultOK p T).
    Proof.
      intros Ha Ht. induction fuel as [|fuel IH]; intros k st Hk Hst; [exact I|].
      cbn [Spec.steps]. fold cfg. rewrite Ht. cbn [negb].
      rewrite <- bind_assoc. apply leaves_bind.
      eapply leaves_weaken; [|apply step_extract_async; assumption].
      intros ds H2. pose proof (state_step p T depth_pos k st ds Hst H2) as Hst'.
      destruct (Nat.eqb fuel 0) eqn:Hf.
      - apply Nat.eqb_eq in Hf. subst fuel. apply final_tuple_ok; try assumption; try lia.
        replace (max_depth p) with (S k) by lia. assumption.
      - apply IH; [lia|assumption].
    Qed.

    (* the macro itself is a future (nothing happens until it is awaited); awaiting it returns the tuple *)
    Theorem result_positions_async_spec :
      is_async cfg = true -> is_try cfg = false -> sp_handler p = None ->
      exists c, spec = Ret (DFut c) /\ leaves c (fun v => ResultOK p T (DV v)).
    Proof.
      intros Ha Ht Hh. unfold Spec.spec. fold cfg. rewrite Ha. eexists. split; [reflexivity|].
      unfold run_body. rewrite Hh. cbn [bind]. unfold handle_results. rewrite bind_ret_r.
      apply leaves_bind. eapply leaves_weaken; [|apply (result_positions_async Ha Ht (max_depth p) 0); [lia|apply StateOK_init]].
      intros r Hr. apply leaves_to_val. intros v ->. exact Hr.
    Qed.

    Corollary result_positions_async_await :
      is_async cfg = true -> is_try cfg = false -> sp_handler p = None ->
      leaves spec (fun d => leaves (await_d awaitsem d) (fun v => ResultOK p T (DV v))).
    Proof.
      intros Ha Ht Hh. destruct (result_positions_async_spec Ha Ht Hh) as (c & -> & Hc). exact Hc.
    Qed.
    (* ---- 3: async try ---- *)
    (* what a step of try_join_async! hands to `steps`: the first Err, unchanged, or Ok of the payloads in order *)
    Definition TryStepOK (k : nat) (sr : dval) : Prop :=
      match sr with
      | DV (VErr e) => exists b, In b (actives p k) /\ T b k (DV (VErr e))
      | DV (VOk w) => exists ws, Forall2 (fun b x => T b k (DV (VOk x))) (actives p k) ws /\ ws <> [] /\
                                 w = bare_or_tuple ws
      | _ => True
      end.

    Lemma try_join_seq_ok k : forall acts futs,
      Forall2 (fun b d => leaves (await_d awaitsem d) (fun v => T b k (DV v))) acts futs ->
      forall acc, leaves (try_join_seq awaitsem futs acc)
                         (fun v => match v with
                                   | VErr e => exists b, In b acts /\ T b k (DV (VErr e))
                                   | VOk w => exists ws, Forall2 (fun b x => T b k (DV (VOk x))) acts ws /\
                                                         w = VTuple (rev acc ++ ws)
                                   | _ => True
                                   end).
    Proof.
      induction 1 as [|a d acts futs Had H2 IH]; intros acc; cbn [try_join_seq].
      - cbn. exists []. split; [constructor|]. rewrite app_nil_r. reflexivity.
      - apply leaves_bind. eapply leaves_weaken; [|exact Had].
        intros v Hv. destruct v; try exact I.
        + eapply leaves_weaken; [|apply (IH (v :: acc))].
          intros v'. destruct v'; auto.
          * intros (ws & Hws & ->). exists (v :: ws). split; [constructor; assumption|].
            cbn [rev]. rewrite <- app_assoc. reflexivity.
          * intros (b & Hb & HT). exists b. split; [right|]; assumption.
        + cbn. exists a. split; [left; reflexivity|assumption].
    Qed.

    Lemma step_async_try k st :
      is_async cfg = true -> is_try cfg = true -> leaves (step_result k st) (TryStepOK k).
    Proof.
      intros Ha Ht. unfold Spec.step_result. fold cfg. rewrite Ha, Ht.
      apply leaves_bind. eapply leaves_weaken; [|apply leaves_true]. intros cp _.
      pose proof (step_futures k st (snap_of p st) cp) as HF.
      pose proof (actives_guard k) as HG. unfold TryStepOK.
      set (acts := actives p k) in *.
      destruct (Nat.ltb 1 (List.length acts)) eqn:Hm.
      - apply leaves_bind. eapply leaves_weaken; [|exact HF].
        intros futs H2. apply leaves_bind. eapply leaves_weaken; [|apply (try_join_seq_ok k acts futs H2 [])].
        intros v Hv. cbn [leaves]. destruct v; try exact I; [|exact Hv].
        destruct Hv as (ws & Hws & ->). cbn [rev app]. exists ws. split; [assumption|].
        pose proof (F2_len _ _ _ Hws) as Hl. apply Nat.ltb_lt in Hm.
        split; [intros ->; cbn in Hl; lia|]. symmetry. apply bare_or_tuple_multi. lia.
      - destruct acts as [|a [|a' acts']] eqn:Ea.
        + exact I.
        + apply leaves_bind. destruct (HG a (or_introl eq_refl)) as [Han Hak].
          eapply leaves_weaken; [|apply chain_TA; assumption].
          intros d Hd. apply leaves_bind. eapply leaves_weaken; [|exact Hd].
          intros v Hv. cbn [leaves]. destruct v; try exact I.
          * exists [v]. split; [constructor; [assumption|constructor]|]. split; [discriminate|reflexivity].
          * exists a. split; [left; reflexivity|assumption].
        + cbn in Hm. discriminate.
    Qed.

    (* between the steps of try_join_async! the branches hold re-wrapped Ok values *)
    Definition TOk (b k : nat) (d : dval) : Prop := T b k d /\ exists x, d = DV (VOk x).

    (* C04 for try_join_async! / try_join_async_spawn! (the Result family), every branch count and depth profile *)
    Theorem result_positions_try_async :
      is_async cfg = true -> is_try cfg = true ->
      forall fuel k st, fuel + k = max_depth p -> StateOK p TOk k st -> leaves (steps fuel k st) (TryResultOK p T false).
    Proof.
      intros Ha Ht. induction fuel as [|fuel IH]; intros k st Hk Hst; [exact I|].
      cbn [Spec.steps]. fold cfg. rewrite Ht, Ha. cbn [negb].
      apply leaves_bind. eapply leaves_weaken; [|apply step_async_try; assumption].
      intros sr Hsr. destruct sr as [v| | | | | |]; try exact I. destruct v; try exact I.
      2:{ (* the first Err, unchanged *)
          destruct Hsr as (b & Hb & HT). destruct (actives_guard k b Hb) as [Hbn Hbk].
          cbn [leaves]. right. exists b, k, (VErr v). repeat split; auto. }
      destruct Hsr as (ws & Hws & Hne & ->). pose proof (F2_len _ _ _ Hws) as Hl.
      destruct (Nat.eqb fuel 0) eqn:Hf.
      - (* the last step *)
        apply Nat.eqb_eq in Hf. subst fuel. assert (Hmax : max_depth p = S k) by lia.
        destruct (Nat.ltb 1 n) eqn:Hn.
        + apply Nat.ltb_lt in Hn. rewrite extract_bare by assumption. cbn [bind].
          set (st' := set_all st (actives p k) (map DV ws)).
          destruct Hst as [Hlen Hst].
          assert (Hlen' : List.length st' = n) by (unfold st'; rewrite set_all_length; assumption).
          set (v := fun b => match nth b st' None with
                             | Some (DV y) => if active p k b then y else match y with VOk x => x | _ => VUnit end
                             | _ => VUnit
                             end).
          assert (HV : forall b, b < n ->
                       nth b st' None = Some (if active p k b then DV (v b) else DV (VOk (v b))) /\
                       T b (depth p b - 1) (DV (VOk (v b)))).
          { intros b Hb. pose proof (depth_le_max p b Hb) as Hle. pose proof (depth_pos b Hb) as Hpos.
            destruct (active p k b) eqn:Hact.
            - assert (Hin : In b (actives p k)) by (apply actives_spec; auto).
              destruct (nth_set_all_in (fun b d => exists x, d = DV x /\ T b k (DV (VOk x))) st (actives p k) (map DV ws) b)
                as (d & Hnth & x & -> & HT); auto.
              { apply actives_NoDup. } { rewrite Hlen. apply actives_lt. }
              { apply F2_map_r. eapply Forall2_impl; [|exact Hws]. cbn beta. intros a y Hy. exists y. auto. }
              fold st' in Hnth. apply active_depth in Hact.
              assert (Ev : v b = x). { unfold v. rewrite Hnth. apply active_depth in Hact. rewrite Hact. reflexivity. }
              rewrite Ev. split; [assumption|]. replace (depth p b - 1) with k by lia. assumption.
            - assert (Hnin : ~ In b (actives p k)) by (rewrite actives_spec; intros [_ H]; congruence).
              assert (Hd : depth p b <= k).
              { destruct (Nat.ltb_spec k (depth p b)) as [H|H]; [|assumption]. apply active_depth in H. congruence. }
              destruct (Hst b Hb) as (d & Hnth & [HT (x & ->)]); [lia|].
              assert (Hnth' : nth b st' None = Some (DV (VOk x))).
              { unfold st'. rewrite nth_set_all_notin by assumption. assumption. }
              assert (Ev : v b = x). { unfold v. rewrite Hnth', Hact. reflexivity. }
              rewrite Ev. split; [assumption|].
              replace (Nat.min (k - 1) (depth p b - 1)) with (depth p b - 1) in HT by lia. assumption. }
          assert (HP : PayloadsOK p T false (bare_or_tuple (map v (seq 0 n)))).
          { apply payloads_ok; [lia|]. intros b Hb. apply HV; assumption. }
          destruct (filter (fun b => negb (active p k b)) (seq 0 n)) as [|i0 ir] eqn:Ef.
          * (* every branch is active: the tuple of the payloads *)
            assert (Hall : forall b, b < n -> active p k b = true).
            { intros b Hb. destruct (active p k b) eqn:E; [reflexivity|].
              assert (Hin : In b (filter (fun b => negb (active p k b)) (seq 0 n))).
              { apply filter_In. split; [apply in_seq; lia|]. rewrite E. reflexivity. }
              rewrite Ef in Hin. destruct Hin. }
            assert (Heq : StEq p st' (fun b => DV (v b))).
            { split; [assumption|]. intros b Hb. destruct (HV b Hb) as [E _]. rewrite E, (Hall b Hb). reflexivity. }
            rewrite (final_tuple_payloads p v st' Heq) by lia.
            cbn. left. eexists. split; [reflexivity|assumption].
          * (* finished branches hold re-wrapped Ok values: they are transposed *)
            rewrite <- Ef. rewrite (transpose_ok_list awaitsem p v).
            -- cbn. left. eexists. split; [reflexivity|assumption].
            -- rewrite Ef. discriminate.
            -- apply NoDup_filter. apply seq_NoDup.
            -- apply Forall_forall. intros b Hb. apply filter_In in Hb. destruct Hb as [Hb _]. apply in_seq in Hb. lia.
            -- lia.
            -- split; [assumption|]. intros b Hb. destruct (HV b Hb) as [E _]. rewrite E.
               rewrite existsb_filter_seq by assumption. destruct (active p k b); reflexivity.
        + (* one branch: its payload *)
          cbn [leaves]. left. eexists. split; [reflexivity|].
          apply Nat.ltb_ge in Hn.
          assert (Hn1 : n = 1).
          { destruct n eqn:E; [|lia]. rewrite (max_depth_nil p E) in Hmax. lia. }
          split; [intros _|intros; lia].
          unfold actives in Hws. rewrite Hn1 in Hws. cbn [seq filter] in Hws.
          destruct (active p k 0) eqn:Hact.
          * inversion Hws as [|? x ? ws' HT H2' E1 E2]; subst. inversion H2'; subst. cbn [bare_or_tuple wrapf].
            apply active_depth in Hact. pose proof (depth_le_max p 0 ltac:(lia)).
            replace (depth p 0 - 1) with k by lia. assumption.
          * inversion Hws; subst. congruence.
      - (* the payloads are re-wrapped in Ok and the next step starts *)
        rewrite rewrap_bare by assumption. cbn [bind]. rewrite extract_rewrapped by assumption. cbn [bind].
        apply IH; [lia|]. apply (state_step p TOk depth_pos k st _ Hst).
        apply F2_map_r. eapply Forall2_impl; [|exact Hws]. cbn beta. intros a y Hy. split; [assumption|]. exists y. reflexivity.
    Qed.

    (* awaiting the macro's future returns Ok of the payloads in branch order, or the Err of some branch's step *)
    Theorem result_positions_try_async_spec :
      is_async cfg = true -> is_try cfg = true -> sp_handler p = None ->
      exists c, spec = Ret (DFut c) /\ leaves c (fun v => TryResultOK p T false (DV v)).
    Proof.
      intros Ha Ht Hh. unfold Spec.spec. fold cfg. rewrite Ha. eexists. split; [reflexivity|].
      unfold run_body. rewrite Hh. cbn [bind]. unfold handle_results. rewrite bind_ret_r.
      apply leaves_bind. eapply leaves_weaken; [|apply (result_positions_try_async Ha Ht (max_depth p) 0); [lia|apply StateOK_init]].
      intros r Hr. apply leaves_to_val. intros v ->. exact Hr.
    Qed.

    Corollary result_positions_try_async_await :
      is_async cfg = true -> is_try cfg = true -> sp_handler p = None ->
      leaves spec (fun d => leaves (await_d awaitsem d) (fun v => TryResultOK p T false (DV v))).
    Proof.
      intros Ha Ht Hh. destruct (result_positions_try_async_spec Ha Ht Hh) as (c & -> & Hc). exact Hc.
    Qed.
  End Async.

  (* -------------------------------------------------------------------------------------------------
     2: sync try (try_join!), for a uniform family: Option (fam = true) or Result (fam = false) *)
  Section SyncTry.
    Variable fam : bool.
    Hypothesis chain_T : forall sn cp k st b, b < n -> k < depth p b -> leaves (chain sn cp k st b) (T b k).
    (* the chain values are plain values of the family *)
    Hypothesis T_fam : forall b k d, b < n -> k < depth p b -> T b k d -> exists w v, d = DV w /\ wellf fam w v.

    Lemma step_extract_sync_active k st :
      is_async cfg = false -> is_spawn cfg = false ->
      leaves (let! sr := step_result k st in extract (actives p k) sr)
             (fun ds => Forall2 (fun b d => T b k d) (actives p k) ds).
    Proof.
      intros Ha Hs. unfold Spec.step_result. fold cfg. rewrite Ha, Hs. cbn [andb].
      rewrite bind_assoc. apply leaves_bind. eapply leaves_weaken; [|apply leaves_true]. intros cp _.
      pose proof (actives_guard k) as HG.
      set (acts := actives p k) in *.
      destruct (Nat.ltb 1 (List.length acts)) eqn:Hm.
      - rewrite bind_assoc. apply leaves_bind.
        eapply leaves_weaken; [|apply (leaves_mapM _ (fun b d => T b k d)); intros b Hb; destruct (HG b Hb); apply chain_T; assumption].
        intros ds H2. pose proof (F2_len _ _ _ H2) as Hl.
        pose proof (extract_vals_tuple acts ds Hl) as E.
        apply Nat.ltb_lt in Hm. destruct acts as [|a [|a' acts']]; cbn in Hm; try lia.
        eapply leaves_weaken; [|exact E]. intros ds' ->. assumption.
      - destruct acts as [|a [|a' acts']] eqn:Ea.
        + cbn. exact I.
        + apply leaves_bind. destruct (HG a (or_introl eq_refl)).
          eapply leaves_weaken; [|apply chain_T; assumption]. intros d Hd. cbn. constructor; [assumption|constructor].
        + cbn in Hm. discriminate.
    Qed.

    (* C04 for try_join!, every branch count and depth profile: the run ends with Some/Ok of the tuple of the
       payloads of the branches' LAST steps, in branch order - or with the failure value of a step, unchanged *)
    Theorem result_positions_try_sync :
      is_async cfg = false -> is_spawn cfg = false -> is_try cfg = true ->
      forall fuel k st, fuel + k = max_depth p -> StateOK p T k st -> leaves (steps fuel k st) (TryResultOK p T fam).
    Proof.
      intros Ha Hs Ht. induction fuel as [|fuel IH]; intros k st Hk Hst; [exact I|].
      rewrite try_steps_sync by assumption.
      rewrite <- bind_assoc. apply leaves_bind.
      eapply leaves_weaken; [|apply step_extract_sync_active; assumption].
      intros ds H2. pose proof (state_step p T depth_pos k st ds Hst H2) as Hst'. cbv zeta.
      destruct (Nat.eqb fuel 0) eqn:Hf.
      - (* the last step: transposition *)
        apply Nat.eqb_eq in Hf. subst fuel. assert (Hmax : max_depth p = S k) by lia.
        set (st' := set_all st (actives p k) ds) in *. destruct Hst' as [Hlen' Hst'].
        assert (Hn : 1 <= n).
        { destruct n eqn:E; [|lia]. rewrite (max_depth_nil p E) in Hmax. lia. }
        set (w := fun b => match nth b st' None with Some (DV x) => x | _ => VUnit end).
        set (v := fun b => match w b with VSome x | VOk x => x | _ => VUnit end).
        assert (HW : forall b, b < n -> nth b st' None = Some (DV (w b)) /\ T b (depth p b - 1) (DV (w b)) /\
                                         wellf fam (w b) (v b)).
        { intros b Hb. pose proof (depth_le_max p b Hb) as Hle. pose proof (depth_pos b Hb) as Hpos.
          destruct (Hst' b Hb) as (d & Hnth & HT); [lia|].
          replace (Nat.min (S k - 1) (depth p b - 1)) with (depth p b - 1) in HT by lia.
          destruct (T_fam b (depth p b - 1) d Hb ltac:(lia) HT) as (w0 & v0 & -> & Hwell).
          assert (Ew : w b = w0) by (unfold w; rewrite Hnth; reflexivity).
          rewrite Ew. repeat split; try assumption.
          destruct Hwell as [E|E]; [|right; assumption]. left. unfold v. rewrite Ew, E. destruct fam; reflexivity. }
        rewrite (transpose_first_failure awaitsem p fam w v (fun b Hb => proj2 (proj2 (HW b Hb))) n 0 st');
          [|lia|assumption|split; [assumption|intros b Hb; apply (HW b Hb)]].
        cbn [leaves]. destruct (first_fail_from fam w 0 n) as [b|] eqn:F.
        + apply first_fail_from_some in F. destruct F as [Hb Hfail]. pose proof (depth_pos b ltac:(lia)).
          right. exists b, (depth p b - 1), (w b). repeat split; try lia; try assumption. apply HW; lia.
        + pose proof (first_fail_from_none _ _ _ _ F) as Hok.
          assert (E : forall b, b < n -> w b = wrapf fam (v b)).
          { intros b Hb. destruct (HW b Hb) as (_ & _ & [E|E]); [assumption|]. rewrite Hok in E by lia. discriminate. }
          left. eexists. split; [reflexivity|]. apply payloads_ok; [assumption|].
          intros b Hb. rewrite <- E by assumption. apply HW; assumption.
      - (* the per-step check *)
        destruct (all_classified ds); [|exact I].
        destruct (first_fail_list ds) as [d|] eqn:F.
        + apply first_fail_list_cls in F. destruct F as [Hc Hin].
          destruct (F2_in_r _ _ _ _ H2 Hin) as (b & Hb & HT). destruct (actives_guard k b Hb) as [Hbn Hbk].
          destruct (T_fam b k d Hbn Hbk HT) as (w0 & v0 & -> & Hwell).
          cbn [leaves]. right. exists b, k, w0. repeat split; try assumption.
          destruct Hwell as [E|E]; [|assumption]. subst w0. destruct fam; cbn in Hc; discriminate.
        + apply IH; [lia|assumption].
    Qed.

    Theorem result_positions_try_sync_spec :
      is_async cfg = false -> is_spawn cfg = false -> is_try cfg = true -> sp_handler p = None ->
      leaves spec (TryResultOK p T fam).
    Proof.
      intros Ha Hs Ht Hh. rewrite spec_no_handler_sync by assumption.
      apply result_positions_try_sync; try assumption; [lia|apply StateOK_init].
    Qed.
  End SyncTry.
End Positions.

Print Assumptions result_positions_async.
Print Assumptions result_positions_async_spec.
Print Assumptions result_positions_try_sync.
Print Assumptions result_positions_try_sync_spec.
Print Assumptions result_positions_try_async.
Print Assumptions result_positions_try_async_spec.

(* ====================================================================== 4: the generated code *)
Section Generated.
  Variable msem : string -> option (list operand) -> dval -> list dval -> comp dval.
  Variable dotsem : operand -> list (string * option val) -> dval -> comp dval.
  Variable callsem : val -> list dval -> comp dval.
  Variable awaitsem : val -> comp val.
  Notation chain := (chain msem dotsem callsem).
  Notation den_gen inp e := (den (user_names inp) msem dotsem callsem awaitsem e empty_env).

  (* join_async! / join_async_spawn!: the generated expression is a future; awaiting it returns the tuple whose
     element b is what awaiting branch b's LAST step returned (the bare value for one branch) *)
  Theorem den_gen_result_positions_async cfg inp e sp (T : nat -> nat -> dval -> Prop) :
    is_async cfg = true -> is_try cfg = false -> i_handler inp = None ->
    wf inp -> gen cfg inp = Ok e -> prepare cfg inp = Some sp ->
    (forall sn cp k st b, b < List.length (sp_trees sp) -> k < depth sp b ->
       leaves (chain sp sn cp k st b) (fun d => leaves (await_d awaitsem d) (fun v => T b k (DV v)))) ->
    exists c, den_gen inp e = Ret (DFut c) /\ leaves c (fun v => ResultOK sp T (DV v)).
  Proof.
    intros Ha Ht Hh Hwf Hg Hp HT. destruct (prepare_fields cfg inp sp Hp) as (Hc & Hhs & _).
    rewrite (gen_refines_spec msem dotsem callsem awaitsem cfg inp e sp Hwf Hg Hp).
    apply (result_positions_async_spec msem dotsem callsem awaitsem sp T (prepare_depth_pos cfg inp sp Hp) HT);
      congruence.
  Qed.

  (* try_join!: Some/Ok of the payloads of the branches' last steps in branch order, or a step's failure value *)
  Theorem den_gen_result_positions_try_sync inp e sp (T : nat -> nat -> dval -> Prop) (fam : bool) :
    let cfg := {| is_async := false; is_try := true; is_spawn := false |} in
    i_handler inp = None ->
    wf inp -> gen cfg inp = Ok e -> prepare cfg inp = Some sp ->
    (forall sn cp k st b, b < List.length (sp_trees sp) -> k < depth sp b -> leaves (chain sp sn cp k st b) (T b k)) ->
    (forall b k d, b < List.length (sp_trees sp) -> k < depth sp b -> T b k d -> exists w v, d = DV w /\ wellf fam w v) ->
    leaves (den_gen inp e) (TryResultOK sp T fam).
  Proof.
    intros cfg Hh Hwf Hg Hp HT Hfam. destruct (prepare_fields cfg inp sp Hp) as (Hc & Hhs & _).
    rewrite (gen_refines_spec msem dotsem callsem awaitsem cfg inp e sp Hwf Hg Hp).
    apply (result_positions_try_sync_spec msem dotsem callsem awaitsem sp T (prepare_depth_pos cfg inp sp Hp) fam HT Hfam);
      try (rewrite Hc; reflexivity). congruence.
  Qed.

  (* try_join_async! / try_join_async_spawn!: awaiting the generated future returns Ok of the payloads in branch
     order, or the Err that awaiting some branch's step returned *)
  Theorem den_gen_result_positions_try_async cfg inp e sp (T : nat -> nat -> dval -> Prop) :
    is_async cfg = true -> is_try cfg = true -> i_handler inp = None ->
    wf inp -> gen cfg inp = Ok e -> prepare cfg inp = Some sp ->
    (forall sn cp k st b, b < List.length (sp_trees sp) -> k < depth sp b ->
       leaves (chain sp sn cp k st b) (fun d => leaves (await_d awaitsem d) (fun v => T b k (DV v)))) ->
    exists c, den_gen inp e = Ret (DFut c) /\ leaves c (fun v => TryResultOK sp T false (DV v)).
  Proof.
    intros Ha Ht Hh Hwf Hg Hp HT. destruct (prepare_fields cfg inp sp Hp) as (Hc & Hhs & _).
    rewrite (gen_refines_spec msem dotsem callsem awaitsem cfg inp e sp Hwf Hg Hp).
    apply (result_positions_try_async_spec msem dotsem callsem awaitsem sp T (prepare_depth_pos cfg inp sp Hp) HT);
      congruence.
  Qed.
End Generated.

Print Assumptions den_gen_result_positions_async.
Print Assumptions den_gen_result_positions_try_sync.
Print Assumptions den_gen_result_positions_try_async.

(* ====================================================================== non-vacuity *)
(* A concrete 3-branch program with depths 2 / 1 / 3.  The first step of branch b is `x -> .o(b,0)`, its step k > 0 is
   `~.o(b,k)`; the abstract method semantics `dotsem` reads (b, k) off the operand o(b,k), so that "the value of
   branch b's step k is the pair (b, k)" (T_pair) - in the try examples wrapped in Some/Ok, or a failure when the
   world says so.  The hypotheses of the theorems hold, so every run ends as the theorems say; `run` follows one
   world to show that such runs exist. *)
Module PositionsExample.
  Definition opnd (b k : nat) : operand := [TG DNone (repeat (TI "b") b); TG DNone (repeat (TI "k") k)].
  Definition pair (b k : nat) : val := VTuple [VInt (Z.of_nat b); VInt (Z.of_nat k)].
  Definition decode (o : operand) : option val :=
    match o with
    | [TG DNone l1; TG DNone l2] => Some (pair (List.length l1) (List.length l2))
    | _ => None
    end.
  Definition init_act : action := mkAction Initial false NoMove [[TI "x"]].
  Definition dot_act (b k : nat) : action := mkAction Dot (Nat.ltb 0 k) NoMove [opnd b k].
  Definition first_step (b : nat) : list node := [NAct 0 init_act; NAct 1 (dot_act b 0)].
  Definition later_step (b k : nat) : list node := [NAct 0 (dot_act b k)].
  Definition trees : list (list (list node)) :=
    [[first_step 0; later_step 0 1]; [first_step 1]; [first_step 2; later_step 2 1; later_step 2 2]].
  Definition prog (cfg : config) : sprog := mkSprog cfg [None; None; None] trees None.

  Definition msemX : string -> option (list operand) -> dval -> list dval -> comp dval := fun _ _ _ _ => Panic P_STUCK.
  Definition callsemX : val -> list dval -> comp dval := fun _ _ => Panic P_STUCK.
  Definition awaitX : val -> comp val := fun v => Ret v.
  Definition dotsem_fut : operand -> list (string * option val) -> dval -> comp dval :=
    fun o _ _ => match decode o with Some v => Ret (DFut (Ret v)) | None => Panic P_STUCK end.

  Fixpoint run {A} (ans : ev -> val) (c : comp A) : option A :=
    match c with Ret a => Some a | Vis e k => run ans (k (ans e)) | _ => None end.

  Definition cfgA (spawn : bool) := mkConfig true false spawn.
  Definition cfgT := mkConfig false true false.
  Definition cfgTA := mkConfig true true false.
  Definition T_pair (b k : nat) (d : dval) : Prop := d = DV (pair b k).

  Lemma depths cfg : depth (prog cfg) 0 = 2 /\ depth (prog cfg) 1 = 1 /\ depth (prog cfg) 2 = 3.
  Proof. repeat split. Qed.

  Lemma ex_chain_async spawn sn cp k st b :
    b < 3 -> k < depth (prog (cfgA spawn)) b ->
    leaves (chain msemX dotsem_fut callsemX (prog (cfgA spawn)) sn cp k st b)
           (fun d => leaves (await_d awaitX d) (fun v => T_pair b k (DV v))).
  Proof.
    intros Hb Hk.
    destruct b as [|[|[|b]]]; try lia; cbn in Hk.
    - destruct k as [|[|k]]; try lia; cbn; intros; reflexivity.
    - destruct k as [|k]; try lia; cbn; intros; reflexivity.
    - destruct k as [|[|[|k]]]; try lia; cbn; intros; reflexivity.
  Qed.

  Lemma depth_pos_ex cfg b : b < 3 -> 1 <= depth (prog cfg) b.
  Proof. intros Hb. destruct b as [|[|[|b]]]; try lia; cbn; lia. Qed.

  Definition the_tuple : val := VTuple [pair 0 1; pair 1 0; pair 2 2].

  Lemma payloads_tuple (P : val -> val) vs :
    (forall x y, P x = P y -> x = y) ->
    List.length vs = 3 ->
    (forall b, b < 3 -> DV (P (nth b vs VUnit)) = DV (P (pair b (depth (prog cfgT) b - 1)))) ->
    VTuple vs = the_tuple.
  Proof.
    intros Hinj Hl H. destruct vs as [|a [|b [|c [|]]]]; try discriminate.
    pose proof (H 0 ltac:(lia)) as H0. pose proof (H 1 ltac:(lia)) as H1. pose proof (H 2 ltac:(lia)) as H2.
    cbn in H0, H1, H2. inversion H0 as [E0]; inversion H1 as [E1]; inversion H2 as [E2].
    apply Hinj in E0, E1, E2. subst. reflexivity.
  Qed.

  (* 1. join_async! (spawn = false) and join_async_spawn! (spawn = true): awaiting the macro's future returns
     ((0,1), (1,0), (2,2)) - for every world *)
  Example ex_async_join spawn :
    let c := (let! d := spec msemX dotsem_fut callsemX awaitX (prog (cfgA spawn)) in await_d awaitX d) in
    leaves c (fun v => v = the_tuple) /\ run (fun _ => VUnit) c = Some the_tuple.
  Proof.
    split; [|destruct spawn; reflexivity].
    apply leaves_bind. eapply leaves_weaken;
      [|apply (result_positions_async_await msemX dotsem_fut callsemX awaitX (prog (cfgA spawn)) T_pair
                 (depth_pos_ex (cfgA spawn)) (ex_chain_async spawn)); reflexivity].
    intros d Hd. eapply leaves_weaken; [|exact Hd]. clear. intros v [_ H].
    destruct H as (vs & E & Hl & Hvs); [cbn; lia|]. inversion E; subst.
    apply (payloads_tuple (fun x => x)); auto.
  Qed.

  (* 2. try_join! over Options: every step of every branch asks the world whether it succeeds *)
  Definition dotsem_opt : operand -> list (string * option val) -> dval -> comp dval :=
    fun o sn _ => match decode o with
                  | Some v => Vis (EEval o sn) (fun a => Ret (DV (match a with VBool false => VNone | _ => VSome v end)))
                  | None => Panic P_STUCK
                  end.
  Definition T_opt (b k : nat) (d : dval) : Prop := d = DV (VSome (pair b k)) \/ d = DV VNone.

  Lemma ex_chain_opt sn cp k st b :
    b < 3 -> k < depth (prog cfgT) b ->
    leaves (chain msemX dotsem_opt callsemX (prog cfgT) sn cp k st b) (T_opt b k).
  Proof.
    intros Hb Hk. unfold T_opt.
    destruct b as [|[|[|b]]]; try lia; cbn in Hk.
    - destruct k as [|[|k]]; try lia; unfold chain, start, get; cbn; try destruct (nth _ st None); cbn; auto;
        intros; match goal with |- context [match ?a with _ => _ end] => destruct a as [| [|] | | | | | | | | | |] end; auto.
    - destruct k as [|k]; try lia; unfold chain, start, get; cbn; try destruct (nth _ st None); cbn; auto;
        intros; match goal with |- context [match ?a with _ => _ end] => destruct a as [| [|] | | | | | | | | | |] end; auto.
    - destruct k as [|[|[|k]]]; try lia; unfold chain, start, get; cbn; try destruct (nth _ st None); cbn; auto;
        intros; match goal with |- context [match ?a with _ => _ end] => destruct a as [| [|] | | | | | | | | | |] end; auto.
  Qed.

  Lemma ex_fam_opt b k d : b < 3 -> k < depth (prog cfgT) b -> T_opt b k d -> exists w v, d = DV w /\ wellf true w v.
  Proof.
    intros _ _ [->| ->].
    - exists (VSome (pair b k)), (pair b k). split; [reflexivity|left; reflexivity].
    - exists VNone, VUnit. split; [reflexivity|right; reflexivity].
  Qed.

  Definition fail_at (b k : nat) : ev -> val :=
    fun e => match e with
             | EEval o _ => if list_eqb tt_eqb o (opnd b k) then VBool false else VUnit
             | _ => VUnit
             end.

  Example ex_try_join :
    let c := spec msemX dotsem_opt callsemX awaitX (prog cfgT) in
    leaves c (fun r => r = DV (VSome the_tuple) \/ r = DV VNone) /\
    run (fun _ => VUnit) c = Some (DV (VSome the_tuple)) /\
    run (fail_at 2 1) c = Some (DV VNone).
  Proof.
    split; [|split; reflexivity].
    eapply leaves_weaken;
      [|apply (result_positions_try_sync_spec msemX dotsem_opt callsemX awaitX (prog cfgT) T_opt
                 (depth_pos_ex cfgT) true ex_chain_opt ex_fam_opt); reflexivity].
    clear. intros r [(x & -> & [_ H])|(b & k & w & _ & _ & -> & Hf & _)].
    - left. destruct H as (vs & -> & Hl & Hvs); [cbn; lia|]. cbn [wrapf]. do 2 f_equal.
      apply (payloads_tuple VSome); auto; [intros x y E; inversion E; reflexivity|].
      intros b Hb. destruct (Hvs b Hb) as [E|E]; [exact E|discriminate E].
    - right. destruct w; try discriminate Hf. reflexivity.
  Qed.

  (* 3. try_join_async! over Results: the world is asked when the step's future is awaited *)
  Definition dotsem_res : operand -> list (string * option val) -> dval -> comp dval :=
    fun o sn _ => match decode o with
                  | Some v => Ret (DFut (Vis (EEval o sn) (fun a => Ret (match a with VBool false => VErr v | _ => VOk v end))))
                  | None => Panic P_STUCK
                  end.
  Definition T_res (b k : nat) (d : dval) : Prop := d = DV (VOk (pair b k)) \/ d = DV (VErr (pair b k)).

  Lemma ex_chain_res sn cp k st b :
    b < 3 -> k < depth (prog cfgTA) b ->
    leaves (chain msemX dotsem_res callsemX (prog cfgTA) sn cp k st b)
           (fun d => leaves (await_d awaitX d) (fun v => T_res b k (DV v))).
  Proof.
    intros Hb Hk. unfold T_res.
    destruct b as [|[|[|b]]]; try lia; cbn in Hk.
    - destruct k as [|[|k]]; try lia; cbn; intros;
        match goal with |- context [match ?a with _ => _ end] => destruct a as [| [|] | | | | | | | | | |] end; auto.
    - destruct k as [|k]; try lia; cbn; intros;
        match goal with |- context [match ?a with _ => _ end] => destruct a as [| [|] | | | | | | | | | |] end; auto.
    - destruct k as [|[|[|k]]]; try lia; cbn; intros;
        match goal with |- context [match ?a with _ => _ end] => destruct a as [| [|] | | | | | | | | | |] end; auto.
  Qed.

  Example ex_try_join_async :
    let c := (let! d := spec msemX dotsem_res callsemX awaitX (prog cfgTA) in await_d awaitX d) in
    leaves c (fun v => v = VOk the_tuple \/
                       exists b k, b < 3 /\ k < depth (prog cfgTA) b /\ v = VErr (pair b k)) /\
    run (fun _ => VUnit) c = Some (VOk the_tuple) /\
    run (fail_at 2 1) c = Some (VErr (pair 2 1)) /\
    run (fail_at 1 0) c = Some (VErr (pair 1 0)).
  Proof.
    split; [|repeat split; reflexivity].
    apply leaves_bind. eapply leaves_weaken;
      [|apply (result_positions_try_async_await msemX dotsem_res callsemX awaitX (prog cfgTA) T_res
                 (depth_pos_ex cfgTA) ex_chain_res); reflexivity].
    intros d Hd. eapply leaves_weaken; [|exact Hd]. clear.
    intros v [(x & E & [_ H])|(b & k & w & Hb & Hk & E & Hf & HT)].
    - left. inversion E; subst. destruct H as (vs & -> & Hl & Hvs); [cbn; lia|]. cbn [wrapf]. f_equal.
      apply (payloads_tuple VOk); auto; [intros x y E'; inversion E'; reflexivity|].
      intros b Hb. destruct (Hvs b Hb) as [E'|E']; [exact E'|discriminate E'].
    - right. inversion E; subst. exists b, k. repeat split; auto.
      destruct HT as [E'|E']; inversion E'; subst; [discriminate Hf|reflexivity].
  Qed.
End PositionsExample.

Print Assumptions PositionsExample.ex_async_join.
Print Assumptions PositionsExample.ex_try_join.
Print Assumptions PositionsExample.ex_try_join_async.
