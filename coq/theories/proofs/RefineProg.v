(* Refinement, program level (no semantics yet): what `wf inp`, `jout_new` and `prepare` give,
   stated once as a relation `Rel` between the generator's view `jout` and the reference
   semantics' view `sprog`; index lemmas on the Spec side (depth / active / tree). *)
From Coq Require Import ZArith Lia.
From Join Require Import Tok Names Ast Ir Gen Comp Std Denote Spec NamesInj Render RefineBase RefineChain.

(* ------------------------------------------------------------------------------------------ *)
(* lists                                                                                      *)
(* ------------------------------------------------------------------------------------------ *)

Lemma all_some_Forall2 {A B} (f : A -> option B) : forall l l',
  all_some (map f l) = Some l' -> Forall2 (fun x y => f x = Some y) l l'.
Proof.
  induction l as [|x r IH]; intros l' H; cbn [map all_some] in H.
  - inversion H. constructor.
  - destruct (f x) as [y|] eqn:E; [|discriminate].
    destruct (all_some (map f r)) as [ys|] eqn:E'; [|discriminate].
    inversion H; subst. constructor; auto.
Qed.

Lemma Forall2_length' {A B} (R : A -> B -> Prop) l l' : Forall2 R l l' -> List.length l = List.length l'.
Proof. induction 1; cbn; congruence. Qed.

Lemma Forall2_nth {A B} (R : A -> B -> Prop) l l' da db : Forall2 R l l' ->
  forall i, i < List.length l -> R (nth i l da) (nth i l' db).
Proof.
  induction 1; intros i Hi; cbn [List.length] in Hi; [lia|].
  destruct i as [|i]; cbn [nth]; [assumption|]. apply IHForall2. lia.
Qed.

Lemma Forall2_nth_error {A B} (R : A -> B -> Prop) l l' : Forall2 R l l' ->
  forall i x, nth_error l i = Some x -> exists y, nth_error l' i = Some y /\ R x y.
Proof.
  induction 1; intros i a Hi; destruct i as [|i]; cbn [nth_error] in *; try discriminate.
  - inversion Hi; subst. eauto.
  - eauto.
Qed.

Lemma Forall2_map_l {A B C} (R : C -> B -> Prop) (f : A -> C) l l' :
  Forall2 (fun x y => R (f x) y) l l' -> Forall2 R (map f l) l'.
Proof. induction 1; cbn [map]; constructor; auto. Qed.

Lemma Forall2_impl {A B} (R R' : A -> B -> Prop) l l' :
  (forall x y, R x y -> R' x y) -> Forall2 R l l' -> Forall2 R' l l'.
Proof. intros H. induction 1; constructor; auto. Qed.

Lemma Forall2_Forall_l {A B} (R : A -> B -> Prop) (P : A -> Prop) l l' :
  Forall2 R l l' -> Forall P l -> Forall2 (fun x y => R x y /\ P x) l l'.
Proof.
  induction 1; intros HP; [constructor|]. inversion HP; subst. constructor; auto.
Qed.

(* enum_from / filter / seq *)
Lemma enum_filter_map {A} (g : nat -> A) (f : nat -> bool) : forall m i,
  map snd (filter (fun ip => f (fst ip)) (enum_from i (map g (seq i m)))) = map g (filter f (seq i m)).
Proof.
  induction m as [|m IH]; intros i; cbn [seq map enum_from filter]; [reflexivity|].
  cbn [fst]. destruct (f i); cbn [map snd]; rewrite IH; reflexivity.
Qed.

Lemma enum_filter_pairs {A} (g : nat -> A) (f : nat -> bool) : forall m i,
  filter (fun ip => f (fst ip)) (enum_from i (map g (seq i m))) = map (fun b => (b, g b)) (filter f (seq i m)).
Proof.
  induction m as [|m IH]; intros i; cbn [seq map enum_from filter]; [reflexivity|].
  cbn [fst]. destruct (f i); cbn [map]; rewrite IH; reflexivity.
Qed.

Lemma enum_from_map {A B} (h : nat -> A -> B) : forall (l : list A) i,
  map (fun ix => h (fst ix) (snd ix)) (enum_from i l) = map (fun ix => h (fst ix) (snd ix)) (enum_from i l).
Proof. reflexivity. Qed.

Lemma enum_from_length {A} : forall (l : list A) i, List.length (enum_from i l) = List.length l.
Proof. induction l as [|x r IH]; intros i; cbn; [reflexivity|]. rewrite IH. reflexivity. Qed.

Lemma filter_length_nth (f : nat -> bool) : forall (l : list nat) i,
  List.length (filter (fun b => f (nth (b - i) l 0)) (seq i (List.length l))) = List.length (filter f l).
Proof.
  induction l as [|d r IH]; intros i; cbn [List.length seq filter]; [reflexivity|].
  assert (E : filter (fun b => f (nth (b - i) (d :: r) 0)) (seq (S i) (List.length r))
            = filter (fun b => f (nth (b - S i) r 0)) (seq (S i) (List.length r))).
  { apply filter_ext_in. intros b Hb. apply in_seq in Hb.
    replace (b - i) with (S (b - S i)) by lia. reflexivity. }
  rewrite E, Nat.sub_diag. change (nth 0 (d :: r) 0) with d.
  destruct (f d); cbn [List.length]; rewrite IH; reflexivity.
Qed.

Lemma list_max_lt (l : list nat) k : k < list_max l <-> exists d, In d l /\ k < d.
Proof.
  unfold list_max. induction l as [|d r IH]; cbn [fold_right].
  - split; [lia|]. intros (d & [] & _).
  - split.
    + intros H. destruct (Nat.max_spec d (fold_right Nat.max 0 r)) as [[_ E]|[_ E]]; rewrite E in H.
      * apply IH in H. destruct H as (d' & Hin & Hlt). exists d'. split; [right; exact Hin|exact Hlt].
      * exists d. split; [left; reflexivity|exact H].
    + intros (d' & [<-|Hin] & Hlt); [lia|].
      assert (k < fold_right Nat.max 0 r) by (apply IH; eauto). lia.
Qed.

(* ------------------------------------------------------------------------------------------ *)
(* steps of a branch                                                                          *)
(* ------------------------------------------------------------------------------------------ *)

Lemma split_at_deferred_eq ms : split_at_deferred ms = split_steps ms.
Proof.
  induction ms as [|m r IH]; cbn [split_at_deferred split_steps]; [reflexivity|]. rewrite IH. reflexivity.
Qed.

Lemma split_steps_shape ms :
  exists g gs, split_steps ms = g :: gs /\ Forall (fun x => x <> []) gs /\
               (g = [] -> ms = [] \/ (exists m r, ms = m :: r /\ a_deferred m = true)) /\
               (forall a, In a (List.concat (g :: gs)) -> In a ms).
Proof.
  induction ms as [|m r IH]; cbn [split_steps].
  - exists [], []. repeat split; auto.
  - destruct IH as (g & gs & E & Hgs & Hg & Hin). rewrite E.
    destruct (a_deferred m) eqn:Ed.
    + exists [], ((m :: g) :: gs). repeat split; auto.
      * constructor; [discriminate|exact Hgs].
      * intros _. right. eauto.
      * intros a Ha. cbn [List.concat app] in Ha. destruct Ha as [<-|Ha]; [left; reflexivity|]. right. apply Hin. exact Ha.
    + exists (m :: g), gs. repeat split; auto.
      * discriminate.
      * intros a Ha. cbn [List.concat app] in Ha. destruct Ha as [<-|Ha]; [left; reflexivity|]. right. apply Hin. exact Ha.
Qed.

Lemma split_steps_nonempty ms :
  (match ms with m :: _ => a_deferred m = false | [] => False end) ->
  Forall (fun x => x <> []) (split_steps ms).
Proof.
  intros H. destruct (split_steps_shape ms) as (g & gs & E & Hgs & Hg & _). rewrite E.
  constructor; [|exact Hgs]. intro Eg. destruct (Hg Eg) as [->|(m & r & -> & Hd)]; [contradiction|congruence].
Qed.

Lemma split_steps_in ms acts a : In acts (split_steps ms) -> In a acts -> In a ms.
Proof.
  intros H1 H2. destruct (split_steps_shape ms) as (g & gs & E & _ & _ & Hin). rewrite E in H1.
  apply Hin. apply in_concat. eauto.
Qed.

(* what the parser guarantees about one action: operand counts, and `>>>` only after a wrapper *)
Definition act_ok (a : action) : Prop :=
  (a_mv a = NoMove -> arity_ok a = true) /\ (a_mv a = Wrap -> can_be_wrapper (a_comb a) = true).

Lemma nest_step_ok e x L : act_ok x -> Forall nodes_ok L -> Forall nodes_ok (nest_step (e, x) L).
Proof.
  intros [Hn Hw] HL. unfold nest_step. cbn [fst snd].
  destruct (a_mv x) eqn:Em.
  - (* Wrap *)
    destruct L as [|cur [|outer rest]]; [constructor| |].
    + inversion HL; subst. constructor; [|constructor].
      rewrite nodes_ok_cons, node_ok_NWrap. repeat split; auto.
    + inversion HL as [|? ? Hc HL']; subst. inversion HL' as [|? ? Ho Hr]; subst.
      constructor; [|exact Hr]. rewrite nodes_ok_cons, node_ok_NWrap. repeat split; auto.
  - (* Unwrap *) constructor; [exact I|exact HL].
  - (* NoMove *)
    destruct L as [|cur rest]; [constructor|]. inversion HL; subst.
    constructor; [|assumption]. rewrite nodes_ok_cons. cbn [node_ok]. auto.
Qed.

Lemma nest_ok acts t : Forall act_ok acts -> nest acts = Some t -> nodes_ok t.
Proof.
  unfold nest, nest_levels. intros Hok H.
  assert (HL : forall e0, Forall nodes_ok (fold_right nest_step [[]] (enum_from e0 acts))).
  { clear H. induction Hok as [|x r Hx Hr IH]; intros e0; cbn [enum_from fold_right].
    - constructor; [exact I|constructor].
    - apply nest_step_ok; [exact Hx|apply IH]. }
  specialize (HL 0).
  destruct (fold_right nest_step [[]] (enum_from 0 acts)) as [|t0 [|t1 rest]]; try discriminate.
  inversion H; subst. inversion HL; subst. assumption.
Qed.

(* ------------------------------------------------------------------------------------------ *)
(* well-formed inputs                                                                         *)
(* ------------------------------------------------------------------------------------------ *)

(* What the user of the DSL must respect / what the parser guarantees.
   - default options;
   - the `let` names are pairwise distinct and do not start with `__` (otherwise a later `let x`
     shadows an earlier branch's result, resp. a user name may collide with `__r1`, `__v`, ..);
   - a branch is not empty and does not begin with a `~` operator (the parser: it begins with the
     Initial expression, which is never deferred) - otherwise step 0 of the branch has no actions,
     the generator skips it but still destructures a result for it;
   - per action: the parser's operand counts for Fold/TryFold/Or/OrElse/MapErr/Initial, and `>>>`
     only after an operator that can be a wrapper.
   That every step's brackets balance is the hypothesis `prepare cfg inp = Some sp`. *)
Record wf (inp : input) : Prop := {
  wf_joiner : i_joiner inp = None;
  wf_transpose : i_transpose inp = None;
  wf_lazy : i_lazy inp = None;
  wf_names_nodup : NoDup (user_names inp);
  wf_names_user : Forall user_ident (user_names inp);
  wf_first : Forall (fun br => match b_members br with m :: _ => a_deferred m = false | [] => False end)
                    (i_branches inp);
  wf_actions : Forall (fun br => Forall act_ok (b_members br)) (i_branches inp)
}.

(* `wf` without the demand for default options: every setting of custom_joiner / lazy_branches /
   transpose_results is allowed (SpecOpts.v gives all of them a meaning) *)
Record wf_opts (inp : input) : Prop := {
  wfo_names_nodup : NoDup (user_names inp);
  wfo_names_user : Forall user_ident (user_names inp);
  wfo_first : Forall (fun br => match b_members br with m :: _ => a_deferred m = false | [] => False end)
                     (i_branches inp);
  wfo_actions : Forall (fun br => Forall act_ok (b_members br)) (i_branches inp)
}.

Lemma wf_wf_opts inp : wf inp -> wf_opts inp.
Proof. intros [_ _ _ H1 H2 H3 H4]. constructor; assumption. Qed.

Lemma wf_opts_wf inp : wf_opts inp -> i_joiner inp = None -> i_transpose inp = None -> i_lazy inp = None -> wf inp.
Proof. intros [H1 H2 H3 H4] Hj Ht Hl. constructor; assumption. Qed.

Definition pat_name (p : option (operand * string)) : option string :=
  match p with Some (_, x) => Some x | None => None end.
Definition opt_list {A} (o : option A) : list A := match o with Some x => [x] | None => [] end.

Definition step_rel (acts : list action) (t : list node) : Prop :=
  acts <> [] /\ nest acts = Some t /\ nodes_ok t.

(* the option-independent part: holds for EVERY setting of custom_joiner / lazy_branches / transpose_results *)
Record Rel_opts (cfg : config) (j : jout) (sp : sprog) : Prop := {
  r_cfg_j : j_cfg j = cfg;
  r_cfg_sp : sp_cfg sp = cfg;
  r_chains : Forall2 (Forall2 step_rel) (j_chains j) (sp_trees sp);
  r_names : sp_names sp = map pat_name (j_pats j);
  r_count : j_branch_count j = List.length (j_chains j);
  r_len_pats : List.length (j_pats j) = List.length (j_chains j);
  r_depths : j_depths j = map (fun c => List.length c) (j_chains j);
  r_max : j_max j = list_max (j_depths j);
  r_handler : sp_handler sp = j_handler j;
  r_nonempty : j_chains j <> [];
  r_hk_nontry : is_try cfg = false -> is_hkind HMap (j_handler j) = false /\ is_hkind HAndThen (j_handler j) = false;
  r_hk_try : is_try cfg = true -> is_hkind HThen (j_handler j) = false;
  r_unames_nodup : NoDup (flat_map opt_list (map pat_name (j_pats j)));
  r_unames_user : Forall user_ident (flat_map opt_list (map pat_name (j_pats j)))
}.

(* .. and the default options (what Spec.v is the semantics of) *)
Record Rel (cfg : config) (j : jout) (sp : sprog) : Prop := {
  r_base :> Rel_opts cfg j sp;
  r_joiner : j_joiner j = None;
  r_lazy : j_lazy j = is_spawn cfg && negb (is_async cfg);
  r_transpose : j_transpose j = is_try cfg && negb (is_async cfg)
}.

Lemma user_names_pats inp :
  user_names inp = flat_map opt_list (map pat_name (map b_pat (i_branches inp))).
Proof.
  unfold user_names. induction (i_branches inp) as [|br r IH]; cbn [flat_map map]; [reflexivity|].
  rewrite IH. destruct (b_pat br) as [[toks x]|]; reflexivity.
Qed.

Lemma steps_rel ms tr :
  (match ms with m :: _ => a_deferred m = false | [] => False end) -> Forall act_ok ms ->
  all_some (map nest (split_at_deferred ms)) = Some tr -> Forall2 step_rel (split_steps ms) tr.
Proof.
  intros Hf Ha Hs. apply all_some_Forall2 in Hs. rewrite split_at_deferred_eq in Hs.
  pose proof (split_steps_nonempty _ Hf) as Hne.
  assert (Hin : Forall (fun acts => Forall act_ok acts) (split_steps ms)).
  { rewrite Forall_forall. intros acts Hi. rewrite Forall_forall in *. intros a Haa. apply Ha.
    eapply split_steps_in; eauto. }
  apply (Forall2_Forall_l _ _ _ _ Hs) in Hne. apply (Forall2_Forall_l _ _ _ _ Hne) in Hin.
  eapply Forall2_impl; [|exact Hin]. cbn beta. intros acts t [[Hn Hne'] Hok].
  repeat split; auto. eapply nest_ok; eauto.
Qed.

(* what jout_new does with the three options *)
Lemma jout_new_opts cfg inp fcp j : jout_new cfg inp fcp = Ok j ->
  j_joiner j = i_joiner inp /\
  j_lazy j = opt_default (i_lazy inp) (is_spawn cfg && negb (is_async cfg)) /\
  j_transpose j = opt_default (i_transpose inp) (is_try cfg && negb (is_async cfg)).
Proof.
  intros Hg. unfold jout_new in Hg. cbv zeta in Hg.
  repeat match type of Hg with (if ?c then _ else _) = _ => destruct c; try discriminate Hg end.
  inversion Hg. repeat split.
Qed.

Theorem rel_of_gen_opts cfg inp fcp j sp :
  wf_opts inp -> jout_new cfg inp fcp = Ok j -> prepare cfg inp = Some sp -> Rel_opts cfg j sp.
Proof.
  intros [Hnd Hus Hfirst Hacts] Hg Hp.
  unfold jout_new in Hg.
  destruct (negb (is_try cfg) && (is_hkind HMap (i_handler inp) || is_hkind HAndThen (i_handler inp))) eqn:E1; [discriminate|].
  destruct (is_try cfg && is_hkind HThen (i_handler inp)) eqn:E2; [discriminate|].
  destruct (negb (is_async cfg) && match fcp with Some _ => true | None => false end) eqn:E3; [discriminate|].
  destruct (i_branches inp) as [|br0 brs] eqn:Eb; [discriminate|]. rewrite <- Eb in *.
  inversion Hg; subst j; clear Hg.
  unfold prepare in Hp.
  destruct (all_some (map (fun b => all_some (map nest (split_at_deferred (b_members b)))) (i_branches inp)))
    as [trees|] eqn:Et; [|discriminate].
  inversion Hp; subst sp; clear Hp.
  apply all_some_Forall2 in Et.
  constructor; cbn [j_cfg sp_cfg j_chains sp_trees sp_names j_pats j_branch_count j_depths j_max sp_handler
                    j_handler j_joiner j_lazy j_transpose]; try reflexivity.
  - (* chains *)
    apply Forall2_map_l.
    assert (HF : Forall (fun br => (match b_members br with m :: _ => a_deferred m = false | [] => False end)
                                   /\ Forall act_ok (b_members br)) (i_branches inp)).
    { rewrite Forall_forall in *. intros br Hbr. split; [apply Hfirst|apply Hacts]; exact Hbr. }
    clear Hfirst Hacts Eb. revert trees Et HF.
    induction (i_branches inp) as [|br r IH]; intros trees Et HF; inversion Et; subst; constructor.
    + inversion HF as [|? ? [Hf Ha] HF']; subst. apply steps_rel; assumption.
    + apply IH; auto. inversion HF; assumption.
  - rewrite map_map. apply map_ext. intros br. destruct (b_pat br) as [[toks x]|]; reflexivity.
  - rewrite map_length. reflexivity.
  - rewrite !map_length. reflexivity.
  - rewrite Eb. discriminate.
  - intros Htry. rewrite Htry in E1. cbn [negb andb] in E1. apply orb_false_elim in E1. exact E1.
  - intros Htry. rewrite Htry in E2. exact E2.
  - rewrite <- user_names_pats. exact Hnd.
  - rewrite <- user_names_pats. exact Hus.
Qed.

Theorem rel_of_gen cfg inp fcp j sp :
  wf inp -> jout_new cfg inp fcp = Ok j -> prepare cfg inp = Some sp -> Rel cfg j sp.
Proof.
  intros Hwf Hg Hp. destruct (jout_new_opts cfg inp fcp j Hg) as (Hj & Hl & Ht).
  constructor.
  - apply (rel_of_gen_opts cfg inp fcp j sp (wf_wf_opts inp Hwf) Hg Hp).
  - rewrite Hj. apply (wf_joiner _ Hwf).
  - rewrite Hl, (wf_lazy _ Hwf). reflexivity.
  - rewrite Ht, (wf_transpose _ Hwf). reflexivity.
Qed.

(* ------------------------------------------------------------------------------------------ *)
(* index lemmas under Rel                                                                     *)
(* ------------------------------------------------------------------------------------------ *)

(* the active branches of step k among the branches b, b+1, .., with their trees *)
Fixpoint spec_branches (k b : nat) (trs : list (list (list node))) : list (nat * list node) :=
  match trs with
  | [] => []
  | tr :: r => match nth_error tr k with
               | Some t => (b, t) :: spec_branches k (S b) r
               | None => spec_branches k (S b) r
               end
  end.

Lemma nth_error_nth_length {A} (l : list A) k d :
  nth_error l k = if Nat.ltb k (List.length l) then Some (nth k l d) else None.
Proof.
  revert k. induction l as [|x r IH]; intros k; destruct k as [|k]; cbn [nth_error nth List.length]; try reflexivity.
  rewrite IH. reflexivity.
Qed.

Lemma spec_branches_eq k : forall trs b,
  spec_branches k b trs =
  map (fun i => (i, nth k (nth (i - b) trs []) []))
      (filter (fun i => Nat.ltb k (List.length (nth (i - b) trs []))) (seq b (List.length trs))).
Proof.
  induction trs as [|tr r IH]; intros b; cbn [spec_branches List.length seq filter]; [reflexivity|].
  assert (E1 : filter (fun i => Nat.ltb k (List.length (nth (i - b) (tr :: r) []))) (seq (S b) (List.length r))
             = filter (fun i => Nat.ltb k (List.length (nth (i - S b) r []))) (seq (S b) (List.length r))).
  { apply filter_ext_in. intros i Hi. apply in_seq in Hi. replace (i - b) with (S (i - S b)) by lia. reflexivity. }
  assert (E2 : forall l, (forall i, In i l -> S b <= i) ->
               map (fun i => (i, nth k (nth (i - b) (tr :: r) []) [])) l = map (fun i => (i, nth k (nth (i - S b) r []) [])) l).
  { intros l Hl. apply map_ext_in. intros i Hi. apply Hl in Hi. replace (i - b) with (S (i - S b)) by lia. reflexivity. }
  rewrite E1, Nat.sub_diag. change (nth 0 (tr :: r) []) with tr.
  rewrite (nth_error_nth_length tr k []).
  destruct (Nat.ltb k (List.length tr)); cbn [map]; rewrite ?Nat.sub_diag; change (nth 0 (tr :: r) []) with tr;
    rewrite IH, E2; try reflexivity;
    intros i Hi; apply filter_In in Hi; destruct Hi as [Hi _]; apply in_seq in Hi; lia.
Qed.

Section RelFacts.
  Variable cfg : config.
  Variable j : jout.
  Variable sp : sprog.
  Hypothesis HR : Rel_opts cfg j sp.

  Let n := j_branch_count j.

  Lemma rel_n_trees : List.length (sp_trees sp) = n.
  Proof. unfold n. rewrite (r_count _ _ _ HR). symmetry. apply (Forall2_length' _ _ _ (r_chains _ _ _ HR)). Qed.
  Lemma rel_n_chains : List.length (j_chains j) = n.
  Proof. unfold n. rewrite (r_count _ _ _ HR). reflexivity. Qed.
  Lemma rel_n_pats : List.length (j_pats j) = n.
  Proof. rewrite (r_len_pats _ _ _ HR). apply rel_n_chains. Qed.
  Lemma rel_n_names : List.length (sp_names sp) = n.
  Proof. rewrite (r_names _ _ _ HR), map_length. apply rel_n_pats. Qed.
  Lemma rel_n_pos : 0 < n.
  Proof. rewrite <- rel_n_chains. pose proof (r_nonempty _ _ _ HR). destruct (j_chains j); [congruence|cbn; lia]. Qed.

  Lemma rel_depth b : depth sp b = nth b (j_depths j) 0.
  Proof.
    unfold depth. rewrite (r_depths _ _ _ HR).
    change 0 with (List.length (@nil (list action))). rewrite map_nth.
    destruct (Nat.lt_ge_cases b n) as [Hb|Hb].
    - pose proof (Forall2_nth _ _ _ [] [] (r_chains _ _ _ HR) b) as H.
      rewrite rel_n_chains in H. specialize (H Hb). symmetry. apply (Forall2_length' _ _ _ H).
    - rewrite !nth_overflow; [reflexivity| |]; [rewrite rel_n_chains|rewrite rel_n_trees]; exact Hb.
  Qed.

  Lemma rel_active k b : active sp k b = is_active j k b.
  Proof. unfold active, is_active. rewrite rel_depth. reflexivity. Qed.

  Lemma rel_actives k : actives sp k = filter (is_active j k) (seq 0 n).
  Proof.
    unfold actives. rewrite rel_n_trees. apply filter_ext. intros b. apply rel_active.
  Qed.

  Lemma rel_active_count k : active_count j k = List.length (actives sp k).
  Proof.
    rewrite rel_actives. unfold active_count, is_active.
    pose proof (filter_length_nth (fun d => Nat.ltb k d) (j_depths j) 0) as H.
    rewrite <- H. f_equal.
    replace (List.length (j_depths j)) with n.
    - apply filter_ext. intros b. rewrite Nat.sub_0_r. reflexivity.
    - rewrite (r_depths _ _ _ HR), map_length. symmetry. apply rel_n_chains.
  Qed.

  Lemma rel_max : max_depth sp = j_max j.
  Proof.
    rewrite (r_max _ _ _ HR), (r_depths _ _ _ HR). unfold max_depth, list_max. f_equal.
    pose proof (r_chains _ _ _ HR) as H. induction H; cbn [map]; [reflexivity|].
    f_equal; [|assumption]. symmetry. eapply Forall2_length'; eauto.
  Qed.

  Lemma rel_actives_nonempty k : k < j_max j -> actives sp k <> [].
  Proof.
    intros Hk. rewrite (r_max _ _ _ HR) in Hk. apply list_max_lt in Hk. destruct Hk as (d & Hin & Hlt).
    apply In_nth with (d := 0) in Hin. destruct Hin as (b & Hb & Hd).
    assert (Hbn : b < n).
    { rewrite (r_depths _ _ _ HR), map_length, rel_n_chains in Hb. exact Hb. }
    intro E. assert (Hin : In b (actives sp k)).
    { rewrite rel_actives. apply filter_In. split; [apply in_seq; lia|].
      unfold is_active. rewrite Hd. apply Nat.ltb_lt. exact Hlt. }
    rewrite E in Hin. exact Hin.
  Qed.

  Lemma rel_actives_lt k b : In b (actives sp k) -> b < n.
  Proof. rewrite rel_actives. intros H. apply filter_In in H. destruct H as [H _]. apply in_seq in H. lia. Qed.

  Lemma rel_actives_nodup k : NoDup (actives sp k).
  Proof. unfold actives. apply NoDup_filter. apply seq_NoDup. Qed.

  Lemma rel_spec_branches k :
    spec_branches k 0 (sp_trees sp) = map (fun b => (b, tree sp b k)) (actives sp k).
  Proof.
    rewrite spec_branches_eq. unfold actives, active, depth, tree.
    rewrite (filter_ext (fun i => Nat.ltb k (List.length (nth (i - 0) (sp_trees sp) [])))
                        (fun b => Nat.ltb k (List.length (nth b (sp_trees sp) [])))).
    - apply map_ext. intros b. rewrite Nat.sub_0_r. reflexivity.
    - intros b. rewrite Nat.sub_0_r. reflexivity.
  Qed.

  (* an active branch has a non-empty, balanced, well-formed step k *)
  Lemma rel_tree_ok k b : In b (actives sp k) ->
    exists acts, step_rel acts (tree sp b k).
  Proof.
    intros Hin. pose proof (rel_actives_lt k b Hin) as Hb.
    unfold actives in Hin. apply filter_In in Hin. destruct Hin as [_ Ha]. unfold active, depth in Ha.
    apply Nat.ltb_lt in Ha.
    pose proof (Forall2_nth _ _ _ [] [] (r_chains _ _ _ HR) b) as H.
    rewrite rel_n_chains in H. specialize (H Hb).
    assert (Hk : k < List.length (nth b (j_chains j) [])) by (rewrite (Forall2_length' _ _ _ H); exact Ha).
    pose proof (Forall2_nth _ _ _ [] [] H k Hk) as H2.
    exists (nth k (nth b (j_chains j) []) []). exact H2.
  Qed.
End RelFacts.
