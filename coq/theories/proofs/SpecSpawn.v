(* A thread-spawning macro gives the caller what its plain counterpart gives, under EVERY schedule.

   `join_spawn!` / `try_join_spawn!` (Spec.v: `is_spawn = true`, sync kinds) run every step with more
   than one active branch as: one `thread_builder` per branch, the captures, one named thread per
   branch, `.join().unwrap()` in branch order.  `join!` / `try_join!` run the chains in place.
   This file proves, for the WHOLE computation `spec` assigns to a program, run on the thread machine
   of Threads.v under an arbitrary schedule:

      if the caller (thread 0) is finished, its outcome is the outcome of the plain program,
      evaluated sequentially on the caller by the structural big-step evaluator `eval`.

   World.  (A) of the task: user code is deterministic and does not communicate between branches:
   the answer to an event depends on the event only (`stateless`, below).  The world may have any
   state it likes (a log, a counter, ...) as long as ANSWERS do not read it.
   Why this is the weakest natural hypothesis: if an answer may depend on a state that another
   branch's event changed, the branches of the thread kind race on that state while the plain kind
   runs them left to right; `ThreadsProps.ExBlock` is such a world (a shared counter): two
   schedules give two different results there, so no schedule-independent statement can hold.
   (With one state component per thread NAME, `ThreadsIndep.pw_handle`, runs are schedule
   independent, but the plain program runs every branch on the CALLER's component, so the thread
   kind and the plain kind differ as soon as two branches touch "their" state.)
   Likewise a user expression that reads `thread::current().name()` sees "<caller>_join_<i>" in the
   thread kind and the caller's name in the plain kind: user code must not make `EThreadName`
   events (`ucode`).

   Proof idea.  Children of a flat program (`flatc`: bodies of spawned threads contain no thread
   operation) never spawn, so the caller is the only spawner and handles are deterministic: thread
   i is the i-th thread the caller spawned.  `evalT` evaluates caller code against the list `rs` of
   the outcomes its children WILL have (`eval` of their bodies: nobody can influence them).
   `option_map fst (evalT nm code_0 rs)` is an invariant of every machine step (section Machine).
   The rest is equational: `evalT` of the thread step = `eval` of the plain step (`sim_thread_step`),
   lifted through `steps` / `run_body` / `spec` by one structural walk (`sim`; the walk itself is
   `SpecCode.walk_program`, shared with SpecSpawnNested.v where user code may spawn threads itself). *)
From Coq Require Import ZArith Lia List FunctionalExtensionality.
From Join Require Import Tok Names Ast Comp Std Denote Spec CompLaws Leaves SpecProps Threads ThreadsProps SpecThreads SpecCode.
Import ListNotations.

Local Notation top := (fun _ => True).

(* ================================================================== *)
(** * 1. Code classes                                                  *)
(* ================================================================== *)

(* user-level code: events only, no thread operation, no `EThreadName`; every result satisfies Q *)
Fixpoint ucode {A} (Q : A -> Prop) (c : comp A) : Prop :=
  match c with
  | Ret a => Q a
  | Panic _ => True
  | Vis e k => e <> EThreadName /\ forall v, ucode Q (k v)
  | Spawn _ _ _ | Join _ _ => False
  end.

(* no thread operation (the thread's name may be read) *)
Fixpoint nothr {A} (c : comp A) : Prop :=
  match c with
  | Ret _ | Panic _ => True
  | Vis _ k => forall v, nothr (k v)
  | Spawn _ _ _ | Join _ _ => False
  end.

(* caller code: spawned bodies are user-level code; every result satisfies Q *)
Fixpoint flatc {A} (Q : A -> Prop) (c : comp A) : Prop :=
  match c with
  | Ret a => Q a
  | Panic _ => True
  | Vis _ k => forall v, flatc Q (k v)
  | Spawn _ t k => ucode top t /\ forall h, flatc Q (k h)
  | Join _ k => forall r, flatc Q (k r)
  end.

Lemma ucode_weaken {A} (Q R : A -> Prop) (c : comp A) : (forall a, Q a -> R a) -> ucode Q c -> ucode R c.
Proof.
  intros HQ. induction c as [A a|A n|A e k IH|A name t IHt k IH|A h k IH]; cbn; auto.
  intros [He Hk]. split; eauto.
Qed.

Lemma ucode_bind {A B} (Q : A -> Prop) (R : B -> Prop) (c : comp A) (f : A -> comp B) :
  ucode Q c -> (forall a, Q a -> ucode R (f a)) -> ucode R (bind c f).
Proof.
  intros Hc Hf. induction c as [A a|A n|A e k IH|A name t IHt k IH|A h k IH]; cbn in *; auto; try contradiction.
  destruct Hc as [He Hk]. split; eauto.
Qed.

Lemma ucode_mapM {A B} (Q : B -> Prop) (f : A -> comp B) (l : list A) :
  (forall x, In x l -> ucode Q (f x)) -> ucode (Forall Q) (mapM f l).
Proof.
  induction l as [|x l IH]; intros H; cbn [mapM].
  - cbn. constructor.
  - eapply ucode_bind; [apply H; now left|]. intros y Hy.
    eapply ucode_bind; [apply IH; intros; apply H; now right|]. intros ys Hys. cbn. constructor; assumption.
Qed.

Lemma ucode_nothr {A} (Q : A -> Prop) (c : comp A) : ucode Q c -> nothr c.
Proof. induction c as [A a|A n|A e k IH|A name t IHt k IH|A h k IH]; cbn; auto. intros [_ Hk] v. eauto. Qed.

Lemma ucode_flat {A} (Q : A -> Prop) (c : comp A) : ucode Q c -> flatc Q c.
Proof. induction c as [A a|A n|A e k IH|A name t IHt k IH|A h k IH]; cbn; auto; try tauto. intros [_ Hk] v. eauto. Qed.

Lemma ucode_leaves {A} (Q : A -> Prop) (c : comp A) : ucode Q c -> leaves c Q.
Proof. induction c as [A a|A n|A e k IH|A name t IHt k IH|A h k IH]; cbn; auto; try tauto. intros [_ Hk] v. eauto. Qed.

Lemma nothr_bind {A B} (c : comp A) (f : A -> comp B) : nothr c -> (forall a, nothr (f a)) -> nothr (bind c f).
Proof. intros Hc Hf. induction c as [A a|A n|A e k IH|A name t IHt k IH|A h k IH]; cbn in *; eauto. Qed.

Lemma flat_weaken {A} (Q R : A -> Prop) (c : comp A) : (forall a, Q a -> R a) -> flatc Q c -> flatc R c.
Proof.
  intros HQ. induction c as [A a|A n|A e k IH|A name t IHt k IH|A h k IH]; cbn; eauto.
  intros [Ht Hk]. split; eauto.
Qed.

Lemma flat_bind {A B} (Q : A -> Prop) (R : B -> Prop) (c : comp A) (f : A -> comp B) :
  flatc Q c -> (forall a, Q a -> flatc R (f a)) -> flatc R (bind c f).
Proof.
  intros Hc Hf. induction c as [A a|A n|A e k IH|A name t IHt k IH|A h k IH]; cbn in *; eauto.
  destruct Hc as [Ht Hk]. split; eauto.
Qed.

Lemma flat_mapM {A B} (Q : B -> Prop) (f : A -> comp B) (l : list A) :
  (forall x, In x l -> flatc Q (f x)) -> flatc (Forall Q) (mapM f l).
Proof.
  induction l as [|x l IH]; intros H; cbn [mapM].
  - cbn. constructor.
  - eapply flat_bind; [apply H; now left|]. intros y Hy.
    eapply flat_bind; [apply IH; intros; apply H; now right|]. intros ys Hys. cbn. constructor; assumption.
Qed.

Lemma nothr_flat {A} (c : comp A) : nothr c -> flatc top c.
Proof. induction c as [A a|A n|A e k IH|A name t IHt k IH|A h k IH]; cbn; eauto; contradiction. Qed.

(* well-scoped joins (`ThreadsProps.ws`, for any result type, with the handles that are in scope at
   the end): needed only for "a fair schedule finishes" *)
Fixpoint wsq {A} (Q : A -> list nat -> Prop) (c : comp A) (H : list nat) : Prop :=
  match c with
  | Ret a => Q a H
  | Panic _ => True
  | Vis _ k => forall v, wsq Q (k v) H
  | Spawn _ t k => ws t [] /\ forall i, wsq Q (k i) (i :: H)
  | Join i k => In i H /\ forall r, wsq Q (k r) H
  end.
(* ... whatever handles are in scope at the start; they stay in scope *)
Definition wsd {A} (Q : A -> Prop) (c : comp A) : Prop :=
  forall H, wsq (fun a H' => Q a /\ incl H H') c H.

Lemma wsq_weaken {A} (Q R : A -> list nat -> Prop) (c : comp A) :
  (forall a H, Q a H -> R a H) -> forall H, wsq Q c H -> wsq R c H.
Proof.
  intros HQ. induction c as [A a|A n|A e k IH|A name t IHt k IH|A i k IH]; cbn; intros H Hc; eauto.
  - destruct Hc as [Ht Hk]. split; eauto.
  - destruct Hc as [Hi Hk]. split; eauto.
Qed.

Lemma wsq_bind {A B} (Q : A -> list nat -> Prop) (R : B -> list nat -> Prop) (c : comp A) (f : A -> comp B) :
  (forall a H, Q a H -> wsq R (f a) H) -> forall H, wsq Q c H -> wsq R (bind c f) H.
Proof.
  intros Hf. induction c as [A a|A n|A e k IH|A name t IHt k IH|A i k IH]; cbn; intros H Hc; eauto.
  - destruct Hc as [Ht Hk]. split; eauto.
  - destruct Hc as [Hi Hk]. split; eauto.
Qed.

Lemma wsd_bind {A B} (Q : A -> Prop) (R : B -> Prop) (c : comp A) (f : A -> comp B) :
  wsd Q c -> (forall a, Q a -> wsd R (f a)) -> wsd R (bind c f).
Proof.
  intros Hc Hf H. eapply wsq_bind; [|apply Hc]. intros a H' [Qa Hi].
  eapply wsq_weaken; [|apply (Hf a Qa H')]. intros b H'' [Rb Hi']. split; [exact Rb|].
  eapply incl_tran; eauto.
Qed.

Lemma nothr_wsd {A} (Q : A -> Prop) (c : comp A) : nothr c -> leaves c Q -> wsd Q c.
Proof.
  intros Hn Hl H. induction c as [A a|A n|A e k IH|A name t IHt k IH|A i k IH]; cbn in *; eauto; try contradiction.
  split; [exact Hl|apply incl_refl].
Qed.

Lemma ucode_wsd {A} (Q : A -> Prop) (c : comp A) : ucode Q c -> wsd Q c.
Proof. intros Hc. apply nothr_wsd; [eapply ucode_nothr; eauto|apply ucode_leaves, Hc]. Qed.

Lemma wsq_ws (c : comp val) : forall H, wsq (fun _ _ => True) c H -> ws c H.
Proof.
  induction c as [v|n|e k IH|name t k IHt IH|i k IH] using comp_val_ind; cbn; intros H Hc; auto.
  - destruct Hc as [Ht Hk]. split; auto.
  - destruct Hc as [Hi Hk]. split; auto.
Qed.

Lemma ucode_ws (Q : val -> Prop) (c : comp val) H : ucode Q c -> ws c H.
Proof.
  intros Hc. apply wsq_ws. eapply wsq_weaken; [|apply (ucode_wsd Q c Hc H)]. auto.
Qed.

Definition handle_in (H : list nat) (v : val) : Prop := match v with VHandle i => In i H | _ => True end.

Lemma wsq_spawn_all (child : nat -> comp val) (l : list (dval * nat)) :
  (forall b, ws (child b) []) ->
  forall H, wsq (fun ds H' => incl H H' /\ Forall (fun d => match d with DV v => handle_in H' v | _ => True end) ds)
                (mapM (std_spawn_one child) l) H.
Proof.
  intros Hch. induction l as [|[d b] l IH]; intros H; cbn [mapM].
  - cbn. split; [apply incl_refl|constructor].
  - unfold std_spawn_one at 1. cbn [fst snd]. destruct d; try exact I.
    cbn. split; [apply Hch|]. intros i.
    eapply wsq_bind; [|apply IH]. intros ds H' [Hi Hds]. cbn. split.
    + intros x Hx. apply Hi. now right.
    + constructor; [cbn; apply Hi; now left|exact Hds].
Qed.

Lemma wsq_join_all (l : list val) H :
  Forall (handle_in H) l -> wsq (fun _ H' => H' = H) (mapM std_join_one l) H.
Proof.
  induction 1 as [|v l Hv _ IH]; cbn [mapM]; [reflexivity|].
  eapply wsq_bind with (Q := fun _ H' => H' = H).
  - intros y H' ->. eapply wsq_bind; [|exact IH]. intros ys H' ->. reflexivity.
  - unfold std_join_one. destruct v; try exact I. cbn. split; [exact Hv|].
    intros [w|]; cbn; [reflexivity|exact I].
Qed.

Lemma wsd_thread_step {C} (Q : dval -> Prop) acts (caps : comp C) (child : C -> nat -> comp val) :
  ucode top caps -> (forall cp b, ucode top (child cp b)) -> (forall v, Q (DV v)) ->
  wsd Q (std_thread_step acts caps child).
Proof.
  intros Hcaps Hchild HQ. unfold std_thread_step.
  eapply wsd_bind with (Q := top).
  { apply nothr_wsd; [|apply leaves_true]. induction acts as [|b acts IH]; cbn [mapM]; [exact I|].
    apply nothr_bind; [|intros; apply nothr_bind; [exact IH|intros; exact I]].
    cbn. intros v. destruct (tb_name v (Z.of_nat b)); exact I. }
  intros builders _. eapply wsd_bind; [apply ucode_wsd, Hcaps|]. intros cp _ H.
  unfold std_spawn_join.
  eapply wsq_bind; [|apply wsq_spawn_all; intros b; eapply ucode_ws, Hchild].
  intros handles H' [Hi Hall].
  eapply wsq_bind with (Q := fun hs H'' => H'' = H' /\ Forall (handle_in H') (match hs with DV (VTuple l) => l | _ => [] end)).
  2:{ unfold vals_tuple. destruct (all_vals handles) as [vs|] eqn:E; [|exact I]. cbn. split; [reflexivity|].
      apply all_vals_map in E. subst handles. rewrite Forall_forall in Hall |- *. intros v Hv.
      apply (Hall (DV v)). now apply in_map. }
  intros hs H'' [-> Hf].
  eapply wsq_bind; [|apply wsq_join_all, Hf]. intros vs H3 ->. cbn. split; [apply HQ|exact Hi].
Qed.

(* ================================================================== *)
(** * 2. User code: what `msem` / `dotsem` / `callsem` / `awaitsem` may do *)
(* ================================================================== *)

(* `ucode` is a class of code in the sense of SpecCode.v: every piece of a sync program outside
   the thread step is `ucode` when the user's code is (lemmas `SpecCode.cls_*`) *)
Lemma ucode_class : code_class (@ucode).
Proof.
  split.
  - intros A Q a Ha. exact Ha.
  - intros A Q n. exact I.
  - intros A Q e k He Hk. split; assumption.
  - intros A B Q R c f. apply ucode_bind.
Qed.

(* Denotable values whose closures / futures are user-level code; `DTb` (the item `__tb`, which reads
   the thread name when applied) is not a value user code can hold:
     dval_ok (DV _ | DBuilder _ | DSpawnTokio) = True,  dval_ok (DF f) = forall vs, ucode top (f vs),
     dval_ok (DFn f) = forall cs, Forall carg_ok cs -> ucode top (f cs),  dval_ok (DFut c) = ucode top c,
     dval_ok DTb = False. *)
Notation dval_ok := (dval_okC (@ucode)).
Notation st_ok := (st_okC (@ucode)).

(* THE HYPOTHESIS ON USER CODE (`SpecCode.user_codeC` at the class `ucode`):
     uc_msem     : dval_ok recv -> Forall dval_ok args -> ucode dval_ok (msem m tys recv args)
     uc_dotsem   : dval_ok recv -> ucode dval_ok (dotsem o sn recv)
     uc_callsem  : Forall dval_ok args -> ucode dval_ok (callsem f args)
     uc_awaitsem : ucode top (awaitsem v)
   methods, field/method tokens, calls and awaits are user-level code (events only: no thread
   operation, no look at the thread's name) and hand back such values - PROVIDED the closures they
   are given are.  (Unconditionally it would be unsatisfiable for any `msem` that calls its closure
   argument, e.g. `map`.)  Instance: `ExSpawn.user_code_ex`. *)
Notation user_code := (user_codeC (@ucode)).

Lemma ucode_std_map d f : dval_ok d -> (forall vs, ucode top (f vs)) -> ucode dval_ok (std_map d f).
Proof. intros Hd Hf. eapply cls_std_map; eauto using ucode_class. Qed.

(* ================================================================== *)
(** * 3. The two evaluators                                            *)
(* ================================================================== *)

Section World.
  (* the stateless world: the answer of user code to an event (None = the user code panics) *)
  Variable h : ev -> option val.

  (* what a thread named nm is answered *)
  Definition ans (nm : option string) (e : ev) : option val :=
    match e with EThreadName => Some (name_val nm) | _ => h e end.

  (* THE REFERENCE: sequential evaluation on one thread named nm; None = panic.
     Thread operations have no sequential meaning (None); they do not occur in plain programs. *)
  Fixpoint eval {A} (nm : option string) (c : comp A) : option A :=
    match c with
    | Ret a => Some a
    | Panic _ => None
    | Vis e k => match ans nm e with Some v => eval nm (k v) | None => None end
    | Spawn _ _ _ | Join _ _ => None
    end.

  (* caller code with thread operations, against the outcomes rs of the threads spawned so far
     (index = handle; entry 0 stands for the caller itself) *)
  Fixpoint evalT {A} (nm : option string) (c : comp A) (rs : list (option val)) : option (A * list (option val)) :=
    match c with
    | Ret a => Some (a, rs)
    | Panic _ => None
    | Vis e k => match ans nm e with Some v => evalT nm (k v) rs | None => None end
    | Spawn name t k => evalT nm (k (List.length rs)) (rs ++ [eval (Some name) t])
    | Join i k => match nth_error rs i with Some r => evalT nm (k r) rs | None => None end
    end.

  Lemma eval_bind {A B} nm (c : comp A) (f : A -> comp B) :
    eval nm (bind c f) = match eval nm c with Some a => eval nm (f a) | None => None end.
  Proof.
    induction c as [A a|A n|A e k IH|A name t IHt k IH|A i k IH]; cbn; auto.
    destruct (ans nm e); auto.
  Qed.

  Lemma evalT_bind {A B} nm (c : comp A) (f : A -> comp B) : forall rs,
    evalT nm (bind c f) rs = match evalT nm c rs with Some (a, rs') => evalT nm (f a) rs' | None => None end.
  Proof.
    induction c as [A a|A n|A e k IH|A name t IHt k IH|A i k IH]; cbn; intros rs; auto.
    - destruct (ans nm e); auto.
    - destruct (nth_error rs i); auto.
  Qed.

  Lemma evalT_nothr {A} nm (c : comp A) rs :
    nothr c -> evalT nm c rs = option_map (fun a => (a, rs)) (eval nm c).
  Proof.
    induction c as [A a|A n|A e k IH|A name t IHt k IH|A i k IH]; cbn; intros Hc; auto; try contradiction.
    destruct (ans nm e); auto.
  Qed.

  (* user-level code does not see the thread's name *)
  Lemma eval_name {A} (Q : A -> Prop) nm nm' (c : comp A) : ucode Q c -> eval nm c = eval nm' c.
  Proof.
    induction c as [A a|A n|A e k IH|A name t IHt k IH|A i k IH]; cbn; intros Hc; auto.
    destruct Hc as [He Hk]. destruct e; try congruence; cbn; destruct (h _); eauto.
  Qed.

  Lemma eval_post {A} (Q : A -> Prop) nm (c : comp A) a : leaves c Q -> eval nm c = Some a -> Q a.
  Proof.
    induction c as [A a'|A n|A e k IH|A name t IHt k IH|A i k IH]; cbn; intros Hc E; try discriminate.
    - injection E as <-. exact Hc.
    - destruct (ans nm e) as [v|]; [|discriminate]. apply (IH v Q a (Hc v) E).
  Qed.

  Lemma eval_ucode_post {A} (Q : A -> Prop) nm (c : comp A) a : ucode Q c -> eval nm c = Some a -> Q a.
  Proof. intros Hc. apply eval_post. now apply ucode_leaves. Qed.

  Lemma eval_mapM {A B} nm (f : A -> comp B) (l : list A) :
    eval nm (mapM f l) = all_some (map (fun x => eval nm (f x)) l).
  Proof.
    induction l as [|x l IH]; cbn [mapM map all_some]; [reflexivity|].
    rewrite eval_bind. destruct (eval nm (f x)) as [y|]; [|reflexivity].
    rewrite eval_bind, IH. destruct (all_some _); reflexivity.
  Qed.

  (* ================================================================== *)
  (** * 4. The machine: `evalT` of the caller's code is invariant        *)
  (* ================================================================== *)

  Section Machine.
    Variable W : Type.
    Variable handle : option string -> ev -> W -> option val * W.
    (* deterministic, non-communicating user code: answers depend on the event only *)
    Definition stateless : Prop := forall nm e w, fst (handle nm e w) = h e.
    Hypothesis Hstateless : stateless.
    Variable nm : option string.

    Lemma answer_ans n e w : fst (answer handle n e w) = ans n e.
    Proof. destruct e; cbn; auto. Qed.

    Definition minv (R : option val) (s : Threads.state W) : Prop :=
      exists th0 rs,
        nth_error (pool s) 0 = Some th0 /\ th_name th0 = nm /\ flatc top (th_code th0) /\
        List.length rs = List.length (pool s) /\
        option_map fst (evalT nm (th_code th0) rs) = R /\
        forall i th, i <> 0 -> nth_error (pool s) i = Some th ->
                     ucode top (th_code th) /\ nth_error rs i = Some (eval (th_name th) (th_code th)).

    Lemma minv_step R i s s' : minv R s -> step_rel W handle i s s' -> minv R s'.
    Proof.
      intros (th0 & rs & H0 & Hnm & Hfl & Hlen & HR & Hch) Hst.
      pose proof (nth_error_Some_lt _ _ _ H0) as Hpos.
      destruct Hst as [th e k r w' Hth Hc Ha ->|th name t k Hth Hc ->|th j k th' r Hth Hc Hth' Ho ->];
        unfold thr_of in *.
      - (* an event *)
        assert (Er : r = ans (th_name th) e).
        { rewrite <- (answer_ans (th_name th) e (world s)), Ha. reflexivity. }
        destruct (Nat.eq_dec i 0) as [->|Hi].
        + rewrite H0 in Hth. injection Hth as <-.
          exists (set_code th0 (vis_next k r)), rs. cbn [pool].
          rewrite nth_error_upd_eq by exact Hpos. rewrite upd_length. cbn [set_code th_name th_code].
          rewrite Hc in Hfl, HR. cbn in Hfl, HR. rewrite Hnm in Er. rewrite <- Er in HR.
          split; [reflexivity|]. split; [exact Hnm|]. split; [destruct r; cbn; auto|]. split; [exact Hlen|].
          split; [destruct r; cbn; auto|].
          intros x thx Hx Hthx. rewrite nth_error_upd_neq in Hthx by congruence. apply (Hch _ _ Hx Hthx).
        + destruct (Hch _ _ Hi Hth) as [Hu Hr]. rewrite Hc in Hu, Hr. cbn in Hu, Hr.
          destruct Hu as [He Hk].
          exists th0, rs. cbn [pool]. rewrite nth_error_upd_neq by congruence. rewrite upd_length.
          split; [exact H0|]. split; [exact Hnm|]. split; [exact Hfl|]. split; [exact Hlen|]. split; [exact HR|].
          intros x thx Hx Hthx. destruct (Nat.eq_dec x i) as [->|Hne].
          * rewrite nth_error_upd_eq in Hthx by (eapply nth_error_Some_lt; eauto).
            injection Hthx as <-. cbn [set_code th_name th_code].
            split; [destruct r; cbn; auto|]. rewrite Hr, <- Er. destruct r; reflexivity.
          * rewrite nth_error_upd_neq in Hthx by congruence. apply (Hch _ _ Hx Hthx).
      - (* a spawn: only the caller spawns *)
        destruct (Nat.eq_dec i 0) as [->|Hi].
        2:{ destruct (Hch _ _ Hi Hth) as [Hu _]. rewrite Hc in Hu. contradiction. }
        rewrite H0 in Hth. injection Hth as <-.
        rewrite Hc in Hfl, HR. cbn in Hfl, HR. destruct Hfl as [Ht Hk].
        exists (set_code th0 (k (List.length (pool s)))), (rs ++ [eval (Some name) t]). cbn [pool].
        rewrite nth_error_app1 by (rewrite upd_length; exact Hpos).
        rewrite nth_error_upd_eq by exact Hpos. rewrite !app_length, upd_length. cbn [set_code th_name th_code List.length].
        rewrite Hlen in HR.
        split; [reflexivity|]. split; [exact Hnm|]. split; [apply Hk|]. split; [lia|]. split; [exact HR|].
        intros x thx Hx Hthx.
        destruct (Nat.lt_ge_cases x (List.length (pool s))) as [Hlt|Hge].
        + rewrite nth_error_app1 in Hthx by (rewrite upd_length; exact Hlt).
          rewrite nth_error_upd_neq in Hthx by congruence.
          rewrite nth_error_app1 by lia. apply (Hch _ _ Hx Hthx).
        + assert (x = List.length (pool s)) as ->.
          { apply nth_error_Some_lt in Hthx. rewrite app_length, upd_length in Hthx. cbn in Hthx. lia. }
          rewrite nth_error_app2 in Hthx by (rewrite upd_length; lia).
          rewrite upd_length, Nat.sub_diag in Hthx. cbn in Hthx. injection Hthx as <-. cbn.
          split; [exact Ht|]. rewrite <- Hlen. apply nth_error_app_new.
      - (* a join: only the caller joins; the joined child holds `eval` of its body *)
        destruct (Nat.eq_dec i 0) as [->|Hi].
        2:{ destruct (Hch _ _ Hi Hth) as [Hu _]. rewrite Hc in Hu. contradiction. }
        rewrite H0 in Hth. injection Hth as <-.
        rewrite Hc in Hfl, HR. cbn in Hfl, HR.
        assert (Hj : nth_error rs j = Some r).
        { destruct (Nat.eq_dec j 0) as [->|Hj].
          - rewrite H0 in Hth'. injection Hth' as <-. rewrite Hc in Ho. discriminate.
          - destruct (Hch _ _ Hj Hth') as [_ Hr]. rewrite Hr. f_equal.
            destruct (th_code th'); cbn in Ho |- *; congruence. }
        rewrite Hj in HR.
        exists (set_code th0 (k r)), rs. cbn [pool].
        rewrite nth_error_upd_eq by exact Hpos. rewrite upd_length. cbn [set_code th_name th_code].
        split; [reflexivity|]. split; [exact Hnm|]. split; [apply Hfl|]. split; [exact Hlen|]. split; [exact HR|].
        intros x thx Hx Hthx. rewrite nth_error_upd_neq in Hthx by congruence. apply (Hch _ _ Hx Hthx).
    Qed.

    (* every schedule; `c` = the caller's whole program *)
    Theorem flat_run_is_evalT (c : comp val) w sched :
      flatc top c ->
      let s := run_thr handle sched (init nm c w) in
      thr_finished 0 s = true -> result_of 0 s = Some (option_map fst (evalT nm c [None])).
    Proof.
      intros Hc s Hfin.
      assert (Hinv : minv (option_map fst (evalT nm c [None])) s).
      { apply (run_thr_invariant W handle (minv (option_map fst (evalT nm c [None])))).
        - intros i s1 s2. apply minv_step.
        - exists (mkThread nm None c), [None]. cbn.
          split; [reflexivity|]. split; [reflexivity|]. split; [exact Hc|]. split; [reflexivity|]. split; [reflexivity|].
          intros [|[|i]] th Hi Hth; cbn in Hth; [congruence|discriminate|discriminate]. }
      destruct Hinv as (th0 & rs & H0 & _ & _ & _ & HR & _).
      unfold thr_finished in Hfin. unfold result_of. rewrite H0 in *.
      destruct (th_code th0); cbn in *; try discriminate; rewrite <- HR; reflexivity.
    Qed.
  End Machine.

  (* ================================================================== *)
  (** * 5. Thread code against plain code                                *)
  (* ================================================================== *)

  (* c1 (caller code with thread operations) delivers what c2 (plain code) delivers *)
  Definition agrees {A} (nm : option string) (c1 c2 : comp A) : Prop :=
    forall rs, option_map fst (evalT nm c1 rs) = eval nm c2.

  Definition sim {A} (nm : option string) (Q : A -> Prop) (c1 c2 : comp A) : Prop :=
    flatc Q c1 /\ wsd Q c1 /\ ucode Q c2 /\ agrees nm c1 c2.

  Lemma sim_refl {A} nm (Q : A -> Prop) (c : comp A) : ucode Q c -> sim nm Q c c.
  Proof.
    intros Hc. split; [now apply ucode_flat|]. split; [now apply ucode_wsd|]. split; [exact Hc|].
    intros rs. rewrite evalT_nothr by (eapply ucode_nothr; eauto). destruct (eval nm c); reflexivity.
  Qed.

  Lemma sim_bind {A B} nm (Q : A -> Prop) (R : B -> Prop) (c1 c2 : comp A) (f1 f2 : A -> comp B) :
    sim nm Q c1 c2 -> (forall a, Q a -> sim nm R (f1 a) (f2 a)) -> sim nm R (bind c1 f1) (bind c2 f2).
  Proof.
    intros (Hfl & Hws & Hu & Hag) Hf. split; [|split; [|split]].
    - eapply flat_bind; [exact Hfl|]. intros a Ha. apply (Hf a Ha).
    - eapply wsd_bind; [exact Hws|]. intros a Ha. apply (Hf a Ha).
    - eapply ucode_bind; [exact Hu|]. intros a Ha. apply (Hf a Ha).
    - intros rs. rewrite evalT_bind, eval_bind. specialize (Hag rs).
      destruct (evalT nm c1 rs) as [[a rs']|]; cbn in Hag; rewrite <- Hag; [|reflexivity].
      assert (Ha : Q a) by (eapply eval_ucode_post; eauto).
      apply (Hf a Ha).
  Qed.

  (* ---- the thread step ---- *)
  Lemma evalT_builders nm acts rs :
    evalT nm (mapM (fun b => thread_builder (Z.of_nat b)) acts) rs =
    Some (map (fun b => DBuilder (child_name nm b)) acts, rs).
  Proof.
    induction acts as [|b acts IH]; cbn [mapM map]; [reflexivity|].
    rewrite evalT_bind. unfold thread_builder at 1. cbn [evalT ans]. rewrite tb_name_child_name. cbn [evalT].
    rewrite evalT_bind, IH. reflexivity.
  Qed.

  Lemma evalT_spawn_all nm (name : nat -> string) (child : nat -> comp val) acts : forall rs,
    evalT nm (mapM (std_spawn_one child) (combine (map (fun b => DBuilder (name b)) acts) acts)) rs =
    Some (map (fun i => DV (VHandle i)) (seq (List.length rs) (List.length acts)),
          rs ++ map (fun b => eval (Some (name b)) (child b)) acts).
  Proof.
    induction acts as [|b acts IH]; intros rs; cbn [mapM map combine List.length seq].
    - now rewrite app_nil_r.
    - rewrite evalT_bind. unfold std_spawn_one at 1. cbn [fst snd]. unfold std_spawn. cbn [bind evalT std_unwrap].
      rewrite evalT_bind, IH. rewrite app_length. cbn [List.length]. rewrite Nat.add_1_r.
      cbn [evalT]. rewrite <- app_assoc. reflexivity.
  Qed.

  Lemma nth_error_outs (outs : list (option val)) : forall pre,
    Forall2 (fun i r => nth_error (pre ++ outs) i = Some r) (seq (List.length pre) (List.length outs)) outs.
  Proof.
    induction outs as [|x outs IH]; intros pre; cbn [List.length seq]; constructor.
    - rewrite nth_error_app2 by lia. now rewrite Nat.sub_diag.
    - specialize (IH (pre ++ [x])). rewrite app_length, <- app_assoc in IH. cbn in IH.
      rewrite Nat.add_1_r in IH. exact IH.
  Qed.

  Lemma evalT_join_all nm rs hs outs :
    Forall2 (fun i r => nth_error rs i = Some r) hs outs ->
    evalT nm (mapM std_join_one (map VHandle hs)) rs = option_map (fun vs => (vs, rs)) (all_some outs).
  Proof.
    induction 1 as [|i r hs outs Hi _ IH]; cbn [mapM map all_some]; [reflexivity|].
    rewrite evalT_bind. unfold std_join_one at 1. unfold std_join. cbn [bind evalT]. rewrite Hi.
    destruct r as [v|]; cbn [evalT std_unwrap bind to_val]; [|reflexivity].
    rewrite evalT_bind, IH. destruct (all_some outs); reflexivity.
  Qed.

  Lemma all_some_vals (l : list (option dval)) :
    all_some (map (fun o => match o with Some (DV v) => Some v | _ => None end) l) =
    match all_some l with Some ds => all_vals ds | None => None end.
  Proof.
    induction l as [|[d|] l IH]; cbn [map all_some all_vals]; [reflexivity| |reflexivity].
    destruct d as [v|g|g|c|name| |]; try (destruct (all_some l); reflexivity).
    rewrite IH. destruct (all_some l) as [ds|]; [|reflexivity]. cbn [all_vals]. reflexivity.
  Qed.

  (* THE STEP: spawn one named thread per branch and join them in order = run the chains in place *)
  Lemma sim_thread_step {C} nm acts (caps : comp C) (child : C -> nat -> comp dval) :
    ucode top caps -> (forall cp b, ucode dval_ok (child cp b)) ->
    sim nm dval_ok
        (std_thread_step acts caps (fun cp b => let! d := child cp b in to_val d))
        (let! cp := caps in let! ds := mapM (child cp) acts in Spec.vals_tuple ds).
  Proof.
    intros Hcaps Hchild.
    assert (Hcv : forall cp b, ucode top (let! d := child cp b in to_val d)).
    { intros cp b. eapply ucode_bind; [apply Hchild|]. intros d _. destruct d; exact I. }
    split; [|split; [|split]].
    - (* caller code *)
      unfold std_thread_step.
      eapply flat_bind with (Q := top).
      { apply nothr_flat. induction acts as [|b acts IH]; cbn [mapM]; [exact I|].
        apply nothr_bind; [|intros; apply nothr_bind; [exact IH|intros; exact I]].
        cbn. intros v. destruct (tb_name v (Z.of_nat b)); exact I. }
      intros builders _. eapply flat_bind; [apply ucode_flat, Hcaps|]. intros cp _.
      unfold std_spawn_join.
      eapply flat_bind; [apply flat_mapM with (Q := top)|].
      { intros [d b] _. unfold std_spawn_one. cbn [fst snd]. destruct d; try exact I.
        cbn. split; [apply Hcv|]. intros i. exact I. }
      intros handles _. eapply flat_bind with (Q := top).
      { unfold vals_tuple. destruct (all_vals handles); exact I. }
      intros hs _. eapply flat_bind; [apply flat_mapM with (Q := top)|intros; exact I].
      intros v _. unfold std_join_one. destruct v; try exact I. cbn. intros [v|]; exact I.
    - (* joins are well-scoped *)
      apply wsd_thread_step; [exact Hcaps|exact Hcv|intros v; exact I].
    - (* plain code *)
      eapply ucode_bind; [exact Hcaps|]. intros cp _.
      eapply ucode_bind; [apply ucode_mapM; intros b _; apply Hchild|]. intros ds _.
      unfold Spec.vals_tuple. destruct (all_vals ds); exact I.
    - (* same outcome *)
      intros rs. unfold std_thread_step.
      rewrite evalT_bind, evalT_builders, evalT_bind, eval_bind.
      rewrite evalT_nothr by (eapply ucode_nothr; eauto).
      destruct (eval nm caps) as [cp|]; cbn [option_map]; [|reflexivity].
      unfold std_spawn_join.
      rewrite evalT_bind, (evalT_spawn_all nm (child_name nm) (fun b => let! d := child cp b in to_val d)).
      rewrite evalT_bind. unfold vals_tuple at 1. rewrite all_vals_handles. cbn [evalT].
      rewrite evalT_bind.
      rewrite (evalT_join_all nm _ _ (map (fun b => eval (Some (child_name nm b)) (let! d := child cp b in to_val d)) acts)).
      2:{ pose proof (nth_error_outs (map (fun b => eval (Some (child_name nm b)) (let! d := child cp b in to_val d)) acts) rs) as H.
          rewrite map_length in H. exact H. }
      rewrite eval_bind, eval_mapM.
      assert (E : map (fun b => eval (Some (child_name nm b)) (let! d := child cp b in to_val d)) acts =
                  map (fun o => match o with Some (DV v) => Some v | _ => None end) (map (fun b => eval nm (child cp b)) acts)).
      { rewrite map_map. apply map_ext. intros b.
        rewrite (eval_name top _ nm) by apply Hcv. rewrite eval_bind.
        destruct (eval nm (child cp b)) as [d|]; [|reflexivity]. destruct d; reflexivity. }
      rewrite E, all_some_vals.
      destruct (all_some (map (fun b => eval nm (child cp b)) acts)) as [ds|]; cbn [option_map]; [|reflexivity].
      unfold Spec.vals_tuple. destruct (all_vals ds); reflexivity.
  Qed.

  Lemma sim_eq {A} nm (Q : A -> Prop) (c1 c2 : comp A) : c1 = c2 -> ucode Q c2 -> sim nm Q c1 c2.
  Proof. intros ->. apply sim_refl. Qed.

  (* ---- the whole program: `SpecCode.walk_program` at the class `ucode` and the relation `sim` ---- *)
  Lemma sim_program msem dotsem callsem awaitsem (HU : user_code msem dotsem callsem awaitsem)
        (p : sprog) (Hsync : is_async (sp_cfg p) = false) (nm : option string) :
    sim nm top (let! d := spec msem dotsem callsem awaitsem (with_spawn true p) in to_val d)
               (let! d := spec msem dotsem callsem awaitsem (with_spawn false p) in to_val d).
  Proof.
    apply (walk_program (@ucode) ucode_class (fun A => @sim A nm)); try assumption.
    - intros A Q c. apply sim_refl.
    - intros A B Q R c1 c2 f1 f2. apply sim_bind.
    - intros C acts caps child. apply sim_thread_step.
  Qed.
End World.

(* ================================================================== *)
(** * 6. The theorems                                                  *)
(* ================================================================== *)

(* MAIN THEOREM.  p: any program of a sync kind; `with_spawn true p` is the thread-spawning macro
   (`join_spawn!` / `try_join_spawn!`), `with_spawn false p` its plain counterpart (`join!` /
   `try_join!`): same `is_try`, names, trees, handler.  The caller (thread 0, named nm) runs the
   macro and wants a value.  In a world whose answers depend on the event only, with user code
   that is events-only, under EVERY schedule: if the caller is finished, its outcome is the outcome
   of the plain program evaluated sequentially on the caller
   (`Some v` = returned v, `None` = panicked; compared are outcomes, not events or panic payloads). *)
Theorem spawn_macro_agrees_with_plain :
  forall (h : ev -> option val)
         (W : Type) (handle : option string -> ev -> W -> option val * W)
         msem dotsem callsem awaitsem (p : sprog) (nm : option string) (w : W) (sched : list nat),
    stateless h W handle ->
    user_code msem dotsem callsem awaitsem ->
    is_async (sp_cfg p) = false ->
    let spawn_prog := (let! d := spec msem dotsem callsem awaitsem (with_spawn true p) in to_val d) in
    let plain_prog := (let! d := spec msem dotsem callsem awaitsem (with_spawn false p) in to_val d) in
    let s := run_thr handle sched (init nm spawn_prog w) in
    thr_finished 0 s = true ->
    result_of 0 s = Some (eval h nm plain_prog).
Proof.
  intros h W handle msem dotsem callsem awaitsem p nm w sched Hw HU Hsync spawn_prog plain_prog s Hfin.
  destruct (sim_program h msem dotsem callsem awaitsem HU p Hsync nm) as (Hfl & _ & _ & Hag).
  unfold s. rewrite (flat_run_is_evalT h W handle Hw nm spawn_prog w sched Hfl Hfin).
  f_equal. apply Hag.
Qed.
Print Assumptions spawn_macro_agrees_with_plain.

(* A FAIR SCHEDULE FINISHES (`ThreadsProps.fair_schedule_finishes` applies: the macro's joins are
   well-scoped) - in ANY world: the round-robin, given enough fuel, ends with every thread finished. *)
Theorem spawn_macro_fair_run_finishes :
  forall (W : Type) (handle : option string -> ev -> W -> option val * W)
         msem dotsem callsem awaitsem (p : sprog) (nm : option string) (w : W),
    user_code msem dotsem callsem awaitsem ->
    is_async (sp_cfg p) = false ->
    let spawn_prog := (let! d := spec msem dotsem callsem awaitsem (with_spawn true p) in to_val d) in
    exists fuel, finished (run_fuel handle fuel (init nm spawn_prog w)) = true.
Proof.
  intros W handle msem dotsem callsem awaitsem p nm w HU Hsync spawn_prog.
  destruct (sim_program (fun _ => None) msem dotsem callsem awaitsem HU p Hsync nm) as (_ & Hws & _ & _).
  apply fair_schedule_finishes, ws_init. apply wsq_ws.
  eapply wsq_weaken; [|apply (Hws [])]. auto.
Qed.
Print Assumptions spawn_macro_fair_run_finishes.

(* hence the statement is not vacuous for any program: some schedule (the round-robin) finishes
   the caller, and there - as under every other finishing schedule - it holds the plain outcome *)
Corollary spawn_macro_some_run_finishes_with_plain_outcome :
  forall (h : ev -> option val)
         (W : Type) (handle : option string -> ev -> W -> option val * W)
         msem dotsem callsem awaitsem (p : sprog) (nm : option string) (w : W),
    stateless h W handle ->
    user_code msem dotsem callsem awaitsem ->
    is_async (sp_cfg p) = false ->
    let spawn_prog := (let! d := spec msem dotsem callsem awaitsem (with_spawn true p) in to_val d) in
    let plain_prog := (let! d := spec msem dotsem callsem awaitsem (with_spawn false p) in to_val d) in
    exists sched,
      let s := run_thr handle sched (init nm spawn_prog w) in
      finished s = true /\ result_of 0 s = Some (eval h nm plain_prog).
Proof.
  intros h W handle msem dotsem callsem awaitsem p nm w Hw HU Hsync spawn_prog plain_prog.
  destruct (spawn_macro_fair_run_finishes W handle msem dotsem callsem awaitsem p nm w HU Hsync) as [fuel Hfin].
  fold spawn_prog in Hfin.
  destruct (run_fuel_is_a_schedule W handle fuel (init nm spawn_prog w)) as [sched Hs].
  exists sched. cbn zeta. rewrite <- Hs. split; [exact Hfin|]. rewrite Hs.
  apply (spawn_macro_agrees_with_plain h W handle msem dotsem callsem awaitsem p nm w sched Hw HU Hsync).
  fold spawn_prog. rewrite <- Hs.
  pose proof (run_thr_length W handle sched (init nm spawn_prog w)) as Hlen. rewrite <- Hs in Hlen. cbn in Hlen.
  unfold thr_finished. unfold finished in Hfin. rewrite forallb_forall in Hfin.
  destruct (nth_error (pool (run_fuel handle fuel (init nm spawn_prog w))) 0) as [th|] eqn:E.
  - apply Hfin. eapply nth_error_In; eauto.
  - apply nth_error_None in E. lia.
Qed.

(* the same, as the two equivalences *)
Corollary spawn_macro_outcomes :
  forall (h : ev -> option val)
         (W : Type) (handle : option string -> ev -> W -> option val * W)
         msem dotsem callsem awaitsem (p : sprog) (nm : option string) (w : W) (sched : list nat),
    stateless h W handle ->
    user_code msem dotsem callsem awaitsem ->
    is_async (sp_cfg p) = false ->
    let spawn_prog := (let! d := spec msem dotsem callsem awaitsem (with_spawn true p) in to_val d) in
    let plain_prog := (let! d := spec msem dotsem callsem awaitsem (with_spawn false p) in to_val d) in
    let s := run_thr handle sched (init nm spawn_prog w) in
    thr_finished 0 s = true ->
    (forall v, result_of 0 s = Some (Some v) <-> eval h nm plain_prog = Some v) /\
    (result_of 0 s = Some None <-> eval h nm plain_prog = None).
Proof.
  intros h W handle msem dotsem callsem awaitsem p nm w sched Hw HU Hsync spawn_prog plain_prog s Hfin.
  pose proof (spawn_macro_agrees_with_plain h W handle msem dotsem callsem awaitsem p nm w sched Hw HU Hsync Hfin) as E.
  fold spawn_prog plain_prog s in E. rewrite E. split; [intros v|]; split; congruence.
Qed.

(* C07 for the whole macro: the caller's outcome does not depend on the schedule *)
Corollary spawn_macro_any_two_schedules_agree :
  forall (h : ev -> option val)
         (W : Type) (handle : option string -> ev -> W -> option val * W)
         msem dotsem callsem awaitsem (p : sprog) (nm : option string) (w : W) (sched1 sched2 : list nat),
    stateless h W handle ->
    user_code msem dotsem callsem awaitsem ->
    is_async (sp_cfg p) = false ->
    let spawn_prog := (let! d := spec msem dotsem callsem awaitsem (with_spawn true p) in to_val d) in
    let s1 := run_thr handle sched1 (init nm spawn_prog w) in
    let s2 := run_thr handle sched2 (init nm spawn_prog w) in
    thr_finished 0 s1 = true -> thr_finished 0 s2 = true ->
    result_of 0 s1 = result_of 0 s2.
Proof.
  intros h W handle msem dotsem callsem awaitsem p nm w sched1 sched2 Hw HU Hsync spawn_prog s1 s2 H1 H2.
  unfold s1, s2, spawn_prog.
  rewrite (spawn_macro_agrees_with_plain h W handle msem dotsem callsem awaitsem p nm w sched1 Hw HU Hsync H1).
  rewrite (spawn_macro_agrees_with_plain h W handle msem dotsem callsem awaitsem p nm w sched2 Hw HU Hsync H2).
  reflexivity.
Qed.
Print Assumptions spawn_macro_any_two_schedules_agree.

(* C04 transported to the thread kind: under every schedule, the value the caller of `join_spawn!`
   (no handler) gets lists branch b's LAST step value at position b (`SpecProps.ResultOK`), for an
   arbitrary description T of what the chains compute (`SpecProps.result_positions_join`). *)
Corollary spawn_result_positions :
  forall (h : ev -> option val)
         (W : Type) (handle : option string -> ev -> W -> option val * W)
         msem dotsem callsem awaitsem (p : sprog) (nm : option string) (w : W) (sched : list nat)
         (T : nat -> nat -> dval -> Prop),
    stateless h W handle ->
    user_code msem dotsem callsem awaitsem ->
    is_async (sp_cfg p) = false -> is_try (sp_cfg p) = false -> sp_handler p = None ->
    (forall sn cp k st b, leaves (chain msem dotsem callsem p sn cp k st b) (T b k)) ->
    (forall b, b < List.length (sp_trees p) -> 1 <= depth p b) ->
    let spawn_prog := (let! d := spec msem dotsem callsem awaitsem (with_spawn true p) in to_val d) in
    let s := run_thr handle sched (init nm spawn_prog w) in
    forall v, result_of 0 s = Some (Some v) -> ResultOK p T (DV v).
Proof.
  intros h W handle msem dotsem callsem awaitsem p nm w sched T Hw HU Hsync Htry Hnoh HT Hdepth spawn_prog s v Hres.
  assert (Hfin : thr_finished 0 s = true).
  { unfold thr_finished. unfold result_of in Hres. destruct (nth_error (pool s) 0) as [th|]; [|discriminate].
    destruct (th_code th); cbn in *; congruence. }
  pose proof (spawn_macro_agrees_with_plain h W handle msem dotsem callsem awaitsem p nm w sched Hw HU Hsync Hfin) as E.
  fold spawn_prog s in E. rewrite E in Hres. injection Hres as Hres.
  rewrite eval_bind in Hres.
  destruct (eval h nm (spec msem dotsem callsem awaitsem (with_spawn false p))) as [d|] eqn:Ed; [|discriminate].
  destruct d; cbn in Hres; try discriminate. injection Hres as ->.
  set (pp := with_spawn false p) in *.
  assert (Hl : leaves (spec msem dotsem callsem awaitsem pp) (ResultOK pp T)).
  { unfold spec. cbn [pp with_spawn sp_cfg is_async]. rewrite Hsync. unfold run_body.
    cbn [pp with_spawn sp_handler]. rewrite Hnoh. cbn [bind].
    apply leaves_bind. eapply leaves_weaken.
    2:{ apply (result_positions_join msem dotsem callsem awaitsem pp T HT Hdepth Hsync eq_refl Htry (max_depth pp) 0); [lia|].
        split; [apply map_length|]. intros b _ Hk. lia. }
    intros r Hr. exact Hr. }
  exact (eval_post h (ResultOK pp T) nm _ _ Hl Ed).
Qed.
Print Assumptions spawn_result_positions.

(* ================================================================== *)
(** * 7. Examples: the hypotheses are satisfiable, the machine runs     *)
(* ================================================================== *)

Module ExSpawn.
  (* ---- user code: `.map(f)` calls its closure, `recv.<tokens>` is an event that shows the
          receiver, awaiting a value is the value ---- *)
  Definition msemE (m : string) (tys : option (list operand)) (recv : dval) (args : list dval) : comp dval :=
    if String.eqb m "map" then
      match args with
      | [DF g] => std_map recv g
      | [DV fv] => std_map recv (fun vs => Vis (ECall fv vs) (fun w => Ret w))
      | _ => Panic P_ILLTYPED
      end
    else Panic P_STUCK.
  Definition dotsemE (o : operand) (sn : list (string * option val)) (recv : dval) : comp dval :=
    match recv with
    | DV v => Vis (EEval o (("self", Some v) :: sn)) (fun w => Ret (DV w))
    | _ => Panic P_ILLTYPED
    end.
  Definition callsemE (f : val) (args : list dval) : comp dval := Panic P_ILLTYPED.
  Definition awaitsemE (v : val) : comp val := Ret v.

  (* the hypothesis on user code holds - for every class of code (SpecCode.v), in particular `ucode` *)
  Lemma user_code_ex_cls cls : code_class cls -> user_codeC cls msemE dotsemE callsemE awaitsemE.
  Proof.
    intros CC. split.
    - intros m tys recv args Hrecv Hargs. unfold msemE. destruct (String.eqb m "map"); [|apply (cc_panic _ CC)].
      destruct args as [|[fv|g|g|c|name| |] [|]]; try apply (cc_panic _ CC).
      + eapply cls_std_map; eauto. intros vs. apply (cc_vis _ CC); [discriminate|]. intros w. apply (cc_ret _ CC). exact I.
      + eapply cls_std_map; eauto. inversion Hargs; assumption.
    - intros o sn recv Hrecv. destruct recv; try apply (cc_panic _ CC).
      apply (cc_vis _ CC); [discriminate|]. intros w. apply (cc_ret _ CC). exact I.
    - intros f args _. apply (cc_panic _ CC).
    - intros v. apply (cc_ret _ CC). exact I.
  Qed.
  Lemma user_code_ex : user_code msemE dotsemE callsemE awaitsemE.
  Proof. apply user_code_ex_cls, ucode_class. Qed.

  (* ---- a stateless world: an interpreter of the user's expressions ---- *)
  Definition h (e : ev) : option val :=
    match e with
    | EEval [TI x] sn =>
        if String.eqb x "one" then Some (VInt 1)
        else if String.eqb x "two" then Some (VInt 2)
        else if String.eqb x "some1" then Some (VSome (VInt 1))
        else if String.eqb x "none" then Some VNone
        else if String.eqb x "f" then Some (VOpq 7)      (* a user closure *)
        else match sn with
             | (_, Some (VInt z)) :: _ =>
                 if String.eqb x "inc" then Some (VInt (z + 1))
                 else if String.eqb x "dbl" then Some (VInt (2 * z))
                 else None                            (* e.g. "boom": the user code panics *)
             | _ => None
             end
    | ECall (VOpq 7) [VInt z] => Some (VInt (z + 10))    (* what the closure does *)
    | _ => None
    end.
  (* the machine's world: it counts the events, but no answer reads the counter *)
  Definition handleE (nm : option string) (e : ev) (w : nat) : option val * nat := (h e, S w).
  Lemma stateless_ex : stateless h nat handleE.
  Proof. intros nm e w. reflexivity. Qed.

  (* ---- the program: 2 branches, 2 steps, branch 1 is shorter ----
       join_spawn! { one -> inc ~-> dbl,  two -> inc }   (`->` = `.`-chains on the model's operands) *)
  Definition ini (x : string) : action := mkAction Initial false NoMove [[TI x]].
  Definition dot (deferred : bool) (x : string) : action := mkAction Dot deferred NoMove [[TI x]].
  Definition trees2 (last0 : string) : list (list (list node)) :=
    [ [ [NAct 0 (ini "one"); NAct 1 (dot false "inc")]; [NAct 0 (dot true last0)] ];
      [ [NAct 0 (ini "two"); NAct 1 (dot false "inc")] ] ].
  Definition prog2 (try_ : bool) (last0 : string) : sprog :=
    mkSprog (mkConfig false try_ false) [None; None] (trees2 last0) None.

  Definition spawn_prog (p : sprog) : comp val :=
    let! d := spec msemE dotsemE callsemE awaitsemE (with_spawn true p) in to_val d.
  Definition plain_prog (p : sprog) : comp val :=
    let! d := spec msemE dotsemE callsemE awaitsemE (with_spawn false p) in to_val d.

  (* two very different schedules *)
  Definition sched_a : list nat := List.concat (repeat [0; 1; 2] 30).          (* round-robin *)
  Definition sched_b : list nat := repeat 0 20 ++ repeat 2 5 ++ repeat 1 5 ++ repeat 0 20.
                                                                          (* caller first, children in reverse *)
  Definition runE (sched : list nat) (p : sprog) := run_thr handleE sched (init (Some "main") (spawn_prog p) 0).

  Definition expected : val := VTuple [VInt 4; VInt 3].

  Example plain_value : eval h (Some "main") (plain_prog (prog2 false "dbl")) = Some expected.
  Proof. vm_compute. reflexivity. Qed.
  Example spawn_sched_a : result_of 0 (runE sched_a (prog2 false "dbl")) = Some (Some expected).
  Proof. vm_compute. reflexivity. Qed.
  Example spawn_sched_b : result_of 0 (runE sched_b (prog2 false "dbl")) = Some (Some expected).
  Proof. vm_compute. reflexivity. Qed.
  (* the two runs are different interleavings: three threads exist, named by `__tb`, and the traces differ *)
  Example spawn_names :
    map th_name (pool (runE sched_a (prog2 false "dbl"))) = [Some "main"; Some "main_join_0"; Some "main_join_1"].
  Proof. vm_compute. reflexivity. Qed.
  Example spawn_traces_differ :
    map fst (trace (runE sched_a (prog2 false "dbl"))) <> map fst (trace (runE sched_b (prog2 false "dbl"))).
  Proof. vm_compute. discriminate. Qed.

  (* a panicking branch: the plain program panics; in the thread kind the sibling still runs to its
     end and the caller panics at `.join().unwrap()` *)
  Example plain_panics : eval h (Some "main") (plain_prog (prog2 false "boom")) = None.
  Proof. vm_compute. reflexivity. Qed.
  Example spawn_panics_a : result_of 0 (runE sched_a (prog2 false "boom")) = Some None.
  Proof. vm_compute. reflexivity. Qed.
  Example spawn_panics_b : result_of 0 (runE sched_b (prog2 false "boom")) = Some None.
  Proof. vm_compute. reflexivity. Qed.

  (* try_join_spawn! { some1 |> f ~|> f,  <x> }  with `|>` = `.map(..)`: x = some1 succeeds, x = none fails step 0 *)
  Definition mapf (deferred : bool) : action := mkAction Map deferred NoMove [[TI "f"]].
  Definition progT (x : string) : sprog :=
    mkSprog (mkConfig false true false) [None; None]
            [ [ [NAct 0 (ini "some1"); NAct 1 (mapf false)]; [NAct 0 (mapf true)] ]; [ [NAct 0 (ini x)] ] ] None.
  Example try_plain_ok : eval h None (plain_prog (progT "some1")) = Some (VSome (VTuple [VInt 21; VInt 1])).
  Proof. vm_compute. reflexivity. Qed.
  Example try_spawn_ok_a :
    result_of 0 (run_thr handleE sched_a (init None (spawn_prog (progT "some1")) 0)) = Some (Some (VSome (VTuple [VInt 21; VInt 1]))).
  Proof. vm_compute. reflexivity. Qed.
  Example try_spawn_ok_b :
    result_of 0 (run_thr handleE sched_b (init None (spawn_prog (progT "some1")) 0)) = Some (Some (VSome (VTuple [VInt 21; VInt 1]))).
  Proof. vm_compute. reflexivity. Qed.
  Example try_plain_fail : eval h None (plain_prog (progT "none")) = Some VNone.
  Proof. vm_compute. reflexivity. Qed.
  Example try_spawn_fail_b :
    result_of 0 (run_thr handleE sched_b (init None (spawn_prog (progT "none")) 0)) = Some (Some VNone).
  Proof. vm_compute. reflexivity. Qed.

  (* the theorem, instantiated: for ALL schedules *)
  Example spawn_all_schedules sched :
    thr_finished 0 (runE sched (prog2 false "dbl")) = true ->
    result_of 0 (runE sched (prog2 false "dbl")) = Some (Some expected).
  Proof.
    intros Hfin. unfold runE.
    pose proof (spawn_macro_agrees_with_plain h nat handleE msemE dotsemE callsemE awaitsemE (prog2 false "dbl")
                  (Some "main") 0 sched stateless_ex user_code_ex eq_refl Hfin) as E.
    exact E.
  Qed.
End ExSpawn.
