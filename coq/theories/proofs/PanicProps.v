(* C18 on the thread machine: a panic of user code ends the thread it happens on, for good:
   the thread delivers `None` to whoever joins it and never makes another event, under every schedule. *)
From Coq Require Import ZArith Lia.
From Join Require Import Tok Names Comp Std Threads ThreadsProps.

Section Panic.
  Variable wstate : Type.
  Variable handle : option string -> ev -> wstate -> option val * wstate.
  Notation fin := (fin wstate).
  Notation thr_of := (thr_of wstate).
  Notation step_rel := (step_rel wstate handle).

  (* the world answers `None` to an event of thread i (= the user expression panics): the thread is finished, panicked *)
  Theorem user_panic_ends_thread s i th e k :
    thr_of s i = Some th -> th_code th = Vis e k ->
    fst (answer handle (th_name th) e (world s)) = None ->
    fin (step_or_skip handle i s) i None.
  Proof.
    intros Hth Hc Hans. unfold step_or_skip, step_thr. unfold ThreadsProps.thr_of in Hth. rewrite Hth, Hc, Hans.
    cbn [vis_next]. unfold ThreadsProps.fin, ThreadsProps.thr_of. cbn [pool].
    exists (set_code th (Panic P_USER)). split; [|reflexivity].
    clear - Hth. revert i Hth. generalize (pool s). induction l as [|x l IH]; intros [|i] H; cbn in *; try discriminate; auto.
  Qed.

  (* a finished thread stays finished with the same outcome and never makes a trace entry again *)
  Theorem finished_thread_is_silent s i r :
    fin s i r ->
    forall sched, fin (run_thr handle sched s) i r /\
                  exists tnew, trace (run_thr handle sched s) = tnew ++ trace s /\ forall x, In x tnew -> fst x <> i.
  Proof.
    intros Hfin sched.
    apply (run_thr_invariant wstate handle
             (fun s' => fin s' i r /\ exists tnew, trace s' = tnew ++ trace s /\ forall x, In x tnew -> fst x <> i)).
    - intros j s1 s2 [Hf (tnew & Ht & Hn)] Hst. split; [eapply step_fin_stable; eauto|].
      destruct (step_trace wstate handle j s1 s2 Hst) as [E|[e E]].
      + exists tnew. rewrite E. auto.
      + exists ((j, e) :: tnew). rewrite E, Ht. split; [reflexivity|].
        intros x [<-|Hx]; [|auto]. cbn. intros ->.
        eapply fin_not_unfinished; [exact Hf|]. eapply step_unfinished; eauto.
    - split; [assumption|]. exists []. split; [reflexivity|]. intros x [].
  Qed.

  (* together: after the panic, thread i delivers None and is silent under EVERY continuation of the schedule *)
  Corollary user_panic_is_final s i th e k :
    thr_of s i = Some th -> th_code th = Vis e k ->
    fst (answer handle (th_name th) e (world s)) = None ->
    forall sched,
      let s1 := step_or_skip handle i s in
      fin (run_thr handle sched s1) i None /\
      exists tnew, trace (run_thr handle sched s1) = tnew ++ trace s1 /\ forall x, In x tnew -> fst x <> i.
  Proof.
    intros Hth Hc Hans sched s1. apply finished_thread_is_silent.
    eapply user_panic_ends_thread; eauto.
  Qed.
End Panic.

Print Assumptions user_panic_is_final.
