(* Refinement, stage 1 (chain level): the code rendered for the bracket tree of one
   branch-step denotes the documented method chain `sem_nodes`.
     - flat chains, wrappers at any depth (closures `|__v| ..` shadow `__v`),
     - hoisted block operands: the `let __ewB_E_I = {..};` definitions executed ahead of the
       chains are `capture_nodes`, and the chains then read the captured values. *)
From Coq Require Import ZArith Lia FunctionalExtensionality.
From Join Require Import Tok Names Ast Ir Gen Comp Std Denote Spec NamesInj CompLaws Render RefineBase.

(* ------------------------------------------------------------------------------------------ *)
(* induction over bracket trees                                                               *)
(* ------------------------------------------------------------------------------------------ *)

Section NodeInd.
  Variable P : node -> Prop.
  Variable Q : list node -> Prop.
  Hypothesis HA : forall e a, P (NAct e a).
  Hypothesis HW : forall e a inner, Q inner -> P (NWrap e a inner).
  Hypothesis HN : Q [].
  Hypothesis HC : forall x r, P x -> Q r -> Q (x :: r).

  Fixpoint node_ind2 (n : node) : P n :=
    match n with
    | NAct e a => HA e a
    | NWrap e a inner =>
        HW e a inner ((fix go (l : list node) : Q l :=
                         match l with [] => HN | x :: r => HC x r (node_ind2 x) (go r) end) inner)
    end.
  Definition nodes_ind2 : forall l, Q l :=
    fix go (l : list node) : Q l :=
      match l with [] => HN | x :: r => HC x r (node_ind2 x) (go r) end.
End NodeInd.

(* ------------------------------------------------------------------------------------------ *)
(* static description of hoisting                                                             *)
(* ------------------------------------------------------------------------------------------ *)

(* the definitions `let __ewB_E_I = {block};` of an operand list, and the operands after replacement *)
Fixpoint op_defs (b e i : nat) (c : comb) (ops : list operand) : list rstmt :=
  match ops with
  | [] => []
  | o :: r => if hoistable c o then SLet (PIdent (n_ew b e i)) (RUser o) :: op_defs b e (S i) c r
              else op_defs b e (S i) c r
  end.
Fixpoint op_args (b e i : nat) (c : comb) (ops : list operand) : list rexpr :=
  match ops with
  | [] => []
  | o :: r => (if hoistable c o then RVar (n_ew b e i) else RUser o) :: op_args b e (S i) c r
  end.
Fixpoint op_keys (b e i : nat) (c : comb) (ops : list operand) : list key :=
  match ops with
  | [] => []
  | o :: r => if hoistable c o then (b, e, i) :: op_keys b e (S i) c r else op_keys b e (S i) c r
  end.

Fixpoint node_defs (b : nat) (n : node) : list rstmt :=
  match n with
  | NAct e a => op_defs b e 0 (a_comb a) (exprs_of a)
  | NWrap _ _ inner => (fix go (l : list node) : list rstmt :=
                          match l with [] => [] | x :: r => node_defs b x ++ go r end) inner
  end.
Definition nodes_defs (b : nat) : list node -> list rstmt :=
  fix go (l : list node) : list rstmt := match l with [] => [] | x :: r => node_defs b x ++ go r end.

Fixpoint node_keys (b : nat) (n : node) : list key :=
  match n with
  | NAct e a => op_keys b e 0 (a_comb a) (exprs_of a)
  | NWrap _ _ inner => (fix go (l : list node) : list key :=
                          match l with [] => [] | x :: r => node_keys b x ++ go r end) inner
  end.
Definition nodes_keys (b : nat) : list node -> list key :=
  fix go (l : list node) : list key := match l with [] => [] | x :: r => node_keys b x ++ go r end.

(* positions (index of the action within its step) occurring in a tree *)
Fixpoint node_pos (n : node) : list nat :=
  match n with
  | NAct e _ => [e]
  | NWrap e _ inner => e :: (fix go (l : list node) : list nat :=
                               match l with [] => [] | x :: r => node_pos x ++ go r end) inner
  end.
Definition nodes_pos : list node -> list nat :=
  fix go (l : list node) : list nat := match l with [] => [] | x :: r => node_pos x ++ go r end.

Lemma nodes_defs_cons b x r : nodes_defs b (x :: r) = node_defs b x ++ nodes_defs b r.
Proof. reflexivity. Qed.
Lemma node_defs_NWrap b e a inner : node_defs b (NWrap e a inner) = nodes_defs b inner.
Proof. reflexivity. Qed.
Lemma nodes_keys_cons b x r : nodes_keys b (x :: r) = node_keys b x ++ nodes_keys b r.
Proof. reflexivity. Qed.
Lemma node_keys_NWrap b e a inner : node_keys b (NWrap e a inner) = nodes_keys b inner.
Proof. reflexivity. Qed.
Lemma nodes_pos_cons x r : nodes_pos (x :: r) = node_pos x ++ nodes_pos r.
Proof. reflexivity. Qed.
Lemma node_pos_NWrap e a inner : node_pos (NWrap e a inner) = e :: nodes_pos inner.
Proof. reflexivity. Qed.

(* ---- what the user of the DSL / the parser guarantee about one tree ---- *)

(* operand counts of the combinators whose `replace_inner_exprs` would silently drop operands
   (for all other combinators a wrong count already makes the generator fail) *)
Definition arity_ok (a : action) : bool :=
  match a_comb a with
  | Fold | TryFold => Nat.eqb (List.length (a_ops a)) 2
  | Or | OrElse | MapErr | Initial => Nat.eqb (List.length (a_ops a)) 1
  | _ => true
  end.

Fixpoint node_ok (n : node) : Prop :=
  match n with
  | NAct _ a => arity_ok a = true
  | NWrap _ a inner => can_be_wrapper (a_comb a) = true /\
                       (fix go (l : list node) : Prop := match l with [] => True | x :: r => node_ok x /\ go r end) inner
  end.
Definition nodes_ok : list node -> Prop :=
  fix go (l : list node) : Prop := match l with [] => True | x :: r => node_ok x /\ go r end.
Lemma nodes_ok_cons x r : nodes_ok (x :: r) = (node_ok x /\ nodes_ok r).
Proof. reflexivity. Qed.
Lemma node_ok_NWrap e a inner : node_ok (NWrap e a inner) = (can_be_wrapper (a_comb a) = true /\ nodes_ok inner).
Proof. reflexivity. Qed.

(* ------------------------------------------------------------------------------------------ *)
(* hoist / separate_block_expr                                                                *)
(* ------------------------------------------------------------------------------------------ *)

Lemma hoist_ops b e c : is_replaceable c && has_inner_exprs c = true ->
  forall ops i, hoist b e i (map RUser ops) = (op_defs b e i c ops, op_args b e i c ops).
Proof.
  intros Hc. induction ops as [|o r IH]; intros i; cbn [map hoist op_defs op_args].
  - reflexivity.
  - rewrite IH. unfold hoistable. rewrite Hc. cbn [arg_is_block andb].
    destruct (is_block o); reflexivity.
Qed.

Lemma op_defs_not_hoistable b e c : is_replaceable c && has_inner_exprs c = false ->
  forall ops i, op_defs b e i c ops = [] /\ op_args b e i c ops = map RUser ops /\ op_keys b e i c ops = [].
Proof.
  intros Hc. induction ops as [|o r IH]; intros i; cbn [map op_defs op_args op_keys].
  - auto.
  - unfold hoistable. rewrite Hc. cbn [andb]. destruct (IH (S i)) as (-> & -> & ->). auto.
Qed.

Lemma op_defs_nil_args b e c : forall ops i, op_defs b e i c ops = [] -> op_args b e i c ops = map RUser ops.
Proof.
  induction ops as [|o r IH]; intros i; cbn [map op_defs op_args]; [reflexivity|].
  destruct (hoistable c o); [discriminate|]. intros H. rewrite IH by exact H. reflexivity.
Qed.

Lemma op_args_length b e c : forall ops i, List.length (op_args b e i c ops) = List.length ops.
Proof. induction ops as [|o r IH]; intros i; cbn [op_args List.length]; [reflexivity|]. rewrite IH. reflexivity. Qed.

(* the first component of separate_block_expr is always the static definition list *)
Lemma separate_defs a b e :
  fst (separate_block_expr (mk_pos a b e)) = op_defs b e 0 (a_comb a) (exprs_of a).
Proof.
  unfold separate_block_expr, mk_pos, exprs_of. cbn [p_comb p_args p_branch p_expr].
  destruct (is_replaceable (a_comb a) && has_inner_exprs (a_comb a)) eqn:Hc.
  - apply andb_prop in Hc as Hc'. destruct Hc' as [_ Hi]. rewrite Hi.
    rewrite (hoist_ops b e (a_comb a) Hc).
    destruct (op_defs b e 0 (a_comb a) (a_ops a)) as [|d ds]; [reflexivity|].
    destruct (replace_inner _ _); reflexivity.
  - cbn [fst]. destruct (op_defs_not_hoistable b e (a_comb a) Hc (a_ops a) 0) as (Hd & _).
    destruct (has_inner_exprs (a_comb a)); [rewrite Hd|]; reflexivity.
Qed.

(* with the parser's operand counts, a successful expansion used exactly the replaced operands *)
Lemma separate_args cfg a b e prev s :
  arity_ok a = true ->
  expand cfg prev (a_comb a) (snd (separate_block_expr (mk_pos a b e))) (a_ops a) = Ok s ->
  expand cfg prev (a_comb a) (op_args b e 0 (a_comb a) (exprs_of a)) (a_ops a) = Ok s.
Proof.
  unfold separate_block_expr, mk_pos, exprs_of, arity_ok. cbn [p_comb p_args p_branch p_expr].
  intros Har.
  destruct (is_replaceable (a_comb a) && has_inner_exprs (a_comb a)) eqn:Hc.
  - apply andb_prop in Hc as Hc'. destruct Hc' as [_ Hi]. rewrite Hi.
    rewrite (hoist_ops b e (a_comb a) Hc).
    destruct (op_defs b e 0 (a_comb a) (a_ops a)) as [|d ds] eqn:Hd.
    + cbn [snd]. rewrite (op_defs_nil_args _ _ _ _ _ Hd). auto.
    + pose proof (op_args_length b e (a_comb a) (a_ops a) 0) as Hlen.
      destruct (a_comb a) eqn:Ec; try discriminate Hc; cbn [snd];
        destruct (op_args b e 0 _ (a_ops a)) as [|x [|y [|z r]]] eqn:Ea; cbn [List.length] in Hlen;
        try (apply Nat.eqb_eq in Har; rewrite <- Hlen in Har; discriminate Har);
        cbn [replace_inner last_error rev app snd]; auto;
        try (destruct (a_ops a) as [|o1 [|o2 [|o3 r']]]; cbn [map expand meth1 List.length] in *; try discriminate; auto; fail);
        unfold replace_inner; destruct (last_error (x :: y :: z :: r)); cbn [snd];
        destruct (a_ops a) as [|o1 [|o2 [|o3 r']]]; cbn [map expand meth1 List.length] in *; try discriminate; auto.
  - cbn [snd]. destruct (op_defs_not_hoistable b e (a_comb a) Hc (a_ops a) 0) as (_ & Ha & _).
    destruct (has_inner_exprs (a_comb a)); [rewrite Ha|cbn [op_args]]; auto.
Qed.

(* ------------------------------------------------------------------------------------------ *)
(* positions of a tree built by `nest` are pairwise distinct                                  *)
(* ------------------------------------------------------------------------------------------ *)

Definition levels_pos (L : list (list node)) : list nat := flat_map nodes_pos L.

Lemma nest_step_pos e x L : L <> [] ->
  levels_pos (nest_step (e, x) L) = match a_mv x with Unwrap => levels_pos L | _ => e :: levels_pos L end.
Proof.
  intros HL. unfold nest_step. cbn [fst snd].
  destruct (a_mv x); destruct L as [|cur [|outer rest]]; try congruence; unfold levels_pos;
    cbn [flat_map nodes_pos node_pos app]; rewrite ?app_nil_r; try reflexivity.
  change ((fix go (l : list node) : list nat := match l with [] => [] | x0 :: r => node_pos x0 ++ go r end) cur)
    with (nodes_pos cur).
  change ((fix go (l : list node) : list nat := match l with [] => [] | x0 :: r => node_pos x0 ++ go r end) outer)
    with (nodes_pos outer).
  rewrite <- !app_assoc. reflexivity.
Qed.

Lemma nest_levels_pos acts : forall e0,
  NoDup (levels_pos (fold_right nest_step [[]] (enum_from e0 acts))) /\
  (forall e, In e (levels_pos (fold_right nest_step [[]] (enum_from e0 acts))) -> e0 <= e).
Proof.
  induction acts as [|x r IH]; intros e0; cbn [enum_from fold_right].
  - split; [constructor|]. intros e [].
  - destruct (IH (S e0)) as [Hnd Hge].
    rewrite nest_step_pos by apply nest_fold_nonempty.
    destruct (a_mv x).
    + split. { constructor; [|exact Hnd]. intro Hin. apply Hge in Hin. lia. }
      intros e [<-|Hin]; [lia|]. apply Hge in Hin. lia.
    + split; [exact Hnd|]. intros e Hin. apply Hge in Hin. lia.
    + split. { constructor; [|exact Hnd]. intro Hin. apply Hge in Hin. lia. }
      intros e [<-|Hin]; [lia|]. apply Hge in Hin. lia.
Qed.

Lemma nest_pos_nodup acts t : nest acts = Some t -> NoDup (nodes_pos t).
Proof.
  unfold nest, nest_levels. intros H.
  destruct (nest_levels_pos acts 0) as [Hnd _].
  destruct (fold_right nest_step [[]] (enum_from 0 acts)) as [|t0 [|t1 rest]]; try discriminate.
  inversion H; subst. unfold levels_pos in Hnd. cbn [flat_map] in Hnd. rewrite app_nil_r in Hnd. exact Hnd.
Qed.

(* keys of hoisted operands *)
Lemma op_keys_in b e c : forall ops i k, In k (op_keys b e i c ops) -> exists i', k = (b, e, i') /\ i <= i'.
Proof.
  induction ops as [|o r IH]; intros i k; cbn [op_keys]; [intros []|].
  destruct (hoistable c o).
  - intros [<-|Hin]. { exists i. split; [reflexivity|lia]. }
    destruct (IH _ _ Hin) as (i' & -> & Hle). exists i'. split; [reflexivity|lia].
  - intros Hin. destruct (IH _ _ Hin) as (i' & -> & Hle). exists i'. split; [reflexivity|lia].
Qed.

Lemma op_keys_nodup b e c : forall ops i, NoDup (op_keys b e i c ops).
Proof.
  induction ops as [|o r IH]; intros i; cbn [op_keys]; [constructor|].
  destruct (hoistable c o); [|apply IH].
  constructor; [|apply IH]. intro Hin. apply op_keys_in in Hin. destruct Hin as (i' & E & Hle).
  inversion E. lia.
Qed.

Lemma nodes_keys_in b : forall t k, In k (nodes_keys b t) -> exists e i, k = (b, e, i) /\ In e (nodes_pos t).
Proof.
  apply (nodes_ind2
    (fun n => forall k, In k (node_keys b n) -> exists e i, k = (b, e, i) /\ In e (node_pos n))
    (fun t => forall k, In k (nodes_keys b t) -> exists e i, k = (b, e, i) /\ In e (nodes_pos t))).
  - intros e a k Hin. cbn [node_keys] in Hin. apply op_keys_in in Hin. destruct Hin as (i' & -> & _).
    exists e, i'. split; [reflexivity|]. left. reflexivity.
  - intros e a inner IH k Hin. rewrite node_keys_NWrap in Hin. destruct (IH _ Hin) as (e' & i & -> & He).
    exists e', i. split; [reflexivity|]. rewrite node_pos_NWrap. right. exact He.
  - intros k [].
  - intros x r IHx IHr k Hin. rewrite nodes_keys_cons in Hin. rewrite nodes_pos_cons.
    apply in_app_or in Hin. destruct Hin as [Hin|Hin].
    + destruct (IHx _ Hin) as (e & i & -> & He). exists e, i. split; [reflexivity|]. apply in_or_app. left. exact He.
    + destruct (IHr _ Hin) as (e & i & -> & He). exists e, i. split; [reflexivity|]. apply in_or_app. right. exact He.
Qed.

Lemma NoDup_app_intro {A} (l1 l2 : list A) :
  NoDup l1 -> NoDup l2 -> (forall x, In x l1 -> In x l2 -> False) -> NoDup (l1 ++ l2).
Proof.
  induction l1 as [|a l1 IH]; intros H1 H2 Hd; cbn [app]; [exact H2|].
  inversion H1; subst. constructor.
  - intro Hin. apply in_app_or in Hin. destruct Hin as [Hin|Hin]; [contradiction|].
    apply (Hd a); [left; reflexivity|exact Hin].
  - apply IH; auto. intros x Hx1 Hx2. apply (Hd x); [right; exact Hx1|exact Hx2].
Qed.

Lemma NoDup_app_inv {A} (l1 l2 : list A) :
  NoDup (l1 ++ l2) -> NoDup l1 /\ NoDup l2 /\ (forall x, In x l1 -> In x l2 -> False).
Proof.
  induction l1 as [|a l1 IH]; cbn [app]; intros H.
  - split; [constructor|]. split; [exact H|]. intros x [].
  - inversion H; subst. destruct (IH H3) as (N1 & N2 & Hd). split; [|split; [exact N2|]].
    + constructor; [|exact N1]. intro Hin. apply H2. apply in_or_app. left. exact Hin.
    + intros x [<-|Hx1] Hx2.
      * apply H2. apply in_or_app. right. exact Hx2.
      * apply (Hd x); assumption.
Qed.

Lemma nodes_keys_nodup b : forall t, NoDup (nodes_pos t) -> NoDup (nodes_keys b t).
Proof.
  apply (nodes_ind2
    (fun n => NoDup (node_pos n) -> NoDup (node_keys b n))
    (fun t => NoDup (nodes_pos t) -> NoDup (nodes_keys b t))).
  - intros e a _. cbn [node_keys]. apply op_keys_nodup.
  - intros e a inner IH H. rewrite node_pos_NWrap in H. rewrite node_keys_NWrap. inversion H; subst. auto.
  - intros _. constructor.
  - intros x r IHx IHr H. rewrite nodes_pos_cons in H. rewrite nodes_keys_cons.
    apply NoDup_app_inv in H. destruct H as (N1 & N2 & Hd).
    apply NoDup_app_intro; auto.
    intros k Hk1 Hk2.
    destruct (nodes_keys_in b [x] k) as (e1 & i1 & E1 & He1).
    { rewrite nodes_keys_cons. cbn. rewrite app_nil_r. exact Hk1. }
    destruct (nodes_keys_in b r k Hk2) as (e2 & i2 & E2 & He2).
    rewrite nodes_pos_cons in He1. cbn in He1. rewrite app_nil_r in He1.
    rewrite E1 in E2. inversion E2; subst. apply (Hd e2); assumption.
Qed.

(* ------------------------------------------------------------------------------------------ *)
(* captured values and environments                                                           *)
(* ------------------------------------------------------------------------------------------ *)

Definition key_name (k : key) : string := let '(b, e, i) := k in n_ew b e i.

Lemma key_name_inj k k' : key_name k = key_name k' -> k = k'.
Proof.
  destruct k as [[b e] i], k' as [[b' e'] i']. cbn [key_name]. intros H.
  apply n_ew_inj in H. destruct H as (-> & -> & ->). reflexivity.
Qed.

Lemma key_eqb_eq k k' : key_eqb k k' = true <-> k = k'.
Proof.
  destruct k as [[b e] i], k' as [[b' e'] i']. cbn [key_eqb]. rewrite !andb_true_iff, !Nat.eqb_eq.
  split. { intros [[-> ->] ->]. reflexivity. } intros H. inversion H. auto.
Qed.
Lemma key_eqb_refl k : key_eqb k k = true.
Proof. apply key_eqb_eq. reflexivity. Qed.
Lemma key_eqb_neq k k' : key_eqb k k' = false <-> k <> k'.
Proof.
  split.
  - intros H E. apply key_eqb_eq in E. congruence.
  - intros N. destruct (key_eqb k k') eqn:E; [|reflexivity]. apply key_eqb_eq in E. contradiction.
Qed.

(* the environment after the captured values have been bound, in order *)
Definition ext_env (ρ : env) (cp : caps) : env :=
  fold_left (fun ρ kv => upd ρ (key_name (fst kv)) (DV (snd kv))) cp ρ.

Lemma ext_env_nil ρ : ext_env ρ [] = ρ.
Proof. reflexivity. Qed.
Lemma ext_env_cons ρ k v r : ext_env ρ ((k, v) :: r) = ext_env (upd ρ (key_name k) (DV v)) r.
Proof. reflexivity. Qed.
Lemma ext_env_app ρ c1 c2 : ext_env ρ (c1 ++ c2) = ext_env (ext_env ρ c1) c2.
Proof. unfold ext_env. apply fold_left_app. Qed.

Lemma ext_env_other cp : forall ρ x, (forall k, In k (map fst cp) -> x <> key_name k) -> ext_env ρ cp x = ρ x.
Proof.
  induction cp as [|[k v] r IH]; intros ρ x H; [reflexivity|].
  rewrite ext_env_cons. rewrite IH.
  - apply upd_other. apply H. left. reflexivity.
  - intros k' Hk'. apply H. right. exact Hk'.
Qed.

Lemma ext_env_lookup cp : forall ρ k v,
  NoDup (map fst cp) -> lookup_cap cp k = Some v -> ext_env ρ cp (key_name k) = Some (DV v).
Proof.
  induction cp as [|[k' v'] r IH]; intros ρ k v Hnd Hl; [discriminate|].
  cbn [map fst] in Hnd. inversion Hnd; subst. cbn [lookup_cap] in Hl. rewrite ext_env_cons.
  destruct (key_eqb k' k) eqn:E.
  - apply key_eqb_eq in E. subst k'. inversion Hl; subst v'.
    rewrite ext_env_other. { apply upd_same. }
    intros k2 Hk2 E2. apply key_name_inj in E2. subst. contradiction.
  - apply IH; assumption.
Qed.

Lemma key_name_gname k : exists g, key_name k = gname_str g /\ (exists b e i, g = GEW b e i).
Proof. destruct k as [[b e] i]. exists (GEW b e i). split; [reflexivity|]. eauto. Qed.

(* a name that is not an `__ew` name is untouched by ext_env *)
Lemma ext_env_not_ew ρ cp x : (forall b e i, x <> n_ew b e i) -> ext_env ρ cp x = ρ x.
Proof.
  intros H. apply ext_env_other. intros [[b e] i] _. apply H.
Qed.

Lemma lookup_cap_in cp k : In k (map fst cp) -> lookup_cap cp k <> None.
Proof.
  induction cp as [|[k' v'] r IH]; cbn [map fst In lookup_cap]; [intros []|].
  intros [->|Hin]. { rewrite key_eqb_refl. discriminate. }
  destruct (key_eqb k' k); [discriminate|]. auto.
Qed.

Definition is_DV (d : dval) : Prop := match d with DV _ => True | _ => False end.

(* ------------------------------------------------------------------------------------------ *)
(* the chain                                                                                  *)
(* ------------------------------------------------------------------------------------------ *)

Section Chain.
  Variable unames : list string.
  Variable msem : string -> option (list operand) -> dval -> list dval -> comp dval.
  Variable dotsem : operand -> list (string * option val) -> dval -> comp dval.
  Variable callsem : val -> list dval -> comp dval.
  Variable awaitsem : val -> comp val.

  Notation D := (den unames msem dotsem callsem awaitsem).
  Notation X := (exec unames msem dotsem callsem awaitsem).
  Notation execs := (execs unames msem dotsem callsem awaitsem).
  Notation dens := (dens unames msem dotsem callsem awaitsem).
  Notation snapρ := (snap unames).
  Notation app_d := (apply callsem).
  Notation Sem_node := (sem_node msem dotsem callsem).
  Notation Sem_nodes := (sem_nodes msem dotsem callsem).

  (* No hypothesis on the abstract user-code semantics `msem dotsem callsem awaitsem`.
     The user's `let` names do not start with `__`: *)
  Hypothesis unames_user : Forall user_ident unames.

  Lemma gname_not_uname g : ~ In (gname_str g) unames.
  Proof.
    intro Hin. rewrite Forall_forall in unames_user. apply unames_user in Hin.
    eapply user_ident_neq_gname; eauto.
  Qed.

  Lemma snap_upd_gname ρ g d : snapρ (upd ρ (gname_str g) d) = snapρ ρ.
  Proof. apply snap_upd_other. apply gname_not_uname. Qed.

  Lemma snap_ext_env cp : forall ρ, snapρ (ext_env ρ cp) = snapρ ρ.
  Proof.
    induction cp as [|[k v] r IH]; intros ρ; [reflexivity|].
    rewrite ext_env_cons, IH. destruct (key_name_gname k) as (g & -> & _). apply snap_upd_gname.
  Qed.

  (* ---- Spec: unfolding equations ---- *)
  Lemma sem_nodes_nil async sn cp b recv : Sem_nodes async sn cp b [] recv = recv.
  Proof. reflexivity. Qed.
  Lemma sem_nodes_cons async sn cp b x t recv :
    Sem_nodes async sn cp b (x :: t) recv = Sem_nodes async sn cp b t (Sem_node async sn cp b x recv).
  Proof. reflexivity. Qed.

  Definition wrap_clo async sn cp b (inner : list node) : dval :=
    DF (fun vs => match vs with
                  | [v] => let! d := Sem_nodes async sn cp b inner (Ret (DV v)) in to_val d
                  | _ => Panic P_ILLTYPED end).

  Lemma sem_node_NWrap async sn cp b e a inner recv :
    Sem_node async sn cp b (NWrap e a inner) recv =
    match a_comb a with
    | Inspect => if async then let! r := recv in msem "inspect" None r [wrap_clo async sn cp b inner]
                 else let! r := recv in inspect_sem callsem (wrap_clo async sn cp b inner) r
    | c => let! r := recv in msem (doc_method c) None r [wrap_clo async sn cp b inner]
    end.
  Proof. reflexivity. Qed.

  Lemma capture_nodes_cons sn b x r :
    capture_nodes sn b (x :: r) = let! c1 := capture_node sn b x in let! c2 := capture_nodes sn b r in Ret (c1 ++ c2).
  Proof. reflexivity. Qed.
  Lemma capture_node_NWrap sn b e a inner : capture_node sn b (NWrap e a inner) = capture_nodes sn b inner.
  Proof.
    cbn [capture_node]. induction inner as [|x r IH]; [reflexivity|].
    rewrite capture_nodes_cons, <- IH. reflexivity.
  Qed.

  (* ---- the helper fn __inspect ---- *)
  Definition inspect_body : rexpr := RBlock [SExpr (RCall (RVar n_h) [RRef (RVar n_v)])] (RVar n_v).
  Definition inspect_clo : list carg -> comp val :=
    fun vs => match bind_params [n_h; n_v] vs with
              | Some ρf => let! d := D inspect_body ρf in to_val d
              | None => Panic P_ILLTYPED end.

  Lemma exec_inspect_fn ρ : X inspect_fn ρ = Ret (upd ρ n_inspect (DFn inspect_clo)).
  Proof. reflexivity. Qed.

  (* the fn item `__inspect` IS Spec.inspect_sem - for every callback and every receiver, also the
     ill-typed ones: a receiver that is a generated closure is shown to the callback (`__h(&__v)`) and
     only fails when it is returned (`__v`, to_val); futures / items / builders are not arguments at all *)
  Lemma apply_inspect f r : app_d (DFn inspect_clo) [f; r] = inspect_sem callsem f r.
  Proof.
    assert (Hb : forall (cf cr : carg),
               inspect_clo [cf; cr] =
               (let! _ := app_d (match cf with CV w => DV w | CF g => DF g end)
                                [match cr with CV w => DV w | CF g => DF g end] in
                to_val (match cr with CV w => DV w | CF g => DF g end))).
    { intros cf cr. unfold inspect_clo. cbn [bind_params].
      set (fd := match cf with CV w => DV w | CF g => DF g end).
      set (rd := match cr with CV w => DV w | CF g => DF g end).
      set (ρf := upd (upd empty_env n_h fd) n_v rd).
      assert (Hh : ρf n_h = Some fd).
      { unfold ρf. rewrite upd_other by (rewrite n_h_g, n_v_g; apply gname_neq; discriminate). apply upd_same. }
      assert (Hvv : ρf n_v = Some rd) by apply upd_same.
      unfold inspect_body. rewrite den_RBlock, execs_cons, exec_SExpr, den_RCall_var, den_RVar, Hh.
      rewrite dens_cons, den_RRef, den_RVar, Hvv, dens_nil. cbn [execs]. nb.
      apply bind_ext. intros _. nb. rewrite den_RVar, Hvv. nb. reflexivity. }
    unfold apply at 1.
    destruct f as [fv|g| | | | |]; destruct r as [v|g'| | | | |]; cbn [all_cargs inspect_sem]; try reflexivity.
    all: rewrite Hb; nb; try reflexivity.
    all: apply bind_ext; intros _; reflexivity.
  Qed.

  (* ---- operands ---- *)
  Section Fixed.
    Variable cfg : config.
    Variable sn : list (string * option val).
    Variable cp : caps.
    Variable b : nat.
    Let async := is_async cfg.

    Record chain_env (ρ : env) : Prop := {
      ce_inspect : is_async cfg = false -> ρ n_inspect = Some (DFn inspect_clo);
      ce_snap : snapρ ρ = sn;
      ce_caps : forall e i v, lookup_cap cp (b, e, i) = Some v -> ρ (n_ew b e i) = Some (DV v)
    }.
    Definition covers (ks : list key) : Prop := forall k, In k ks -> lookup_cap cp k <> None.

    Lemma chain_env_upd_v ρ v : chain_env ρ -> chain_env (upd ρ n_v (DV v)).
    Proof.
      intros [H1 H2 H3]. split.
      - intros Ha. rewrite upd_other; auto. rewrite n_inspect_g, n_v_g. apply gname_neq; discriminate.
      - rewrite n_v_g, snap_upd_gname. exact H2.
      - intros e i w Hl. rewrite upd_other; auto. rewrite n_ew_g, n_v_g. apply gname_neq; discriminate.
    Qed.

    Lemma dens_op_args ρ e c : chain_env ρ ->
      forall ops i, covers (op_keys b e i c ops) -> dens ρ (op_args b e i c ops) = eval_args sn cp b e i c ops.
    Proof.
      intros Hρ. induction ops as [|o r IH]; intros i Hcov; cbn [op_args eval_args]; [reflexivity|].
      rewrite dens_cons. cbn [op_keys] in Hcov.
      destruct (hoistable c o) eqn:Hh.
      - rewrite den_RVar.
        destruct (lookup_cap cp (b, e, i)) as [v|] eqn:Hl.
        + rewrite (ce_caps ρ Hρ _ _ _ Hl). rewrite IH; [reflexivity|].
          intros k Hk. apply Hcov. right. exact Hk.
        + exfalso. apply (Hcov (b, e, i)); [left; reflexivity|exact Hl].
      - rewrite den_RUser, (ce_snap ρ Hρ). rewrite IH; [reflexivity|exact Hcov].
    Qed.

    Lemma eval_args_DV e c : forall ops i, leaves (Forall is_DV) (eval_args sn cp b e i c ops).
    Proof.
      induction ops as [|o r IH]; intros i; cbn [eval_args]. { constructor. constructor. }
      eapply leaves_bind with (P := is_DV).
      - destruct (hoistable c o).
        + destruct (lookup_cap cp (b, e, i)); constructor. exact I.
        + constructor. intros v. constructor. exact I.
      - intros d Hd. eapply leaves_bind; [apply IH|]. intros ds Hds. constructor. constructor; assumption.
    Qed.

    (* ---- what a successful rendering of one node did ---- *)
    Lemma render_NAct_inv e a ds s ds' s' :
      render_node cfg b (NAct e a) (ds, s) = Ok (ds', s') -> arity_ok a = true ->
      ds' = ds ++ node_defs b (NAct e a) /\
      expand cfg s (a_comb a) (op_args b e 0 (a_comb a) (exprs_of a)) (a_ops a) = Ok s'.
    Proof.
      cbn [render_node fst snd]. unfold gen_def_and_step. intros H Har.
      pose proof (separate_defs a b e) as Hd.
      pose proof (separate_args cfg a b e s) as Ha.
      destruct (separate_block_expr (mk_pos a b e)) as [dd args]. cbn [fst snd] in *.
      change (p_comb (mk_pos a b e)) with (a_comb a) in H. change (p_ops (mk_pos a b e)) with (a_ops a) in H.
      destruct (expand cfg s (a_comb a) args (a_ops a)) as [s1| |] eqn:He; cbn [rbind] in H; try discriminate.
      inversion H; subst. split; [reflexivity|]. apply Ha; auto.
    Qed.

    (* the wrapper closure (either form) is not a block operand: nothing of it is hoisted *)
    Lemma wrapper_closure_not_block body : arg_is_block (wrapper_closure cfg body) = false.
    Proof. unfold wrapper_closure. destruct (is_async cfg && is_spawn cfg); reflexivity. Qed.

    Lemma wrapper_replace_inner {A} c (x : A) : can_be_wrapper c = true -> replace_inner c [x] = Some [x].
    Proof. destruct c; try discriminate; reflexivity. Qed.

    Lemma render_NWrap_inv e a inner ds s ds' s' :
      render_node cfg b (NWrap e a inner) (ds, s) = Ok (ds', s') -> can_be_wrapper (a_comb a) = true ->
      exists body, render_nodes cfg b inner (ds, RVar n_v) = Ok (ds', body) /\
                   expand cfg s (a_comb a) [wrapper_closure cfg body] (a_ops a) = Ok s'.
    Proof.
      rewrite render_node_NWrap. cbn [fst snd]. intros H Hw.
      destruct (render_nodes cfg b inner (ds, RVar n_v)) as [[ds1 body]| |]; cbn [rbind] in H; try discriminate.
      cbn [fst snd] in H. rewrite (wrapper_replace_inner _ _ Hw) in H.
      unfold gen_def_and_step, separate_block_expr, set_args, mk_pos in H.
      cbn [p_comb p_args p_ops p_branch p_expr] in H.
      assert (Hc : is_replaceable (a_comb a) && has_inner_exprs (a_comb a) = true)
        by (destruct (a_comb a); try discriminate; reflexivity).
      rewrite Hc in H. cbn [hoist] in H. rewrite wrapper_closure_not_block in H.
      destruct (expand cfg s (a_comb a) [wrapper_closure cfg body] (a_ops a)) as [s1| |] eqn:He; cbn [rbind] in H; try discriminate.
      inversion H; subst. exists body. rewrite app_nil_r. split; [reflexivity|exact He].
    Qed.

    (* ---- syntactic half: the definitions a tree contributes ---- *)
    Lemma render_nodes_defs : forall t ds s ds' s',
      render_nodes cfg b t (ds, s) = Ok (ds', s') -> nodes_ok t -> ds' = ds ++ nodes_defs b t.
    Proof.
      apply (nodes_ind2
        (fun n => forall ds s ds' s', render_node cfg b n (ds, s) = Ok (ds', s') -> node_ok n -> ds' = ds ++ node_defs b n)
        (fun t => forall ds s ds' s', render_nodes cfg b t (ds, s) = Ok (ds', s') -> nodes_ok t -> ds' = ds ++ nodes_defs b t)).
      - intros e a ds s ds' s' H Hok. apply (render_NAct_inv e a ds s ds' s' H Hok).
      - intros e a inner IH ds s ds' s' H Hok. rewrite node_ok_NWrap in Hok. destruct Hok as [Hw Hin].
        destruct (render_NWrap_inv _ _ _ _ _ _ _ H Hw) as (body & Hr & _).
        rewrite node_defs_NWrap. eapply IH; eauto.
      - intros ds s ds' s' H _. rewrite render_nodes_nil in H. inversion H. rewrite app_nil_r. reflexivity.
      - intros x r IHx IHr ds s ds' s' H Hok. rewrite nodes_ok_cons in Hok. destruct Hok as [Hx Hr].
        rewrite render_nodes_cons in H.
        destruct (render_node cfg b x (ds, s)) as [[ds1 s1]| |] eqn:E1; cbn [rbind] in H; try discriminate.
        rewrite (IHr _ _ _ _ H Hr). rewrite (IHx _ _ _ _ E1 Hx). rewrite nodes_defs_cons, app_assoc. reflexivity.
    Qed.

    (* ---- semantic half ---- *)
    Lemma meth1_inv prev m args s : meth1 prev m args = Ok s -> s = RMeth prev m None args.
    Proof. unfold meth1. destruct args as [|f [|]]; try discriminate. intros H; inversion H. reflexivity. Qed.

    Lemma arg1_sem ρ e c o : chain_env ρ -> covers (op_keys b e 0 c [o]) ->
      exists A : comp dval,
        D (if hoistable c o then RVar (n_ew b e 0) else RUser o) ρ = A /\
        eval_args sn cp b e 0 c [o] = (let! d := A in Ret [d]) /\ leaves is_DV A.
    Proof.
      intros Hρ Hcov. cbn [eval_args op_keys] in *.
      destruct (hoistable c o).
      - destruct (lookup_cap cp (b, e, 0)) as [v|] eqn:Hl.
        + exists (Ret (DV v)). rewrite den_RVar, (ce_caps ρ Hρ _ _ _ Hl). split; [reflexivity|].
          split; [reflexivity|]. constructor. exact I.
        + exfalso. apply (Hcov (b, e, 0)); [left; reflexivity|exact Hl].
      - exists (Vis (EEval o sn) (fun v => Ret (DV v))). rewrite den_RUser, (ce_snap ρ Hρ).
        split; [reflexivity|]. split; [reflexivity|]. constructor. intros v. constructor. exact I.
    Qed.

    Lemma NAct_sem ρ e a s s' :
      chain_env ρ -> covers (node_keys b (NAct e a)) ->
      expand cfg s (a_comb a) (op_args b e 0 (a_comb a) (exprs_of a)) (a_ops a) = Ok s' ->
      D s' ρ = Sem_node async sn cp b (NAct e a) (D s ρ).
    Proof.
      intros Hρ Hcov He. cbn [node_keys] in Hcov.
      pose proof (dens_op_args ρ e (a_comb a) Hρ (exprs_of a) 0 Hcov) as Hargs.
      pose proof (fun o => arg1_sem ρ e (a_comb a) o Hρ) as H1.
      pose proof (op_args_length b e (a_comb a) (exprs_of a) 0) as Hlen.
      cbn [sem_node]. unfold types_of.
      set (args := op_args b e 0 (a_comb a) (exprs_of a)) in *.
      destruct (a_comb a) eqn:Ec; cbn [expand] in He;
        try (apply meth1_inv in He; subst s'; rewrite den_RMeth, Hargs; reflexivity);
        try (inversion He; subst s'; rewrite den_RMeth; unfold exprs_of; rewrite Ec;
             cbn [has_inner_exprs eval_args doc_method]; rewrite dens_nil; destruct (a_ops a); reflexivity).
      - (* Dot *)
        destruct (a_ops a) as [|o [|]]; try discriminate. inversion He; subst s'.
        rewrite den_RDot, (ce_snap ρ Hρ). reflexivity.
      - (* Inspect *)
        destruct args as [|f [|]] eqn:Ea; try discriminate.
        destruct (exprs_of a) as [|o [|]]; try discriminate. subst args. cbn [op_args] in Ea.
        destruct (H1 o Hcov) as (A & HA & HE & HL). inversion Ea as [Ef]. rewrite Ef in HA. rewrite HE. clear Hargs.
        unfold async. destruct (is_async cfg) eqn:Easync; inversion He; subst s'.
        + rewrite den_RMeth, dens_cons, dens_nil, HA. nb. apply bind_ext. intros r. nb. reflexivity.
        + rewrite den_RCall_var, den_RVar, (ce_inspect ρ Hρ Easync). nb.
          rewrite !dens_cons, dens_nil, HA. nb.
          apply bind_ext. intros d. nb.
          apply bind_ext. intros r. nb.
          apply apply_inspect.
      - (* Then *)
        destruct args as [|f [|]] eqn:Ea; try discriminate.
        destruct (exprs_of a) as [|o [|]]; try discriminate. subst args. cbn [op_args] in Ea.
        destruct (H1 o Hcov) as (A & HA & HE & HL). inversion Ea as [Ef]. rewrite Ef in HA. rewrite HE.
        inversion He; subst s'. rewrite den_RThenCall, HA. nb. reflexivity.
      - (* Initial *)
        destruct args as [|f [|]] eqn:Ea; try discriminate.
        destruct (exprs_of a) as [|o [|]]; try discriminate. subst args. cbn [op_args] in Ea.
        destruct (H1 o Hcov) as (A & HA & HE & HL). inversion Ea as [Ef]. rewrite Ef in HA. rewrite HE.
        inversion He; subst s'. rewrite HA. nb. symmetry. apply bind_ret_r.
      - (* Fold *)
        destruct args as [|i [|f [|]]] eqn:Ea; try discriminate. inversion He; subst s'.
        rewrite den_RMeth, Hargs. reflexivity.
      - (* TryFold *)
        destruct args as [|i [|f [|]]] eqn:Ea; try discriminate. inversion He; subst s'.
        rewrite den_RMeth, Hargs. reflexivity.
    Qed.

    Lemma NWrap_sem ρ e a inner body s s' :
      chain_env ρ -> can_be_wrapper (a_comb a) = true ->
      expand cfg s (a_comb a) [wrapper_closure cfg body] (a_ops a) = Ok s' ->
      (forall v, D body (upd ρ n_v (DV v)) = Sem_nodes async sn cp b inner (Ret (DV v))) ->
      D s' ρ = Sem_node async sn cp b (NWrap e a inner) (D s ρ).
    Proof.
      intros Hρ Hw He IH.
      assert (Hclo : D (wrapper_closure cfg body) ρ = Ret (wrap_clo async sn cp b inner)).
      { rewrite den_wrapper_closure, den_RClosure. unfold wrap_clo. f_equal. f_equal. extensionality vs.
        destruct vs as [|v [|]]; try reflexivity. rewrite IH. reflexivity. }
      rewrite sem_node_NWrap.
      destruct (a_comb a) eqn:Ec; try discriminate Hw; cbn [expand] in He;
        try (apply meth1_inv in He; subst s'; rewrite den_RMeth, dens_cons, Hclo, dens_nil; nb; reflexivity).
      (* Inspect *)
      unfold async. destruct (is_async cfg) eqn:Easync; inversion He; subst s'.
      - rewrite den_RMeth, dens_cons, Hclo, dens_nil. nb. reflexivity.
      - rewrite den_RCall_var, den_RVar, (ce_inspect ρ Hρ Easync). nb.
        rewrite !dens_cons, dens_nil, Hclo. nb.
        apply bind_ext. intros r. nb.
        apply apply_inspect.
    Qed.

    Lemma covers_app k1 k2 : covers (k1 ++ k2) -> covers k1 /\ covers k2.
    Proof.
      intros H. split; intros k Hk; apply H; apply in_or_app; [left|right]; exact Hk.
    Qed.

    Lemma render_nodes_sem : forall t ds s ds' s' ρ,
      render_nodes cfg b t (ds, s) = Ok (ds', s') -> nodes_ok t -> chain_env ρ ->
      covers (nodes_keys b t) ->
      D s' ρ = Sem_nodes async sn cp b t (D s ρ).
    Proof.
      apply (nodes_ind2
        (fun n => forall ds s ds' s' ρ,
           render_node cfg b n (ds, s) = Ok (ds', s') -> node_ok n -> chain_env ρ ->
           covers (node_keys b n) ->
           D s' ρ = Sem_node async sn cp b n (D s ρ))
        (fun t => forall ds s ds' s' ρ,
           render_nodes cfg b t (ds, s) = Ok (ds', s') -> nodes_ok t -> chain_env ρ ->
           covers (nodes_keys b t) ->
           D s' ρ = Sem_nodes async sn cp b t (D s ρ))).
      - intros e a ds s ds' s' ρ H Hok Hρ Hcov.
        destruct (render_NAct_inv e a ds s ds' s' H Hok) as [_ He].
        apply NAct_sem; assumption.
      - intros e a inner IH ds s ds' s' ρ H Hok Hρ Hcov.
        rewrite node_ok_NWrap in Hok. destruct Hok as [Hw Hin].
        destruct (render_NWrap_inv _ _ _ _ _ _ _ H Hw) as (body & Hr & He).
        eapply NWrap_sem; eauto.
        intros v. rewrite node_keys_NWrap in Hcov.
        assert (Hv : D (RVar n_v) (upd ρ n_v (DV v)) = Ret (DV v)) by (rewrite den_RVar, upd_same; reflexivity).
        rewrite <- Hv. eapply IH; eauto.
        apply chain_env_upd_v. exact Hρ.
      - intros ds s ds' s' ρ H _ _ _. rewrite render_nodes_nil in H. inversion H. reflexivity.
      - intros x r IHx IHr ds s ds' s' ρ H Hok Hρ Hcov.
        rewrite nodes_ok_cons in Hok. destruct Hok as [Hx Hr].
        rewrite nodes_keys_cons in Hcov. apply covers_app in Hcov. destruct Hcov as [Hc1 Hc2].
        rewrite render_nodes_cons in H.
        destruct (render_node cfg b x (ds, s)) as [[ds1 s1]| |] eqn:E1; cbn [rbind] in H; try discriminate.
        rewrite sem_nodes_cons.
        rewrite <- (IHx _ _ _ _ _ E1 Hx Hρ Hc1).
        eapply IHr; eauto.
    Qed.
  End Fixed.

  (* ---- the hoisted definitions are the captures ---- *)
  Lemma execs_op_defs b e c : forall ops i ρ,
    execs (op_defs b e i c ops) ρ = let! cp := capture_ops (snapρ ρ) b e i c ops in Ret (ext_env ρ cp).
  Proof.
    induction ops as [|o r IH]; intros i ρ; cbn [op_defs capture_ops]; [reflexivity|].
    destruct (hoistable c o).
    - rewrite execs_cons, exec_SLet_ident, den_RUser. nb. cbn [bind]. apply Vis_ext. intros v. nb.
      rewrite IH. rewrite n_ew_g, snap_upd_gname. nb. apply bind_ext. intros cp. nb. reflexivity.
    - apply IH.
  Qed.

  Lemma execs_nodes_defs b : forall t ρ,
    execs (nodes_defs b t) ρ = let! cp := capture_nodes (snapρ ρ) b t in Ret (ext_env ρ cp).
  Proof.
    apply (nodes_ind2
      (fun n => forall ρ, execs (node_defs b n) ρ = let! cp := capture_node (snapρ ρ) b n in Ret (ext_env ρ cp))
      (fun t => forall ρ, execs (nodes_defs b t) ρ = let! cp := capture_nodes (snapρ ρ) b t in Ret (ext_env ρ cp))).
    - intros e a ρ. cbn [node_defs capture_node]. apply execs_op_defs.
    - intros e a inner IH ρ. rewrite node_defs_NWrap, capture_node_NWrap. apply IH.
    - intros ρ. reflexivity.
    - intros x r IHx IHr ρ. rewrite nodes_defs_cons, execs_app, capture_nodes_cons, IHx. nb.
      apply bind_ext. intros c1. nb. rewrite IHr, snap_ext_env. nb. apply bind_ext. intros c2. nb.
      rewrite ext_env_app. reflexivity.
  Qed.

  Lemma capture_ops_keys sn b e c : forall ops i,
    leaves (fun cp => map fst cp = op_keys b e i c ops) (capture_ops sn b e i c ops).
  Proof.
    induction ops as [|o r IH]; intros i; cbn [capture_ops op_keys]. { constructor. reflexivity. }
    destruct (hoistable c o); [|apply IH].
    constructor. intros v. eapply leaves_bind; [apply IH|]. intros cp Hcp. constructor. cbn [map fst]. rewrite Hcp. reflexivity.
  Qed.

  Lemma capture_nodes_keys sn b : forall t,
    leaves (fun cp => map fst cp = nodes_keys b t) (capture_nodes sn b t).
  Proof.
    apply (nodes_ind2
      (fun n => leaves (fun cp => map fst cp = node_keys b n) (capture_node sn b n))
      (fun t => leaves (fun cp => map fst cp = nodes_keys b t) (capture_nodes sn b t))).
    - intros e a. cbn [capture_node node_keys]. apply capture_ops_keys.
    - intros e a inner IH. rewrite capture_node_NWrap, node_keys_NWrap. exact IH.
    - constructor. reflexivity.
    - intros x r IHx IHr. rewrite capture_nodes_cons, nodes_keys_cons.
      eapply leaves_bind; [exact IHx|]. intros c1 H1. eapply leaves_bind; [exact IHr|]. intros c2 H2.
      constructor. rewrite map_app. congruence.
  Qed.

  (* the environment in which the chains of a step run: the step's captures have been bound *)
  Lemma chain_env_ext cfg ρ cp b :
    (is_async cfg = false -> ρ n_inspect = Some (DFn inspect_clo)) ->
    NoDup (map fst cp) ->
    chain_env cfg (snapρ ρ) cp b (ext_env ρ cp).
  Proof.
    intros Hi Hnd. split.
    - intros Ha. rewrite ext_env_not_ew; auto.
      intros b' e i. rewrite n_inspect_g, n_ew_g. apply gname_neq. discriminate.
    - apply snap_ext_env.
    - intros e i v Hl. apply (ext_env_lookup cp ρ (b, e, i) v Hnd Hl).
  Qed.

  (* STAGE 1: one branch-step.  The block `{ let __ewB_E_I = ..; ..  chain }` generated for the
     actions `acts` of branch b denotes: capture the block operands (in position order), then the
     documented chain over the bracket tree, started from the branch's current value. *)
  Theorem branch_step_refines j b prev acts t defs c ρ :
    nest acts = Some t -> nodes_ok t ->
    gen_branch_step j b prev acts = Ok (defs, c) ->
    (is_async (j_cfg j) = false -> ρ n_inspect = Some (DFn inspect_clo)) ->
    (forall b' e i, prev <> n_ew b' e i) ->
    D (RBlock defs c) ρ =
    let! cp := capture_nodes (snapρ ρ) b t in
    Sem_nodes (is_async (j_cfg j)) (snapρ ρ) cp b t (D (wrap_into_block j (RVar prev)) ρ).
  Proof.
    intros Hn Hok Hg Hi Hprev.
    rewrite (gen_branch_step_is_render j b prev acts t Hn) in Hg.
    pose proof (render_nodes_defs (j_cfg j) b t _ _ _ _ Hg Hok) as Hd. cbn [app] in Hd. subst defs.
    rewrite den_RBlock, execs_nodes_defs. nb.
    eapply bind_ext_leaves; [apply capture_nodes_keys|]. intros cp Hk. nb.
    assert (Hnd : NoDup (map fst cp)).
    { rewrite Hk. apply nodes_keys_nodup. eapply nest_pos_nodup; eauto. }
    assert (Hs : D (wrap_into_block j (RVar prev)) (ext_env ρ cp) = D (wrap_into_block j (RVar prev)) ρ).
    { unfold wrap_into_block. destruct (is_async (j_cfg j)).
      - rewrite !den_RAsyncMove. cbn [execs]. nb. rewrite !den_RVar, ext_env_not_ew by exact Hprev. reflexivity.
      - rewrite !den_RBlock. cbn [execs]. nb. rewrite !den_RVar, ext_env_not_ew by exact Hprev. reflexivity. }
    rewrite <- Hs.
    eapply render_nodes_sem; eauto.
    - apply chain_env_ext; assumption.
    - intros k Hin. apply lookup_cap_in. rewrite Hk. exact Hin.
  Qed.
End Chain.

Print Assumptions branch_step_refines.
