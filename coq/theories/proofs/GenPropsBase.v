(* GenPropsBase - shared lemmas for the theorems about the generator model `Gen.v`
   (GenPropsA .. GenPropsE): the result monad, "never ConfigError after JoinOutput::new",
   the shape of `split_steps`, totality of the single-action functions. *)
From Coq Require Import Lia.
From Join Require Import Tok Names Ast Ir Gen.

(* ---------------------------------------------------------------------------------------------- *)
(** * The result monad *)

Lemma rbind_ok {A B} (r : res A) (f : A -> res B) b :
  rbind r f = Ok b -> exists a, r = Ok a /\ f a = Ok b.
Proof. destruct r; cbn [rbind]; intros H; try discriminate. eauto. Qed.

Lemma rbind_cfg {A B} (r : res A) (f : A -> res B) n :
  rbind r f = ConfigError n -> r = ConfigError n \/ exists a, r = Ok a /\ f a = ConfigError n.
Proof. destruct r; cbn [rbind]; intros H; try discriminate; [right; eauto|left; congruence]. Qed.

(* invert a hypothesis `rbind r f = Ok b` *)
Ltac inv_bind H :=
  let a := fresh "x" in let E := fresh "E" in
  apply rbind_ok in H; destruct H as (a & E & H).

Definition no_cfg {A} (r : res A) : Prop := forall n, r <> ConfigError n.

Lemma no_cfg_ok {A} (a : A) : no_cfg (Ok a).
Proof. intros n; discriminate. Qed.
Lemma no_cfg_bug {A} n : no_cfg (@InternalBug A n).
Proof. intros m; discriminate. Qed.
Lemma no_cfg_bind {A B} (r : res A) (f : A -> res B) :
  no_cfg r -> (forall a, no_cfg (f a)) -> no_cfg (rbind r f).
Proof.
  intros Hr Hf n H. apply rbind_cfg in H as [H|(a & _ & H)]; [exact (Hr n H)|exact (Hf a n H)].
Qed.
#[export] Hint Resolve no_cfg_ok no_cfg_bug : nocfg.

(* a result is Ok or an InternalBug *)
Lemma no_cfg_cases {A} (r : res A) : no_cfg r -> (exists a, r = Ok a) \/ (exists n, r = InternalBug n).
Proof. destruct r; intros H; eauto. exfalso; exact (H n eq_refl). Qed.

(* ---------------------------------------------------------------------------------------------- *)
(** * After JoinOutput::new nothing returns ConfigError *)

Lemma no_cfg_meth1 prev m args : no_cfg (meth1 prev m args).
Proof. unfold meth1. destruct args as [|f [|g r]]; auto with nocfg. Qed.
#[export] Hint Resolve no_cfg_meth1 : nocfg.

Lemma no_cfg_expand cfg prev c args ops : no_cfg (expand cfg prev c args ops).
Proof.
  unfold expand. destruct c; auto with nocfg;
    try (destruct args as [|f [|g [|h r]]]; cbn; auto with nocfg);
    try (destruct ops as [|o1 [|o2 ops']]; cbn; auto with nocfg).
Qed.

Lemma no_cfg_gen_def_and_step cfg ds prev p : no_cfg (gen_def_and_step cfg ds prev p).
Proof.
  unfold gen_def_and_step. destruct (separate_block_expr p) as [d a].
  apply no_cfg_bind; [apply no_cfg_expand|auto with nocfg].
Qed.

Lemma no_cfg_wrap_last cfg a : no_cfg (wrap_last cfg a).
Proof.
  unfold wrap_last. destruct (a_stk a) as [|[prev w0] [|[cur [w|]] rest]]; auto with nocfg.
  destruct (replace_inner _ _); auto with nocfg.
  apply no_cfg_bind; [apply no_cfg_gen_def_and_step|auto with nocfg].
Qed.

Lemma no_cfg_process_action cfg p m a : no_cfg (process_action cfg p m a).
Proof.
  unfold process_action. destruct m.
  - destruct (a_stk a) as [|[s w] rest]; auto with nocfg.
  - apply no_cfg_wrap_last.
  - destruct (a_stk a) as [|[s w] rest]; auto with nocfg.
    apply no_cfg_bind; [apply no_cfg_gen_def_and_step|auto with nocfg].
Qed.

Lemma no_cfg_process_actions cfg b acts : forall e a, no_cfg (process_actions cfg b e acts a).
Proof.
  induction acts as [|x r IH]; intros e a; cbn [process_actions]; auto with nocfg.
  apply no_cfg_bind; [apply no_cfg_process_action|auto].
Qed.

Lemma no_cfg_close_all cfg : forall fuel a, no_cfg (close_all fuel cfg a).
Proof.
  induction fuel as [|fuel IH]; intros a; cbn [close_all];
    destruct (a_stk a) as [|[s w] [|y r]]; auto with nocfg.
  apply no_cfg_bind; [apply no_cfg_wrap_last|auto].
Qed.

Lemma no_cfg_gen_branch_step j b prev acts : no_cfg (gen_branch_step j b prev acts).
Proof.
  unfold gen_branch_step. apply no_cfg_bind; [apply no_cfg_process_actions|intros; apply no_cfg_close_all].
Qed.

Lemma no_cfg_gen_branches j k vars chains : forall b, no_cfg (gen_branches j k vars b chains).
Proof.
  induction chains as [|ch rest IH]; intros b; cbn [gen_branches]; auto with nocfg.
  apply no_cfg_bind; [apply IH|]. intros tl.
  destruct (nth_error ch k) as [[|x acts]|]; auto with nocfg.
  apply no_cfg_bind; [apply no_cfg_gen_branch_step|auto with nocfg].
Qed.

Lemma no_cfg_gen_step j k vars sr : no_cfg (gen_step j k vars sr).
Proof.
  unfold gen_step. apply no_cfg_bind; [apply no_cfg_gen_branches|].
  intros [defs chains]. destruct (is_async (j_cfg j)); auto with nocfg.
  destruct (thread_builders j k sr); auto with nocfg.
Qed.

Lemma no_cfg_join_steps j k step next pats vars sr : no_cfg (join_steps j k step next pats vars sr).
Proof.
  unfold join_steps.
  destruct (is_try (j_cfg j) && (Nat.ltb k (j_max j - 1))).
  - destruct (j_transpose j); destruct next as [[nss ne]|]; auto with nocfg.
  - destruct (j_transpose j && is_try (j_cfg j)).
    + destruct (transposer _ _); auto with nocfg.
    + destruct (is_try (j_cfg j)).
      * destruct (Nat.ltb 1 (j_branch_count j)); auto with nocfg.
        destruct (map snd _); auto with nocfg.
        destruct (transposer _ _); auto with nocfg.
      * destruct next as [[nss ne]|]; auto with nocfg.
Qed.

Lemma no_cfg_gen_steps j pats vars : forall n k, no_cfg (gen_steps j pats vars k n).
Proof.
  induction n as [|n IH]; intros k; cbn [gen_steps]; auto with nocfg.
  apply no_cfg_bind; [apply IH|]. intros next.
  apply no_cfg_bind; [apply no_cfg_gen_step|]. intros step.
  apply no_cfg_bind; [apply no_cfg_join_steps|auto with nocfg].
Qed.

Lemma no_cfg_gen_output j : no_cfg (gen_output j).
Proof.
  unfold gen_output. apply no_cfg_bind; [apply no_cfg_gen_steps|].
  intros [[sss se]|]; auto with nocfg. destruct (is_async (j_cfg j)); auto with nocfg.
Qed.

(* ---------------------------------------------------------------------------------------------- *)
(** * split_steps *)

Lemma split_steps_nonempty ms : split_steps ms <> [].
Proof.
  induction ms as [|m r IH]; cbn [split_steps]; [discriminate|].
  destruct (split_steps r) as [|g gs]; [discriminate|]. destruct (a_deferred m); discriminate.
Qed.

Lemma split_steps_concat ms : List.concat (split_steps ms) = ms.
Proof.
  induction ms as [|m r IH]; cbn [split_steps]; [reflexivity|].
  destruct (split_steps r) as [|g gs] eqn:E.
  - exfalso; exact (split_steps_nonempty r E).
  - cbn [List.concat] in IH. destruct (a_deferred m); cbn [List.concat app]; now rewrite IH.
Qed.

(* every segment but the first is non-empty and starts with a Deferred member; the first is empty iff
   the chain is empty or starts with a Deferred member *)
Lemma split_steps_shape ms :
  exists g gs, split_steps ms = g :: gs /\
    Forall (fun s => exists m s', s = m :: s' /\ a_deferred m = true) gs /\
    (g = [] -> match ms with [] => True | m :: _ => a_deferred m = true end).
Proof.
  induction ms as [|m r (g & gs & E & Hgs & Hg)]; cbn [split_steps].
  - exists [], []. repeat split; auto.
  - rewrite E. destruct (a_deferred m) eqn:Ed.
    + exists [], ((m :: g) :: gs). repeat split; auto. constructor; eauto.
    + exists (m :: g), gs. repeat split; auto. discriminate.
Qed.

Lemma split_steps_members ms s x : In s (split_steps ms) -> In x s -> In x ms.
Proof.
  intros Hs Hx. rewrite <- (split_steps_concat ms). apply in_concat. eauto.
Qed.

Lemma list_max_ge l x : In x l -> x <= list_max l.
Proof.
  unfold list_max. induction l as [|y l IH]; cbn [fold_right In]; [tauto|].
  intros [->|H]; [lia|]. specialize (IH H). lia.
Qed.

Lemma list_max_In l : l <> [] -> In (list_max l) l.
Proof.
  unfold list_max. induction l as [|y l IH]; [congruence|]. intros _. cbn [fold_right].
  destruct l as [|z l'].
  - cbn. left. lia.
  - destruct (Nat.max_spec y (fold_right Nat.max 0 (z :: l'))) as [[_ ->]|[_ ->]].
    + right. apply IH. discriminate.
    + left. reflexivity.
Qed.
