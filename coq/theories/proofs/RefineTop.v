(* Refinement: the top-level theorems  den (gen cfg inp) = spec (prepare cfg inp). *)
From Coq Require Import ZArith Lia FunctionalExtensionality.
From Join Require Import Tok Names Ast Ir Gen Comp Std Denote Spec NamesInj CompLaws Render
     RefineBase RefineChain RefineProg RefineSteps.

Section Top.
  Variable msem : string -> option (list operand) -> dval -> list dval -> comp dval.
  Variable dotsem : operand -> list (string * option val) -> dval -> comp dval.
  Variable callsem : val -> list dval -> comp dval.
  Variable awaitsem : val -> comp val.

  (* no hypothesis on the abstract user-code semantics: the theorems hold for EVERY msem / dotsem /
     callsem / awaitsem *)

  Lemma gen_inv cfg inp e : gen cfg inp = Ok e ->
    exists fcp j, jout_new cfg inp fcp = Ok j /\ gen_output j = Ok e /\ j_pats j = map b_pat (i_branches inp).
  Proof.
    unfold gen. set (fcp := match i_fcp inp with Some p => Some p | None => _ end).
    destruct (jout_new cfg inp fcp) as [j| |] eqn:Ej; cbn [rbind]; intros Hg; try discriminate Hg.
    exists fcp, j. repeat split; auto.
    unfold jout_new in Ej.
    repeat match type of Ej with (if ?c then _ else _) = _ => destruct c; try discriminate Ej end.
    inversion Ej. reflexivity.
  Qed.

  (* STAGE 2: join! (sync, non-try, no threads) *)
  Theorem refine_join inp e sp :
    let cfg := {| is_async := false; is_try := false; is_spawn := false |} in
    wf inp -> gen cfg inp = Ok e -> prepare cfg inp = Some sp ->
    den (user_names inp) msem dotsem callsem awaitsem e empty_env = spec msem dotsem callsem awaitsem sp.
  Proof.
    intros cfg Hwf Hg Hp.
    destruct (gen_inv cfg inp e Hg) as (fcp & j & Hj & Ho & Hpats).
    pose proof (rel_of_gen cfg inp fcp j sp Hwf Hj Hp) as HR.
    pose proof (r_base _ _ _ HR) as HRb. pose proof (r_joiner _ _ _ HR) as Hoj.
    pose proof (r_lazy _ _ _ HR) as Hol. pose proof (r_transpose _ _ _ HR) as Hot.
    assert (Hun : user_names inp = flat_map opt_list (map pat_name (j_pats j))).
    { rewrite Hpats. apply user_names_pats. }
    eapply gen_output_sync with (cfg := cfg) (j := j); try eassumption; try reflexivity.
    intros ss se Hgs ρ st HI.
    eapply steps_nontry with (cfg := cfg); try eassumption; try reflexivity.
    intros k ρ' st' step HI' Hk Hs.
    eapply step_refines_plain with (cfg := cfg); try eassumption; reflexivity.
  Qed.

  (* STAGE 3: try_join! (sync, try, no threads) *)
  Theorem refine_try_join inp e sp :
    let cfg := {| is_async := false; is_try := true; is_spawn := false |} in
    wf inp -> gen cfg inp = Ok e -> prepare cfg inp = Some sp ->
    den (user_names inp) msem dotsem callsem awaitsem e empty_env = spec msem dotsem callsem awaitsem sp.
  Proof.
    intros cfg Hwf Hg Hp.
    destruct (gen_inv cfg inp e Hg) as (fcp & j & Hj & Ho & Hpats).
    pose proof (rel_of_gen cfg inp fcp j sp Hwf Hj Hp) as HR.
    pose proof (r_base _ _ _ HR) as HRb. pose proof (r_joiner _ _ _ HR) as Hoj.
    pose proof (r_lazy _ _ _ HR) as Hol. pose proof (r_transpose _ _ _ HR) as Hot.
    assert (Hun : user_names inp = flat_map opt_list (map pat_name (j_pats j))).
    { rewrite Hpats. apply user_names_pats. }
    eapply gen_output_sync with (cfg := cfg) (j := j); try eassumption; try reflexivity.
    intros ss se Hgs ρ st HI.
    eapply steps_try with (cfg := cfg); try eassumption; try reflexivity.
    intros k ρ' st' step HI' Hk Hs.
    eapply step_refines_plain with (cfg := cfg); try eassumption; reflexivity.
  Qed.

  (* STAGE 4 (and 2, 3 again): every sync kind - join!, try_join!, join_spawn!, try_join_spawn! *)
  Theorem refine_sync cfg inp e sp :
    is_async cfg = false ->
    wf inp -> gen cfg inp = Ok e -> prepare cfg inp = Some sp ->
    den (user_names inp) msem dotsem callsem awaitsem e empty_env = spec msem dotsem callsem awaitsem sp.
  Proof.
    intros Ha Hwf Hg Hp.
    destruct (gen_inv cfg inp e Hg) as (fcp & j & Hj & Ho & Hpats).
    pose proof (rel_of_gen cfg inp fcp j sp Hwf Hj Hp) as HR.
    pose proof (r_base _ _ _ HR) as HRb. pose proof (r_joiner _ _ _ HR) as Hoj.
    pose proof (r_lazy _ _ _ HR) as Hol. pose proof (r_transpose _ _ _ HR) as Hot.
    assert (Hun : user_names inp = flat_map opt_list (map pat_name (j_pats j))).
    { rewrite Hpats. apply user_names_pats. }
    eapply gen_output_sync with (cfg := cfg) (j := j); try eassumption.
    intros ss se Hgs ρ st HI.
    assert (Hstep : step_hyp (user_names inp) msem dotsem callsem awaitsem cfg j sp).
    { eapply step_sync; eassumption. }
    assert (Hc : {is_try cfg = true} + {is_try cfg = false}) by (destruct (is_try cfg); auto).
    destruct Hc as [Ht|Ht].
    - eapply steps_try with (cfg := cfg); try eassumption; reflexivity.
    - eapply steps_nontry with (cfg := cfg); try eassumption; reflexivity.
  Qed.

  Corollary refine_join_spawn inp e sp :
    let cfg := {| is_async := false; is_try := false; is_spawn := true |} in
    wf inp -> gen cfg inp = Ok e -> prepare cfg inp = Some sp ->
    den (user_names inp) msem dotsem callsem awaitsem e empty_env = spec msem dotsem callsem awaitsem sp.
  Proof. intros cfg. apply refine_sync. reflexivity. Qed.

  Corollary refine_try_join_spawn inp e sp :
    let cfg := {| is_async := false; is_try := true; is_spawn := true |} in
    wf inp -> gen cfg inp = Ok e -> prepare cfg inp = Some sp ->
    den (user_names inp) msem dotsem callsem awaitsem e empty_env = spec msem dotsem callsem awaitsem sp.
  Proof. intros cfg. apply refine_sync. reflexivity. Qed.

  (* the async kinds: join_async!, try_join_async!, join_async_spawn!, try_join_async_spawn!
     (value level of Denote/Std: join!/try_join! over never-pending children, awaited in order) *)
  Theorem refine_async cfg inp e sp :
    is_async cfg = true ->
    wf inp -> gen cfg inp = Ok e -> prepare cfg inp = Some sp ->
    den (user_names inp) msem dotsem callsem awaitsem e empty_env = spec msem dotsem callsem awaitsem sp.
  Proof.
    intros Ha Hwf Hg Hp.
    destruct (gen_inv cfg inp e Hg) as (fcp & j & Hj & Ho & Hpats).
    pose proof (rel_of_gen cfg inp fcp j sp Hwf Hj Hp) as HR.
    pose proof (r_base _ _ _ HR) as HRb. pose proof (r_joiner _ _ _ HR) as Hoj.
    pose proof (r_lazy _ _ _ HR) as Hol. pose proof (r_transpose _ _ _ HR) as Hot.
    assert (Hun : user_names inp = flat_map opt_list (map pat_name (j_pats j))).
    { rewrite Hpats. apply user_names_pats. }
    eapply gen_output_async with (cfg := cfg) (j := j); try eassumption.
    intros ss se Hgs ρ st HI.
    assert (Hstep : step_hyp (user_names inp) msem dotsem callsem awaitsem cfg j sp).
    { eapply step_async; eassumption. }
    assert (Hc : {is_try cfg = true} + {is_try cfg = false}) by (destruct (is_try cfg); auto).
    destruct Hc as [Ht|Ht].
    - eapply steps_try_async with (cfg := cfg); try eassumption; reflexivity.
    - eapply steps_nontry with (cfg := cfg); try eassumption; reflexivity.
  Qed.

  (* THE REFINEMENT THEOREM: all eight macro kinds, all inputs *)
  Theorem gen_refines_spec cfg inp e sp :
    wf inp -> gen cfg inp = Ok e -> prepare cfg inp = Some sp ->
    den (user_names inp) msem dotsem callsem awaitsem e empty_env = spec msem dotsem callsem awaitsem sp.
  Proof.
    destruct (is_async cfg) eqn:Ha; [apply refine_async|apply refine_sync]; exact Ha.
  Qed.
End Top.

Print Assumptions refine_join.
Print Assumptions refine_try_join.
Print Assumptions refine_sync.
Print Assumptions refine_async.
Print Assumptions gen_refines_spec.
