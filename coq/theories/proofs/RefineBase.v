(* Refinement proof, common infrastructure:
   - unfolding equations for `den` / `exec` (proved once, by reflexivity; the rest of the
     development rewrites with them and never simplifies `den` directly),
   - `leaves P c`: every value the computation tree `c` can return satisfies `P`,
   - environments and generated names,
   - small laws of `bind`. *)
From Coq Require Import ZArith Lia FunctionalExtensionality.
From Join Require Import Tok Names Ast Ir Gen Comp Std Denote Spec NamesInj CompLaws.

(* ------------------------------------------------------------------------------------------ *)
(* bind                                                                                       *)
(* ------------------------------------------------------------------------------------------ *)

Lemma bind_Vis {A B} e (k : val -> comp A) (f : A -> comp B) :
  bind (Vis e k) f = Vis e (fun v => bind (k v) f).
Proof. reflexivity. Qed.

Lemma Vis_ext {A} e (k k' : val -> comp A) : (forall v, k v = k' v) -> Vis e k = Vis e k'.
Proof. intros H. f_equal. extensionality v. apply H. Qed.

Lemma Spawn_ext {A} name t (k k' : nat -> comp A) : (forall h, k h = k' h) -> Spawn name t k = Spawn name t k'.
Proof. intros H. f_equal. extensionality v. apply H. Qed.

Lemma Join_ext {A} h (k k' : option val -> comp A) : (forall r, k r = k' r) -> Join h k = Join h k'.
Proof. intros H. f_equal. extensionality v. apply H. Qed.

(* normalisation of nested binds *)
Ltac nb := repeat (rewrite bind_assoc || rewrite bind_ret_l || rewrite bind_panic).

(* ------------------------------------------------------------------------------------------ *)
(* leaves                                                                                     *)
(* ------------------------------------------------------------------------------------------ *)

Inductive leaves {A} (P : A -> Prop) : comp A -> Prop :=
| L_Ret a : P a -> leaves P (Ret a)
| L_Panic n : leaves P (Panic n)
| L_Vis e k : (forall v, leaves P (k v)) -> leaves P (Vis e k)
| L_Spawn name t k : (forall h, leaves P (k h)) -> leaves P (Spawn name t k)
| L_Join h k : (forall r, leaves P (k r)) -> leaves P (Join h k).

Lemma leaves_bind {A B} (P : A -> Prop) (Q : B -> Prop) (c : comp A) (f : A -> comp B) :
  leaves P c -> (forall a, P a -> leaves Q (f a)) -> leaves Q (bind c f).
Proof.
  intros Hc Hf. induction Hc; cbn [bind]; try (constructor; auto; fail).
  apply Hf; assumption.
Qed.

Lemma leaves_weaken {A} (P Q : A -> Prop) (c : comp A) :
  leaves P c -> (forall a, P a -> Q a) -> leaves Q c.
Proof. intros Hc HPQ. induction Hc; constructor; auto. Qed.

Lemma leaves_True {A} (c : comp A) : leaves (fun _ => True) c.
Proof. induction c; constructor; auto. Qed.

Lemma leaves_and {A} (P Q : A -> Prop) (c : comp A) :
  leaves P c -> leaves Q c -> leaves (fun a => P a /\ Q a) c.
Proof.
  intros HP. induction HP; intros HQ; inversion HQ; subst; constructor; auto.
Qed.

Lemma bind_ext_leaves {A B} (P : A -> Prop) (c : comp A) (f g : A -> comp B) :
  leaves P c -> (forall a, P a -> f a = g a) -> bind c f = bind c g.
Proof.
  intros Hc Hfg. induction Hc; cbn [bind]; auto.
  - apply Vis_ext; auto.
  - apply Spawn_ext; auto.
  - apply Join_ext; auto.
Qed.

Lemma leaves_bind_inv {A B} (Q : B -> Prop) (c : comp A) (f : A -> comp B) :
  leaves (fun a => leaves Q (f a)) c -> leaves Q (bind c f).
Proof. intros H. eapply leaves_bind; eauto. Qed.

Lemma leaves_mapM {A B} (P : B -> Prop) (f : A -> comp B) (l : list A) :
  (forall a, In a l -> leaves P (f a)) -> leaves (Forall P) (mapM f l).
Proof.
  induction l as [|x r IH]; intros H; cbn [mapM].
  - constructor. constructor.
  - eapply leaves_bind. { apply H. left. reflexivity. }
    intros y Hy. eapply leaves_bind. { apply IH. intros a Ha. apply H. right. exact Ha. }
    intros ys Hys. constructor. constructor; assumption.
Qed.

Lemma leaves_mapM_length {A B} (f : A -> comp B) (l : list A) :
  leaves (fun r => List.length r = List.length l) (mapM f l).
Proof.
  induction l as [|x r IH]; cbn [mapM].
  - constructor. reflexivity.
  - eapply leaves_bind. { apply leaves_True. }
    intros y _. eapply leaves_bind. { apply IH. }
    intros ys Hys. constructor. cbn. congruence.
Qed.

(* ------------------------------------------------------------------------------------------ *)
(* environments                                                                               *)
(* ------------------------------------------------------------------------------------------ *)

Lemma upd_same ρ x d : upd ρ x d x = Some d.
Proof. unfold upd. rewrite String.eqb_refl. reflexivity. Qed.

Lemma upd_other ρ x d y : y <> x -> upd ρ x d y = ρ y.
Proof. intros H. unfold upd. apply String.eqb_neq in H. rewrite H. reflexivity. Qed.

(* user identifiers: anything that does not start with two underscores *)
Definition user_ident (x : string) : Prop := String.prefix "__" x = false.

Lemma user_ident_neq_gname x g : user_ident x -> x <> gname_str g.
Proof. apply user_name_not_gen. Qed.

Lemma gname_neq g g' : g <> g' -> gname_str g <> gname_str g'.
Proof. intros N E. apply N. apply gen_names_distinct. exact E. Qed.

(* the generated names, tagged (so that inequalities are decided by `discriminate`/`congruence`) *)
Lemma n_r_g i : n_r i = gname_str (GR i). Proof. reflexivity. Qed.
Lemma n_sr_g i : n_sr i = gname_str (GSR i). Proof. reflexivity. Qed.
Lemma n_j_g i : n_j i = gname_str (GJ i). Proof. reflexivity. Qed.
Lemma n_ew_g b e i : n_ew b e i = gname_str (GEW b e i). Proof. reflexivity. Qed.
Lemma n_v_g : n_v = gname_str GV. Proof. reflexivity. Qed.
Lemma n_h_g : n_h = gname_str GH. Proof. reflexivity. Qed.
Lemma n_rs_g : n_rs = gname_str GRS. Proof. reflexivity. Qed.
Lemma n_inspect_g : n_inspect = gname_str GInspect. Proof. reflexivity. Qed.
Lemma n_tb_g : n_tb = gname_str GTb. Proof. reflexivity. Qed.
Lemma n_spawn_tokio_g : n_spawn_tokio = gname_str GSpawnTokio. Proof. reflexivity. Qed.
Lemma n_fail_index_g : n_fail_index = gname_str GFailIndex. Proof. reflexivity. Qed.

(* ------------------------------------------------------------------------------------------ *)
(* den / exec : unfolding equations                                                           *)
(* ------------------------------------------------------------------------------------------ *)

Section DenEq.
  Variable unames : list string.
  Variable msem : string -> option (list operand) -> dval -> list dval -> comp dval.
  Variable dotsem : operand -> list (string * option val) -> dval -> comp dval.
  Variable callsem : val -> list dval -> comp dval.
  Variable awaitsem : val -> comp val.

  Notation D := (den unames msem dotsem callsem awaitsem).
  Notation X := (exec unames msem dotsem callsem awaitsem).
  Notation snapρ := (snap unames).
  Notation app_d := (apply callsem).
  Notation glue_d := (glue awaitsem).

  Fixpoint execs (ss : list rstmt) (ρ : env) {struct ss} : comp env :=
    match ss with
    | [] => Ret ρ
    | s :: r => let! ρ' := X s ρ in execs r ρ'
    end.

  Definition dens (ρ : env) (l : list rexpr) : comp (list dval) := dens_with (fun x => D x ρ) l.

  Definition match_arms (ρ : env) (i : Z) : list (nat * rexpr) -> comp dval :=
    fix go (l : list (nat * rexpr)) : comp dval :=
      match l with
      | [] => Panic P_UNREACHABLE
      | (n, x) :: r => if Z.eqb (Z.of_nat n) i then D x ρ else go r
      end.
  Lemma match_arms_nil ρ i : match_arms ρ i [] = Panic P_UNREACHABLE.
  Proof. reflexivity. Qed.
  Lemma match_arms_cons ρ i n x r :
    match_arms ρ i ((n, x) :: r) = if Z.eqb (Z.of_nat n) i then D x ρ else match_arms ρ i r.
  Proof. reflexivity. Qed.

  Lemma execs_nil ρ : execs [] ρ = Ret ρ.
  Proof. reflexivity. Qed.
  Lemma execs_cons s r ρ : execs (s :: r) ρ = let! ρ' := X s ρ in execs r ρ'.
  Proof. reflexivity. Qed.
  Lemma execs_app l1 l2 ρ : execs (l1 ++ l2) ρ = let! ρ' := execs l1 ρ in execs l2 ρ'.
  Proof.
    revert ρ. induction l1 as [|s r IH]; intros ρ; cbn [app execs].
    - reflexivity.
    - rewrite bind_assoc. apply bind_ext. intros ρ'. apply IH.
  Qed.

  Lemma dens_nil ρ : dens ρ [] = Ret [].
  Proof. reflexivity. Qed.
  Lemma dens_cons ρ x r : dens ρ (x :: r) = let! d := D x ρ in let! ds := dens ρ r in Ret (d :: ds).
  Proof. reflexivity. Qed.
  Lemma dens_mapM ρ l : dens ρ l = mapM (fun x => D x ρ) l.
  Proof. induction l as [|x r IH]; [reflexivity|]. rewrite dens_cons. cbn [mapM]. rewrite IH. reflexivity. Qed.

  Lemma den_RUser o ρ : D (RUser o) ρ = Vis (EEval o (snapρ ρ)) (fun v => Ret (DV v)).
  Proof. reflexivity. Qed.
  Lemma den_RVar x ρ : D (RVar x) ρ = match ρ x with Some d => Ret d | None => Panic P_UNBOUND end.
  Proof. reflexivity. Qed.
  Lemma den_RUsize n ρ : D (RUsize n) ρ = Ret (DV (VInt (Z.of_nat n))).
  Proof. reflexivity. Qed.
  Lemma den_RBool b ρ : D (RBool b) ρ = Ret (DV (VBool b)).
  Proof. reflexivity. Qed.
  Lemma den_RBlock ss e ρ : D (RBlock ss e) ρ = let! ρ' := execs ss ρ in D e ρ'.
  Proof. reflexivity. Qed.
  Lemma den_RAsyncMove ss e ρ :
    D (RAsyncMove ss e) ρ = Ret (DFut (let! ρ' := execs ss ρ in let! d := D e ρ' in to_val d)).
  Proof. reflexivity. Qed.
  Lemma den_RAwait e ρ : D (RAwait e) ρ = let! d := D e ρ in let! v := await_d awaitsem d in Ret (DV v).
  Proof. reflexivity. Qed.
  Lemma den_RBoxPin e ρ : D (RBoxPin e) ρ = D e ρ.
  Proof. reflexivity. Qed.
  Lemma den_RTuple es ρ :
    D (RTuple es) ρ =
    match es with
    | [x] => D x ρ
    | _ => let! ds := dens ρ es in
           match all_vals ds with Some vs => Ret (DV (VTuple vs)) | None => Panic P_ILLTYPED end
    end.
  Proof. destruct es as [|x [|y r]]; reflexivity. Qed.
  Lemma den_RArray es ρ :
    D (RArray es) ρ = let! ds := dens ρ es in
                      match all_vals ds with Some vs => Ret (DV (VList vs)) | None => Panic P_ILLTYPED end.
  Proof. reflexivity. Qed.
  Lemma den_RField e i ρ :
    D (RField e i) ρ = let! d := D e ρ in
                       match d with
                       | DV (VTuple vs) => match nth_error vs i with Some v => Ret (DV v) | None => Panic P_ILLTYPED end
                       | _ => Panic P_ILLTYPED
                       end.
  Proof. reflexivity. Qed.
  Lemma den_RMeth recv m tf args ρ :
    D (RMeth recv m tf args) ρ = let! r := D recv ρ in let! ds := dens ρ args in msem m tf r ds.
  Proof. reflexivity. Qed.
  Lemma den_RGlue recv m args ρ :
    D (RGlue recv m args) ρ = let! r := D recv ρ in let! ds := dens ρ args in glue_d m r ds.
  Proof. reflexivity. Qed.
  Lemma den_RDot recv o ρ : D (RDot recv o) ρ = let! r := D recv ρ in dotsem o (snapρ ρ) r.
  Proof. reflexivity. Qed.
  Lemma den_RCall_mac path try args ρ :
    D (RCall (RJoinMac path try) args) ρ =
    let! ds := dens ρ args in
    let! v := (if try then try_join_seq awaitsem ds [] else join_seq awaitsem ds) in Ret (DV v).
  Proof. reflexivity. Qed.
  Lemma den_RCall_var x args ρ :
    D (RCall (RVar x) args) ρ = let! df := D (RVar x) ρ in let! ds := dens ρ args in app_d df ds.
  Proof. reflexivity. Qed.
  Lemma den_RThenCall o arg ρ :
    D (RThenCall o arg) ρ = let! df := D o ρ in let! da := D arg ρ in app_d df [da].
  Proof. reflexivity. Qed.
  Lemma den_RClosure x body ρ :
    D (RClosure x body) ρ =
    Ret (DF (fun vs => match vs with
                       | [v] => let! d := D body (upd ρ x (DV v)) in to_val d
                       | _ => Panic P_ILLTYPED end)).
  Proof. reflexivity. Qed.
  Lemma den_RClosureMove x body ρ :
    D (RClosureMove x body) ρ =
    Ret (DF (fun vs => match vs with
                       | [v] => let! d := D body (upd ρ x (DV v)) in to_val d
                       | _ => Panic P_ILLTYPED end)).
  Proof. reflexivity. Qed.
  (* a `move` closure means what the plain closure means *)
  Lemma den_RClosureMove_RClosure x body ρ : D (RClosureMove x body) ρ = D (RClosure x body) ρ.
  Proof. reflexivity. Qed.
  Lemma den_wrapper_closure cfg inner ρ : D (wrapper_closure cfg inner) ρ = D (RClosure n_v inner) ρ.
  Proof. unfold wrapper_closure. destruct (is_async cfg && is_spawn cfg); reflexivity. Qed.
  Lemma den_RClosureIgn body ρ :
    D (RClosureIgn body) ρ =
    Ret (DF (fun vs => match vs with
                       | [_] => let! d := D body ρ in to_val d
                       | _ => Panic P_ILLTYPED end)).
  Proof. reflexivity. Qed.
  Lemma den_RMoveThunk body ρ :
    D (RMoveThunk body) ρ =
    Ret (DF (fun vs => match vs with
                       | [] => let! d := D body ρ in to_val d
                       | _ => Panic P_ILLTYPED end)).
  Proof. reflexivity. Qed.
  Lemma den_RNot e ρ :
    D (RNot e) ρ = let! d := D e ρ in
                   match d with DV (VBool b) => Ret (DV (VBool (negb b))) | _ => Panic P_ILLTYPED end.
  Proof. reflexivity. Qed.
  Lemma den_RRef e ρ : D (RRef e) ρ = D e ρ.
  Proof. reflexivity. Qed.
  Lemma den_RUnreachable ρ : D RUnreachable ρ = Panic P_UNREACHABLE.
  Proof. reflexivity. Qed.
  Lemma den_RIfLetSome x scrut thn els ρ :
    D (RIfLetSome x scrut thn els) ρ =
    let! d := D scrut ρ in
    match d with
    | DV (VSome v) => D thn (upd ρ x (DV v))
    | DV VNone => D els ρ
    | _ => Panic P_ILLTYPED
    end.
  Proof. reflexivity. Qed.
  Lemma den_RMatchIdx scrut arms ρ :
    D (RMatchIdx scrut arms) ρ =
    let! d := D scrut ρ in
    match d with
    | DV (VInt i) => match_arms ρ i arms
    | _ => Panic P_ILLTYPED
    end.
  Proof. reflexivity. Qed.
  Lemma den_RMatchOk scrut x arm ρ :
    D (RMatchOk scrut x arm) ρ =
    let! d := D scrut ρ in
    match d with
    | DV (VOk v) => D arm (upd ρ x (DV v))
    | DV (VErr e) => Ret (DV (VErr e))
    | _ => Panic P_ILLTYPED
    end.
  Proof. reflexivity. Qed.
  Lemma den_ROk e ρ : D (ROk e) ρ = let! d := D e ρ in let! v := to_val d in Ret (DV (VOk v)).
  Proof. reflexivity. Qed.

  Lemma exec_SLet p e ρ :
    X (SLet p e) ρ = let! d := D e ρ in
                     match bind_pat p d ρ with Some ρ' => Ret ρ' | None => Panic P_ILLTYPED end.
  Proof. reflexivity. Qed.
  Lemma exec_SExpr e ρ : X (SExpr e) ρ = let! _ := D e ρ in Ret ρ.
  Proof. reflexivity. Qed.
  Lemma exec_SFn name sig params body ρ :
    X (SFn name sig params body) ρ =
    Ret (upd ρ name (DFn (fun vs => match bind_params params vs with
                                    | Some ρf => let! d := D body ρf in to_val d
                                    | None => Panic P_ILLTYPED end))).
  Proof. reflexivity. Qed.
  Lemma exec_STbFn ρ : X STbFn ρ = Ret (upd ρ n_tb DTb).
  Proof. reflexivity. Qed.
  Lemma exec_SSpawnTokioFn p ρ : X (SSpawnTokioFn p) ρ = Ret (upd ρ n_spawn_tokio DSpawnTokio).
  Proof. reflexivity. Qed.
  Lemma exec_SUseFutures p ρ : X (SUseFutures p) ρ = Ret ρ.
  Proof. reflexivity. Qed.

  (* `let x = e;` with a generated identifier *)
  Lemma exec_SLet_ident x e ρ : X (SLet (PIdent x) e) ρ = let! d := D e ρ in Ret (upd ρ x d).
  Proof. reflexivity. Qed.

  (* snapshots only look at the user's names *)
  Lemma snap_upd_other ρ x d : ~ In x unames -> snapρ (upd ρ x d) = snapρ ρ.
  Proof.
    intros H. unfold snap. apply map_ext_in. intros y Hy.
    rewrite upd_other; [reflexivity|]. intro E. subst. contradiction.
  Qed.
End DenEq.
