(* C10, the DYNAMIC half, on the reference semantics itself:
   "every user-written expression that control flow reaches is evaluated exactly once per macro
    evaluation, and callbacks are invoked exactly as often as the underlying method invokes them".

   Setting.  User expressions are evaluated by the events `Vis (EEval o sn) k` of Spec.v
   (`capture_ops`: block operands, ahead of their step; `eval_args`: every other expression operand,
   when the chain reaches its operator; `run_body`: the handler expression, first).  A RUN of a
   computation is a path through its tree that ends in `Ret`: `run ans c a tr` - the world answers
   every event e with some v such that `ans e v`, the result is a, tr is the list of events met.
     ans := fun e v => h e = Some v   the deterministic stateless world h (`runT h`, `runT_run`);
     ans := fun _ _ => True           EVERY path, hence every world whatsoever (stateful, nondeterministic).
   All theorems are for an arbitrary `ans`.

   Identity of operand positions: `IOperand b k e i` (branch, step, position of the action in its
   step, operand index) and `IHandler`; `once_positions sp` lists the positions that are evaluated once
   per macro evaluation with their operands, `wrap_group_pos` those one call of a wrapper closure
   evaluates.  Two positions that hold the same tokens give indistinguishable events, so "exactly
   once" is stated as a MULTISET equation: the list of operands of the `EEval` events of the trace is a
   `Permutation` of the list of operands of all positions (`all_operand_occurrences sp` =
   `map snd (once_positions sp)`, with multiplicity).  This is "exactly one event per position": the
   two lists have the same length and every token list occurs in the trace as often as there are
   positions holding it; when the positions hold pairwise different tokens it is literally "each
   occurs once, nothing else occurs" (`exactly_once_of_perm`).  The identities themselves are pairwise
   different (`once_positions_NoDup`, `prepared_once_positions_NoDup`): the labelling is injective.

   Wrappers.  The closure of a wrapper `X >>> inner <<<` is called by the user's method as often as
   the method likes; each call evaluates the non-hoisted operands of `inner` once.  So the operands
   of the trace are those of the once-positions PLUS whole "groups": a group is the list of the
   non-hoisted operands directly inside one wrapper (`wrap_group`); one group = one call.
   `acc Q L c`: every run of c ends in a result satisfying Q and its `EEval` operands are, as a
   multiset, L plus whole groups of the set W.

   The hypothesis on user code (`msem`, `dotsem`, `callsem`, `awaitsem`) is `SpecCode.user_codeC` at
   the class `gcls` = "the `EEval` events are whole groups only" (`user_code_once ans W`): user code
   makes no `EEval` event of its own, RELATIVE to the closures and futures it is given - if those
   evaluate whole groups only, so does the method that calls them.  (Unconditionally "no `EEval`
   event" would be unsatisfiable for every method that calls its closure, e.g. `map`.)
   Instance: `ExOnce.user_code_ex` (for every world and every W).
   The structural hypothesis `wf_prog sp` (`Initial` only at the head of a chain: anywhere else Spec.v
   lets it DROP its receiver) holds for every parsed program (`parsed_wf_prog`).

   Contents.
     1. `run`, `runT`, `eevals`                       runs with their traces
     2. `once_positions`, `all_operand_occurrences`,
        `wrap_group`, `program_groups`               positions, operand lists, groups
     3. `acc` and the walk through Spec.v             capture / eval_args / sem_node / step_result / steps / run_body
        `wrapper_inner_operands_once_per_call`        ITEM 3 (calls)
        `step_captures_precede_chains`                ITEM 4
     4. `top_level_operands_once` (+ `_no_wrappers`, `_det`, `_async`)        ITEM 1 (join!, join_async!, join_async_spawn!)
        `try_operands_once_until_failure` (+ `_async`)                        ITEM 2 (try_join!, try_join_async!, ..)
        `wrapper_hoisted_blocks_once_per_step`        ITEM 3 (hoisted blocks)
     5. `ExOnce`                                      examples computed by `vm_compute`
     6. `prepare_wf_prog`, `parsed_wf_prog`           parsed programs are well-formed
     7. `once_positions_NoDup`                        the labelling is injective
     8. `expansion_evaluates_operands_once`           the same for the GENERATED code (through `gen_refines_spec`)
     9. `wrapper_inner_operands_in_order`             the ORDER inside a chain without wrappers
    10. `all_operand_occurrences_by_branch`           the once-operands, branch by branch and step by step
   The thread kinds (join_spawn!, try_join_spawn!) are not treated here: `run` has no thread
   operations; `SpecSpawn.spawn_macro_agrees_with_plain` relates them to the plain kinds. *)
From Coq Require Import ZArith Lia List Permutation.
From Join Require Import Tok Names Ast Comp Std Denote Spec CompLaws Leaves SpecProps SpecCode.
Import ListNotations.
Local Open Scope nat_scope.

Local Notation top := (fun _ => True).

(* ================================================================== *)
(** * 1. Events, traces, runs                                          *)
(* ================================================================== *)

Definition is_eeval (e : ev) : Prop := match e with EEval _ _ => True | _ => False end.
Definition eeval_of (e : ev) : list operand := match e with EEval o _ => [o] | _ => [] end.
(* the operands of the `EEval` events of a trace, in order *)
Definition eevals (tr : list ev) : list operand := flat_map eeval_of tr.

Lemma eevals_app t1 t2 : eevals (t1 ++ t2) = eevals t1 ++ eevals t2.
Proof. apply flat_map_app. Qed.

Lemma eevals_all_eeval tr : Forall is_eeval tr -> List.length (eevals tr) = List.length tr.
Proof.
  induction 1 as [|e tr He _ IH]; [reflexivity|].
  destruct e; try contradiction. cbn. f_equal. exact IH.
Qed.

Section Runs.
  (* the world: the answers it may give to an event *)
  Variable ans : ev -> val -> Prop.

  (* sequential runs (no thread operation: the kinds of this file never spawn) *)
  Inductive run {A : Type} : comp A -> A -> list ev -> Prop :=
  | run_ret a : run (Ret a) a []
  | run_vis e k v a tr : ans e v -> run (k v) a tr -> run (Vis e k) a (e :: tr).

  Lemma run_ret_inv {A} (a a' : A) tr : run (Ret a) a' tr -> a' = a /\ tr = [].
  Proof. intros H. inversion H; subst. auto. Qed.

  Lemma run_panic_inv {A} n (a : A) tr : run (Panic n) a tr -> False.
  Proof. intros H. inversion H. Qed.

  Lemma run_vis_inv {A} e (k : val -> comp A) a tr :
    run (Vis e k) a tr -> exists v tr', ans e v /\ run (k v) a tr' /\ tr = e :: tr'.
  Proof. intros H. inversion H; subst. eauto. Qed.

  Lemma run_bind_inv {A B} (c : comp A) (f : A -> comp B) b tr :
    run (bind c f) b tr -> exists a t1 t2, run c a t1 /\ run (f a) b t2 /\ tr = t1 ++ t2.
  Proof.
    revert tr. induction c as [A a|A n|A e k IH|A name t IHt k IH|A h k IH]; cbn [bind]; intros tr H.
    - exists a, [], tr. repeat split; [constructor|exact H].
    - destruct (run_panic_inv _ _ _ H).
    - apply run_vis_inv in H. destruct H as (v & tr' & Hv & H & ->).
      destruct (IH v f tr' H) as (a & t1 & t2 & H1 & H2 & ->).
      exists a, (e :: t1), t2. repeat split; [econstructor; eauto|exact H2].
    - inversion H.
    - inversion H.
  Qed.

  Lemma run_bind {A B} (c : comp A) (f : A -> comp B) a t1 b t2 :
    run c a t1 -> run (f a) b t2 -> run (bind c f) b (t1 ++ t2).
  Proof.
    intros H1 H2. induction H1 as [a|e k v a tr Hv H1 IH]; cbn [bind app]; [exact H2|].
    econstructor; eauto.
  Qed.
End Runs.

(* the deterministic stateless world h: the run as a function *)
Fixpoint runT (h : ev -> option val) {A} (c : comp A) : option (A * list ev) :=
  match c with
  | Ret a => Some (a, [])
  | Vis e k => match h e with
               | Some v => match runT h (k v) with Some (a, tr) => Some (a, e :: tr) | None => None end
               | None => None
               end
  | _ => None
  end.

Lemma runT_run h {A} (c : comp A) a tr :
  runT h c = Some (a, tr) <-> run (fun e v => h e = Some v) c a tr.
Proof.
  split.
  - revert a tr. induction c as [A a0|A n|A e k IH|A name t IHt k IH|A i k IH]; cbn [runT]; intros a tr H; try discriminate.
    + injection H as <- <-. constructor.
    + destruct (h e) as [v|] eqn:E; [|discriminate].
      destruct (runT h (k v)) as [[a' tr']|] eqn:E'; [|discriminate].
      injection H as <- <-. econstructor; eauto.
  - intros H. induction H as [a|e k v a tr Hv H IH]; cbn [runT]; [reflexivity|].
    rewrite Hv, IH. reflexivity.
Qed.

(* ================================================================== *)
(** * 2. Operand positions                                             *)
(* ================================================================== *)

(* The expression operands of an action `a` at position e of step k of branch b are
   `exprs_of a` = o_0, o_1, ..; operand i has the identity (b, k, e, i).  Where it is evaluated:
     - `hoistable (a_comb a) o_i = true` (a `{..}` block of an operator that takes expressions):
       in phase 1 of the step (`capture_ops`), at any wrapper depth;
     - otherwise by `eval_args`, when the chain reaches the operator - except for `Dot`, whose
       operand is not an expression but the member tokens `recv.<tokens>` (`dotsem`), and
       `UNWRAP` (no meaning in Spec.v). *)
Definition direct_of (c : comb) (xs : list operand) : list operand :=
  match c with
  | Dot | UNWRAP => []
  | _ => filter (fun o => negb (hoistable c o)) xs
  end.

(* evaluated in phase 1 of the step: the hoisted blocks of a node, at any depth *)
Fixpoint node_captured (n : node) : list operand :=
  match n with
  | NAct _ a => filter (hoistable (a_comb a)) (exprs_of a)
  | NWrap _ _ inner => flat_map node_captured inner
  end.
(* evaluated by the chain that contains the node itself *)
Definition node_direct (n : node) : list operand :=
  match n with
  | NAct _ a => direct_of (a_comb a) (exprs_of a)
  | NWrap _ _ _ => []
  end.
(* the group of a wrapper `X >>> inner <<<`: what ONE call of its closure evaluates by itself *)
Definition wrap_group (inner : list node) : list operand := flat_map node_direct inner.
(* the groups of all wrappers in a node, at any depth *)
Fixpoint node_groups (n : node) : list (list operand) :=
  match n with
  | NAct _ _ => []
  | NWrap _ _ inner => wrap_group inner :: flat_map node_groups inner
  end.

(* `Initial` (the first expression of a branch) ignores its receiver: Spec.v gives it a meaning at
   any place of a chain, but a parsed branch has it at the head of its first step only.  Elsewhere it
   would DROP the chain before it (those operands would be evaluated zero times), so: *)
Definition is_initial (n : node) : bool :=
  match n with NAct _ a => comb_eqb (a_comb a) Initial | NWrap _ _ _ => false end.
Definition ninit (n : node) : bool := negb (is_initial n).
Fixpoint wf_node (n : node) : bool :=
  match n with
  | NAct _ _ => true
  | NWrap _ _ inner => forallb wf_node inner && forallb ninit (tl inner)
  end.
(* a chain (a step of a branch / the inside of a wrapper): `Initial` at most at its head *)
Definition wf_nodes (l : list node) : bool := forallb wf_node l && forallb ninit (tl l).

(* ---- a whole program ---- *)
Section ProgOps.
  Variable p : sprog.

  (* step k: the hoisted blocks of the active branches (phase 1), the operands the chains reach (phase 2) *)
  Definition step_captured (k : nat) : list operand :=
    flat_map (fun b => flat_map node_captured (tree p b k)) (actives p k).
  Definition step_direct (k : nat) : list operand :=
    flat_map (fun b => flat_map node_direct (tree p b k)) (actives p k).
  Definition step_ops (k : nat) : list operand := step_captured k ++ step_direct k.
  (* steps k, k+1, .., k+m-1 *)
  Definition steps_ops (k m : nat) : list operand := flat_map step_ops (seq k m).
  Definition handler_operand : list operand :=
    match sp_handler p with Some (_, o) => [o] | None => [] end.

  (* the operands of all positions that are evaluated once per macro evaluation: the handler expression,
     and for every step k and every branch that has a step k (`SpecProps.actives_spec`) the hoisted blocks
     (at any wrapper depth) and the operands outside wrappers; enumerated in the order of evaluation -
     branch by branch it is `all_operand_occurrences_by_branch` *)
  Definition all_operand_occurrences : list operand := handler_operand ++ steps_ops 0 (max_depth p).

  (* one group per wrapper of the program *)
  Definition program_groups : list (list operand) :=
    flat_map (fun t => flat_map (fun s => flat_map node_groups s) t) (sp_trees p).
  Definition wf_prog : bool := forallb (forallb wf_nodes) (sp_trees p).

  Lemma tree_cases b k : tree p b k = [] \/ exists t, In t (sp_trees p) /\ In (tree p b k) t.
  Proof.
    unfold tree. destruct (nth_in_or_default b (sp_trees p) []) as [Hb|Hb].
    - destruct (nth_in_or_default k (nth b (sp_trees p) []) []) as [Hk|Hk]; [|left; exact Hk].
      right. eexists. split; [exact Hb|exact Hk].
    - left. rewrite Hb. destruct k; reflexivity.
  Qed.

  Lemma tree_groups b k : incl (flat_map node_groups (tree p b k)) program_groups.
  Proof.
    destruct (tree_cases b k) as [E|(t & Ht & Hs)]; [rewrite E; intros g []|].
    intros g Hg. unfold program_groups. apply in_flat_map. exists t. split; [exact Ht|].
    apply in_flat_map. exists (tree p b k). split; assumption.
  Qed.

  Lemma tree_wf b k : wf_prog = true -> wf_nodes (tree p b k) = true.
  Proof.
    intros Hwf. destruct (tree_cases b k) as [E|(t & Ht & Hs)]; [rewrite E; reflexivity|].
    unfold wf_prog in Hwf. rewrite forallb_forall in Hwf. specialize (Hwf t Ht).
    rewrite forallb_forall in Hwf. apply Hwf, Hs.
  Qed.

  Lemma steps_ops_S k m : steps_ops k (S m) = step_ops k ++ steps_ops (S k) m.
  Proof. reflexivity. Qed.
  Lemma steps_ops_snoc k m : steps_ops k (S m) = steps_ops k m ++ step_ops (k + m).
  Proof.
    unfold steps_ops. rewrite seq_S, flat_map_app. cbn [flat_map]. rewrite app_nil_r. reflexivity.
  Qed.
End ProgOps.

(* ---- the identity of a position ---- *)
(* operand i of the action at position e of step k of branch b; the handler expression *)
Inductive ident := IOperand (b k e i : nat) | IHandler.

(* the operands xs of an action with their identities, those satisfying `keep` *)
Definition ops_pos (b k e : nat) (keep : operand -> bool) (xs : list operand) : list (ident * operand) :=
  map (fun io => (IOperand b k e (fst io), snd io)) (filter (fun io => keep (snd io)) (enum_from 0 xs)).
Definition direct_pos (b k e : nat) (c : comb) (xs : list operand) : list (ident * operand) :=
  match c with
  | Dot | UNWRAP => []
  | _ => ops_pos b k e (fun o => negb (hoistable c o)) xs
  end.
Fixpoint node_captured_pos (b k : nat) (n : node) : list (ident * operand) :=
  match n with
  | NAct e a => ops_pos b k e (hoistable (a_comb a)) (exprs_of a)
  | NWrap _ _ inner => flat_map (node_captured_pos b k) inner
  end.
Definition node_direct_pos (b k : nat) (n : node) : list (ident * operand) :=
  match n with
  | NAct e a => direct_pos b k e (a_comb a) (exprs_of a)
  | NWrap _ _ _ => []
  end.
(* the positions whose operands one call of the closure of `X >>> inner <<<` (in step k of branch b) evaluates *)
Definition wrap_group_pos (b k : nat) (inner : list node) : list (ident * operand) :=
  flat_map (node_direct_pos b k) inner.

Lemma map_snd_flat_map {X Y Z} (f : X -> list (Y * Z)) (g : X -> list Z) (l : list X) :
  (forall x, In x l -> map snd (f x) = g x) -> map snd (flat_map f l) = flat_map g l.
Proof.
  induction l as [|x l IH]; intros H; cbn [flat_map map]; [reflexivity|].
  rewrite map_app, H by (now left). rewrite IH; [reflexivity|]. intros y Hy. apply H. now right.
Qed.

Lemma ops_pos_operands b k e keep xs : map snd (ops_pos b k e keep xs) = filter keep xs.
Proof.
  unfold ops_pos. rewrite map_map. cbn [snd]. generalize 0.
  induction xs as [|o r IH]; intros i; cbn [enum_from filter map snd]; [reflexivity|].
  destruct (keep o); cbn [map snd]; rewrite IH; reflexivity.
Qed.

Lemma direct_pos_operands b k e c xs : map snd (direct_pos b k e c xs) = direct_of c xs.
Proof. destruct c; try reflexivity; apply ops_pos_operands. Qed.

Lemma node_captured_pos_operands b k n : map snd (node_captured_pos b k n) = node_captured n.
Proof.
  induction n as [e a|e a inner IHinner| |x t IHx IHt] using node_nodes_ind
    with (Q := fun l => map snd (flat_map (node_captured_pos b k) l) = flat_map node_captured l).
  - apply ops_pos_operands.
  - exact IHinner.
  - reflexivity.
  - cbn [flat_map]. rewrite map_app, IHx, IHt. reflexivity.
Qed.

Lemma node_direct_pos_operands b k n : map snd (node_direct_pos b k n) = node_direct n.
Proof. destruct n; [apply direct_pos_operands|reflexivity]. Qed.

Lemma wrap_group_pos_operands b k inner : map snd (wrap_group_pos b k inner) = wrap_group inner.
Proof. apply map_snd_flat_map. intros n _. apply node_direct_pos_operands. Qed.

(* no position of an evaluated action is lost or counted twice: every expression operand is either
   hoisted (phase 1) or evaluated by the chain (phase 2) *)
Lemma filter_partition_perm {X} (f : X -> bool) (l : list X) :
  Permutation (filter f l ++ filter (fun x => negb (f x)) l) l.
Proof.
  induction l as [|x l IH]; cbn [filter]; [constructor|].
  destruct (f x); cbn [negb app]; [constructor; exact IH|].
  etransitivity; [symmetry; apply Permutation_middle|]. constructor. exact IH.
Qed.

Lemma action_positions_partition b k e c xs :
  c <> Dot -> c <> UNWRAP ->
  Permutation (ops_pos b k e (hoistable c) xs ++ direct_pos b k e c xs) (ops_pos b k e (fun _ => true) xs).
Proof.
  intros Hd Hu.
  assert (E : direct_pos b k e c xs = ops_pos b k e (fun o => negb (hoistable c o)) xs)
    by (destruct c; try reflexivity; congruence).
  rewrite E. unfold ops_pos. rewrite <- map_app. apply Permutation_map.
  replace (filter (fun io : nat * operand => true) (enum_from 0 xs)) with (enum_from 0 xs)
    by (induction (enum_from 0 xs) as [|y l IH]; cbn [filter]; congruence).
  apply (filter_partition_perm (fun io : nat * operand => hoistable c (snd io))).
Qed.

Lemma direct_of_not_hoistable c xs o : In o (direct_of c xs) -> In o xs /\ hoistable c o = false.
Proof.
  destruct c; cbn [direct_of]; try (intros []); intros H; apply filter_In in H; destruct H as [H1 H2];
    (split; [exact H1|apply negb_true_iff; exact H2]).
Qed.

Lemma captured_hoistable c xs o : In o (filter (hoistable c) xs) -> In o xs /\ hoistable c o = true.
Proof. apply filter_In. Qed.

Section ProgPos.
  Variable p : sprog.
  Definition step_positions (k : nat) : list (ident * operand) :=
    flat_map (fun b => flat_map (node_captured_pos b k) (tree p b k)) (actives p k) ++
    flat_map (fun b => flat_map (node_direct_pos b k) (tree p b k)) (actives p k).
  Definition handler_position : list (ident * operand) :=
    match sp_handler p with Some (_, o) => [(IHandler, o)] | None => [] end.
  (* THE POSITIONS EVALUATED ONCE PER MACRO EVALUATION, with their operands *)
  Definition once_positions : list (ident * operand) :=
    handler_position ++ flat_map step_positions (seq 0 (max_depth p)).

  Lemma step_positions_operands k : map snd (step_positions k) = step_ops p k.
  Proof.
    unfold step_positions, step_ops, step_captured, step_direct. rewrite map_app. f_equal.
    - apply map_snd_flat_map. intros b _. apply map_snd_flat_map. intros n _. apply node_captured_pos_operands.
    - apply map_snd_flat_map. intros b _. apply map_snd_flat_map. intros n _. apply node_direct_pos_operands.
  Qed.

  (* `all_operand_occurrences` is the list of the operands of these positions *)
  Lemma once_positions_operands : map snd once_positions = all_operand_occurrences p.
  Proof.
    unfold once_positions, all_operand_occurrences, steps_ops. rewrite map_app. f_equal.
    - unfold handler_position, handler_operand. destruct (sp_handler p) as [[hk o]|]; reflexivity.
    - apply map_snd_flat_map. intros k _. apply step_positions_operands.
  Qed.
End ProgPos.

(* ================================================================== *)
(** * 3. Accounting                                                    *)
(* ================================================================== *)

Lemma perm_4 {X} (a b c d : list X) : Permutation ((a ++ b) ++ (c ++ d)) ((a ++ c) ++ (b ++ d)).
Proof.
  rewrite <- !app_assoc. apply Permutation_app_head.
  rewrite !app_assoc. apply Permutation_app_tail. apply Permutation_app_comm.
Qed.

Section Acc.
  Variable ans : ev -> val -> Prop.
  (* the groups: for every wrapper (of the program), the operands one call of its closure evaluates *)
  Variable W : list (list operand).
  Notation run := (run ans).

  Definition groups (ws : list (list operand)) : Prop := Forall (fun g => In g W) ws.

  (* every run of c ends in a result satisfying Q, and the operands it evaluates are, as a multiset,
     L and whole groups *)
  Definition acc {A} (Q : A -> Prop) (L : list operand) (c : comp A) : Prop :=
    forall a tr, run c a tr ->
      Q a /\ exists ws, groups ws /\ Permutation (eevals tr) (L ++ List.concat ws).

  Lemma acc_ret {A} (Q : A -> Prop) a : Q a -> acc Q [] (Ret a).
  Proof.
    intros HQ a' tr H. apply run_ret_inv in H. destruct H as [-> ->].
    split; [exact HQ|]. exists []. split; [constructor|reflexivity].
  Qed.

  Lemma acc_panic {A} (Q : A -> Prop) L n : acc Q L (Panic n).
  Proof. intros a tr H. destruct (run_panic_inv _ _ _ _ H). Qed.

  Lemma acc_vis {A} (Q : A -> Prop) L e (k : val -> comp A) :
    ~ is_eeval e -> (forall v, acc Q L (k v)) -> acc Q L (Vis e k).
  Proof.
    intros He Hk a tr H. apply run_vis_inv in H. destruct H as (v & tr' & _ & H & ->).
    destruct (Hk v a tr' H) as (HQ & ws & Hws & HP). split; [exact HQ|]. exists ws. split; [exact Hws|].
    destruct e; cbn in He; try tauto; exact HP.
  Qed.

  Lemma acc_eeval {A} (Q : A -> Prop) L o sn (k : val -> comp A) :
    (forall v, acc Q L (k v)) -> acc Q (o :: L) (Vis (EEval o sn) k).
  Proof.
    intros Hk a tr H. apply run_vis_inv in H. destruct H as (v & tr' & _ & H & ->).
    destruct (Hk v a tr' H) as (HQ & ws & Hws & HP). split; [exact HQ|]. exists ws. split; [exact Hws|].
    cbn. constructor. exact HP.
  Qed.

  Lemma acc_bind {A B} (Q : A -> Prop) (R : B -> Prop) L1 L2 (c : comp A) (f : A -> comp B) :
    acc Q L1 c -> (forall a, Q a -> acc R L2 (f a)) -> acc R (L1 ++ L2) (bind c f).
  Proof.
    intros Hc Hf b tr H. apply run_bind_inv in H. destruct H as (a & t1 & t2 & H1 & H2 & ->).
    destruct (Hc a t1 H1) as (HQ & ws1 & Hws1 & HP1).
    destruct (Hf a HQ b t2 H2) as (HR & ws2 & Hws2 & HP2).
    split; [exact HR|]. exists (ws1 ++ ws2). split; [apply Forall_app; split; assumption|].
    rewrite eevals_app, concat_app. etransitivity; [apply Permutation_app; eassumption|]. apply perm_4.
  Qed.

  Lemma acc_perm {A} (Q : A -> Prop) L L' (c : comp A) : Permutation L L' -> acc Q L c -> acc Q L' c.
  Proof.
    intros HL Hc a tr H. destruct (Hc a tr H) as (HQ & ws & Hws & HP). split; [exact HQ|].
    exists ws. split; [exact Hws|]. etransitivity; [exact HP|]. apply Permutation_app_tail, HL.
  Qed.

  Lemma acc_eq {A} (Q : A -> Prop) L L' (c : comp A) : L = L' -> acc Q L c -> acc Q L' c.
  Proof. intros ->. exact (fun H => H). Qed.

  Lemma acc_weaken {A} (Q Q' : A -> Prop) L (c : comp A) : (forall a, Q a -> Q' a) -> acc Q L c -> acc Q' L c.
  Proof. intros HQ Hc a tr H. destruct (Hc a tr H) as (Ha & Hr). split; auto. Qed.

  (* one more call of a wrapper closure: one more group *)
  Lemma acc_group {A} (Q : A -> Prop) g L (c : comp A) : In g W -> acc Q (L ++ g) c -> acc Q L c.
  Proof.
    intros Hg Hc a tr H. destruct (Hc a tr H) as (HQ & ws & Hws & HP). split; [exact HQ|].
    exists (g :: ws). split; [constructor; assumption|]. cbn [List.concat]. rewrite <- app_assoc in HP. exact HP.
  Qed.

  Lemma acc_mapM {X B} (Q : B -> Prop) (Lf : X -> list operand) (f : X -> comp B) (l : list X) :
    (forall x, In x l -> acc Q (Lf x) (f x)) -> acc (Forall Q) (flat_map Lf l) (mapM f l).
  Proof.
    induction l as [|x l IH]; intros H; cbn [mapM flat_map].
    - apply acc_ret. constructor.
    - apply acc_bind with (Q := Q); [apply H; now left|]. intros y Hy.
      eapply acc_eq; [apply app_nil_r|].
      apply acc_bind with (Q := Forall Q); [apply IH; intros; apply H; now right|]. intros ys Hys.
      apply acc_ret. constructor; assumption.
  Qed.

  (* ---------------------------------------------------------------- the class of user code *)
  (* code whose `EEval` events are whole groups only (none at all when there is no wrapper) *)
  Definition gcls : forall A : Type, (A -> Prop) -> comp A -> Prop := fun A Q c => acc Q [] c.
  Notation good := (dval_okC gcls).
  Notation carg_good := (carg_okC gcls).
  Notation st_good := (st_okC gcls).

  Variable msem : string -> option (list operand) -> dval -> list dval -> comp dval.
  Variable dotsem : operand -> list (string * option val) -> dval -> comp dval.
  Variable callsem : val -> list dval -> comp dval.
  Variable awaitsem : val -> comp val.
  (* THE HYPOTHESIS ON USER CODE (`SpecCode.user_codeC` at the class `gcls`):
       uc_msem     : good recv -> Forall good args -> acc good [] (msem m tys recv args)
       uc_dotsem   : good recv -> acc good [] (dotsem o sn recv)
       uc_callsem  : Forall good args -> acc good [] (callsem f args)
       uc_awaitsem : acc top [] (awaitsem v)
     where  good (DF f) = forall vs, acc top [] (f vs),  good (DFut c) = acc top [] c,  good (DV _) = True, ..:
     a method / member access / call / await evaluates no user expression of the macro input by itself;
     whatever `EEval` events its runs contain are those of the closures and futures it was handed, and
     those come in whole groups (= whole calls of wrapper closures). *)
  Hypothesis HU : user_codeC gcls msem dotsem callsem awaitsem.

  Ltac fin := first [ exact I | apply acc_panic | apply acc_ret; first [exact I | assumption] ].

  Notation snapshot := (list (string * option val)).

  Lemma acc_bind0 {A B} (Q : A -> Prop) (R : B -> Prop) L (c : comp A) (f : A -> comp B) :
    acc Q L c -> (forall a, Q a -> acc R [] (f a)) -> acc R L (bind c f).
  Proof. intros Hc Hf. eapply acc_eq; [apply app_nil_r|]. eapply acc_bind; eauto. Qed.

  Lemma acc_to_val d : acc top [] (to_val d).
  Proof. destruct d; cbn; fin. Qed.

  Lemma all_cargs_good ds cs : all_cargs ds = Some cs -> Forall good ds -> Forall carg_good cs.
  Proof.
    revert cs. induction ds as [|d ds IH]; intros cs E Hds; cbn in E.
    - injection E as <-. constructor.
    - inversion Hds as [|? ? Hd Hds']; subst.
      destruct d; try discriminate; destruct (all_cargs ds) as [cs'|]; try discriminate;
        injection E as <-; constructor; auto.
  Qed.

  Lemma acc_apply f ds : good f -> Forall good ds -> acc good [] (apply callsem f ds).
  Proof.
    intros Hf Hds. destruct f as [fv|g|g|c|name| |]; cbn [apply]; try fin.
    - destruct (all_vals ds) as [vs|]; [|apply (uc_callsem _ _ _ _ _ HU); assumption].
      apply acc_vis; [exact (fun H => H)|]. intros v. fin.
    - destruct (all_vals ds) as [vs|]; [|fin].
      eapply acc_bind0; [apply Hf|]. intros v _. fin.
    - destruct (all_cargs ds) as [cs|] eqn:E; [|fin].
      eapply acc_bind0; [apply Hf; eapply all_cargs_good; eauto|]. intros v _. fin.
    - contradiction.
    - destruct ds as [|[v|g|g|c|name| |] [|]]; try fin.
      apply acc_ret. inversion Hds; subst. assumption.
  Qed.

  Lemma acc_inspect_sem f r : good f -> good r -> acc good [] (inspect_sem callsem f r).
  Proof.
    intros Hf Hr. unfold inspect_sem.
    destruct f as [fv|g|g|c|name| |]; try fin; destruct r as [v|g'|g'|c'|name'| |]; try fin;
      (eapply acc_bind0; [apply acc_apply; [assumption|constructor; [assumption|constructor]]|]; intros; fin).
  Qed.

  (* ---------------------------------------------------------------- phase 1: the captures *)
  (* exact, in order: the events of the capture phase are the evaluations of the hoisted blocks *)
  Lemma run_capture_ops (sn : snapshot) b e c ops : forall i cp tr,
    run (capture_ops sn b e i c ops) cp tr -> eevals tr = filter (hoistable c) ops /\ Forall is_eeval tr.
  Proof.
    induction ops as [|o r IH]; intros i cp tr H; cbn [capture_ops filter] in *.
    - apply run_ret_inv in H. destruct H as [_ ->]. split; [reflexivity|constructor].
    - destruct (hoistable c o); [|eapply IH; eauto].
      apply run_vis_inv in H. destruct H as (v & tr' & _ & H & ->).
      apply run_bind_inv in H. destruct H as (rest & t1 & t2 & H1 & H2 & ->).
      apply run_ret_inv in H2. destruct H2 as [_ ->]. rewrite app_nil_r.
      destruct (IH _ _ _ H1) as [E F]. split; [cbn; f_equal; exact E|constructor; [exact I|exact F]].
  Qed.

  Lemma run_capture_node (sn : snapshot) b n : forall cp tr,
    run (capture_node sn b n) cp tr -> eevals tr = node_captured n /\ Forall is_eeval tr.
  Proof.
    induction n as [e a|e a inner IHinner| |x t IHx IHt] using node_nodes_ind
      with (Q := fun l => forall cp tr, run (capture_nodes sn b l) cp tr ->
                                        eevals tr = flat_map node_captured l /\ Forall is_eeval tr);
      intros cp tr H.
    - eapply run_capture_ops; eauto.
    - rewrite capture_node_wrap in H. cbn [node_captured]. eapply IHinner; eauto.
    - apply run_ret_inv in H. destruct H as [_ ->]. split; [reflexivity|constructor].
    - cbn [capture_nodes] in H.
      apply run_bind_inv in H. destruct H as (c1 & t1 & t2 & H1 & H & ->).
      apply run_bind_inv in H. destruct H as (c2 & t2' & t3 & H2 & H3 & ->).
      apply run_ret_inv in H3. destruct H3 as [_ ->]. rewrite app_nil_r.
      destruct (IHx _ _ H1) as [E1 F1]. destruct (IHt _ _ H2) as [E2 F2].
      split; [rewrite eevals_app, E1, E2; reflexivity|apply Forall_app; split; assumption].
  Qed.

  Lemma run_capture_nodes (sn : snapshot) b l : forall cp tr,
    run (capture_nodes sn b l) cp tr -> eevals tr = flat_map node_captured l /\ Forall is_eeval tr.
  Proof.
    induction l as [|x t IH]; intros cp tr H; cbn [capture_nodes] in H.
    - apply run_ret_inv in H. destruct H as [_ ->]. split; [reflexivity|constructor].
    - apply run_bind_inv in H. destruct H as (c1 & t1 & t2 & H1 & H & ->).
      apply run_bind_inv in H. destruct H as (c2 & t2' & t3 & H2 & H3 & ->).
      apply run_ret_inv in H3. destruct H3 as [_ ->]. rewrite app_nil_r.
      destruct (run_capture_node _ _ _ _ _ H1) as [E1 F1]. destruct (IH _ _ H2) as [E2 F2].
      split; [rewrite eevals_app, E1, E2; reflexivity|apply Forall_app; split; assumption].
  Qed.

  Lemma acc_exact {A} (L : list operand) (c : comp A) :
    (forall a tr, run c a tr -> eevals tr = L) -> acc top L c.
  Proof.
    intros Hc a tr H. split; [exact I|]. exists []. split; [constructor|].
    rewrite (Hc a tr H), app_nil_r. reflexivity.
  Qed.

  (* ---------------------------------------------------------------- phase 2: the chain *)
  Lemma acc_eval_args (sn : snapshot) cp b e c ops : forall i,
    acc (Forall good) (filter (fun o => negb (hoistable c o)) ops) (eval_args sn cp b e i c ops).
  Proof.
    induction ops as [|o r IH]; intros i; cbn [eval_args filter]; [apply acc_ret; constructor|].
    destruct (hoistable c o); cbn [negb].
    - destruct (lookup_cap cp (b, e, i)); cbn [bind]; [|fin].
      eapply acc_bind0; [apply IH|]. intros ds Hds. apply acc_ret. constructor; [exact I|exact Hds].
    - cbn [bind]. apply acc_eeval. intros v.
      eapply acc_bind0; [apply IH|]. intros ds Hds. apply acc_ret. constructor; [exact I|exact Hds].
  Qed.

  (* the meaning of `NAct e a` as a function of the action's parts *)
  Definition act_sem (async : bool) (sn : snapshot) (cp : caps) (b e : nat) (c : comb) (xs aops : list operand)
             (ty : option (list operand)) (recv : comp dval) : comp dval :=
    let args := eval_args sn cp b e 0 c xs in
    match c with
    | Initial => let! ds := args in match ds with [x] => Ret x | _ => Panic P_STUCK end
    | Then =>
        let! ds := args in
        match ds with
        | [f] => let! r := recv in apply callsem f [r]
        | _ => Panic P_STUCK
        end
    | Dot => match aops with
             | [o] => let! r := recv in dotsem o sn r
             | _ => Panic P_STUCK
             end
    | UNWRAP => Panic P_STUCK
    | Inspect =>
        if async
        then let! r := recv in let! ds := args in
             match ds with [f] => msem "inspect" None r [f] | _ => Panic P_STUCK end
        else let! ds := args in
             match ds with
             | [f] => let! r := recv in inspect_sem callsem f r
             | _ => Panic P_STUCK
             end
    | c => let! r := recv in let! ds := args in msem (doc_method c) ty r ds
    end.

  Lemma sem_node_act async (sn : snapshot) cp b e a recv :
    sem_node msem dotsem callsem async sn cp b (NAct e a) recv =
    act_sem async sn cp b e (a_comb a) (exprs_of a) (a_ops a) (types_of a) recv.
  Proof. cbn [sem_node]. unfold act_sem. destruct (a_comb a); reflexivity. Qed.

  Ltac one_arg ds := destruct ds as [|?d [|]]; try fin.

  Lemma acc_act_sem async (sn : snapshot) cp b e c xs aops ty recv L :
    acc good L recv -> (comb_eqb c Initial = false \/ L = []) ->
    acc good (L ++ direct_of c xs) (act_sem async sn cp b e c xs aops ty recv).
  Proof.
    intros Hrecv Hini.
    pose proof (acc_eval_args sn cp b e c xs 0) as Hargs.
    destruct c; unfold act_sem, direct_of;
      try (eapply acc_bind; [exact Hrecv|]; intros r Hr; eapply acc_bind0; [exact Hargs|];
           intros ds Hds; apply (uc_msem _ _ _ _ _ HU); assumption).
    - (* Dot *) eapply acc_eq; [symmetry; apply app_nil_r|].
      destruct aops as [|o [|]]; try fin.
      eapply acc_bind0; [exact Hrecv|]. intros r Hr. apply (uc_dotsem _ _ _ _ _ HU), Hr.
    - (* Inspect *) destruct async.
      + eapply acc_bind; [exact Hrecv|]; intros r Hr; eapply acc_bind0; [exact Hargs|].
        intros ds Hds. one_arg ds. apply (uc_msem _ _ _ _ _ HU); assumption.
      + eapply acc_perm; [apply Permutation_app_comm|].
        eapply acc_bind; [exact Hargs|]. intros ds Hds. one_arg ds.
        eapply acc_bind0; [exact Hrecv|]; intros r Hr. apply acc_inspect_sem; [|assumption].
        inversion Hds; assumption.
    - (* Then *) eapply acc_perm; [apply Permutation_app_comm|].
      eapply acc_bind; [exact Hargs|]. intros ds Hds. one_arg ds.
      eapply acc_bind0; [exact Hrecv|]; intros r Hr. apply acc_apply; [inversion Hds; assumption|].
      constructor; [assumption|constructor].
    - (* Initial: the receiver is not run *)
      destruct Hini as [Hini| ->]; [discriminate Hini|]. cbn [app].
      eapply acc_bind0; [exact Hargs|]. intros ds Hds. one_arg ds. apply acc_ret. inversion Hds; assumption.
    - (* UNWRAP *) fin.
  Qed.

  (* THE CHAIN: every node adds its own operands, once; a wrapper adds nothing by itself - what the
     calls of its closure evaluate are whole groups *)
  Lemma acc_sem_node async (sn : snapshot) cp b :
    forall n, wf_node n = true -> incl (node_groups n) W ->
    forall recv L, acc good L recv -> (is_initial n = false \/ L = []) ->
    acc good (L ++ node_direct n) (sem_node msem dotsem callsem async sn cp b n recv).
  Proof.
    intros n.
    induction n as [e a|e a inner IHinner| |x t IHx IHt] using node_nodes_ind
      with (Q := fun l => forallb wf_node l = true -> incl (flat_map node_groups l) W ->
                   forall recv L, acc good L recv ->
                   (forallb ninit l = true \/ (L = [] /\ forallb ninit (tl l) = true)) ->
                   acc good (L ++ flat_map node_direct l) (sem_nodes msem dotsem callsem async sn cp b l recv)).
    - intros _ _ recv L Hrecv Hini. rewrite sem_node_act. cbn [node_direct]. apply acc_act_sem; assumption.
    - intros Hwf HW recv L Hrecv _. rewrite sem_node_wrap. cbn [node_direct]. rewrite app_nil_r.
      cbn [wf_node] in Hwf. apply andb_true_iff in Hwf. destruct Hwf as [Hwf Htl].
      cbn [node_groups] in HW.
      assert (Hclo : good (wrap_clo msem dotsem callsem async sn cp b inner)).
      { intros [|v [|]]; try fin. unfold gcls.
        eapply acc_bind0; [|intros d _; apply acc_to_val].
        apply acc_group with (g := wrap_group inner); [apply HW; now left|].
        apply IHinner; [exact Hwf|intros g Hg; apply HW; now right|apply acc_ret; exact I|].
        right. split; [reflexivity|exact Htl]. }
      destruct (a_comb a); try destruct async;
        (eapply acc_bind0; [exact Hrecv|]; intros r Hr;
         first [apply (uc_msem _ _ _ _ _ HU); [exact Hr|constructor; [exact Hclo|constructor]]
               | apply acc_inspect_sem; assumption]).
    - intros _ _ recv L Hrecv _. cbn [flat_map]. rewrite app_nil_r. exact Hrecv.
    - intros Hwf HW recv L Hrecv Hini. cbn [forallb] in Hwf. apply andb_true_iff in Hwf. destruct Hwf as [Hwx Hwt].
      cbn [flat_map] in HW |- *. rewrite app_assoc.
      change (sem_nodes msem dotsem callsem async sn cp b (x :: t) recv)
        with (sem_nodes msem dotsem callsem async sn cp b t (sem_node msem dotsem callsem async sn cp b x recv)).
      assert (Hnt : forallb ninit t = true).
      { destruct Hini as [H|[_ H]]; [cbn [forallb] in H; apply andb_true_iff in H; tauto|exact H]. }
      apply IHt; [exact Hwt|intros g Hg; apply HW, in_or_app; now right| |left; exact Hnt].
      apply IHx; [exact Hwx|intros g Hg; apply HW, in_or_app; now left|exact Hrecv|].
      destruct Hini as [H|[H _]]; [left|right; exact H].
      cbn [forallb] in H. apply andb_true_iff in H. destruct H as [H _]. unfold ninit in H.
      apply negb_true_iff in H. exact H.
  Qed.

  Lemma acc_sem_nodes async (sn : snapshot) cp b l :
    forallb wf_node l = true -> incl (flat_map node_groups l) W ->
    forall recv L, acc good L recv ->
    (forallb ninit l = true \/ (L = [] /\ forallb ninit (tl l) = true)) ->
    acc good (L ++ flat_map node_direct l) (sem_nodes msem dotsem callsem async sn cp b l recv).
  Proof.
    induction l as [|x t IH]; intros Hwl HWl recv L Hrecv Hini.
    - cbn [flat_map]. rewrite app_nil_r. exact Hrecv.
    - cbn [forallb] in Hwl. apply andb_true_iff in Hwl. destruct Hwl as [Hwx Hwt].
      cbn [flat_map] in HWl |- *. rewrite app_assoc.
      change (sem_nodes msem dotsem callsem async sn cp b (x :: t) recv)
        with (sem_nodes msem dotsem callsem async sn cp b t (sem_node msem dotsem callsem async sn cp b x recv)).
      assert (Hnt : forallb ninit t = true).
      { destruct Hini as [Hi|[_ Hi]]; [cbn [forallb] in Hi; apply andb_true_iff in Hi; tauto|exact Hi]. }
      apply IH; [exact Hwt|intros g Hg; apply HWl, in_or_app; now right| |left; exact Hnt].
      apply acc_sem_node; [exact Hwx|intros g Hg; apply HWl, in_or_app; now left|exact Hrecv|].
      destruct Hini as [Hi|[Hi _]]; [left|right; exact Hi].
      cbn [forallb] in Hi. apply andb_true_iff in Hi. destruct Hi as [Hi _]. unfold ninit in Hi.
      apply negb_true_iff in Hi. exact Hi.
  Qed.

  (* a whole chain whose receiver evaluates nothing: a step of a branch, the inside of a wrapper *)
  Lemma acc_chain_nodes async (sn : snapshot) cp b l recv :
    wf_nodes l = true -> incl (flat_map node_groups l) W -> acc good [] recv ->
    acc good (flat_map node_direct l) (sem_nodes msem dotsem callsem async sn cp b l recv).
  Proof.
    intros Hwf HW Hrecv. unfold wf_nodes in Hwf. apply andb_true_iff in Hwf. destruct Hwf as [Hwf Htl].
    apply (acc_sem_nodes async sn cp b l Hwf HW recv [] Hrecv). right. split; [reflexivity|exact Htl].
  Qed.

  (* ITEM 3, first half.  The closure a wrapper `X >>> inner <<<` hands to the user's method: EVERY call
     that returns evaluates each non-hoisted operand directly inside the wrapper exactly once
     (`wrap_group inner`), and otherwise only whole groups of the wrappers NESTED in it (one group
     per call the inner methods make to THOSE closures).  Hoisted blocks are not evaluated by the
     call (they are looked up in cp): `wrap_group` holds non-hoistable operands only
     (`wrap_group_not_hoisted`). *)
  Theorem wrapper_inner_operands_once_per_call async (sn : snapshot) cp b inner v w tr :
    wf_nodes inner = true -> incl (flat_map node_groups inner) W ->
    match wrap_clo msem dotsem callsem async sn cp b inner with
    | DF clo => run (clo [v]) w tr
    | _ => False
    end ->
    exists ws, groups ws /\ Permutation (eevals tr) (wrap_group inner ++ List.concat ws).
  Proof.
    intros Hwf HW H. cbn [wrap_clo] in H.
    assert (Hc : acc top (wrap_group inner)
                     (let! d := sem_nodes msem dotsem callsem async sn cp b inner (Ret (DV v)) in to_val d)).
    { eapply acc_bind0; [|intros d _; apply acc_to_val].
      apply acc_chain_nodes; [exact Hwf|exact HW|apply acc_ret; exact I]. }
    destruct (Hc w tr H) as (_ & ws & Hws & HP). exists ws. split; assumption.
  Qed.

  (* ---------------------------------------------------------------- the glue: no user expression *)
  Lemma acc_mapM0 {X B} (Q : B -> Prop) (f : X -> comp B) (l : list X) :
    (forall x, In x l -> acc Q [] (f x)) -> acc (Forall Q) [] (mapM f l).
  Proof.
    induction l as [|x l IH]; intros H; cbn [mapM]; [apply acc_ret; constructor|].
    eapply acc_bind0; [apply H; now left|]. intros y Hy.
    eapply acc_bind0; [apply IH; intros; apply H; now right|]. intros ys Hys.
    apply acc_ret. constructor; assumption.
  Qed.

  Lemma acc_await_d d : good d -> acc top [] (await_d awaitsem d).
  Proof.
    intros Hd. destruct d as [v|g|g|c|name| |]; cbn [await_d]; try fin.
    - apply (uc_awaitsem _ _ _ _ _ HU).
    - exact Hd.
  Qed.

  Lemma acc_join_seq ds : Forall good ds -> acc top [] (join_seq awaitsem ds).
  Proof.
    intros Hds. unfold join_seq. eapply acc_bind0 with (Q := Forall top).
    - apply acc_mapM0. intros d Hd. apply acc_await_d. rewrite Forall_forall in Hds. auto.
    - intros vs _. fin.
  Qed.

  Lemma acc_try_join_seq ds : Forall good ds -> forall a, acc top [] (try_join_seq awaitsem ds a).
  Proof.
    induction 1 as [|d ds Hd Hds IH]; intros a; cbn [try_join_seq]; [fin|].
    eapply acc_bind0; [apply acc_await_d, Hd|]. intros v _. destruct v; try fin. apply IH.
  Qed.

  Lemma acc_std_map d f : good d -> (forall vs, acc top [] (f vs)) -> acc good [] (std_map d f).
  Proof.
    intros Hd Hf. destruct d as [v|g|g|c|name| |]; try fin.
    - destruct v; try fin; cbn; (eapply acc_bind0; [apply Hf|]; intros; fin).
    - apply acc_ret. cbn. unfold gcls. eapply acc_bind0; [exact Hd|]. intros v _. apply Hf.
  Qed.

  Lemma acc_std_and_then d f : good d -> (forall vs, acc top [] (f vs)) -> acc good [] (std_and_then awaitsem d f).
  Proof.
    intros Hd Hf. destruct d as [v|g|g|c|name| |]; try fin.
    - destruct v; try fin; cbn; (eapply acc_bind0; [apply Hf|]; intros; fin).
    - apply acc_ret. cbn. unfold gcls. eapply acc_bind0; [exact Hd|]. intros r _. destruct r; try fin.
      eapply acc_bind0; [apply Hf|]. intros fut _. apply (uc_awaitsem _ _ _ _ _ HU).
  Qed.

  Lemma acc_vals_tuple ds : acc good [] (Spec.vals_tuple ds).
  Proof. unfold Spec.vals_tuple. destruct (all_vals ds); fin. Qed.

  Lemma good_map_DV vs : Forall good (map DV vs).
  Proof. apply Forall_forall. intros d Hd. apply in_map_iff in Hd. destruct Hd as (v & <- & _). exact I. Qed.

  Lemma acc_extract acts sr : good sr -> acc (Forall good) [] (extract acts sr).
  Proof.
    intros Hsr. unfold extract.
    assert (Hm : acc (Forall good) []
                   (match sr with
                    | DV (VTuple vs) => if Nat.eqb (List.length vs) (List.length acts) then Ret (map DV vs) else Panic P_ILLTYPED
                    | _ => Panic P_ILLTYPED end)).
    { destruct sr as [v|g|g|c|name| |]; try fin. destruct v; try fin.
      destruct (Nat.eqb _ _); [|fin]. apply acc_ret. apply good_map_DV. }
    destruct acts as [|a [|a' acts']]; try exact Hm. apply acc_ret. constructor; [assumption|constructor].
  Qed.

  Lemma acc_classify d : acc top [] (classify d).
  Proof. destruct d as [v|g|g|c|name| |]; try fin. destruct v; fin. Qed.

  (* ---------------------------------------------------------------- one program *)
  Section Prog.
    Variable p : sprog.

    Notation Steps := (steps msem dotsem callsem awaitsem p).
    Notation Step_result := (step_result msem dotsem callsem awaitsem p).
    Notation Chain := (chain msem dotsem callsem p).

    Lemma acc_get st b : st_good st -> acc good [] (get st b).
    Proof.
      intros Hst. unfold get.
      assert (H : match nth b st None with Some d => good d | None => True end).
      { revert b. induction Hst as [|o st Ho Hst IH]; intros [|b]; cbn; auto. apply IH. }
      destruct (nth b st None); [apply acc_ret, H|fin].
    Qed.

    (* phase 1 of step k, exact and in order *)
    Lemma run_captures sn k acts : forall cp tr,
      run (captures p sn k acts) cp tr ->
      eevals tr = flat_map (fun b => flat_map node_captured (tree p b k)) acts /\ Forall is_eeval tr.
    Proof.
      induction acts as [|b r IH]; intros cp tr H; cbn [captures] in H.
      - apply run_ret_inv in H. destruct H as [_ ->]. split; [reflexivity|constructor].
      - apply run_bind_inv in H. destruct H as (c1 & t1 & t2 & H1 & H & ->).
        apply run_bind_inv in H. destruct H as (c2 & t2' & t3 & H2 & H3 & ->).
        apply run_ret_inv in H3. destruct H3 as [_ ->]. rewrite app_nil_r.
        destruct (run_capture_nodes _ _ _ _ _ H1) as [E1 F1]. destruct (IH _ _ H2) as [E2 F2].
        split; [rewrite eevals_app, E1, E2; reflexivity|apply Forall_app; split; assumption].
    Qed.

    Lemma acc_final_tuple st : st_good st -> acc good [] (final_tuple p st).
    Proof.
      intros Hst. unfold final_tuple.
      eapply acc_bind0; [apply acc_mapM0; intros b _; apply acc_get, Hst|].
      intros ds Hds. destruct ds as [|d [|d' ds']]; try apply acc_vals_tuple.
      apply acc_ret. inversion Hds; assumption.
    Qed.

    Lemma acc_transpose bs : forall st, st_good st -> acc good [] (transpose awaitsem p bs st).
    Proof.
      induction bs as [|b r IH]; intros st Hst; [fin|].
      cbn [transpose]. destruct r as [|b' r'].
      - eapply acc_bind0; [apply acc_get, Hst|]. intros d Hd.
        apply acc_std_map; [exact Hd|]. intros [|v [|]]; try fin.
        eapply acc_bind0; [apply acc_final_tuple, set1_ok; [exact Hst|exact I]|]. intros t _. apply acc_to_val.
      - eapply acc_bind0; [apply acc_get, Hst|]. intros d Hd.
        apply acc_std_and_then; [exact Hd|]. intros [|v [|]]; try fin.
        eapply acc_bind0; [apply IH, set1_ok; [exact Hst|exact I]|]. intros t _. apply acc_to_val.
    Qed.

    Lemma acc_call_handler hv rs : good hv -> good rs -> acc good [] (call_handler callsem p hv rs).
    Proof.
      intros Hh Hrs. unfold call_handler.
      eapply acc_bind0 with (Q := Forall good).
      - assert (Hm : acc (Forall good) []
                       (match rs with
                        | DV (VTuple vs) => if Nat.eqb (List.length vs) (List.length (sp_trees p)) then Ret (map DV vs) else Panic P_ILLTYPED
                        | _ => Panic P_ILLTYPED end)).
        { destruct rs as [v|g|g|c|name| |]; try fin. destruct v; try fin.
          destruct (Nat.eqb _ _); [|fin]. apply acc_ret. apply good_map_DV. }
        destruct (List.length (sp_trees p)) as [|[|m]]; try exact Hm.
        apply acc_ret. constructor; [assumption|constructor].
      - intros args Hargs. apply acc_apply; assumption.
    Qed.

    (* the handler FUNCTION is called as `std_map` / `std_and_then` / the call itself decide; its
       EXPRESSION was evaluated before (`run_body`) *)
    Lemma acc_handle_results ho rs :
      match ho with Some (_, hv) => good hv | None => True end -> good rs ->
      acc good [] (handle_results callsem awaitsem p ho rs).
    Proof.
      intros Hh Hrs. unfold handle_results.
      assert (Hclo : forall hv, good hv ->
                forall vs : list val, acc top [] (match vs with
                                                 | [v] => let! d := call_handler callsem p hv (DV v) in to_val d
                                                 | _ => Panic P_ILLTYPED end)).
      { intros hv Hhv [|v [|]]; try fin.
        eapply acc_bind0; [apply acc_call_handler; [exact Hhv|exact I]|]. intros d _. apply acc_to_val. }
      destruct ho as [[[| |] hv]|]; [| | |apply acc_ret, Hrs]; destruct (is_async (sp_cfg p)).
      - eapply acc_bind0; [apply acc_to_val|]. intros v _.
        eapply acc_bind0.
        + apply acc_std_map; [apply acc_ret; exact I|]. intros [|r [|]]; try fin.
          eapply acc_bind0; [apply acc_std_map; [exact I|apply Hclo, Hh]|]. intros d _. apply acc_to_val.
        + intros d Hd. eapply acc_bind0; [apply acc_await_d, Hd|]. intros w _. fin.
      - apply acc_std_map; auto.
      - eapply acc_bind0; [apply acc_call_handler; assumption|]. intros d Hd.
        eapply acc_bind0; [apply acc_await_d, Hd|]. intros w _. fin.
      - eapply acc_bind0; [apply acc_call_handler; assumption|]. intros d Hd. apply acc_ret, Hd.
      - eapply acc_bind0; [apply acc_to_val|]. intros v _.
        eapply acc_bind0.
        + apply acc_std_and_then; [apply acc_ret; exact I|]. apply Hclo, Hh.
        + intros d Hd. eapply acc_bind0; [apply acc_await_d, Hd|]. intros w _. fin.
      - apply acc_std_and_then; auto.
    Qed.

    Hypothesis Hwf : wf_prog p = true.
    Hypothesis HW : incl (program_groups p) W.
    (* no OS threads: the sequential kinds and the async kinds *)
    Hypothesis Hkind : is_async (sp_cfg p) = true \/ is_spawn (sp_cfg p) = false.

    Lemma acc_chain sn cp k st b : st_good st -> acc good (flat_map node_direct (tree p b k)) (Chain sn cp k st b).
    Proof.
      intros Hst. unfold chain. apply acc_chain_nodes.
      - apply tree_wf, Hwf.
      - intros g Hg. apply HW. eapply tree_groups; eauto.
      - unfold start. destruct (is_async (sp_cfg p)); [|apply acc_get, Hst].
        apply acc_ret. cbn. unfold gcls. eapply acc_bind0; [apply acc_get, Hst|]. intros d _. apply acc_to_val.
    Qed.

    (* phase 2 of step k for the kinds without OS threads: the chains of the active branches, in
       branch order (sync), resp. the futures are built in branch order and then joined (async) *)
    Definition chain_phase (k : nat) (st : state) (cp : caps) : comp dval :=
      let sn := snap_of p st in
      let acts := actives p k in
      let multi := Nat.ltb 1 (List.length acts) in
      if is_async (sp_cfg p) then
        if multi then
          let! futs := mapM (fun b => let! d := Chain sn cp k st b in
                                      if is_spawn (sp_cfg p)
                                      then match d with DFut _ | DV _ => Ret d | _ => Panic P_ILLTYPED end
                                      else Ret d) acts in
          let! v := (if is_try (sp_cfg p) then try_join_seq awaitsem futs [] else join_seq awaitsem futs) in
          Ret (DV v)
        else
          match acts with
          | [b] => let! d := Chain sn cp k st b in let! v := await_d awaitsem d in Ret (DV v)
          | _ => Panic P_STUCK
          end
      else
        if multi then let! ds := mapM (Chain sn cp k st) acts in Spec.vals_tuple ds
        else match acts with
             | [b] => Chain sn cp k st b
             | _ => Panic P_STUCK
             end.

    (* a step = phase 1, then phase 2 *)
    Lemma step_result_phases k st :
      Step_result k st = (let! cp := captures p (snap_of p st) k (actives p k) in chain_phase k st cp).
    Proof.
      unfold step_result, chain_phase. destruct (is_async (sp_cfg p)) eqn:Ha; [reflexivity|].
      destruct Hkind as [Hk|Hs]; [discriminate Hk|]. rewrite Hs. reflexivity.
    Qed.

    Lemma acc_chain_phase k st cp : st_good st -> acc good (step_direct p k) (chain_phase k st cp).
    Proof.
      intros Hst. unfold chain_phase, step_direct.
      set (sn := snap_of p st). set (acts := actives p k).
      assert (Hch : forall b, acc good (flat_map node_direct (tree p b k)) (Chain sn cp k st b)).
      { intros b. apply acc_chain, Hst. }
      assert (Hone : forall b, flat_map (fun b => flat_map node_direct (tree p b k)) [b] = flat_map node_direct (tree p b k)).
      { intros b. cbn. apply app_nil_r. }
      destruct (is_async (sp_cfg p)) eqn:Ha.
      - destruct (Nat.ltb 1 (List.length acts)) eqn:Hm.
        + eapply acc_bind0 with (Q := Forall good).
          * apply acc_mapM. intros b _. eapply acc_bind0; [apply Hch|]. intros d Hd.
            destruct (is_spawn (sp_cfg p)); [destruct d; try fin|]; apply acc_ret, Hd.
          * intros futs Hf. eapply acc_bind0 with (Q := top); [|intros v _; fin].
            destruct (is_try (sp_cfg p)); [apply acc_try_join_seq, Hf|apply acc_join_seq, Hf].
        + destruct acts as [|b [|]]; try fin. rewrite Hone.
          eapply acc_bind0; [apply Hch|]. intros d Hd.
          eapply acc_bind0; [apply acc_await_d, Hd|]. intros v _. fin.
      - destruct (Nat.ltb 1 (List.length acts)) eqn:Hm.
        + eapply acc_bind0 with (Q := Forall good); [apply acc_mapM; intros b _; apply Hch|].
          intros ds _. apply acc_vals_tuple.
        + destruct acts as [|b [|]]; try fin. rewrite Hone. apply Hch.
    Qed.

    (* ONE STEP: the hoisted blocks of the active branches and the operands their chains reach, once each *)
    Lemma acc_step_result k st : st_good st -> acc good (step_ops p k) (Step_result k st).
    Proof.
      intros Hst. rewrite step_result_phases. unfold step_ops.
      apply acc_bind with (Q := top); [|intros cp _; apply acc_chain_phase, Hst].
      apply acc_exact. intros cp tr H. eapply run_captures; eauto.
    Qed.

    (* ITEM 4 (C11 flavour): in the trace of a step all capture events precede all chain events.
       The trace is t1 ++ t2: t1 is the trace of phase 1 - nothing but the evaluations of the hoisted
       blocks, each once, in branch-then-position order (an EQUATION of lists, not a permutation) -
       and t2 is the trace of phase 2, which evaluates the operands the chains reach (and whole
       groups, through the wrapper closures). *)
    Theorem step_captures_precede_chains k st sr tr :
      st_good st -> run (Step_result k st) sr tr ->
      exists cp t1 t2,
        tr = t1 ++ t2 /\
        run (captures p (snap_of p st) k (actives p k)) cp t1 /\ run (chain_phase k st cp) sr t2 /\
        eevals t1 = step_captured p k /\ Forall is_eeval t1 /\
        exists ws, groups ws /\ Permutation (eevals t2) (step_direct p k ++ List.concat ws).
    Proof.
      intros Hst H. rewrite step_result_phases in H.
      apply run_bind_inv in H. destruct H as (cp & t1 & t2 & H1 & H2 & ->).
      exists cp, t1, t2. destruct (run_captures _ _ _ _ _ H1) as [E F].
      destruct (acc_chain_phase k st cp Hst sr t2 H2) as (_ & ws & Hws & HP).
      repeat split; try assumption. exists ws. split; assumption.
    Qed.

    (* ---- join! / join_async!: every step runs ---- *)
    Lemma acc_steps_nontry : is_try (sp_cfg p) = false ->
      forall fuel k st, st_good st -> acc good (steps_ops p k fuel) (Steps fuel k st).
    Proof.
      intros Ht. induction fuel as [|fuel IH]; intros k st Hst; [fin|].
      rewrite (steps_are_sequential_nontry msem dotsem callsem awaitsem p fuel k st Ht), steps_ops_S.
      apply acc_bind with (Q := good); [apply acc_step_result, Hst|]. intros sr Hsr.
      eapply acc_eq; [apply app_nil_l|].
      apply acc_bind with (Q := Forall good); [apply acc_extract, Hsr|]. intros ds Hds.
      assert (Hst' : st_good (set_all st (actives p k) ds)) by (apply set_all_ok; assumption).
      destruct (Nat.eqb fuel 0) eqn:Hf.
      - apply Nat.eqb_eq in Hf. subst fuel. apply acc_final_tuple, Hst'.
      - apply IH, Hst'.
    Qed.

    Definition st0 : state := map (fun _ => None) (sp_trees p).
    Lemma st0_good : st_good st0.
    Proof. apply Forall_forall. intros o Ho. apply in_map_iff in Ho. destruct Ho as (x & <- & _). exact I. Qed.

    (* the handler expression: first, once *)
    Lemma acc_handler_expr :
      acc (fun ho : option (hkind * dval) => match ho with Some (_, hv) => good hv | None => True end)
          (handler_operand p)
          (match sp_handler p with
           | Some (k, o) => Vis (EEval o (snap_of p st0)) (fun v => Ret (Some (k, DV v)))
           | None => Ret None end).
    Proof.
      unfold handler_operand. destruct (sp_handler p) as [[hk o]|]; [|apply acc_ret; exact I].
      apply acc_eeval. intros v. apply acc_ret. exact I.
    Qed.

    Lemma acc_run_body_nontry : is_try (sp_cfg p) = false ->
      acc good (all_operand_occurrences p) (run_body msem dotsem callsem awaitsem p).
    Proof.
      intros Ht. unfold run_body, all_operand_occurrences.
      eapply acc_bind; [apply acc_handler_expr|]. intros ho Hho.
      eapply acc_bind0; [apply acc_steps_nontry; [exact Ht|apply st0_good]|].
      intros rs Hrs. apply acc_handle_results; assumption.
    Qed.

    (* ---- try_join!: the steps up to and including the first failing one ---- *)
    (* `try_run fuel k st d tr j`: a run of the steps from k on (fuel steps left, state st) with result d
       and trace tr that executes exactly the steps k .. j:
         - the steps k .. j-1 ran to their end and none of the values they produced is a failure
           (`first_fail_list ds = None`: no `None` / `Err` among the step's results);
         - step j ran to its end and EITHER it is not the last step and one of its values is a failure
           (`try_fail`: the result d is the failing value of the lowest-numbered failing branch and
           NOTHING else happens - no event after the step's own)
           OR it is the last step (`try_last`: the results are transposed, which has no event);
       so j is the first failing step, or the last step when no earlier step fails. *)
    Inductive try_run : nat -> nat -> state -> dval -> list ev -> nat -> Prop :=
    | try_last k st sr ds t1 t2 d :
        run (Step_result k st) sr t1 -> run (extract (actives p k) sr) ds [] ->
        run (transpose awaitsem p (seq 0 (List.length (sp_trees p))) (set_all st (actives p k) ds)) d t2 ->
        try_run 1 k st d (t1 ++ t2) k
    | try_fail fuel k st sr ds t1 d :
        fuel <> 0 -> run (Step_result k st) sr t1 -> run (extract (actives p k) sr) ds [] ->
        all_classified ds = true -> first_fail_list ds = Some d ->
        try_run (S fuel) k st d t1 k
    | try_next fuel k st sr ds t1 t2 d j :
        fuel <> 0 -> run (Step_result k st) sr t1 -> run (extract (actives p k) sr) ds [] ->
        all_classified ds = true -> first_fail_list ds = None ->
        try_run fuel (S k) (set_all st (actives p k) ds) d t2 j ->
        try_run (S fuel) k st d (t1 ++ t2) j.

    Lemma run_extract acts sr ds t : run (extract acts sr) ds t -> t = [].
    Proof.
      unfold extract. intros H.
      assert (Hp : forall (c : comp (list dval)), (match c with Ret _ | Panic _ => True | _ => False end) ->
                   run c ds t -> t = []).
      { intros c Hc Hr. destruct c; try contradiction.
        - apply run_ret_inv in Hr. tauto.
        - destruct (run_panic_inv _ _ _ _ Hr). }
      eapply Hp; [|exact H].
      destruct acts as [|a [|a' r]]; try exact I; destruct sr as [v| | | | | |]; try exact I;
        destruct v; try exact I; destruct (Nat.eqb _ _); exact I.
    Qed.

    (* every run of the steps of a sequential try macro is such a run *)
    Lemma try_run_of_steps : is_try (sp_cfg p) = true -> is_async (sp_cfg p) = false ->
      forall fuel k st d tr, run (Steps fuel k st) d tr -> exists j, try_run fuel k st d tr j.
    Proof.
      intros Ht Ha. induction fuel as [|fuel IH]; intros k st d tr H; [destruct (run_panic_inv _ _ _ _ H)|].
      rewrite (try_steps_sync msem dotsem callsem awaitsem p fuel k st Ht Ha) in H.
      apply run_bind_inv in H. destruct H as (sr & t1 & t' & H1 & H & ->).
      apply run_bind_inv in H. destruct H as (ds & t2 & t3 & H2 & H3 & ->).
      pose proof (run_extract _ _ _ _ H2) as E2. subst t2. cbn [app]. cbv zeta in H3.
      destruct (Nat.eqb fuel 0) eqn:Hf.
      - apply Nat.eqb_eq in Hf. subst fuel. exists k. econstructor; eauto.
      - apply Nat.eqb_neq in Hf.
        destruct (all_classified ds) eqn:Hc; [|destruct (run_panic_inv _ _ _ _ H3)].
        destruct (first_fail_list ds) as [d'|] eqn:Hff.
        + apply run_ret_inv in H3. destruct H3 as [-> ->]. rewrite app_nil_r.
          exists k. eapply try_fail; eauto.
        + destruct (IH _ _ _ _ H3) as (j & Hj). exists j. eapply try_next; eauto.
    Qed.

    Lemma perm_combine (e1 e2 L1 L2 : list operand) ws1 ws2 :
      Permutation e1 (L1 ++ List.concat ws1) -> Permutation e2 (L2 ++ List.concat ws2) ->
      Permutation (e1 ++ e2) ((L1 ++ L2) ++ List.concat (ws1 ++ ws2)).
    Proof.
      intros H1 H2. rewrite concat_app. etransitivity; [apply Permutation_app; eassumption|]. apply perm_4.
    Qed.

    (* the operands such a run evaluates: those of the steps k .. j, once each; none of a later step *)
    Lemma try_run_ops fuel k st d tr j :
      try_run fuel k st d tr j -> st_good st ->
      (k <= j /\ j < k + fuel) /\ good d /\
      exists ws, groups ws /\ Permutation (eevals tr) (steps_ops p k (S j - k) ++ List.concat ws).
    Proof.
      induction 1 as [k st sr ds t1 t2 d H1 H2 H3|fuel k st sr ds t1 d Hf H1 H2 Hc Hff
                     |fuel k st sr ds t1 t2 d j Hf H1 H2 Hc Hff Hrest IH]; intros Hst.
      - destruct (acc_step_result k st Hst sr t1 H1) as (Hsr & ws1 & Hws1 & HP1).
        destruct (acc_extract (actives p k) sr Hsr ds [] H2) as (Hds & _).
        assert (Hst' : st_good (set_all st (actives p k) ds)) by (apply set_all_ok; assumption).
        destruct (acc_transpose _ _ Hst' d t2 H3) as (Hd & ws2 & Hws2 & HP2).
        split; [lia|]. split; [exact Hd|]. exists (ws1 ++ ws2). split; [apply Forall_app; split; assumption|].
        replace (S k - k) with 1 by lia. rewrite steps_ops_S. rewrite eevals_app.
        apply perm_combine; assumption.
      - destruct (acc_step_result k st Hst sr t1 H1) as (Hsr & ws1 & Hws1 & HP1).
        destruct (acc_extract (actives p k) sr Hsr ds [] H2) as (Hds & _).
        split; [lia|]. split.
        { apply first_fail_list_cls in Hff. destruct Hff as [_ Hin]. rewrite Forall_forall in Hds. auto. }
        exists ws1. split; [exact Hws1|].
        replace (S k - k) with 1 by lia. rewrite steps_ops_S. cbn [steps_ops seq flat_map]. rewrite app_nil_r. exact HP1.
      - destruct (acc_step_result k st Hst sr t1 H1) as (Hsr & ws1 & Hws1 & HP1).
        destruct (acc_extract (actives p k) sr Hsr ds [] H2) as (Hds & _).
        assert (Hst' : st_good (set_all st (actives p k) ds)) by (apply set_all_ok; assumption).
        destruct (IH Hst') as (Hj & Hd & ws2 & Hws2 & HP2).
        split; [lia|]. split; [exact Hd|]. exists (ws1 ++ ws2). split; [apply Forall_app; split; assumption|].
        replace (S j - k) with (S (S j - S k)) by lia. rewrite steps_ops_S, eevals_app.
        apply perm_combine; assumption.
    Qed.

    (* stopping early means: the result is the failure itself *)
    Lemma try_run_early_is_failure fuel k st d tr j :
      try_run fuel k st d tr j -> S j < k + fuel -> SpecProps.cls d = Some false.
    Proof.
      clear Hwf HW Hkind.
      induction 1 as [k st sr ds t1 t2 d H1 H2 H3|fuel k st sr ds t1 d Hf H1 H2 Hc Hff
                     |fuel k st sr ds t1 t2 d j Hf H1 H2 Hc Hff Hrest IH]; intros Hj.
      - lia.
      - apply first_fail_list_cls in Hff. tauto.
      - apply IH. lia.
    Qed.

    Lemma acc_steps_try_sync_run : is_try (sp_cfg p) = true -> is_async (sp_cfg p) = false ->
      forall rs tr, run (Steps (max_depth p) 0 st0) rs tr ->
      exists j, try_run (max_depth p) 0 st0 rs tr j /\ j < max_depth p /\ good rs /\
                exists ws, groups ws /\ Permutation (eevals tr) (steps_ops p 0 (S j) ++ List.concat ws).
    Proof.
      intros Ht Ha rs tr H. destruct (try_run_of_steps Ht Ha _ _ _ _ _ H) as (j & Hj).
      destruct (try_run_ops _ _ _ _ _ _ Hj st0_good) as (Hr & Hrs & ws & Hws & HP).
      exists j. split; [exact Hj|]. split; [lia|]. split; [exact Hrs|]. exists ws. split; [exact Hws|].
      replace (S j - 0) with (S j) in HP by lia. exact HP.
    Qed.

    (* ---- try_join_async! / try_join_async_spawn!: `try_join!` of the step's futures yields one Result ---- *)
    (* what the last step does with the payload w of its `Ok` *)
    Definition finish_async (k : nat) (st : state) (w : val) : comp dval :=
      if Nat.ltb 1 (List.length (sp_trees p)) then
        let! ds := extract (actives p k) (DV w) in
        let st' := set_all st (actives p k) ds in
        match filter (fun b => negb (active p k b)) (seq 0 (List.length (sp_trees p))) with
        | [] => let! t := final_tuple p st' in let! tv := to_val t in Ret (DV (VOk tv))
        | inactive => transpose awaitsem p inactive st'
        end
      else Ret (DV (VOk w)).
    (* the value a non-final step hands to the next one: the payloads, re-wrapped in `Ok` *)
    Definition rewrapped (rew : list dval) : dval :=
      match rew with [d] => d | _ => DV (VTuple (match all_vals rew with Some l => l | None => [] end)) end.

    Lemma steps_try_async fuel k st : is_try (sp_cfg p) = true -> is_async (sp_cfg p) = true ->
      Steps (S fuel) k st =
      (let! sr := Step_result k st in
       match sr with
       | DV (VErr e) => Ret (DV (VErr e))
       | DV (VOk w) =>
           if Nat.eqb fuel 0 then finish_async k st w
           else let! rew := rewrap (actives p k) w in
                let! ds := extract (actives p k) (rewrapped rew) in
                Steps fuel (S k) (set_all st (actives p k) ds)
       | _ => Panic P_ILLTYPED
       end).
    Proof. intros Ht Ha. cbn [steps]. rewrite Ht, Ha. reflexivity. Qed.

    (* `try_run_async fuel k st d tr j`: a run of the steps from k on that executes exactly the steps k .. j:
       the steps k .. j-1 returned `Ok`, and step j returned `Err` (`tra_fail`: the result is that `Err`
       and nothing else happens) or is the last step (`tra_last`). *)
    Inductive try_run_async : nat -> nat -> state -> dval -> list ev -> nat -> Prop :=
    | tra_fail fuel k st e t1 :
        run (Step_result k st) (DV (VErr e)) t1 -> try_run_async (S fuel) k st (DV (VErr e)) t1 k
    | tra_last k st w t1 t2 d :
        run (Step_result k st) (DV (VOk w)) t1 -> run (finish_async k st w) d t2 ->
        try_run_async 1 k st d (t1 ++ t2) k
    | tra_next fuel k st w rew ds t1 t2 d j :
        fuel <> 0 -> run (Step_result k st) (DV (VOk w)) t1 ->
        run (rewrap (actives p k) w) rew [] -> run (extract (actives p k) (rewrapped rew)) ds [] ->
        try_run_async fuel (S k) (set_all st (actives p k) ds) d t2 j ->
        try_run_async (S fuel) k st d (t1 ++ t2) j.

    Lemma run_rewrap acts w rew t : run (rewrap acts w) rew t -> t = [] /\ Forall good rew.
    Proof.
      clear Hwf HW Hkind.
      assert (Hm : forall ws l ys t', run (mapM (fun i => match nth_error ws i with
                                                       | Some x => Ret (DV (VOk x))
                                                       | None => Panic P_ILLTYPED end) l) ys t' ->
                                     t' = [] /\ Forall good ys).
      { intros ws l. induction l as [|i l IH]; intros ys t' H; cbn [mapM] in H.
        - apply run_ret_inv in H. destruct H as [-> ->]. split; [reflexivity|constructor].
        - destruct (nth_error ws i); [|destruct (run_panic_inv _ _ _ _ H)]. cbn [bind] in H.
          apply run_bind_inv in H. destruct H as (ys' & t1 & t2 & H1 & H2 & ->).
          apply run_ret_inv in H2. destruct H2 as [-> ->]. destruct (IH _ _ H1) as [-> Hys].
          split; [reflexivity|constructor; [exact I|exact Hys]]. }
      unfold rewrap. intros H.
      destruct acts as [|a [|a' r]].
      - destruct w; try (destruct (run_panic_inv _ _ _ _ H)). eapply Hm; eauto.
      - apply run_ret_inv in H. destruct H as [-> ->]. split; [reflexivity|constructor; [exact I|constructor]].
      - destruct w; try (destruct (run_panic_inv _ _ _ _ H)). eapply Hm; eauto.
    Qed.

    Lemma try_run_async_of_steps : is_try (sp_cfg p) = true -> is_async (sp_cfg p) = true ->
      forall fuel k st d tr, run (Steps fuel k st) d tr -> exists j, try_run_async fuel k st d tr j.
    Proof.
      intros Ht Ha. induction fuel as [|fuel IH]; intros k st d tr H; [destruct (run_panic_inv _ _ _ _ H)|].
      rewrite (steps_try_async fuel k st Ht Ha) in H.
      apply run_bind_inv in H. destruct H as (sr & t1 & t' & H1 & H & ->).
      destruct sr as [v| | | | | |]; try (destruct (run_panic_inv _ _ _ _ H)).
      destruct v; try (destruct (run_panic_inv _ _ _ _ H)).
      - (* Ok *) destruct (Nat.eqb fuel 0) eqn:Hf.
        + apply Nat.eqb_eq in Hf. subst fuel. exists k. econstructor; eauto.
        + apply Nat.eqb_neq in Hf.
          apply run_bind_inv in H. destruct H as (rew & t2 & t3 & H2 & H & ->).
          apply run_bind_inv in H. destruct H as (ds & t4 & t5 & H3 & H4 & ->).
          destruct (run_rewrap _ _ _ _ H2) as [-> _]. pose proof (run_extract _ _ _ _ H3) as ->. cbn [app].
          destruct (IH _ _ _ _ H4) as (j & Hj). exists j. eapply tra_next; eauto.
      - (* Err *) apply run_ret_inv in H. destruct H as [-> ->]. rewrite app_nil_r. exists k. constructor. exact H1.
    Qed.

    Lemma acc_finish_async k st w : st_good st -> acc good [] (finish_async k st w).
    Proof.
      intros Hst. unfold finish_async. destruct (Nat.ltb 1 _); [|fin].
      eapply acc_bind0; [apply acc_extract; exact I|]. intros ds Hds.
      assert (Hst' : st_good (set_all st (actives p k) ds)) by (apply set_all_ok; assumption).
      cbv zeta. destruct (filter _ _) as [|b r].
      - eapply acc_bind0; [apply acc_final_tuple, Hst'|]. intros t _.
        eapply acc_bind0; [apply acc_to_val|]. intros tv _. fin.
      - apply acc_transpose, Hst'.
    Qed.

    Lemma rewrapped_good rew : Forall good rew -> good (rewrapped rew).
    Proof. intros H. destruct rew as [|d [|]]; try exact I. inversion H; assumption. Qed.

    Lemma try_run_async_ops fuel k st d tr j :
      try_run_async fuel k st d tr j -> st_good st ->
      (k <= j /\ j < k + fuel) /\ good d /\
      exists ws, groups ws /\ Permutation (eevals tr) (steps_ops p k (S j - k) ++ List.concat ws).
    Proof.
      induction 1 as [fuel k st e t1 H1|k st w t1 t2 d H1 H2
                     |fuel k st w rew ds t1 t2 d j Hf H1 H2 H3 Hrest IH]; intros Hst.
      - destruct (acc_step_result k st Hst _ t1 H1) as (_ & ws1 & Hws1 & HP1).
        split; [lia|]. split; [exact I|]. exists ws1. split; [exact Hws1|].
        replace (S k - k) with 1 by lia. rewrite steps_ops_S. cbn [steps_ops seq flat_map]. rewrite app_nil_r. exact HP1.
      - destruct (acc_step_result k st Hst _ t1 H1) as (_ & ws1 & Hws1 & HP1).
        destruct (acc_finish_async k st w Hst d t2 H2) as (Hd & ws2 & Hws2 & HP2).
        split; [lia|]. split; [exact Hd|]. exists (ws1 ++ ws2). split; [apply Forall_app; split; assumption|].
        replace (S k - k) with 1 by lia. rewrite steps_ops_S, eevals_app. apply perm_combine; assumption.
      - destruct (acc_step_result k st Hst _ t1 H1) as (_ & ws1 & Hws1 & HP1).
        destruct (run_rewrap _ _ _ _ H2) as [_ Hrew].
        destruct (acc_extract (actives p k) _ (rewrapped_good rew Hrew) ds [] H3) as (Hds & _).
        assert (Hst' : st_good (set_all st (actives p k) ds)) by (apply set_all_ok; assumption).
        destruct (IH Hst') as (Hj & Hd & ws2 & Hws2 & HP2).
        split; [lia|]. split; [exact Hd|]. exists (ws1 ++ ws2). split; [apply Forall_app; split; assumption|].
        replace (S j - k) with (S (S j - S k)) by lia. rewrite steps_ops_S, eevals_app.
        apply perm_combine; assumption.
    Qed.

    Lemma try_run_async_early_is_failure fuel k st d tr j :
      try_run_async fuel k st d tr j -> S j < k + fuel -> exists e, d = DV (VErr e).
    Proof.
      clear Hwf HW Hkind.
      induction 1 as [fuel k st e t1 H1|k st w t1 t2 d H1 H2
                     |fuel k st w rew ds t1 t2 d j Hf H1 H2 H3 Hrest IH]; intros Hj.
      - eauto.
      - lia.
      - apply IH. lia.
    Qed.

    Lemma acc_steps_try_async_run : is_try (sp_cfg p) = true -> is_async (sp_cfg p) = true ->
      forall rs tr, run (Steps (max_depth p) 0 st0) rs tr ->
      exists j, try_run_async (max_depth p) 0 st0 rs tr j /\ j < max_depth p /\ good rs /\
                exists ws, groups ws /\ Permutation (eevals tr) (steps_ops p 0 (S j) ++ List.concat ws).
    Proof.
      intros Ht Ha rs tr H. destruct (try_run_async_of_steps Ht Ha _ _ _ _ _ H) as (j & Hj).
      destruct (try_run_async_ops _ _ _ _ _ _ Hj st0_good) as (Hr & Hrs & ws & Hws & HP).
      exists j. split; [exact Hj|]. split; [lia|]. split; [exact Hrs|]. exists ws. split; [exact Hws|].
      replace (S j - 0) with (S j) in HP by lia. exact HP.
    Qed.
  End Prog.
End Acc.
Print Assumptions wrapper_inner_operands_once_per_call.
Print Assumptions step_captures_precede_chains.

(* ================================================================== *)
(** * 4. The theorems                                                  *)
(* ================================================================== *)

(* THE HYPOTHESIS ON USER CODE, for the world `ans` and the set of groups W (see `Acc`). *)
Definition user_code_once (ans : ev -> val -> Prop) (W : list (list operand)) := user_codeC (gcls ans W).

(* What a multiset equation says when the positions hold pairwise different tokens:
   every operand of a position occurs, none occurs twice, nothing else occurs. *)
Lemma exactly_once_of_perm {X} (l l' : list X) :
  Permutation l l' -> NoDup l' -> NoDup l /\ forall x, In x l <-> In x l'.
Proof.
  intros HP Hnd. split.
  - eapply Permutation_NoDup; [symmetry; exact HP|exact Hnd].
  - intros x. split; intros H; [eapply Permutation_in; eauto|eapply Permutation_in; [symmetry|]; eauto].
Qed.

Lemma groups_nil ws : groups [] ws -> List.concat ws = [].
Proof. intros H. destruct ws as [|g ws]; [reflexivity|]. inversion H as [|? ? Hg _]. destruct Hg. Qed.

(* ITEM 1 (join!).  In every run of the macro that returns, the `EEval` events are: exactly one for every
   once-position (the handler expression; for every step of every branch the hoisted blocks and the
   operands outside wrappers) - `all_operand_occurrences sp` - and, besides, only whole groups: one
   group of a wrapper per call the user's method made to the wrapper's closure. *)
Theorem top_level_operands_once ans W msem dotsem callsem awaitsem (sp : sprog) :
  is_async (sp_cfg sp) = false -> is_spawn (sp_cfg sp) = false -> is_try (sp_cfg sp) = false ->
  wf_prog sp = true -> incl (program_groups sp) W ->
  user_code_once ans W msem dotsem callsem awaitsem ->
  forall d tr, run ans (spec msem dotsem callsem awaitsem sp) d tr ->
  exists ws, groups W ws /\ Permutation (eevals tr) (all_operand_occurrences sp ++ List.concat ws).
Proof.
  intros Ha Hs Ht Hwf HW HU d tr H. unfold spec in H. rewrite Ha in H.
  destruct (acc_run_body_nontry ans W _ _ _ _ HU sp Hwf HW (or_intror Hs) Ht d tr H) as (_ & ws & Hws & HP).
  exists ws. split; assumption.
Qed.
Print Assumptions top_level_operands_once.

(* programs without wrappers: nothing else at all; the hypothesis on user code then reads
   "no `EEval` event, given closures and futures without `EEval` events" *)
Corollary top_level_operands_once_no_wrappers ans msem dotsem callsem awaitsem (sp : sprog) :
  is_async (sp_cfg sp) = false -> is_spawn (sp_cfg sp) = false -> is_try (sp_cfg sp) = false ->
  wf_prog sp = true -> program_groups sp = [] ->
  user_code_once ans [] msem dotsem callsem awaitsem ->
  forall d tr, run ans (spec msem dotsem callsem awaitsem sp) d tr ->
  Permutation (eevals tr) (all_operand_occurrences sp).
Proof.
  intros Ha Hs Ht Hwf HW HU d tr H.
  destruct (top_level_operands_once ans [] _ _ _ _ sp Ha Hs Ht Hwf ltac:(rewrite HW; apply incl_refl) HU d tr H)
    as (ws & Hws & HP).
  rewrite (groups_nil ws Hws), app_nil_r in HP. exact HP.
Qed.

(* the deterministic world h *)
Corollary top_level_operands_once_det (h : ev -> option val) W msem dotsem callsem awaitsem (sp : sprog) :
  is_async (sp_cfg sp) = false -> is_spawn (sp_cfg sp) = false -> is_try (sp_cfg sp) = false ->
  wf_prog sp = true -> incl (program_groups sp) W ->
  user_code_once (fun e v => h e = Some v) W msem dotsem callsem awaitsem ->
  forall d tr, runT h (spec msem dotsem callsem awaitsem sp) = Some (d, tr) ->
  exists ws, groups W ws /\ Permutation (eevals tr) (all_operand_occurrences sp ++ List.concat ws).
Proof.
  intros Ha Hs Ht Hwf HW HU d tr H. apply runT_run in H.
  eapply top_level_operands_once; eauto.
Qed.

(* ITEM 2 (try_join!).  The trace of a run that returns is t0 ++ ts ++ th: the handler expression, the
   steps, the handler call.  `try_run .. ts j` says that ts is the trace of the steps 0 .. j run to their
   end, where j is the first step one of whose values is a failure, or the last step (see `try_run`).
   The `EEval` events of the whole run: one for the handler expression, one for every once-position of
   the steps 0 .. j, whole groups - and nothing of a later step. *)
Theorem try_operands_once_until_failure ans W msem dotsem callsem awaitsem (sp : sprog) :
  is_async (sp_cfg sp) = false -> is_spawn (sp_cfg sp) = false -> is_try (sp_cfg sp) = true ->
  wf_prog sp = true -> incl (program_groups sp) W ->
  user_code_once ans W msem dotsem callsem awaitsem ->
  forall d tr, run ans (spec msem dotsem callsem awaitsem sp) d tr ->
  exists j rs t0 ts th,
    tr = t0 ++ ts ++ th /\
    try_run ans msem dotsem callsem awaitsem sp (max_depth sp) 0 (st0 sp) rs ts j /\ j < max_depth sp /\
    exists ws, groups W ws /\
               Permutation (eevals tr) (handler_operand sp ++ steps_ops sp 0 (S j) ++ List.concat ws).
Proof.
  intros Ha Hs Ht Hwf HW HU d tr H. unfold spec in H. rewrite Ha in H. unfold run_body in H.
  apply run_bind_inv in H. destruct H as (ho & t0 & t' & H0 & H & ->).
  apply run_bind_inv in H. destruct H as (rs & ts & th & H1 & H2 & ->).
  destruct (acc_handler_expr ans W sp ho t0 H0) as (Hho & ws0 & Hws0 & HP0).
  destruct (acc_steps_try_sync_run ans W _ _ _ _ HU sp Hwf HW (or_intror Hs) Ht Ha rs ts H1)
    as (j & Hj & Hlt & Hrs & ws1 & Hws1 & HP1).
  destruct (acc_handle_results ans W _ _ _ _ HU sp ho rs Hho Hrs d th H2) as (_ & ws2 & Hws2 & HP2).
  exists j, rs, t0, ts, th. split; [reflexivity|]. split; [exact Hj|]. split; [exact Hlt|].
  exists (ws0 ++ ws1 ++ ws2). split; [repeat (apply Forall_app; split); assumption|].
  rewrite !eevals_app. rewrite (app_assoc (handler_operand sp)).
  apply perm_combine; [exact HP0|].
  pose proof (perm_combine _ _ _ _ _ _ HP1 HP2) as HP. rewrite app_nil_r in HP. exact HP.
Qed.
Print Assumptions try_operands_once_until_failure.

(* ... and when not all steps ran, the result of the steps is the failure itself *)
Corollary try_early_stop_is_failure ans msem dotsem callsem awaitsem (sp : sprog) rs ts j :
  try_run ans msem dotsem callsem awaitsem sp (max_depth sp) 0 (st0 sp) rs ts j ->
  S j < max_depth sp -> SpecProps.cls rs = Some false.
Proof. intros H Hj. eapply try_run_early_is_failure; [exact H|]. lia. Qed.

(* ITEM 2 for the async kinds (try_join_async!, try_join_async_spawn!): the macro is a future; awaiting it
   evaluates the handler expression, the once-positions of the steps 0 .. j, whole groups, and nothing of
   a later step - j = the first step whose `try_join!` returned `Err`, or the last step *)
Theorem try_operands_once_until_failure_async ans W msem dotsem callsem awaitsem (sp : sprog) :
  is_async (sp_cfg sp) = true -> is_try (sp_cfg sp) = true ->
  wf_prog sp = true -> incl (program_groups sp) W ->
  user_code_once ans W msem dotsem callsem awaitsem ->
  forall v tr, run ans (let! d := spec msem dotsem callsem awaitsem sp in await_d awaitsem d) v tr ->
  exists j rs t0 ts th,
    tr = t0 ++ ts ++ th /\
    try_run_async ans msem dotsem callsem awaitsem sp (max_depth sp) 0 (st0 sp) rs ts j /\ j < max_depth sp /\
    exists ws, groups W ws /\
               Permutation (eevals tr) (handler_operand sp ++ steps_ops sp 0 (S j) ++ List.concat ws).
Proof.
  intros Ha Ht Hwf HW HU v tr H. unfold spec in H. rewrite Ha in H. cbn [bind await_d] in H.
  apply run_bind_inv in H. destruct H as (d & tb & tv & H & Hv & ->).
  assert (tv = []) as ->.
  { destruct d; cbn in Hv; try (destruct (run_panic_inv _ _ _ _ Hv)). apply run_ret_inv in Hv. tauto. }
  rewrite app_nil_r. unfold run_body in H.
  apply run_bind_inv in H. destruct H as (ho & t0 & t' & H0 & H & ->).
  apply run_bind_inv in H. destruct H as (rs & ts & th & H1 & H2 & ->).
  destruct (acc_handler_expr ans W sp ho t0 H0) as (Hho & ws0 & Hws0 & HP0).
  destruct (acc_steps_try_async_run ans W _ _ _ _ HU sp Hwf HW (or_introl Ha) Ht Ha rs ts H1)
    as (j & Hj & Hlt & Hrs & ws1 & Hws1 & HP1).
  destruct (acc_handle_results ans W _ _ _ _ HU sp ho rs Hho Hrs d th H2) as (_ & ws2 & Hws2 & HP2).
  exists j, rs, t0, ts, th. split; [reflexivity|]. split; [exact Hj|]. split; [exact Hlt|].
  exists (ws0 ++ ws1 ++ ws2). split; [repeat (apply Forall_app; split); assumption|].
  rewrite !eevals_app. rewrite (app_assoc (handler_operand sp)).
  apply perm_combine; [exact HP0|].
  pose proof (perm_combine _ _ _ _ _ _ HP1 HP2) as HP. rewrite app_nil_r in HP. exact HP.
Qed.
Print Assumptions try_operands_once_until_failure_async.

(* ITEM 5, the async kinds without `try` (join_async!, join_async_spawn!): `spec` is a future; run it
   by awaiting it *)
Theorem top_level_operands_once_async ans W msem dotsem callsem awaitsem (sp : sprog) :
  is_async (sp_cfg sp) = true -> is_try (sp_cfg sp) = false ->
  wf_prog sp = true -> incl (program_groups sp) W ->
  user_code_once ans W msem dotsem callsem awaitsem ->
  forall v tr, run ans (let! d := spec msem dotsem callsem awaitsem sp in await_d awaitsem d) v tr ->
  exists ws, groups W ws /\ Permutation (eevals tr) (all_operand_occurrences sp ++ List.concat ws).
Proof.
  intros Ha Ht Hwf HW HU v tr H. unfold spec in H. rewrite Ha in H. cbn [bind await_d] in H.
  apply run_bind_inv in H. destruct H as (d & t1 & t2 & H1 & H2 & ->).
  destruct (acc_run_body_nontry ans W _ _ _ _ HU sp Hwf HW (or_introl Ha) Ht d t1 H1) as (_ & ws & Hws & HP).
  assert (t2 = []) as ->.
  { destruct d; cbn in H2; try (destruct (run_panic_inv _ _ _ _ H2)). apply run_ret_inv in H2. tauto. }
  rewrite app_nil_r. exists ws. split; assumption.
Qed.
Print Assumptions top_level_operands_once_async.

(* ITEM 3, second half.  The hoisted `{..}` blocks INSIDE a wrapper are evaluated by phase 1 of the step
   (`capture_node` descends into the wrapper): each exactly once, in order, and nothing else is - an
   equation of lists.  Phase 1 is run once per step (`step_captures_precede_chains`:
   `step_captured` contains `node_captured (NWrap ..)` for every wrapper of an active branch).
   They are NOT evaluated by the calls of the closure: a call evaluates `wrap_group inner`
   (`wrapper_inner_operands_once_per_call`), whose members are not hoistable
   (`wrap_group_not_hoisted`; with identities: `action_positions_partition` - the hoisted and the
   chain-evaluated operand positions of an action partition its operand positions). *)
Theorem wrapper_hoisted_blocks_once_per_step ans (sn : list (string * option val)) b e a inner cp tr :
  run ans (capture_node sn b (NWrap e a inner)) cp tr ->
  eevals tr = flat_map node_captured inner /\ Forall is_eeval tr.
Proof. intros H. apply (run_capture_node ans sn b (NWrap e a inner) cp tr H). Qed.
Print Assumptions wrapper_hoisted_blocks_once_per_step.

Lemma wrap_group_not_hoisted inner o :
  In o (wrap_group inner) ->
  exists e a, In (NAct e a) inner /\ In o (exprs_of a) /\ hoistable (a_comb a) o = false.
Proof.
  unfold wrap_group. intros H. apply in_flat_map in H. destruct H as (n & Hn & Ho).
  destruct n as [e a|e a inner']; [|destruct Ho].
  cbn [node_direct] in Ho. apply direct_of_not_hoistable in Ho. exists e, a. tauto.
Qed.

(* ITEM 1 once more, with the identities: the `EEval` operands of the trace are, as a multiset, the
   operands of the once-positions (each position contributes its operand once) and whole groups *)
Corollary once_positions_evaluated_once ans W msem dotsem callsem awaitsem (sp : sprog) :
  is_async (sp_cfg sp) = false -> is_spawn (sp_cfg sp) = false -> is_try (sp_cfg sp) = false ->
  wf_prog sp = true -> incl (program_groups sp) W ->
  user_code_once ans W msem dotsem callsem awaitsem ->
  forall d tr, run ans (spec msem dotsem callsem awaitsem sp) d tr ->
  exists ws, groups W ws /\ Permutation (eevals tr) (map snd (once_positions sp) ++ List.concat ws).
Proof. intros. rewrite once_positions_operands. eapply top_level_operands_once; eauto. Qed.

(* ================================================================== *)
(** * 5. Examples                                                      *)
(* ================================================================== *)

Module ExOnce.
  (* ---- user code: `.map(f)` on a list calls f once per element, on an Option at most once;
          `recv.<tokens>` and calls of user closures are `ECall` events ---- *)
  Definition call1 (f : dval) (v : val) : comp val :=
    match f with
    | DF g => g [v]
    | DV fv => Vis (ECall fv [v]) (fun w => Ret w)
    | _ => Panic P_ILLTYPED
    end.
  Definition msemX (m : string) (tys : option (list operand)) (recv : dval) (args : list dval) : comp dval :=
    if String.eqb m "map" then
      match args with
      | [f] => match recv with
               | DV (VList vs) => let! ws := mapM (call1 f) vs in Ret (DV (VList ws))
               | _ => std_map recv (fun vs => match vs with [v] => call1 f v | _ => Panic P_ILLTYPED end)
               end
      | _ => Panic P_ILLTYPED
      end
    else Panic P_STUCK.
  Definition dotsemX (o : operand) (sn : list (string * option val)) (recv : dval) : comp dval :=
    match recv with
    | DV v => Vis (ECall (VStr "member") [v]) (fun w => Ret (DV w))
    | _ => Panic P_ILLTYPED
    end.
  Definition callsemX (f : val) (args : list dval) : comp dval := Panic P_ILLTYPED.
  Definition awaitsemX (v : val) : comp val := Ret v.

  (* the hypothesis on user code holds, for every world and every set of groups *)
  Lemma user_code_ex ans W : user_code_once ans W msemX dotsemX callsemX awaitsemX.
  Proof.
    assert (Hcall : forall f v, dval_okC (gcls ans W) f -> acc ans W (fun _ => True) [] (call1 f v)).
    { intros f v Hf. destruct f; cbn [call1]; try apply acc_panic.
      - apply acc_vis; [exact (fun H => H)|]. intros w. apply acc_ret. exact I.
      - apply Hf. }
    split.
    - intros m tys recv args Hrecv Hargs. unfold msemX. destruct (String.eqb m "map"); [|apply acc_panic].
      destruct args as [|f [|]]; try apply acc_panic. inversion Hargs as [|? ? Hf _]; subst.
      assert (Hm : acc ans W (dval_okC (gcls ans W)) []
                       (std_map recv (fun vs => match vs with [v] => call1 f v | _ => Panic P_ILLTYPED end))).
      { apply acc_std_map; [exact Hrecv|]. intros [|v [|]]; try apply acc_panic. apply Hcall, Hf. }
      destruct recv as [v| | | | | |]; try exact Hm. destruct v; try exact Hm.
      eapply acc_bind0; [apply acc_mapM0; intros v _; apply Hcall, Hf|]. intros ws _. apply acc_ret. exact I.
    - intros o sn recv _. destruct recv; try apply acc_panic.
      apply acc_vis; [exact (fun H => H)|]. intros w. apply acc_ret. exact I.
    - intros f args _. apply acc_panic.
    - intros v. apply acc_ret. exact I.
  Qed.

  (* ---- the world ---- *)
  Definition hX (e : ev) : option val :=
    match e with
    | EEval [TI x] _ =>
        if String.eqb x "xs" then Some (VList [VInt 1; VInt 2])
        else if String.eqb x "two" then Some (VInt 2)
        else if String.eqb x "g" then Some (VOpq 8)
        else if String.eqb x "h" then Some (VOpq 6)
        else if String.eqb x "fin" then Some (VOpq 5)
        else if String.eqb x "none" then Some VNone
        else if String.eqb x "some1" then Some (VSome (VInt 1))
        else None
    | EEval [TG DBrace [TI x]] _ =>
        if String.eqb x "f" then Some (VOpq 7) else if String.eqb x "k" then Some (VOpq 9) else None
    | ECall (VOpq 7) [VInt z] => Some (VInt (z + 10))
    | ECall (VOpq 8) [VInt z] => Some (VSome (VInt (2 * z)))
    | ECall (VOpq 9) [VInt z] => Some (VInt (z + 100))
    | ECall (VOpq 6) [VInt z] => Some (VInt (10 * z))
    | ECall (VOpq 5) _ => Some (VInt 0)
    | _ => None
    end.

  (* ---- the program: 2 branches, 2 steps, block operands (one of them inside a wrapper), a wrapper ----
       join! { xs |> { f }  ~|> >>> -> g |> { k } <<<,   two ~-> h,   then fin }
     branch 0, step 0: `xs`, `.map({ f })` (the block is hoisted);
     branch 0, step 1: `.map(|v| ..)` whose closure is `g(v)` followed by `.map({ k })` ({ k } is hoisted:
                       evaluated once per step, while `g` is evaluated once per call - twice here);
     branch 1: `two`, then `h(..)` in step 1. *)
  Definition act (c : comb) (d : bool) (m : mv) (ops : list operand) : action := mkAction c d m ops.
  Definition blk (x : string) : operand := [TG DBrace [TI x]].
  Definition treesX : list (list (list node)) :=
    [ [ [NAct 0 (act Initial false NoMove [[TI "xs"]]); NAct 1 (act Map false NoMove [blk "f"])];
        [NWrap 0 (act Map true Wrap [])
               [NAct 1 (act Then false NoMove [[TI "g"]]); NAct 2 (act Map false NoMove [blk "k"])]] ];
      [ [NAct 0 (act Initial false NoMove [[TI "two"]])];
        [NAct 0 (act Then true NoMove [[TI "h"]])] ] ].
  Definition progX : sprog :=
    mkSprog (mkConfig false false false) [Some "a"; None] treesX (Some (HThen, [TI "fin"])).

  Definition runX := runT hX (spec msemX dotsemX callsemX awaitsemX progX).

  Example runX_result : option_map fst runX = Some (DV (VInt 0)).
  Proof. vm_compute. reflexivity. Qed.
  (* the trace, computed: fin | { f } | xs, two | { k } | g, g (two calls of the wrapper closure), h *)
  Example runX_eevals :
    option_map (fun r => eevals (snd r)) runX =
    Some [[TI "fin"]; blk "f"; [TI "xs"]; [TI "two"]; blk "k"; [TI "g"]; [TI "g"]; [TI "h"]].
  Proof. vm_compute. reflexivity. Qed.
  Example progX_once_positions :
    once_positions progX =
    [(IHandler, [TI "fin"]);
     (IOperand 0 0 1 0, blk "f"); (IOperand 0 0 0 0, [TI "xs"]); (IOperand 1 0 0 0, [TI "two"]);
     (IOperand 0 1 2 0, blk "k"); (IOperand 1 1 0 0, [TI "h"])].
  Proof. vm_compute. reflexivity. Qed.
  Example progX_groups : program_groups progX = [[[TI "g"]]].
  Proof. vm_compute. reflexivity. Qed.
  Example progX_group_positions :
    wrap_group_pos 0 1 [NAct 1 (act Then false NoMove [[TI "g"]]); NAct 2 (act Map false NoMove [blk "k"])]
    = [(IOperand 0 1 1 0, [TI "g"])].
  Proof. vm_compute. reflexivity. Qed.

  (* the theorem, instantiated *)
  Example progX_once : forall d tr, runX = Some (d, tr) ->
    exists ws, groups (program_groups progX) ws /\
               Permutation (eevals tr) (all_operand_occurrences progX ++ List.concat ws).
  Proof.
    intros d tr H.
    eapply (top_level_operands_once_det hX (program_groups progX) msemX dotsemX callsemX awaitsemX progX);
      try reflexivity; [apply incl_refl|apply user_code_ex|exact H].
  Qed.
  (* ... and the multiset equation itself, on the computed trace: ws = two copies of the group [g] *)
  Example progX_equation :
    Permutation [[TI "fin"]; blk "f"; [TI "xs"]; [TI "two"]; blk "k"; [TI "g"]; [TI "g"]; [TI "h"]]
                (all_operand_occurrences progX ++ List.concat [[[TI "g"]]; [[TI "g"]]]).
  Proof.
    vm_compute.
    do 5 apply perm_skip.
    change (Permutation ([[TI "g"]; [TI "g"]] ++ [[TI "h"]]) ([[TI "h"]] ++ [[TI "g"]; [TI "g"]])).
    apply Permutation_app_comm.
  Qed.
  (* the operands of the once-positions are pairwise different here, so: each is evaluated, none twice *)
  Example progX_literally_once : forall d tr, runX = Some (d, tr) ->
    forall o, In o (all_operand_occurrences progX) -> In o (eevals tr).
  Proof.
    intros d tr H o Ho. destruct (progX_once d tr H) as (ws & _ & HP).
    eapply Permutation_in; [symmetry; exact HP|]. apply in_or_app. now left.
  Qed.

  (* ---- try_join!: step 0 fails in branch 0, so nothing of step 1 is evaluated ----
       try_join! { <x> |> { f }  ~|> { k },   some1 ~-> h,   map fin } *)
  Definition treesT (x : string) : list (list (list node)) :=
    [ [ [NAct 0 (act Initial false NoMove [[TI x]]); NAct 1 (act Map false NoMove [blk "f"])];
        [NAct 0 (act Map true NoMove [blk "k"])] ];
      [ [NAct 0 (act Initial false NoMove [[TI "some1"]])];
        [NAct 0 (act Map true NoMove [[TI "h"]])] ] ].
  Definition progT (x : string) : sprog :=
    mkSprog (mkConfig false true false) [None; None] (treesT x) (Some (HMap, [TI "fin"])).
  Definition runTr (x : string) := runT hX (spec msemX dotsemX callsemX awaitsemX (progT x)).

  Example runT_fail_result : option_map fst (runTr "none") = Some (DV VNone).
  Proof. vm_compute. reflexivity. Qed.
  (* handler expression, step 0 - and neither { k } nor h of step 1 *)
  Example runT_fail_eevals :
    option_map (fun r => eevals (snd r)) (runTr "none") = Some [[TI "fin"]; blk "f"; [TI "none"]; [TI "some1"]].
  Proof. vm_compute. reflexivity. Qed.
  Example runT_ok_eevals :
    option_map (fun r => eevals (snd r)) (runTr "some1") =
    Some [[TI "fin"]; blk "f"; [TI "some1"]; [TI "some1"]; blk "k"; [TI "h"]].
  Proof. vm_compute. reflexivity. Qed.

  Example progT_until_failure x : forall d tr, runTr x = Some (d, tr) ->
    exists j, j < 2 /\
      Permutation (eevals tr) (handler_operand (progT x) ++ steps_ops (progT x) 0 (S j)).
  Proof.
    intros d tr H. apply runT_run in H.
    destruct (try_operands_once_until_failure _ [] msemX dotsemX callsemX awaitsemX (progT x)
                eq_refl eq_refl eq_refl eq_refl (incl_refl _) (user_code_ex _ _) d tr H)
      as (j & rs & t0 & ts & th & _ & _ & Hj & ws & Hws & HP).
    exists j. split; [exact Hj|]. rewrite (groups_nil ws Hws), app_nil_r in HP. exact HP.
  Qed.
  Example progT_fail_ops :
    handler_operand (progT "none") ++ steps_ops (progT "none") 0 1 = [[TI "fin"]; blk "f"; [TI "none"]; [TI "some1"]].
  Proof. vm_compute. reflexivity. Qed.
End ExOnce.

(* ================================================================== *)
(** * 6. Parsed programs are well-formed                               *)
(* ================================================================== *)

(* `wf_prog` - the one structural hypothesis of the theorems - holds for every program `prepare` makes
   from an input whose branches begin with their `Initial` expression and have no other `Initial`
   (what the parser produces: `GenPropsA.wf_parsed`). *)
From Join Require RefineProg GenPropsA.

Definition initial_first (inp : input) : Prop :=
  Forall (fun br => match b_members br with
                    | m0 :: rest => a_deferred m0 = false /\ a_mv m0 = NoMove /\
                                    Forall (fun m => comb_eqb (a_comb m) Initial = false) rest
                    | [] => False
                    end) (i_branches inp).

(* no `Initial` anywhere in the node *)
Fixpoint dni (n : node) : bool :=
  match n with
  | NAct _ a => negb (comb_eqb (a_comb a) Initial)
  | NWrap _ _ inner => forallb dni inner
  end.

Lemma dni_wf n : dni n = true -> wf_node n = true /\ ninit n = true.
Proof.
  induction n as [e a|e a inner IHinner| |x t IHx IHt] using node_nodes_ind
    with (Q := fun l => forallb dni l = true -> forallb wf_node l = true /\ forallb ninit l = true).
  - intros H. split; [reflexivity|exact H].
  - cbn [dni wf_node]. intros H. destruct (IHinner H) as [H1 H2]. split; [|reflexivity].
    rewrite H1. cbn [andb]. destruct inner as [|y r]; [reflexivity|].
    cbn [forallb tl] in *. apply andb_true_iff in H2. tauto.
  - intros _. split; reflexivity.
  - cbn [forallb]. intros H. apply andb_true_iff in H. destruct H as [Hx Ht].
    destruct (IHx Hx) as [H1 H2]. destruct (IHt Ht) as [H3 H4]. rewrite H1, H2, H3, H4. split; reflexivity.
Qed.

Lemma dni_list_wf l : forallb dni l = true -> forallb wf_node l = true /\ forallb ninit l = true.
Proof.
  induction l as [|x t IH]; [split; reflexivity|].
  cbn [forallb]. intros H. apply andb_true_iff in H. destruct H as [Hx Ht].
  destruct (dni_wf x Hx) as [H1 H2]. destruct (IH Ht) as [H3 H4]. rewrite H1, H2, H3, H4. split; reflexivity.
Qed.

Lemma nest_step_dni e x L :
  comb_eqb (a_comb x) Initial = false -> forallb (forallb dni) L = true ->
  forallb (forallb dni) (nest_step (e, x) L) = true.
Proof.
  intros Hx HL. unfold nest_step. cbn [fst snd].
  destruct (a_mv x); destruct L as [|cur [|outer rest]]; cbn [forallb dni] in *;
    rewrite ?andb_true_iff in *; rewrite ?Hx; cbn [negb]; intuition.
Qed.

Lemma fold_dni acts : Forall (fun a => comb_eqb (a_comb a) Initial = false) acts ->
  forall e0, forallb (forallb dni) (fold_right nest_step [[]] (enum_from e0 acts)) = true.
Proof.
  induction 1 as [|x r Hx Hr IH]; intros e0; cbn [enum_from fold_right]; [reflexivity|].
  apply nest_step_dni; [exact Hx|apply IH].
Qed.

Lemma nest_dni acts t : Forall (fun a => comb_eqb (a_comb a) Initial = false) acts ->
  nest acts = Some t -> forallb dni t = true.
Proof.
  intros Ha H. unfold nest, nest_levels in H. pose proof (fold_dni acts Ha 0) as HL.
  destruct (fold_right nest_step [[]] (enum_from 0 acts)) as [|t0 [|t1 rest]]; try discriminate.
  injection H as <-. cbn [forallb] in HL. apply andb_true_iff in HL. tauto.
Qed.

Lemma wf_nodes_of_dni t : forallb dni t = true -> wf_nodes t = true.
Proof.
  intros H. destruct (dni_list_wf t H) as [H1 H2]. unfold wf_nodes. rewrite H1. cbn [andb].
  destruct t as [|x r]; [reflexivity|]. cbn [forallb tl] in *. apply andb_true_iff in H2. tauto.
Qed.

(* the first step of a branch: its `Initial` is the head of the chain *)
Lemma nest_first_wf m0 g t :
  a_mv m0 = NoMove -> Forall (fun a => comb_eqb (a_comb a) Initial = false) g ->
  nest (m0 :: g) = Some t -> wf_nodes t = true.
Proof.
  intros Hm Hg H. unfold nest, nest_levels in H. cbn [enum_from fold_right] in H.
  pose proof (fold_dni g Hg 1) as HL. unfold nest_step in H at 1. cbn [fst snd] in H. rewrite Hm in H.
  destruct (fold_right nest_step [[]] (enum_from 1 g)) as [|cur [|t1 rest]]; try discriminate.
  injection H as <-. cbn [forallb] in HL. apply andb_true_iff in HL. destruct HL as [HL _].
  destruct (dni_list_wf cur HL) as [H1 H2]. unfold wf_nodes. cbn [forallb wf_node tl]. rewrite H1, H2. reflexivity.
Qed.

Lemma split_first m0 rest :
  a_deferred m0 = false ->
  exists g gs, split_at_deferred (m0 :: rest) = (m0 :: g) :: gs /\
               forall acts a, In acts (g :: gs) -> In a acts -> In a rest.
Proof.
  intros Hd. cbn [split_at_deferred]. rewrite Hd.
  destruct (split_at_deferred rest) as [|g gs] eqn:E.
  - exists [], []. split; [reflexivity|]. intros acts a [<-|[]] [].
  - exists g, gs. split; [reflexivity|]. intros acts a Hacts Ha.
    eapply RefineProg.split_steps_in; [|exact Ha]. rewrite <- RefineProg.split_at_deferred_eq, E. exact Hacts.
Qed.

Lemma branch_trees_wf br tr :
  (match b_members br with
   | m0 :: rest => a_deferred m0 = false /\ a_mv m0 = NoMove /\
                   Forall (fun m => comb_eqb (a_comb m) Initial = false) rest
   | [] => False
   end) ->
  all_some (map nest (split_at_deferred (b_members br))) = Some tr -> forallb wf_nodes tr = true.
Proof.
  destruct (b_members br) as [|m0 rest]; [intros []|]. intros (Hd & Hm & Hrest) H.
  destruct (split_first m0 rest Hd) as (g & gs & E & Hin). rewrite E in H.
  apply RefineProg.all_some_Forall2 in H. inversion H as [|? t0 ? trs H0 Hs]; subst.
  assert (Hsub : forall acts, In acts (g :: gs) -> Forall (fun a => comb_eqb (a_comb a) Initial = false) acts).
  { intros acts Hacts. apply Forall_forall. intros a Ha. rewrite Forall_forall in Hrest. eauto. }
  cbn [forallb]. rewrite (nest_first_wf m0 g t0 Hm (Hsub g (or_introl eq_refl)) H0). cbn [andb].
  assert (Hgs : forall acts, In acts gs -> Forall (fun a => comb_eqb (a_comb a) Initial = false) acts).
  { intros acts Hacts. apply Hsub. now right. }
  clear - Hs Hgs. induction Hs as [|acts t gs trs Ht Hs IH]; [reflexivity|].
  cbn [forallb]. rewrite (wf_nodes_of_dni t (nest_dni acts t (Hgs acts (or_introl eq_refl)) Ht)). cbn [andb].
  apply IH. intros acts' H'. apply Hgs. now right.
Qed.

Theorem prepare_wf_prog cfg inp sp : initial_first inp -> prepare cfg inp = Some sp -> wf_prog sp = true.
Proof.
  intros Hi Hp. unfold prepare in Hp.
  destruct (all_some _) as [trees|] eqn:E; [|discriminate]. injection Hp as <-.
  unfold wf_prog. cbn [sp_trees]. apply RefineProg.all_some_Forall2 in E.
  unfold initial_first in Hi. revert Hi.
  induction E as [|br tr brs trs Hbr _ IH]; intros Hi; [reflexivity|].
  inversion Hi as [|? ? Hb Hi']; subst. cbn [forallb].
  rewrite (branch_trees_wf br tr Hb Hbr). cbn [andb]. apply IH, Hi'.
Qed.

Corollary parsed_wf_prog cfg inp sp : GenPropsA.wf_parsed inp -> prepare cfg inp = Some sp -> wf_prog sp = true.
Proof.
  intros Hwf. apply prepare_wf_prog. unfold initial_first. unfold GenPropsA.wf_parsed in Hwf.
  eapply Forall_impl; [|exact Hwf]. intros br (m0 & rest & E & Hc & Hd & Hm & Hr & _). rewrite E.
  split; [exact Hd|]. split; [exact Hm|]. eapply Forall_impl; [|exact Hr].
  intros m Hne. apply GenPropsA.comb_eqb_false, Hne.
Qed.
Print Assumptions parsed_wf_prog.

(* ================================================================== *)
(** * 7. The labelling of the once-positions is injective              *)
(* ================================================================== *)

(* No identity occurs twice in `once_positions sp` when the positions e of the actions of every step
   are pairwise different (`RefineChain.nodes_pos`) - which they are in every program made by `prepare`
   (`RefineChain.nest_pos_nodup`).  So the multiset equation of the theorems is an equation between
   the events and the POSITIONS: one event per identity. *)
From Join Require RefineChain.
From Coq Require FinFun.

Lemma NoDup_app_iff {X} (l1 l2 : list X) :
  NoDup (l1 ++ l2) <-> NoDup l1 /\ NoDup l2 /\ forall x, In x l1 -> ~ In x l2.
Proof.
  induction l1 as [|a l1 IH]; cbn [app].
  - split; [intros H; repeat split; [constructor|exact H|intros x []]|tauto].
  - split.
    + intros H. inversion H as [|? ? Hn Hd]; subst. apply IH in Hd. destruct Hd as (H1 & H2 & H3).
      split; [constructor; [intro Hi; apply Hn, in_or_app; now left|exact H1]|]. split; [exact H2|].
      intros x [<-|Hx]; [intro Hi; apply Hn, in_or_app; now right|apply H3, Hx].
    + intros (H1 & H2 & H3). inversion H1 as [|? ? Hn Hd]; subst. constructor.
      * intro Hi. apply in_app_or in Hi. destruct Hi as [Hi|Hi]; [exact (Hn Hi)|exact (H3 a (or_introl eq_refl) Hi)].
      * apply IH. split; [exact Hd|]. split; [exact H2|]. intros x Hx. apply H3. now right.
Qed.

Lemma NoDup_flat_map {X Y} (f : X -> list Y) (l : list X) :
  NoDup l -> (forall x, In x l -> NoDup (f x)) ->
  (forall x y z, In x l -> In y l -> x <> y -> In z (f x) -> In z (f y) -> False) ->
  NoDup (flat_map f l).
Proof.
  induction 1 as [|a l Ha Hl IH]; intros Hf Hd; cbn [flat_map]; [constructor|].
  apply NoDup_app_iff. split; [apply Hf; now left|]. split.
  - apply IH; [intros x Hx; apply Hf; now right|]. intros x y z Hx Hy. apply Hd; now right.
  - intros z Hz Hz'. apply in_flat_map in Hz'. destruct Hz' as (y & Hy & Hzy).
    apply (Hd a y z); [now left|now right| |exact Hz|exact Hzy]. intros ->. exact (Ha Hy).
Qed.

Lemma map_fst_flat_map {X Y Z} (f : X -> list (Y * Z)) (l : list X) :
  map fst (flat_map f l) = flat_map (fun x => map fst (f x)) l.
Proof. induction l as [|x l IH]; cbn [flat_map map]; [reflexivity|]. rewrite map_app, IH. reflexivity. Qed.

Lemma fst_functional {X Y} (l : list (X * Y)) x y y' :
  NoDup (map fst l) -> In (x, y) l -> In (x, y') l -> y = y'.
Proof.
  induction l as [|[a b] l IH]; intros Hn H1 H2; [destruct H1|].
  cbn [map fst] in Hn. inversion Hn as [|? ? Ha Hd]; subst.
  destruct H1 as [E1|H1], H2 as [E2|H2].
  - congruence.
  - injection E1 as -> ->. exfalso. apply Ha. apply (in_map fst) in H2. exact H2.
  - injection E2 as -> ->. exfalso. apply Ha. apply (in_map fst) in H1. exact H1.
  - eauto.
Qed.

(* ---- the operands of one action ---- *)
Lemma enum_from_in {X} (xs : list X) : forall j i o, In (i, o) (enum_from j xs) -> j <= i /\ nth_error xs (i - j) = Some o.
Proof.
  induction xs as [|x r IH]; intros j i o H; [destruct H|]. cbn [enum_from] in H. destruct H as [E|H].
  - injection E as <- <-. rewrite Nat.sub_diag. split; [lia|reflexivity].
  - apply IH in H. destruct H as [Hle Hn]. split; [lia|]. replace (i - j) with (S (i - S j)) by lia. exact Hn.
Qed.

Lemma enum_from_filter_nodup {X} (g : nat * X -> bool) (xs : list X) : forall j,
  NoDup (map fst (filter g (enum_from j xs))).
Proof.
  induction xs as [|x r IH]; intros j; cbn [enum_from filter]; [constructor|].
  destruct (g (j, x)); [|apply IH]. cbn [map fst]. constructor; [|apply IH].
  intro Hi. apply in_map_iff in Hi. destruct Hi as ([i o] & Ei & Hi). cbn in Ei. subst i.
  apply filter_In in Hi. destruct Hi as [Hi _]. apply enum_from_in in Hi. lia.
Qed.

Lemma ops_pos_in b k e keep xs id o :
  In (id, o) (ops_pos b k e keep xs) ->
  exists i, id = IOperand b k e i /\ nth_error xs i = Some o /\ keep o = true.
Proof.
  unfold ops_pos. intros H. apply in_map_iff in H. destruct H as ([i o'] & E & H). cbn [fst snd] in E.
  injection E as <- <-. apply filter_In in H. destruct H as [H Hk]. cbn [snd] in Hk.
  apply enum_from_in in H. destruct H as [_ H]. rewrite Nat.sub_0_r in H. eauto.
Qed.

Lemma ops_pos_nodup b k e keep xs : NoDup (map fst (ops_pos b k e keep xs)).
Proof.
  unfold ops_pos. rewrite map_map. cbn [fst].
  rewrite <- (map_map fst (IOperand b k e)).
  apply FinFun.Injective_map_NoDup; [intros i i' E; congruence|apply enum_from_filter_nodup].
Qed.

Lemma direct_pos_in b k e c xs id o :
  In (id, o) (direct_pos b k e c xs) ->
  exists i, id = IOperand b k e i /\ nth_error xs i = Some o /\ hoistable c o = false.
Proof.
  intros H.
  assert (H' : In (id, o) (ops_pos b k e (fun o => negb (hoistable c o)) xs)) by (destruct c; try exact H; destruct H).
  apply ops_pos_in in H'. destruct H' as (i & E & Hn & Hk). apply negb_true_iff in Hk. eauto.
Qed.

Lemma direct_pos_nodup b k e c xs : NoDup (map fst (direct_pos b k e c xs)).
Proof. destruct c; try apply ops_pos_nodup; constructor. Qed.

(* ---- the actions of a tree ---- *)
(* all `NAct`s, at any depth, with their positions; those at the top level *)
Fixpoint node_acts (n : node) : list (nat * action) :=
  match n with
  | NAct e a => [(e, a)]
  | NWrap _ _ inner => flat_map node_acts inner
  end.
Definition top_act (n : node) : list (nat * action) :=
  match n with NAct e a => [(e, a)] | NWrap _ _ _ => [] end.

Definition Fc (b k : nat) (ea : nat * action) : list (ident * operand) :=
  ops_pos b k (fst ea) (hoistable (a_comb (snd ea))) (exprs_of (snd ea)).
Definition Fd (b k : nat) (ea : nat * action) : list (ident * operand) :=
  direct_pos b k (fst ea) (a_comb (snd ea)) (exprs_of (snd ea)).

Lemma captured_as_acts b k n : node_captured_pos b k n = flat_map (Fc b k) (node_acts n).
Proof.
  induction n as [e a|e a inner IHinner| |x t IHx IHt] using node_nodes_ind
    with (Q := fun l => flat_map (node_captured_pos b k) l = flat_map (Fc b k) (flat_map node_acts l)).
  - cbn. rewrite app_nil_r. reflexivity.
  - exact IHinner.
  - reflexivity.
  - cbn [flat_map]. rewrite flat_map_app, IHx, IHt. reflexivity.
Qed.

Lemma captured_list_as_acts b k t :
  flat_map (node_captured_pos b k) t = flat_map (Fc b k) (flat_map node_acts t).
Proof.
  induction t as [|x t IH]; [reflexivity|]. cbn [flat_map]. rewrite flat_map_app, captured_as_acts, IH. reflexivity.
Qed.

Lemma direct_list_as_acts b k t :
  flat_map (node_direct_pos b k) t = flat_map (Fd b k) (flat_map top_act t).
Proof.
  induction t as [|x t IH]; [reflexivity|]. cbn [flat_map]. rewrite flat_map_app, IH. f_equal.
  destruct x; cbn; [rewrite app_nil_r|]; reflexivity.
Qed.

Lemma node_acts_pos n e a : In (e, a) (node_acts n) -> In e (RefineChain.node_pos n).
Proof.
  induction n as [e' a'|e' a' inner IHinner| |x t IHx IHt] using node_nodes_ind
    with (Q := fun l => In (e, a) (flat_map node_acts l) -> In e (RefineChain.nodes_pos l)).
  - intros [E|[]]. injection E as <- _. now left.
  - intros H. rewrite RefineChain.node_pos_NWrap. right. exact (IHinner H).
  - intros [].
  - cbn [flat_map]. intros H. rewrite RefineChain.nodes_pos_cons. apply in_or_app.
    apply in_app_or in H. destruct H as [H|H]; [left; exact (IHx H)|right; exact (IHt H)].
Qed.

Lemma nodes_acts_pos t e a : In (e, a) (flat_map node_acts t) -> In e (RefineChain.nodes_pos t).
Proof.
  induction t as [|x t IH]; [intros []|]. cbn [flat_map]. intros H. rewrite RefineChain.nodes_pos_cons.
  apply in_or_app. apply in_app_or in H. destruct H as [H|H]; [left; eapply node_acts_pos; eauto|right; exact (IH H)].
Qed.

Lemma node_acts_nodup n : NoDup (RefineChain.node_pos n) -> NoDup (map fst (node_acts n)).
Proof.
  induction n as [e a|e a inner IHinner| |x t IHx IHt] using node_nodes_ind
    with (Q := fun l => NoDup (RefineChain.nodes_pos l) -> NoDup (map fst (flat_map node_acts l))).
  - intros _. cbn. constructor; [intros []|constructor].
  - rewrite RefineChain.node_pos_NWrap. intros H. inversion H; subst. cbn [node_acts]. auto.
  - intros _. constructor.
  - rewrite RefineChain.nodes_pos_cons. intros H. apply NoDup_app_iff in H. destruct H as (H1 & H2 & H3).
    cbn [flat_map]. rewrite map_app. apply NoDup_app_iff. split; [auto|]. split; [auto|].
    intros e He He'. apply in_map_iff in He. destruct He as ([e1 a1] & <- & He).
    apply in_map_iff in He'. destruct He' as ([e2 a2] & E & He'). cbn [fst] in *. subst e2.
    apply (H3 e1); [eapply node_acts_pos; eauto|eapply nodes_acts_pos; eauto].
Qed.

Lemma nodes_acts_nodup t : NoDup (RefineChain.nodes_pos t) -> NoDup (map fst (flat_map node_acts t)).
Proof.
  induction t as [|x t IH]; [constructor|].
  rewrite RefineChain.nodes_pos_cons. intros H. apply NoDup_app_iff in H. destruct H as (H1 & H2 & H3).
  cbn [flat_map]. rewrite map_app. apply NoDup_app_iff. split; [apply node_acts_nodup, H1|]. split; [auto|].
  intros e He He'. apply in_map_iff in He. destruct He as ([e1 a1] & <- & He).
  apply in_map_iff in He'. destruct He' as ([e2 a2] & E & He'). cbn [fst] in *. subst e2.
  apply (H3 e1); [eapply node_acts_pos; eauto|eapply nodes_acts_pos; eauto].
Qed.

Lemma top_act_deep t ea : In ea (flat_map top_act t) -> In ea (flat_map node_acts t).
Proof.
  induction t as [|x t IH]; [intros []|]. cbn [flat_map]. intros H. apply in_or_app. apply in_app_or in H.
  destruct H as [H|H]; [left|right; exact (IH H)]. destruct x; [exact H|destruct H].
Qed.

Lemma top_acts_nodup t : NoDup (RefineChain.nodes_pos t) -> NoDup (map fst (flat_map top_act t)).
Proof.
  induction t as [|x t IH]; [constructor|].
  rewrite RefineChain.nodes_pos_cons. intros H. apply NoDup_app_iff in H. destruct H as (H1 & H2 & H3).
  cbn [flat_map]. rewrite map_app. apply NoDup_app_iff. split.
  { destruct x; cbn; [constructor; [intros []|constructor]|constructor]. }
  split; [auto|].
  intros e He He'. apply in_map_iff in He. destruct He as ([e1 a1] & <- & He).
  apply in_map_iff in He'. destruct He' as ([e2 a2] & E & He'). cbn [fst] in *. subst e2.
  apply (H3 e1).
  - destruct x; [|destruct He]. destruct He as [E|[]]. injection E as <- _. now left.
  - eapply nodes_acts_pos, top_act_deep; eauto.
Qed.

Lemma NoDup_of_fst {X Y} (l : list (X * Y)) : NoDup (map fst l) -> NoDup l.
Proof. apply NoDup_map_inv. Qed.

(* ---- one tree ---- *)
Section TreeIds.
  Variables (b k : nat) (t : list node).
  Hypothesis Ht : NoDup (RefineChain.nodes_pos t).

  Lemma Fc_in ea id : In id (map fst (Fc b k ea)) ->
    exists i o, id = IOperand b k (fst ea) i /\ nth_error (exprs_of (snd ea)) i = Some o /\
                hoistable (a_comb (snd ea)) o = true.
  Proof.
    intros H. apply in_map_iff in H. destruct H as ([id' o] & <- & H). apply ops_pos_in in H.
    destruct H as (i & -> & Hn & Hk). exists i, o. repeat split; assumption.
  Qed.
  Lemma Fd_in ea id : In id (map fst (Fd b k ea)) ->
    exists i o, id = IOperand b k (fst ea) i /\ nth_error (exprs_of (snd ea)) i = Some o /\
                hoistable (a_comb (snd ea)) o = false.
  Proof.
    intros H. apply in_map_iff in H. destruct H as ([id' o] & <- & H). apply direct_pos_in in H.
    destruct H as (i & -> & Hn & Hk). exists i, o. repeat split; assumption.
  Qed.

  Lemma tree_captured_nodup : NoDup (map fst (flat_map (node_captured_pos b k) t)).
  Proof.
    rewrite captured_list_as_acts, map_fst_flat_map.
    pose proof (nodes_acts_nodup t Ht) as Hn.
    apply NoDup_flat_map; [apply NoDup_of_fst, Hn|intros ea _; apply ops_pos_nodup|].
    intros [e1 a1] [e2 a2] id H1 H2 Hne Hi1 Hi2.
    apply Fc_in in Hi1. apply Fc_in in Hi2. cbn [fst snd] in *.
    destruct Hi1 as (i1 & o1 & -> & _). destruct Hi2 as (i2 & o2 & E & _). injection E as -> _.
    apply Hne. f_equal. eapply fst_functional; eauto.
  Qed.

  Lemma tree_direct_nodup : NoDup (map fst (flat_map (node_direct_pos b k) t)).
  Proof.
    rewrite direct_list_as_acts, map_fst_flat_map.
    pose proof (top_acts_nodup t Ht) as Hn.
    apply NoDup_flat_map; [apply NoDup_of_fst, Hn|intros ea _; apply direct_pos_nodup|].
    intros [e1 a1] [e2 a2] id H1 H2 Hne Hi1 Hi2.
    apply Fd_in in Hi1. apply Fd_in in Hi2. cbn [fst snd] in *.
    destruct Hi1 as (i1 & o1 & -> & _). destruct Hi2 as (i2 & o2 & E & _). injection E as -> _.
    apply Hne. f_equal. eapply fst_functional; eauto.
  Qed.

  (* a position is either hoisted or evaluated by the chain, never both *)
  Lemma tree_captured_direct_disjoint id :
    In id (map fst (flat_map (node_captured_pos b k) t)) -> In id (map fst (flat_map (node_direct_pos b k) t)) -> False.
  Proof.
    rewrite captured_list_as_acts, direct_list_as_acts, !map_fst_flat_map. intros H1 H2.
    apply in_flat_map in H1. destruct H1 as ([e1 a1] & Hin1 & Hi1).
    apply in_flat_map in H2. destruct H2 as ([e2 a2] & Hin2 & Hi2).
    apply Fc_in in Hi1. apply Fd_in in Hi2. cbn [fst snd] in *.
    destruct Hi1 as (i1 & o1 & -> & Hn1 & Hh1). destruct Hi2 as (i2 & o2 & E & Hn2 & Hh2). injection E as -> ->.
    apply top_act_deep in Hin2.
    assert (a1 = a2) by (eapply fst_functional; [apply (nodes_acts_nodup t Ht)| |]; eauto). subst a2.
    congruence.
  Qed.

  Lemma tree_ids_shape id :
    In id (map fst (flat_map (node_captured_pos b k) t)) \/ In id (map fst (flat_map (node_direct_pos b k) t)) ->
    exists e i, id = IOperand b k e i.
  Proof.
    rewrite captured_list_as_acts, direct_list_as_acts, !map_fst_flat_map. intros [H|H];
      apply in_flat_map in H; destruct H as (ea & _ & Hi); [apply Fc_in in Hi|apply Fd_in in Hi];
      destruct Hi as (i & o & -> & _); eauto.
  Qed.
End TreeIds.

Theorem once_positions_NoDup (sp : sprog) :
  (forall b k, NoDup (RefineChain.nodes_pos (tree sp b k))) -> NoDup (map fst (once_positions sp)).
Proof.
  intros Ht. unfold once_positions. rewrite map_app. apply NoDup_app_iff. split.
  { unfold handler_position. destruct (sp_handler sp) as [[hk o]|]; cbn; [constructor; [intros []|constructor]|constructor]. }
  assert (Hshape : forall k id, In id (map fst (step_positions sp k)) ->
            exists b e i, id = IOperand b k e i /\ In b (actives sp k) /\
              (In id (map fst (flat_map (node_captured_pos b k) (tree sp b k))) \/
               In id (map fst (flat_map (node_direct_pos b k) (tree sp b k))))).
  { intros k id H. unfold step_positions in H. rewrite map_app, !map_fst_flat_map in H.
    apply in_app_or in H. destruct H as [H|H]; apply in_flat_map in H; destruct H as (b & Hb & Hi).
    - destruct (tree_ids_shape b k _ id (or_introl Hi)) as (e & i & ->). exists b, e, i. auto.
    - destruct (tree_ids_shape b k _ id (or_intror Hi)) as (e & i & ->). exists b, e, i. auto. }
  split.
  - rewrite map_fst_flat_map. apply NoDup_flat_map; [apply seq_NoDup| |].
    + intros k _. unfold step_positions. rewrite map_app, !map_fst_flat_map. apply NoDup_app_iff. split; [|split].
      * apply NoDup_flat_map; [apply actives_NoDup|intros b _; apply tree_captured_nodup, Ht|].
        intros b1 b2 id _ _ Hne H1 H2.
        destruct (tree_ids_shape b1 k _ id (or_introl H1)) as (e1 & i1 & ->).
        destruct (tree_ids_shape b2 k _ _ (or_introl H2)) as (e2 & i2 & E). congruence.
      * apply NoDup_flat_map; [apply actives_NoDup|intros b _; apply tree_direct_nodup, Ht|].
        intros b1 b2 id _ _ Hne H1 H2.
        destruct (tree_ids_shape b1 k _ id (or_intror H1)) as (e1 & i1 & ->).
        destruct (tree_ids_shape b2 k _ _ (or_intror H2)) as (e2 & i2 & E). congruence.
      * intros id H1 H2. apply in_flat_map in H1. destruct H1 as (b1 & _ & H1).
        apply in_flat_map in H2. destruct H2 as (b2 & _ & H2).
        destruct (tree_ids_shape b1 k _ id (or_introl H1)) as (e1 & i1 & ->).
        destruct (tree_ids_shape b2 k _ _ (or_intror H2)) as (e2 & i2 & E). injection E as -> _ _.
        eapply tree_captured_direct_disjoint; [apply Ht|exact H1|exact H2].
    + intros k1 k2 id _ _ Hne H1 H2.
      destruct (Hshape k1 id H1) as (b1 & e1 & i1 & -> & _). destruct (Hshape k2 _ H2) as (b2 & e2 & i2 & E & _).
      congruence.
  - intros id H1 H2. unfold handler_position in H1. destruct (sp_handler sp) as [[hk o]|]; [|destruct H1].
    destruct H1 as [<-|[]]. rewrite map_fst_flat_map in H2. apply in_flat_map in H2. destruct H2 as (k & _ & H2).
    destruct (Hshape k _ H2) as (b & e & i & E & _). discriminate E.
Qed.

(* programs made by `prepare` *)
Lemma prepare_tree_pos cfg inp sp b k : prepare cfg inp = Some sp -> NoDup (RefineChain.nodes_pos (tree sp b k)).
Proof.
  intros Hp. destruct (tree_cases sp b k) as [E|(tr & Htr & Hs)]; [rewrite E; constructor|].
  unfold prepare in Hp. destruct (all_some _) as [trees|] eqn:E; [|discriminate]. injection Hp as <-.
  cbn [sp_trees] in Htr. apply RefineProg.all_some_Forall2 in E.
  assert (H : exists br, all_some (map nest (split_at_deferred (b_members br))) = Some tr).
  { clear Hs. induction E as [|br tr' brs trs Hbr _ IH]; [destruct Htr|].
    destruct Htr as [->|Htr]; [exists br; exact Hbr|exact (IH Htr)]. }
  destruct H as (br & Hbr). apply RefineProg.all_some_Forall2 in Hbr.
  set (t := tree _ b k) in *. clearbody t. clear Htr E.
  induction Hbr as [|acts t' l l' Hn _ IH]; [destruct Hs|].
  destruct Hs as [->|Hs]; [eapply RefineChain.nest_pos_nodup; eauto|exact (IH Hs)].
Qed.

Corollary prepared_once_positions_NoDup cfg inp sp :
  prepare cfg inp = Some sp -> NoDup (map fst (once_positions sp)).
Proof. intros Hp. apply once_positions_NoDup. intros b k. eapply prepare_tree_pos; eauto. Qed.
Print Assumptions prepared_once_positions_NoDup.

(* ================================================================== *)
(** * 8. The expansion itself                                          *)
(* ================================================================== *)

(* With the refinement theorem (`RefineTop.gen_refines_spec`: the meaning of the generated code IS
   `spec`), C10's dynamic half for the code `join!` expands to, for every parsed input with default
   options: in every run of the expansion that returns, every once-position is evaluated exactly once
   - one `EEval` event per identity, the identities being pairwise different - and the remaining
   `EEval` events are whole groups, one per call the user's methods made to a wrapper closure. *)
From Join Require Ir Gen RefineTop.

Corollary expansion_evaluates_operands_once ans W msem dotsem callsem awaitsem inp e sp :
  let cfg := mkConfig false false false in
  RefineProg.wf inp -> GenPropsA.wf_parsed inp -> Gen.gen cfg inp = Ir.Ok e -> prepare cfg inp = Some sp ->
  incl (program_groups sp) W -> user_code_once ans W msem dotsem callsem awaitsem ->
  forall d tr, run ans (den (user_names inp) msem dotsem callsem awaitsem e empty_env) d tr ->
  NoDup (map fst (once_positions sp)) /\
  exists ws, groups W ws /\ Permutation (eevals tr) (map snd (once_positions sp) ++ List.concat ws).
Proof.
  intros cfg Hwf Hpar Hg Hp HW HU d tr H.
  rewrite (RefineTop.gen_refines_spec msem dotsem callsem awaitsem cfg inp e sp Hwf Hg Hp) in H.
  split; [eapply prepared_once_positions_NoDup; eauto|].
  assert (Hcfg : sp_cfg sp = cfg).
  { unfold prepare in Hp. destruct (all_some _); [|discriminate]. injection Hp as <-. reflexivity. }
  eapply once_positions_evaluated_once; eauto; try (rewrite Hcfg; reflexivity).
  eapply parsed_wf_prog; eauto.
Qed.
Print Assumptions expansion_evaluates_operands_once.

(* ================================================================== *)
(** * 9. The ORDER inside a chain                                      *)
(* ================================================================== *)

(* For a chain without wrappers (e.g. the inside of an innermost wrapper) the `EEval` operands of a run are
   not only a permutation of the chain's operands: they are that list in EVALUATION order.  The
   evaluation order is the chain order, except that `-> f` (`Then`) and the sync `?? f` (`Inspect`)
   evaluate their callee expression BEFORE their receiver, i.e. before everything to their left
   (Spec.v: "e(v): the callee expression is evaluated first").  So "in chain order" holds literally
   for chains without these two (`chain_order_plain`). *)
Definition args_first (async : bool) (c : comb) : bool :=
  match c with Then => true | Inspect => negb async | _ => false end.
Definition act_order (async : bool) (c : comb) (xs L : list operand) : list operand :=
  if args_first async c then direct_of c xs ++ L else L ++ direct_of c xs.
Definition node_order (async : bool) (L : list operand) (n : node) : list operand :=
  match n with NAct _ a => act_order async (a_comb a) (exprs_of a) L | NWrap _ _ _ => L end.
(* the order in which `sem_nodes l recv` evaluates: L = what the receiver evaluates *)
Definition chain_order (async : bool) (l : list node) (L : list operand) : list operand :=
  fold_left (node_order async) l L.
Definition is_act (n : node) : bool := match n with NAct _ _ => true | NWrap _ _ _ => false end.
Definition receiver_first (async : bool) (n : node) : bool :=
  match n with NAct _ a => negb (args_first async (a_comb a)) | NWrap _ _ _ => true end.

Lemma chain_order_plain async l : forall L,
  forallb (receiver_first async) l = true -> chain_order async l L = L ++ flat_map node_direct l.
Proof.
  induction l as [|x t IH]; intros L H; cbn [chain_order fold_left flat_map]; [symmetry; apply app_nil_r|].
  cbn [forallb] in H. apply andb_true_iff in H. destruct H as [Hx Ht].
  change (fold_left (node_order async) t (node_order async L x)) with (chain_order async t (node_order async L x)).
  rewrite (IH _ Ht), app_assoc. f_equal. destruct x as [e a|e a inner]; cbn [node_order node_direct].
  - unfold act_order. cbn [receiver_first] in Hx. apply negb_true_iff in Hx. rewrite Hx. reflexivity.
  - symmetry. apply app_nil_r.
Qed.

Section Order.
  Variable ans : ev -> val -> Prop.
  Variable msem : string -> option (list operand) -> dval -> list dval -> comp dval.
  Variable dotsem : operand -> list (string * option val) -> dval -> comp dval.
  Variable callsem : val -> list dval -> comp dval.
  Variable awaitsem : val -> comp val.
  (* user code makes no `EEval` event, given closures and futures that make none *)
  Hypothesis HU : user_code_once ans [] msem dotsem callsem awaitsem.
  Notation run := (run ans).
  Notation good := (dval_okC (gcls ans [])).

  Definition exact {A} (Q : A -> Prop) (L : list operand) (c : comp A) : Prop :=
    forall a tr, run c a tr -> Q a /\ eevals tr = L.

  Lemma exact_of_acc {A} (Q : A -> Prop) (c : comp A) : acc ans [] Q [] c -> exact Q [] c.
  Proof.
    intros Hc a tr H. destruct (Hc a tr H) as (HQ & ws & Hws & HP). split; [exact HQ|].
    rewrite (groups_nil ws Hws) in HP. cbn [app] in HP. apply Permutation_nil. symmetry. exact HP.
  Qed.

  Lemma exact_ret {A} (Q : A -> Prop) a : Q a -> exact Q [] (Ret a).
  Proof. intros HQ a' tr H. apply run_ret_inv in H. destruct H as [-> ->]. split; [exact HQ|reflexivity]. Qed.

  Lemma exact_panic {A} (Q : A -> Prop) L n : exact Q L (Panic n).
  Proof. intros a tr H. destruct (run_panic_inv _ _ _ _ H). Qed.

  Lemma exact_bind {A B} (Q : A -> Prop) (R : B -> Prop) L1 L2 (c : comp A) (f : A -> comp B) :
    exact Q L1 c -> (forall a, Q a -> exact R L2 (f a)) -> exact R (L1 ++ L2) (bind c f).
  Proof.
    intros Hc Hf b tr H. apply run_bind_inv in H. destruct H as (a & t1 & t2 & H1 & H2 & ->).
    destruct (Hc a t1 H1) as (HQ & E1). destruct (Hf a HQ b t2 H2) as (HR & E2).
    split; [exact HR|]. rewrite eevals_app, E1, E2. reflexivity.
  Qed.

  Lemma exact_bind0 {A B} (Q : A -> Prop) (R : B -> Prop) L (c : comp A) (f : A -> comp B) :
    exact Q L c -> (forall a, Q a -> exact R [] (f a)) -> exact R L (bind c f).
  Proof. intros Hc Hf. rewrite <- (app_nil_r L). eapply exact_bind; eauto. Qed.

  Lemma exact_eeval {A} (Q : A -> Prop) L o sn (k : val -> comp A) :
    (forall v, exact Q L (k v)) -> exact Q (o :: L) (Vis (EEval o sn) k).
  Proof.
    intros Hk a tr H. apply run_vis_inv in H. destruct H as (v & tr' & _ & H & ->).
    destruct (Hk v a tr' H) as (HQ & E). split; [exact HQ|]. cbn. f_equal. exact E.
  Qed.

  Lemma exact_eval_args (sn : list (string * option val)) cp b e c ops : forall i,
    exact (Forall good) (filter (fun o => negb (hoistable c o)) ops) (eval_args sn cp b e i c ops).
  Proof.
    induction ops as [|o r IH]; intros i; cbn [eval_args filter]; [apply exact_ret; constructor|].
    destruct (hoistable c o); cbn [negb].
    - destruct (lookup_cap cp (b, e, i)); cbn [bind]; [|apply exact_panic].
      eapply exact_bind0; [apply IH|]. intros ds Hds. apply exact_ret. constructor; [exact I|exact Hds].
    - cbn [bind]. apply exact_eeval. intros v.
      eapply exact_bind0; [apply IH|]. intros ds Hds. apply exact_ret. constructor; [exact I|exact Hds].
  Qed.

  Ltac xfin := first [ apply exact_panic | apply exact_ret; first [exact I | assumption] ].
  Ltac xone ds := destruct ds as [|?d [|]]; try xfin.

  Lemma exact_act_sem async (sn : list (string * option val)) cp b e c xs aops ty recv L :
    exact good L recv -> (comb_eqb c Initial = false \/ L = []) ->
    exact good (act_order async c xs L) (act_sem msem dotsem callsem async sn cp b e c xs aops ty recv).
  Proof.
    intros Hrecv Hini.
    pose proof (exact_eval_args sn cp b e c xs 0) as Hargs.
    destruct c; unfold act_sem, act_order, args_first, direct_of;
      try (eapply exact_bind; [exact Hrecv|]; intros r Hr; eapply exact_bind0; [exact Hargs|];
           intros ds Hds; apply exact_of_acc, (uc_msem _ _ _ _ _ HU); assumption).
    - (* Dot *) rewrite app_nil_r. destruct aops as [|o [|]]; try xfin.
      eapply exact_bind0; [exact Hrecv|]. intros r Hr. apply exact_of_acc, (uc_dotsem _ _ _ _ _ HU), Hr.
    - (* Inspect *) destruct async; cbn [negb].
      + eapply exact_bind; [exact Hrecv|]; intros r Hr; eapply exact_bind0; [exact Hargs|].
        intros ds Hds. xone ds. apply exact_of_acc, (uc_msem _ _ _ _ _ HU); assumption.
      + eapply exact_bind; [exact Hargs|]. intros ds Hds. xone ds.
        eapply exact_bind0; [exact Hrecv|]; intros r Hr.
        apply exact_of_acc, (acc_inspect_sem ans [] _ _ _ _ HU); [|assumption]. inversion Hds; assumption.
    - (* Then *) eapply exact_bind; [exact Hargs|]. intros ds Hds. xone ds.
      eapply exact_bind0; [exact Hrecv|]; intros r Hr.
      apply exact_of_acc, (acc_apply ans [] _ _ _ _ HU); [inversion Hds; assumption|].
      constructor; [assumption|constructor].
    - (* Initial *) destruct Hini as [Hini| ->]; [discriminate Hini|]. cbn [app].
      eapply exact_bind0; [exact Hargs|]. intros ds Hds. xone ds. apply exact_ret. inversion Hds; assumption.
    - (* UNWRAP *) xfin.
  Qed.

  (* a chain without wrappers: the operands, in evaluation order *)
  Lemma exact_flat_chain async (sn : list (string * option val)) cp b l : forall recv L,
    forallb is_act l = true -> exact good L recv ->
    (forallb ninit l = true \/ (L = [] /\ forallb ninit (tl l) = true)) ->
    exact good (chain_order async l L) (sem_nodes msem dotsem callsem async sn cp b l recv).
  Proof.
    induction l as [|x t IH]; intros recv L Hact Hrecv Hini; [exact Hrecv|].
    cbn [forallb] in Hact. apply andb_true_iff in Hact. destruct Hact as [Hx Ht].
    destruct x as [e a|e a inner]; [|discriminate Hx].
    change (sem_nodes msem dotsem callsem async sn cp b (NAct e a :: t) recv)
      with (sem_nodes msem dotsem callsem async sn cp b t (sem_node msem dotsem callsem async sn cp b (NAct e a) recv)).
    cbn [chain_order fold_left]. change (fold_left (node_order async) t ?X) with (chain_order async t X).
    assert (Hnt : forallb ninit t = true).
    { destruct Hini as [Hi|[_ Hi]]; [cbn [forallb] in Hi; apply andb_true_iff in Hi; tauto|exact Hi]. }
    apply IH; [exact Ht| |left; exact Hnt].
    rewrite sem_node_act. cbn [node_order]. apply exact_act_sem; [exact Hrecv|].
    destruct Hini as [Hi|[Hi _]]; [left|right; exact Hi].
    cbn [forallb] in Hi. apply andb_true_iff in Hi. destruct Hi as [Hi _]. unfold ninit in Hi.
    apply negb_true_iff in Hi. exact Hi.
  Qed.

  (* ITEM 3, the order: every call of the closure of a wrapper whose inside has no further wrapper
     evaluates exactly the non-hoisted inner operands, each once, in evaluation order *)
  Theorem wrapper_inner_operands_in_order async (sn : list (string * option val)) cp b inner v w tr :
    forallb is_act inner = true -> forallb ninit (tl inner) = true ->
    match wrap_clo msem dotsem callsem async sn cp b inner with
    | DF clo => run (clo [v]) w tr
    | _ => False
    end ->
    eevals tr = chain_order async inner [].
  Proof.
    intros Hact Htl H. cbn [wrap_clo] in H.
    assert (Hc : exact (fun _ => True) (chain_order async inner [])
                       (let! d := sem_nodes msem dotsem callsem async sn cp b inner (Ret (DV v)) in to_val d)).
    { eapply exact_bind0.
      - apply exact_flat_chain; [exact Hact|apply exact_ret; exact I|right; split; [reflexivity|exact Htl]].
      - intros d _. destruct d; cbn [to_val]; xfin. }
    destruct (Hc w tr H) as [_ E]. exact E.
  Qed.

  (* ... which is the chain order when no `-> f` / sync `?? f` occurs inside *)
  Corollary wrapper_inner_operands_in_chain_order async (sn : list (string * option val)) cp b inner v w tr :
    forallb is_act inner = true -> forallb ninit (tl inner) = true ->
    forallb (receiver_first async) inner = true ->
    match wrap_clo msem dotsem callsem async sn cp b inner with
    | DF clo => run (clo [v]) w tr
    | _ => False
    end ->
    eevals tr = wrap_group inner.
  Proof.
    intros Hact Htl Hrf H. rewrite (wrapper_inner_operands_in_order async sn cp b inner v w tr Hact Htl H).
    rewrite chain_order_plain by exact Hrf. reflexivity.
  Qed.
End Order.
Print Assumptions wrapper_inner_operands_in_order.

(* `xs |> >>> |> a -> g <<<`: inside the wrapper `.map(a)` then `g(..)`; the callee `g` is evaluated first *)
Example chain_order_then_first :
  chain_order false [NAct 1 (mkAction Map false NoMove [[TI "a"]]); NAct 2 (mkAction Then false NoMove [[TI "g"]])] []
  = [[TI "g"]; [TI "a"]].
Proof. vm_compute. reflexivity. Qed.

(* ================================================================== *)
(** * 10. `all_operand_occurrences`, branch by branch                  *)
(* ================================================================== *)

(* `all_operand_occurrences` enumerates step by step (the order of evaluation); as a multiset it is:
   the handler expression, and for EVERY branch b and EVERY step k < depth b of that branch the hoisted
   blocks of the step's tree and the operands of its top-level actions. *)
Definition branch_step_ops (p : sprog) (b k : nat) : list operand :=
  flat_map node_captured (tree p b k) ++ flat_map node_direct (tree p b k).
Definition branch_ops (p : sprog) (b : nat) : list operand :=
  flat_map (branch_step_ops p b) (seq 0 (depth p b)).

Lemma flat_map_app_perm {X Y} (f g : X -> list Y) (l : list X) :
  Permutation (flat_map f l ++ flat_map g l) (flat_map (fun x => f x ++ g x) l).
Proof.
  induction l as [|x l IH]; cbn [flat_map]; [constructor|].
  etransitivity; [apply perm_4|]. apply Permutation_app_head, IH.
Qed.

Lemma flat_map_filter_if {X Y} (P : X -> bool) (f : X -> list Y) (l : list X) :
  flat_map f (filter P l) = flat_map (fun x => if P x then f x else []) l.
Proof.
  induction l as [|x l IH]; cbn [filter flat_map]; [reflexivity|].
  destruct (P x); cbn [flat_map app]; rewrite IH; reflexivity.
Qed.

Lemma flat_map_perm_ext {X Y} (f g : X -> list Y) (l : list X) :
  (forall x, In x l -> Permutation (f x) (g x)) -> Permutation (flat_map f l) (flat_map g l).
Proof.
  induction l as [|x l IH]; intros H; cbn [flat_map]; [constructor|].
  apply Permutation_app; [apply H; now left|apply IH; intros y Hy; apply H; now right].
Qed.

(* exchanging two sums over a relation P k b *)
Lemma flat_map_swap {Y} (P : nat -> nat -> bool) (F : nat -> nat -> list Y) (ks bs : list nat) :
  Permutation (flat_map (fun k => flat_map (fun b => F b k) (filter (P k) bs)) ks)
              (flat_map (fun b => flat_map (fun k => F b k) (filter (fun k => P k b) ks)) bs).
Proof.
  induction ks as [|k ks IH]; cbn [flat_map filter].
  - induction bs as [|b bs IHb]; cbn [flat_map]; [constructor|exact IHb].
  - etransitivity; [apply Permutation_app_head, IH|].
    rewrite flat_map_filter_if.
    etransitivity; [apply flat_map_app_perm|].
    apply flat_map_perm_ext. intros b _. destruct (P k b); cbn [flat_map app]; reflexivity.
Qed.

Lemma filter_ltb_seq d m : filter (fun k => Nat.ltb k d) (seq 0 m) = seq 0 (Nat.min d m).
Proof.
  induction m as [|m IH]; [rewrite Nat.min_0_r; reflexivity|].
  rewrite seq_S, filter_app, IH. cbn [filter plus].
  destruct (Nat.ltb_spec m d) as [Hlt|Hge].
  - replace (Nat.min d m) with m by lia. replace (Nat.min d (S m)) with (S m) by lia. rewrite seq_S. reflexivity.
  - rewrite app_nil_r. f_equal. lia.
Qed.

Theorem all_operand_occurrences_by_branch (p : sprog) :
  Permutation (all_operand_occurrences p)
              (handler_operand p ++ flat_map (branch_ops p) (seq 0 (List.length (sp_trees p)))).
Proof.
  unfold all_operand_occurrences. apply Permutation_app_head. unfold steps_ops.
  etransitivity.
  { apply flat_map_perm_ext. intros k _. unfold step_ops, step_captured, step_direct.
    apply flat_map_app_perm. }
  unfold actives.
  etransitivity; [apply (flat_map_swap (active p) (fun b k => branch_step_ops p b k))|].
  apply flat_map_perm_ext. intros b Hb. apply in_seq in Hb. unfold branch_ops.
  replace (filter (fun k => active p k b) (seq 0 (max_depth p))) with (seq 0 (depth p b)); [reflexivity|].
  unfold active. rewrite filter_ltb_seq. f_equal.
  pose proof (depth_le_max p b ltac:(lia)). lia.
Qed.
Print Assumptions all_operand_occurrences_by_branch.
