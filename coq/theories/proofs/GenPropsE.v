(* GenPropsE - C16 structure of the generated steps.
   (i)   joiner_once_per_multi_step : the step-result binding of step k is `joiner(chains)` iff a custom joiner
         is given and step k has more than one active branch; one chain per active branch, in branch order, each
         a `move || ..` thunk iff the effective lazy_branches flag is on.
   (ii)  no_transpose_flow : with transpose_results off in a try macro, every step is joined by
         `match sr { Ok(sr) => .., Err(err) => Err(err) }`; no `if let Some(__fail_index)`; option defaults.
   (iii) futures_path_everywhere : every futures item carries the given futures_crate_path (default ::futures). *)
From Coq Require Import Lia.
From Join Require Import Tok Names Ast Ir Gen GenPropsBase GenPropsB GenPropsA GenPropsD.

(* ---------------------------------------------------------------------------------------------- *)
(** * (i) the shape of one step *)

(* the branches that contribute a chain to step k, with their actions: branch index counted from b *)
Fixpoint step_members (k b : nat) (chs : list (list (list action))) : list (nat * list action) :=
  match chs with
  | [] => []
  | ch :: rest =>
      match nth_error ch k with
      | Some (a :: acts) => (b, a :: acts) :: step_members k (S b) rest
      | _ => step_members k (S b) rest
      end
  end.

(* the per-branch wrapping, spelled out *)
Definition thunked (j : jout) (core : rexpr) : rexpr := if j_lazy j then RMoveThunk core else core.
Definition spawned (j : jout) (b : nat) (chain : rexpr) : rexpr :=
  if is_spawn (j_cfg j) then
    if is_async (j_cfg j) then RBlock [] (RCall (RVar n_spawn_tokio) [RBoxPin chain])
    else RBlock [] (RGlue (RGlue (RVar (n_j b)) "spawn" [chain]) "unwrap" [])
  else chain.
Lemma wrap_branch_eq j k b core :
  wrap_branch j k b core = if Nat.ltb 1 (active_count j k) then spawned j b (thunked j core) else core.
Proof. reflexivity. Qed.

(* the right-hand side of `let __srK = ..` *)
Definition step_rhs (j : jout) (k : nat) (chains : list rexpr) : rexpr :=
  if Nat.ltb 1 (active_count j k) then
    match j_joiner j with
    | Some jt => RCall (RUser jt) chains
    | None => if is_async (j_cfg j)
              then RCall (RJoinMac (opt_default (j_fcp j) []) (is_try (j_cfg j))) chains
              else RTuple chains
    end
  else if is_async (j_cfg j) then RAwait (match chains with [c] => c | _ => RJuxt chains end)
       else RTuple chains.

Definition chain_of (j : jout) (k : nat) (vars : list string) (bm : nat * list action) (c : rexpr) : Prop :=
  exists ds core, gen_branch_step j (fst bm) (nth (fst bm) vars "") (snd bm) = Ok (ds, core) /\
                  c = wrap_branch j k (fst bm) core.

Lemma gen_branches_shape j k vars chs : forall b defs cs,
  gen_branches j k vars b chs = Ok (defs, cs) -> Forall2 (chain_of j k vars) (step_members k b chs) cs.
Proof.
  induction chs as [|ch rest IH]; intros b defs cs H; cbn [gen_branches step_members] in *.
  - inversion H; subst. constructor.
  - inv_bind H. destruct x as [d0 c0]. specialize (IH _ _ _ E).
    destruct (nth_error ch k) as [[|a acts]|]; try (inversion H; subst; exact IH).
    inv_bind H. destruct x as [ds core]. inversion H; subst. cbn [fst snd].
    constructor; [|exact IH]. exists ds, core. cbn [fst snd]. auto.
Qed.

Theorem gen_step_shape j k vars sr stmts :
  gen_step j k vars sr = Ok stmts ->
  exists pre defs chains post,
    stmts = pre ++ defs ++ [SLet (PIdent sr) (step_rhs j k chains)] ++ post /\
    (pre, post) = (if is_async (j_cfg j) then ([], []) else thread_builders j k sr) /\
    Forall2 (chain_of j k vars) (step_members k 0 (j_chains j)) chains.
Proof.
  unfold gen_step. intros H. inv_bind H. destruct x as [defs chains].
  pose proof (gen_branches_shape _ _ _ _ _ _ _ E) as Hsh. unfold step_rhs.
  destruct (is_async (j_cfg j)) eqn:Ea.
  - inversion H; subst. exists [], defs, chains, []. rewrite app_nil_r. cbn [app]. repeat split; auto.
    destruct (Nat.ltb 1 (active_count j k)); [destruct (j_joiner j)|]; reflexivity.
  - destruct (thread_builders j k sr) as [tbs sjs]. inversion H; subst.
    exists tbs, defs, chains, sjs. repeat split; auto.
    destruct (Nat.ltb 1 (active_count j k)); [destruct (j_joiner j)|]; reflexivity.
Qed.

(* the custom joiner is called iff it is given and the step has more than one active branch *)
Theorem step_rhs_joiner_iff j k chains jt cs :
  step_rhs j k chains = RCall (RUser jt) cs <->
  j_joiner j = Some jt /\ 1 < active_count j k /\ cs = chains.
Proof.
  unfold step_rhs. destruct (Nat.ltb 1 (active_count j k)) eqn:El.
  - apply Nat.ltb_lt in El. destruct (j_joiner j) as [jt'|].
    + split; [intros H; inversion H; subst; auto|intros (H & _ & ->); inversion H; subst; reflexivity].
    + split; [|intros (H & _); discriminate]. destruct (is_async (j_cfg j)); discriminate.
  - apply Nat.ltb_ge in El. split; [destruct (is_async (j_cfg j)); discriminate|]. intros (_ & H & _). lia.
Qed.

(* with one active branch the joiner is not called: the lone chain is evaluated / awaited in place *)
Theorem step_rhs_single j k chains :
  active_count j k <= 1 ->
  step_rhs j k chains =
  if is_async (j_cfg j) then RAwait (match chains with [c] => c | _ => RJuxt chains end) else RTuple chains.
Proof. intros H. unfold step_rhs. apply Nat.ltb_ge in H. rewrite H. reflexivity. Qed.

(* ---- which branches: exactly the active ones, given the JoinOutput invariants ---- *)

Definition jout_ok (j : jout) : Prop :=
  j_depths j = map (fun c => List.length c) (j_chains j) /\
  j_branch_count j = List.length (j_chains j) /\
  Forall (fun ch => Forall (fun s : list action => s <> []) ch) (j_chains j).

Lemma step_members_active j k chs : forall b,
  Forall (fun ch => Forall (fun s : list action => s <> []) ch) chs ->
  (forall i, i < List.length chs -> nth (b + i) (j_depths j) 0 = List.length (nth i chs [])) ->
  map fst (step_members k b chs) = count_active j k b (List.length chs).
Proof.
  induction chs as [|ch rest IH]; intros b Hne Hd; cbn [step_members count_active List.length]; [reflexivity|].
  inversion Hne as [|? ? Hch Hrest]; subst.
  assert (Hact : is_active j k b = Nat.ltb k (List.length ch)).
  { unfold is_active. specialize (Hd 0). cbn [nth List.length] in Hd. rewrite Nat.add_0_r in Hd. rewrite Hd; [reflexivity|lia]. }
  assert (IH' : map fst (step_members k (S b) rest) = count_active j k (S b) (List.length rest)).
  { apply IH; [exact Hrest|]. intros i Hi. specialize (Hd (S i)). cbn [nth List.length] in Hd.
    replace (S b + i) with (b + S i) by lia. apply Hd. lia. }
  rewrite Hact. destruct (nth_error ch k) as [s|] eqn:En.
  - assert (Hk : k < List.length ch) by (apply nth_error_Some; congruence).
    apply Nat.ltb_lt in Hk. rewrite Hk.
    destruct s as [|a acts].
    + exfalso. apply nth_error_In in En. rewrite Forall_forall in Hch. exact (Hch _ En eq_refl).
    + cbn [map fst]. now rewrite IH'.
  - apply nth_error_None in En. apply Nat.ltb_ge in En. rewrite En. exact IH'.
Qed.

Lemma step_members_active_branches j k :
  jout_ok j -> map fst (step_members k 0 (j_chains j)) = active_branches j k.
Proof.
  intros (Hd & Hc & Hne). unfold active_branches. rewrite Hc. apply step_members_active; [exact Hne|].
  intros i Hi. cbn [Nat.add]. rewrite Hd.
  change 0 with (List.length (@nil (list action))) at 1.
  apply (map_nth (fun c : list (list action) => List.length c)).
Qed.

Lemma count_active_length j k : forall n b,
  List.length (count_active j k b n) =
  List.length (filter (fun d => Nat.ltb k d) (map (fun i => nth i (j_depths j) 0) (seq b n))).
Proof.
  induction n as [|n IH]; intros b; cbn [count_active seq map filter]; [reflexivity|].
  unfold is_active. destruct (Nat.ltb k (nth b (j_depths j) 0)); cbn [List.length]; rewrite IH; reflexivity.
Qed.

Lemma map_nth_seq {A} (l : list A) d : map (fun i => nth i l d) (seq 0 (List.length l)) = l.
Proof.
  induction l as [|x l IH]; [reflexivity|]. cbn [List.length seq map nth]. f_equal.
  rewrite <- seq_shift, map_map. exact IH.
Qed.

Lemma active_branches_length j k :
  j_branch_count j = List.length (j_depths j) -> List.length (active_branches j k) = active_count j k.
Proof.
  intros H. unfold active_branches, active_count. rewrite count_active_length, H, map_nth_seq. reflexivity.
Qed.

Lemma Forall2_len {A B} (R : A -> B -> Prop) l l' : Forall2 R l l' -> List.length l = List.length l'.
Proof. induction 1; cbn [List.length]; congruence. Qed.

Lemma the_jout_ok cfg inp : wf_parsed inp -> jout_ok (the_jout cfg inp).
Proof.
  intros Hwf. unfold jout_ok. cbn [the_jout j_depths j_chains j_branch_count]. split; [reflexivity|].
  split; [now rewrite map_length|].
  apply Forall_forall. intros ch Hch. apply in_map_iff in Hch as (b & <- & Hb).
  unfold wf_parsed in Hwf. rewrite Forall_forall in Hwf.
  destruct (Hwf b Hb) as (m0 & rest & Heq & _ & Hd & _).
  destruct (split_steps_shape (b_members b)) as (g & gs & E & Hgs & Hg). rewrite E.
  constructor.
  - intros ->. specialize (Hg eq_refl). rewrite Heq in Hg. congruence.
  - eapply Forall_impl; [|exact Hgs]. intros s (m & s' & -> & _). discriminate.
Qed.

(* C16 (i), on the JoinOutput of a well-formed input *)
Theorem joiner_once_per_multi_step cfg inp k vars sr stmts :
  wf_parsed inp ->
  let j := the_jout cfg inp in
  gen_step j k vars sr = Ok stmts ->
  exists pre defs chains post,
    stmts = pre ++ defs ++ [SLet (PIdent sr) (step_rhs j k chains)] ++ post /\
    (* one chain per active branch, in branch order *)
    Forall2 (chain_of j k vars) (step_members k 0 (j_chains j)) chains /\
    map fst (step_members k 0 (j_chains j)) = active_branches j k /\
    List.length chains = active_count j k /\
    (* the joiner is called iff given and the step is a multi-branch step, on exactly these chains *)
    (forall jt cs, step_rhs j k chains = RCall (RUser jt) cs <->
                   i_joiner inp = Some jt /\ 1 < active_count j k /\ cs = chains).
Proof.
  intros Hwf j H. destruct (gen_step_shape _ _ _ _ _ H) as (pre & defs & chains & post & Hs & _ & Hf).
  pose proof (the_jout_ok cfg inp Hwf) as Hok. fold j in Hok.
  exists pre, defs, chains, post. split; [exact Hs|]. split; [exact Hf|].
  pose proof (step_members_active_branches j k Hok) as Hm. split; [exact Hm|]. split.
  - rewrite <- (Forall2_len _ _ _ Hf), <- (map_length fst), Hm. apply active_branches_length.
    destruct Hok as (Hd & Hc & _). rewrite Hc, Hd, map_length. reflexivity.
  - intros jt cs. apply step_rhs_joiner_iff.
Qed.

(* a step with exactly one active branch: the lone chain is evaluated in place (sync: a one-element tuple;
   async: awaited), no joiner, no `join!`, no juxtaposition; and every generated step has >= 1 active branch *)
Lemma active_count_pos j k : k < j_max j -> j_max j = list_max (j_depths j) -> 0 < active_count j k.
Proof.
  intros Hk Hm. unfold active_count.
  assert (Hin : In (list_max (j_depths j)) (j_depths j)).
  { apply list_max_In. intros Hn. rewrite Hn in Hm. cbn in Hm. lia. }
  assert (Hf : In (list_max (j_depths j)) (filter (fun d => Nat.ltb k d) (j_depths j))).
  { apply filter_In. split; [exact Hin|]. apply Nat.ltb_lt. lia. }
  destruct (filter (fun d => Nat.ltb k d) (j_depths j)); [destruct Hf|cbn; lia].
Qed.

Theorem single_branch_step_inline cfg inp k vars sr stmts :
  wf_parsed inp ->
  let j := the_jout cfg inp in
  gen_step j k vars sr = Ok stmts -> active_count j k = 1 ->
  exists pre defs c post,
    stmts = pre ++ defs ++ [SLet (PIdent sr) (if is_async cfg then RAwait c else RTuple [c])] ++ post.
Proof.
  intros Hwf j H Hac.
  destruct (joiner_once_per_multi_step cfg inp k vars sr stmts Hwf H) as (pre & defs & chains & post & Hs & _ & _ & Hl & _).
  fold j in Hl, Hs. rewrite Hac in Hl. destruct chains as [|c [|c' l]]; try discriminate.
  exists pre, defs, c, post. rewrite Hs. rewrite step_rhs_single by lia. reflexivity.
Qed.

(* hence the model's fall-back `RJuxt` (plain juxtaposition, not valid Rust) never occurs on parser output *)
Theorem no_juxt cfg inp e : wf_parsed inp -> gen cfg inp = Ok e -> ~ In KJuxt (constructs e).
Proof.
  intros Hwf H Hin. apply gen_ok_unfold in H as [_ H].
  apply (gen_output_okc (the_jout cfg inp) False) in H.
  - unfold okE in H. rewrite Forall_forall in H. specialize (H _ Hin). cbn in H. tauto.
  - intros k vars defs chains Hk Hg Hac Hne.
    pose proof (the_jout_ok cfg inp Hwf) as Hok.
    pose proof (gen_branches_shape _ _ _ _ _ _ _ Hg) as Hsh.
    pose proof (step_members_active_branches _ k Hok) as Hm.
    assert (Hl : List.length chains = active_count (the_jout cfg inp) k).
    { rewrite <- (Forall2_len _ _ _ Hsh), <- (map_length fst), Hm. apply active_branches_length.
      destruct Hok as (Hd & Hc & _). rewrite Hc, Hd, map_length. reflexivity. }
    pose proof (active_count_pos (the_jout cfg inp) k Hk eq_refl) as Hpos.
    destruct chains as [|c [|c' l]]; cbn [List.length] in Hl; try lia. exact (Hne c eq_refl).
Qed.

(* each chain is a thunk iff the effective lazy flag is on (under the spawn wrapper of the thread / task kinds) *)
Theorem chain_thunk_iff_lazy cfg inp k b core :
  let j := the_jout cfg inp in
  1 < active_count j k ->
  wrap_branch j k b core = spawned j b (if eff_lazy cfg inp then RMoveThunk core else core).
Proof. intros j H. rewrite wrap_branch_eq. apply Nat.ltb_lt in H. rewrite H. reflexivity. Qed.

(* when `gen` succeeds every step k < max depth is generated by gen_step, so the above applies to each *)
Theorem gen_ok_every_step cfg inp e :
  gen cfg inp = Ok e ->
  let j := the_jout cfg inp in
  forall k, k < j_max j ->
    exists stmts, gen_step j k (map (branch_name j) (seq 0 (j_branch_count j))) (n_sr k) = Ok stmts.
Proof.
  intros H j k Hk. apply gen_ok_unfold in H as [_ H]. unfold gen_output in H. inv_bind H.
  unfold j in *. eapply gen_steps_ok_step; [exact E|]. lia.
Qed.

(* ---------------------------------------------------------------------------------------------- *)
(** * (ii) transpose_results(false) *)

(* async kinds re-wrap the step results before the next step; sync kinds go on with the payloads (O1) *)
Definition rewrap (j : jout) (sr : string) (k : nat) : list rstmt :=
  if is_async (j_cfg j)
  then [SLet (PIdent sr) (RTuple (map (fun ib => ROk (indexed_sr j sr k (fst ib))) (enum_from 0 (active_branches j k))))]
  else [].

Theorem join_steps_no_transpose j k step next pats vars sr :
  is_try (j_cfg j) = true -> j_transpose j = false ->
  join_steps j k step next pats vars sr =
  if Nat.ltb k (j_max j - 1) then
    (* a step that is not the last: match on the joined result, the next step inside the Ok arm *)
    match next with
    | None => InternalBug 30
    | Some (nss, ne) =>
        Ok (step, RMatchOk (RVar sr) sr (RBlock (rewrap j sr k ++ [extract_step j sr pats k] ++ nss) ne))
    end
  else if Nat.ltb 1 (j_branch_count j) then
    (* the last step: only the branches that finished EARLIER (inactive in this step) are transposed *)
    let finished := map snd (filter (fun iv => negb (is_active j k (fst iv))) (enum_from 0 vars)) in
    match finished with
    | [] => Ok (step, RMatchOk (RVar sr) sr (RBlock [extract_step j sr pats k] (ROk (tuple_of vars))))
    | _ => match transposer finished (tuple_of vars) with
           | None => InternalBug 7
           | Some t => Ok (step, RMatchOk (RVar sr) sr (RBlock [extract_step j sr pats k] t))
           end
    end
  else Ok (step, RMatchOk (RVar sr) n_v (ROk (RTuple [RVar n_v]))).
Proof.
  intros Ht Htr. unfold join_steps, rewrap. rewrite Ht, Htr. cbn [andb].
  destruct (Nat.ltb k (j_max j - 1)); [|reflexivity].
  destruct next as [[nss ne]|]; [|reflexivity]. destruct (is_async (j_cfg j)); reflexivity.
Qed.

(* every step of the chain of steps is joined by RMatchOk *)
Theorem no_transpose_flow j pats vars n k ss e :
  is_try (j_cfg j) = true -> j_transpose j = false -> k + S n = j_max j ->
  gen_steps j pats vars k (S n) = Ok (Some (ss, e)) ->
  exists step, gen_step j k vars (n_sr k) = Ok step /\ ss = step /\
    match n with
    | 0 => exists x arm, e = RMatchOk (RVar (n_sr k)) x arm            (* last step *)
    | S _ => exists nss ne, gen_steps j pats vars (S k) n = Ok (Some (nss, ne)) /\
               e = RMatchOk (RVar (n_sr k)) (n_sr k)
                     (RBlock (rewrap j (n_sr k) k ++ [extract_step j (n_sr k) pats k] ++ nss) ne)
    end.
Proof.
  intros Ht Htr Hk H. cbn [gen_steps] in H. inv_bind H. inv_bind H. inv_bind H.
  rewrite (join_steps_no_transpose _ _ _ _ _ _ _ Ht Htr) in E1.
  exists x0. split; [exact E0|]. inversion H; subst x1. clear H.
  destruct n as [|n'].
  - replace (Nat.ltb k (j_max j - 1)) with false in E1 by (symmetry; apply Nat.ltb_ge; lia).
    destruct (Nat.ltb 1 (j_branch_count j)).
    + cbv zeta in E1.
      destruct (map snd (filter (fun iv => negb (is_active j k (fst iv))) (enum_from 0 vars))) as [|r0 rs].
      * inversion E1; subst. split; eauto.
      * destruct (transposer (r0 :: rs) (tuple_of vars)); inversion E1; subst. split; eauto.
    + inversion E1; subst. split; eauto.
  - replace (Nat.ltb k (j_max j - 1)) with true in E1 by (symmetry; apply Nat.ltb_lt; lia).
    destruct x as [[nss ne]|]; [|discriminate]. inversion E1; subst.
    split; [reflexivity|]. exists nss, ne. split; [exact E|reflexivity].
Qed.

(* ... and in the whole expansion there is no `if let Some(__fail_index)` / index match at all *)
Theorem no_transpose_no_fail_index cfg inp e :
  eff_transpose cfg inp = false -> gen cfg inp = Ok e ->
  ~ In KIfLetSome (constructs e) /\ ~ In KMatchIdx (constructs e).
Proof.
  intros Htr H. pose proof (gen_constructs_allowed cfg inp e H) as Hall. rewrite Forall_forall in Hall.
  split; intros Hc; specialize (Hall _ Hc); cbn [allowed] in Hall; destruct Hall; congruence.
Qed.
(* conversely `match .. { Ok(..) => .., Err(err) => Err(err) }` is used only by try macros with transposing off *)
Theorem match_ok_only_without_transpose cfg inp e :
  gen cfg inp = Ok e -> In KMatchOk (constructs e) -> is_try cfg = true /\ eff_transpose cfg inp = false.
Proof.
  intros H Hc. pose proof (gen_constructs_allowed cfg inp e H) as Hall. rewrite Forall_forall in Hall.
  exact (Hall _ Hc).
Qed.

(* option defaults *)
Theorem eff_transpose_default cfg inp :
  i_transpose inp = None -> eff_transpose cfg inp = is_try cfg && negb (is_async cfg).
Proof. unfold eff_transpose. intros ->. reflexivity. Qed.
Theorem eff_lazy_default cfg inp :
  i_lazy inp = None -> eff_lazy cfg inp = is_spawn cfg && negb (is_async cfg).
Proof. unfold eff_lazy. intros ->. reflexivity. Qed.
Theorem eff_options_given cfg inp t l :
  i_transpose inp = Some t -> i_lazy inp = Some l -> eff_transpose cfg inp = t /\ eff_lazy cfg inp = l.
Proof. unfold eff_transpose, eff_lazy. intros -> ->. auto. Qed.
Theorem the_jout_flags cfg inp :
  j_transpose (the_jout cfg inp) = eff_transpose cfg inp /\ j_lazy (the_jout cfg inp) = eff_lazy cfg inp.
Proof. split; reflexivity. Qed.

(* ---------------------------------------------------------------------------------------------- *)
(** * (iii) futures_crate_path *)

Theorem futures_path_everywhere cfg inp e c :
  gen cfg inp = Ok e -> In c (constructs e) ->
  forall p, (c = KUseFutures p \/ c = KSpawnTokioFn p \/ exists t, c = KJoinMac p t) ->
  p = opt_default (i_fcp inp) default_futures_path.
Proof.
  intros H Hc p Hk. pose proof (gen_constructs_allowed cfg inp e H) as Hall. rewrite Forall_forall in Hall.
  specialize (Hall _ Hc). destruct Hk as [->|[->|(t & ->)]]; cbn [allowed] in Hall; unfold futures_path in Hall; tauto.
Qed.

(* the macro used for joining is the one of the kind: try_join! iff is_try; and only without a custom joiner *)
Theorem join_macro_kind cfg inp e p t :
  gen cfg inp = Ok e -> In (KJoinMac p t) (constructs e) -> t = is_try cfg /\ i_joiner inp = None.
Proof.
  intros H Hc. pose proof (gen_constructs_allowed cfg inp e H) as Hall. rewrite Forall_forall in Hall.
  specialize (Hall _ Hc). cbn [allowed] in Hall. tauto.
Qed.

Print Assumptions joiner_once_per_multi_step.
Print Assumptions no_juxt.
Print Assumptions no_transpose_flow.
Print Assumptions no_transpose_no_fail_index.
Print Assumptions futures_path_everywhere.

(* ---------------------------------------------------------------------------------------------- *)
(** * Non-vacuity *)

Definition ex_input := GenPropsA.ex_input.           (* depths 3/1/2, custom joiner `my_joiner` *)
Definition jx := the_jout (mkConfig false true true) ex_input.
Definition vars_x := map (branch_name jx) (seq 0 (j_branch_count jx)).

Example ex_active_counts : map (active_count jx) [0; 1; 2] = [3; 2; 1].
Proof. vm_compute. reflexivity. Qed.
Example ex_step_members : map (fun k => map fst (step_members k 0 (j_chains jx))) [0; 1; 2] = [[0; 1; 2]; [0; 2]; [0]].
Proof. vm_compute. reflexivity. Qed.
(* step 1 (branches 0 and 2 active): the joiner is called on two thunked, spawned chains *)
Example ex_step1_rhs :
  exists stmts c0 c2, gen_step jx 1 vars_x (n_sr 1) = Ok stmts /\
    In (SLet (PIdent (n_sr 1))
             (RCall (RUser (GenPropsA.T "my_joiner"))
                    [spawned jx 0 (RMoveThunk c0); spawned jx 2 (RMoveThunk c2)])) stmts.
Proof. vm_compute. do 3 eexists. split; [reflexivity|]. repeat (first [left; reflexivity | right]). Qed.
(* step 2 (only branch 0 active): no joiner, no thread *)
Example ex_step2_rhs :
  exists stmts c0, gen_step jx 2 vars_x (n_sr 2) = Ok stmts /\ In (SLet (PIdent (n_sr 2)) (RTuple [c0])) stmts /\
                   List.length stmts = 2.
Proof. vm_compute. do 2 eexists. split; [reflexivity|]. split; [repeat (first [left; reflexivity | right])|reflexivity]. Qed.

(* transpose_results(false): hypotheses of no_transpose_flow are met by a concrete try_join! input *)
Definition ex_input_nt : input :=
  mkInput (i_branches ex_input) (Some (HMap, GenPropsA.T "hd")) None None (Some false) None.
Definition jnt := the_jout (mkConfig false true false) ex_input_nt.
Example ex_nt_hyps : is_try (j_cfg jnt) = true /\ j_transpose jnt = false /\ 0 + 3 = j_max jnt /\
  exists ss e, gen_steps jnt (map (branch_pat jnt) (seq 0 3)) (map (branch_name jnt) (seq 0 3)) 0 3 = Ok (Some (ss, e)).
Proof. vm_compute. repeat split. do 2 eexists. reflexivity. Qed.
Example ex_nt_census :
  let l := census (mkConfig false true false) ex_input_nt in
  negb (occurs KIfLetSome l) && negb (occurs KMatchIdx l) && occurs KMatchOk l = true.
Proof. vm_compute. reflexivity. Qed.
(* a given futures_crate_path reaches every futures item *)
Definition my_path : operand := [TI "my"; TP ":" true; TP ":" false; TI "futures03"].
Example ex_path :
  let l := census (mkConfig true true true)
                  (mkInput (i_branches ex_input) None (Some my_path) None None None) in
  occurs (KUseFutures my_path) l && occurs (KSpawnTokioFn my_path) l && occurs (KJoinMac my_path true) l &&
  negb (occurs (KUseFutures default_futures_path) l) = true.
Proof. vm_compute. reflexivity. Qed.
