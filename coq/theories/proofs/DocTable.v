(* C01 / C11: the reference semantics says, operator by operator, what the README says. *)
From Coq Require Import ZArith.
From Join Require Import Tok Names Ast Comp Std Denote Spec CompLaws.

(* the README's operator table *)
Theorem documented_methods :
  doc_method Map = "map" /\ doc_method AndThen = "and_then" /\ doc_method Filter = "filter" /\
  doc_method Or = "or" /\ doc_method OrElse = "or_else" /\ doc_method MapErr = "map_err" /\
  doc_method Collect = "collect" /\ doc_method Chain = "chain" /\ doc_method FindMap = "find_map" /\
  doc_method FilterMap = "filter_map" /\ doc_method Enumerate = "enumerate" /\ doc_method Partition = "partition" /\
  doc_method Flatten = "flatten" /\ doc_method Fold = "fold" /\ doc_method TryFold = "try_fold" /\
  doc_method Find = "find" /\ doc_method Zip = "zip" /\ doc_method Unzip = "unzip" /\ doc_method Inspect = "inspect".
Proof. repeat split. Qed.

Section Doc.
  Variable msem : string -> option (list operand) -> dval -> list dval -> comp dval.
  Variable dotsem : operand -> list (string * option val) -> dval -> comp dval.
  Variable callsem : val -> list dval -> comp dval.
  Notation sem_node := (sem_node msem dotsem callsem).
  Notation eval_args := (eval_args).

  Definition is_method_op (c : comb) : bool :=
    match c with Initial | Then | Dot | UNWRAP | Inspect => false | _ => true end.

  (* every method operator: receiver first, then the operands left to right, then THE documented method *)
  Theorem method_operator_means_documented_method async sn cp b e a recv :
    is_method_op (a_comb a) = true ->
    sem_node async sn cp b (NAct e a) recv =
    (let! r := recv in
     let! ds := Spec.eval_args sn cp b e 0 (a_comb a) (exprs_of a) in
     msem (doc_method (a_comb a)) (types_of a) r ds).
  Proof. destruct a as [[] d m ops]; cbn; intros H; try discriminate H; reflexivity. Qed.

  (* `->` : call-with-value *)
  Theorem then_operator_calls_with_value async sn cp b e a recv :
    a_comb a = Then ->
    sem_node async sn cp b (NAct e a) recv =
    (let! ds := Spec.eval_args sn cp b e 0 Then (exprs_of a) in
     match ds with [f] => let! r := recv in apply callsem f [r] | _ => Panic P_STUCK end).
  Proof. destruct a as [c d m ops]; cbn; intros ->; reflexivity. Qed.

  (* `..` / `>.` : member access *)
  Theorem dot_operator_is_member_access async sn cp b e a recv o :
    a_comb a = Dot -> a_ops a = [o] ->
    sem_node async sn cp b (NAct e a) recv = (let! r := recv in dotsem o sn r).
  Proof. destruct a as [c d m ops]; cbn; intros -> ->; reflexivity. Qed.

  (* sync `??` : the callback sees the value, the value is passed through unchanged *)
  Theorem inspect_passes_value_through f v :
    inspect_sem callsem (DV f) (DV v) = (let! _ := apply callsem (DV f) [DV v] in Ret (DV v)).
  Proof. reflexivity. Qed.

  (* async `??` : FutureExt::inspect *)
  Theorem inspect_async_is_the_method sn cp b e a recv :
    a_comb a = Inspect ->
    sem_node true sn cp b (NAct e a) recv =
    (let! r := recv in let! ds := Spec.eval_args sn cp b e 0 Inspect (exprs_of a) in
     match ds with [f] => msem "inspect" None r [f] | _ => Panic P_STUCK end).
  Proof. destruct a as [c d m ops]; cbn; intros ->; reflexivity. Qed.

  (* `X >>> inner <<<` : the method of X applied to the closure |v| <inner over v> *)
  Theorem wrapper_means_method_over_closure async sn cp b e a inner recv :
    a_comb a <> Inspect ->
    sem_node async sn cp b (NWrap e a inner) recv =
    (let! r := recv in
     msem (doc_method (a_comb a)) None r
          [DF (fun vs => match vs with
                         | [v] => let! d := sem_nodes msem dotsem callsem async sn cp b inner (Ret (DV v)) in to_val d
                         | _ => Panic P_ILLTYPED end)]).
  Proof. destruct a as [[] d m ops]; cbn; intros H; try congruence; reflexivity. Qed.

  (* a chain is applied left to right *)
  Theorem chain_is_left_to_right async sn cp b x t recv :
    sem_nodes msem dotsem callsem async sn cp b (x :: t) recv =
    sem_nodes msem dotsem callsem async sn cp b t (sem_node async sn cp b x recv).
  Proof. reflexivity. Qed.

  (* C11: a hoisted block operand is not evaluated in the chain: the chain uses the captured value *)
  Theorem hoisted_operand_uses_captured_value sn cp b e i c o r v :
    hoistable c o = true -> lookup_cap cp (b, e, i) = Some v ->
    Spec.eval_args sn cp b e i c (o :: r) =
    (let! ds := Spec.eval_args sn cp b e (S i) c r in Ret (DV v :: ds)).
  Proof. intros H L. cbn [Spec.eval_args]. rewrite H, L. reflexivity. Qed.

  (* C11: captures of a step are evaluated branch by branch, inside a branch in tree (position) order *)
  Theorem captures_branch_then_position p sn k b r :
    captures p sn k (b :: r) =
    (let! c1 := capture_nodes sn b (tree p b k) in let! c2 := captures p sn k r in Ret (c1 ++ c2)).
  Proof. reflexivity. Qed.
End Doc.

(* C11: in every kind the captures of step k run after step k-1 has produced the state (they are the first thing
   `step_result k st` does after the thread builders) and before any chain of step k *)
Theorem captures_before_chains_sequential msem dotsem callsem awaitsem (p : sprog) k st :
  is_async (sp_cfg p) = false -> is_spawn (sp_cfg p) = false ->
  step_result msem dotsem callsem awaitsem p k st =
  (let! cp := captures p (snap_of p st) k (actives p k) in
   if Nat.ltb 1 (List.length (actives p k))
   then let! ds := mapM (chain msem dotsem callsem p (snap_of p st) cp k st) (actives p k) in vals_tuple ds
   else match actives p k with [b] => chain msem dotsem callsem p (snap_of p st) cp k st b | _ => Panic P_STUCK end).
Proof. intros Ha Hs. unfold step_result. rewrite Ha, Hs. reflexivity. Qed.

Theorem captures_before_chains_async msem dotsem callsem awaitsem (p : sprog) k st :
  is_async (sp_cfg p) = true ->
  exists body, step_result msem dotsem callsem awaitsem p k st =
               (let! cp := captures p (snap_of p st) k (actives p k) in body cp).
Proof. intros Ha. unfold step_result. rewrite Ha. eexists (fun cp => _). reflexivity. Qed.
