(* The reference semantics with options (SpecOpts.v) EXTENDS the reference semantics of the default
   options (Spec.v): under `default_opts cfg` every level - step result, steps, whole macro - is
   Spec.v's, for every program (no well-formedness needed), every kind, every user-code semantics. *)
From Coq Require Import ZArith Lia FunctionalExtensionality.
From Join Require Import Tok Names Ast Comp Std Denote Spec SpecOpts CompLaws RefineBase.

(* ---- small facts about mapM ---- *)
Lemma mapM_ext_all {A B} (f g : A -> comp B) l : (forall x, f x = g x) -> mapM f l = mapM g l.
Proof. intros H. induction l as [|x r IH]; cbn [mapM]; [reflexivity|]. rewrite H, IH. reflexivity. Qed.

(* reading a list by index = walking through it *)
Lemma mapM_seq_nth {A B} (G : option A -> comp B) : forall (l pre : list A) o,
  List.length pre = o ->
  mapM (fun i => G (nth_error (pre ++ l) i)) (seq o (List.length l)) = mapM (fun v => G (Some v)) l.
Proof.
  induction l as [|v l IH]; intros pre o Hp; [reflexivity|].
  cbn [List.length seq mapM]. rewrite nth_error_app2 by lia. rewrite Hp, Nat.sub_diag. cbn [nth_error].
  apply bind_ext. intros y.
  replace (pre ++ v :: l) with ((pre ++ [v]) ++ l) by (rewrite <- app_assoc; reflexivity).
  rewrite (IH (pre ++ [v]) (S o)); [reflexivity|]. rewrite app_length. cbn. lia.
Qed.

Lemma all_vals_len : forall ds vs, all_vals ds = Some vs -> List.length vs = List.length ds.
Proof.
  induction ds as [|d ds IH]; intros vs H; cbn [all_vals] in H.
  - inversion H. reflexivity.
  - destruct d; try discriminate. destruct (all_vals ds) as [ws|]; [|discriminate].
    inversion H; subst. cbn. rewrite (IH ws eq_refl). reflexivity.
Qed.

(* the tuple of handles built by the macro itself has one handle per active branch: joining "by index"
   is joining them all, in order *)
Lemma join_handles_tuple (handles : list dval) :
  (let! hs := vals_tuple handles in join_handles (List.length handles) hs) =
  (let! hs := vals_tuple handles in
   let! vs := mapM (fun h => match h with
                             | VHandle i => let! r := std_join i in let! u := std_unwrap r in to_val u
                             | _ => Panic P_ILLTYPED end)
                   (match hs with DV (VTuple l) => l | _ => [] end) in
   Ret (DV (VTuple vs))).
Proof.
  unfold vals_tuple. destruct (all_vals handles) as [l|] eqn:E; [|reflexivity].
  rewrite !bind_ret_l. unfold join_handles. rewrite <- (all_vals_len _ _ E).
  pose proof (mapM_seq_nth
                (fun o : option val => match o with
                                       | Some (VHandle h) => let! r := std_join h in let! u := std_unwrap r in to_val u
                                       | _ => Panic P_ILLTYPED end) l [] 0 eq_refl) as H.
  cbn [app] in H. cbv beta iota. rewrite H. reflexivity.
Qed.

Section Default.
  Variable msem : string -> option (list operand) -> dval -> list dval -> comp dval.
  Variable dotsem : operand -> list (string * option val) -> dval -> comp dval.
  Variable callsem : val -> list dval -> comp dval.
  Variable awaitsem : val -> comp val.
  Variable p : sprog.

  Notation so := (default_opts (sp_cfg p)).

  Theorem step_result_opts_default k st :
    step_result_opts msem dotsem callsem awaitsem so p k st = step_result msem dotsem callsem awaitsem p k st.
  Proof.
    unfold step_result_opts, step_result, branch_arg, eval_joiner, default_opts. cbn [so_joiner so_lazy].
    destruct (is_async (sp_cfg p)) eqn:Ha; cbn [negb].
    - rewrite andb_false_r. apply bind_ext. intros cp.
      destruct (Nat.ltb 1 (List.length (actives p k))); reflexivity.
    - rewrite andb_true_r. destruct (is_spawn (sp_cfg p)) eqn:Hs; cbn [andb].
      + destruct (Nat.ltb 1 (List.length (actives p k))) eqn:Hm.
        * eapply bind_ext_leaves; [apply leaves_mapM_length|]. intros builders Hbl.
          apply bind_ext. intros cp. rewrite bind_ret_l.
          rewrite (mapM_ext_all
                     (fun nb : dval * nat =>
                        let! a := Ret (thunk_of (chain msem dotsem callsem p (snap_of p st) cp k st (snd nb))) in
                        spawn_thread (fst nb) a)
                     (fun nb : dval * nat =>
                        match fst nb with
                        | DBuilder name =>
                            let! h := std_spawn name (fun _ => let! d := chain msem dotsem callsem p (snap_of p st) cp k st (snd nb) in to_val d) in
                            std_unwrap h
                        | _ => Panic P_ILLTYPED
                        end)).
          2:{ intros [bd b]. cbn [fst snd]. rewrite bind_ret_l. unfold spawn_thread, thunk_of.
              destruct bd; reflexivity. }
          eapply bind_ext_leaves; [apply leaves_mapM_length|]. intros handles Hhl.
          rewrite combine_length, Hbl, Nat.min_id in Hhl. rewrite <- Hhl.
          apply join_handles_tuple.
        * reflexivity.
      + apply bind_ext. intros cp.
        destruct (Nat.ltb 1 (List.length (actives p k))); reflexivity.
  Qed.

  Theorem steps_opts_default : forall fuel k st,
    steps_opts msem dotsem callsem awaitsem so p fuel k st = steps msem dotsem callsem awaitsem p fuel k st.
  Proof.
    induction fuel as [|f IH]; intros k st; [reflexivity|].
    cbn [steps_opts steps]. rewrite step_result_opts_default. apply bind_ext. intros sr.
    assert (Eo : so_transpose so = is_try (sp_cfg p) && negb (is_async (sp_cfg p))) by reflexivity.
    revert IH Eo. generalize so. intros o IH Eo. rewrite Eo. clear Eo.
    destruct (is_try (sp_cfg p)) eqn:Ht; cbn [negb andb].
    - destruct (is_async (sp_cfg p)) eqn:Ha; cbn [negb].
      + destruct sr as [[]| | | | | |]; try reflexivity.
        destruct (Nat.eqb f 0); [reflexivity|].
        rewrite bind_assoc. apply bind_ext. intros rew. rewrite bind_ret_l.
        apply bind_ext. intros ds. apply IH.
      + apply bind_ext. intros ds. destruct (Nat.eqb f 0); [reflexivity|].
        apply bind_ext. intros oks. destruct (first_false oks ds); [reflexivity|apply IH].
    - apply bind_ext. intros ds. destruct (Nat.eqb f 0); [reflexivity|apply IH].
  Qed.

  (* the new semantics extends the old one *)
  Theorem spec_opts_default :
    spec_opts msem dotsem callsem awaitsem so p = spec msem dotsem callsem awaitsem p.
  Proof.
    unfold spec_opts, spec, run_body_opts, run_body. rewrite steps_opts_default. reflexivity.
  Qed.
End Default.

Print Assumptions spec_opts_default.
