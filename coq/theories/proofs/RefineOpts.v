(* Refinement WITH the macro options: den (gen cfg inp) = spec_opts (resolve cfg inp) (prepare cfg inp)
   for all eight kinds, all inputs and EVERY setting of custom_joiner / lazy_branches / transpose_results.
   The chain level (RefineChain) and the option-independent part of the step level (RefineSteps: invariant,
   extraction, final tuple, failure check, transposer, builders, handlers, whole macro) are re-used as they
   are; the lemmas below are the ones in which the options enter: the step statement (`gen_step` with
   `wrap_branch`) and the step sequencing (`join_steps`). *)
From Coq Require Import ZArith Lia FunctionalExtensionality.
From Join Require Import Tok Names Ast Ir Gen Comp Std Denote Spec SpecOpts NamesInj CompLaws Render
     RefineBase RefineChain RefineProg RefineSteps RefineTop.
From Join Require SpecOptsDefault.

(* the generator's view of the resolved options *)
Definition opts_of (j : jout) : sopts :=
  {| so_joiner := j_joiner j; so_lazy := j_lazy j; so_transpose := j_transpose j |}.

Lemma opts_of_resolve cfg inp fcp j : jout_new cfg inp fcp = Ok j -> opts_of j = resolve cfg inp.
Proof.
  intros Hg. destruct (jout_new_opts cfg inp fcp j Hg) as (Hj & Hl & Ht).
  unfold opts_of, resolve, default_opts. rewrite Hj, Hl, Ht. cbn [so_lazy so_transpose].
  destruct (i_lazy inp), (i_transpose inp); reflexivity.
Qed.

Section StepsOpts.
  Variable unames : list string.
  Variable msem : string -> option (list operand) -> dval -> list dval -> comp dval.
  Variable dotsem : operand -> list (string * option val) -> dval -> comp dval.
  Variable callsem : val -> list dval -> comp dval.
  Variable awaitsem : val -> comp val.

  Notation D := (den unames msem dotsem callsem awaitsem).
  Notation X := (exec unames msem dotsem callsem awaitsem).
  Notation execs := (execs unames msem dotsem callsem awaitsem).
  Notation dens := (dens unames msem dotsem callsem awaitsem).
  Notation snapρ := (snap unames).
  Notation app_d := (apply callsem).
  Notation glue_d := (glue awaitsem).

  Variable cfg : config.
  Variable j : jout.
  Variable sp : sprog.
  Hypothesis HR : Rel_opts cfg j sp.
  Hypothesis Hun : unames = flat_map opt_list (map pat_name (j_pats j)).

  Notation n := (j_branch_count j).
  Notation so := (opts_of j).
  Notation Inv := (Inv unames msem dotsem callsem awaitsem cfg j).
  Notation vars := (vars j).
  Notation pats := (pats j).
  Notation bname := (bname j).
  Notation chain_of := (chain_of j sp).
  Notation step_keys := (step_keys sp).
  Notation chain := (chain msem dotsem callsem sp).
  Notation step_result_opts := (step_result_opts msem dotsem callsem awaitsem so sp).
  Notation steps_opts := (steps_opts msem dotsem callsem awaitsem so sp).
  Notation branch_arg := (branch_arg msem dotsem callsem so sp).

  Let Huser : Forall user_ident unames := unames_user unames cfg j sp HR Hun.
  (* the option-independent lemmas of RefineSteps, instantiated *)
  Let snap_inv' := snap_inv unames msem dotsem callsem awaitsem cfg j sp HR Hun.
  Let chain_in_step' := chain_in_step unames msem dotsem callsem awaitsem cfg j sp HR Hun.
  Let execs_step_defs' := execs_step_defs unames msem dotsem callsem awaitsem cfg j sp HR Hun.
  Let Inv_ext_env' := Inv_ext_env unames msem dotsem callsem awaitsem cfg j sp HR Hun.
  Let Inv_upd_temp' := Inv_upd_temp unames msem dotsem callsem awaitsem cfg j sp HR Hun.
  Let extract_refines' := extract_refines unames msem dotsem callsem awaitsem cfg j sp HR Hun.
  Let final_tuple_sem' := final_tuple_sem unames msem dotsem callsem awaitsem cfg j sp HR.
  Let fail_check_sem' := fail_check_sem unames msem dotsem callsem awaitsem cfg j sp HR Hun.
  Let transposer_sem' := transposer_sem unames msem dotsem callsem awaitsem cfg j sp HR Hun.
  Let rewrap_sem' := rewrap_sem unames msem dotsem callsem awaitsem cfg j sp HR.
  Let Inv_upd_list_temp' := Inv_upd_list_temp unames msem dotsem callsem awaitsem cfg j sp HR Hun.

  (* `f(args)` with a user expression as callee *)
  Lemma den_RCall_user o args ρ :
    D (RCall (RUser o) args) ρ = let! df := D (RUser o) ρ in let! ds := dens ρ args in app_d df ds.
  Proof. reflexivity. Qed.

  (* ---------------------------------------------------------------------------------------- *)
  (* the step statement list, every option setting                                            *)
  (* ---------------------------------------------------------------------------------------- *)

  (* the right-hand side of `let __srK = ..;` *)
  Definition step_rhs_sync (k : nat) (cs : list rexpr) : rexpr :=
    if Nat.ltb 1 (active_count j k)
    then match j_joiner j with Some jt => RCall (RUser jt) cs | None => RTuple cs end
    else RTuple cs.
  Definition step_rhs_async (k : nat) (cs : list rexpr) : rexpr :=
    if Nat.ltb 1 (active_count j k)
    then RCall (match j_joiner j with
                | Some jt => RUser jt
                | None => RJoinMac (opt_default (j_fcp j) []) (is_try cfg) end) cs
    else RAwait (match cs with [c] => c | _ => RJuxt cs end).

  Lemma gen_step_chains k sr step : gen_step j k vars sr = Ok step ->
    exists cs, gen_branches j k vars 0 (j_chains j)
               = Ok (flat_map (fun b => nodes_defs b (tree sp b k)) (actives sp k), cs) /\
               Forall2 (chain_of k) cs (actives sp k).
  Proof.
    intros Hg. unfold gen_step in Hg.
    destruct (gen_branches j k vars 0 (j_chains j)) as [[defs cs]| |] eqn:Eb; cbn [rbind] in Hg; try discriminate.
    destruct (gen_branches_spec j k _ _ _ _ _ (r_chains _ _ _ HR) Eb)
      as [Hd Hc].
    rewrite (rel_spec_branches sp k) in Hd, Hc. rewrite flat_map_map in Hd. cbn [fst snd] in Hd.
    apply Forall2_map_r in Hc.
    exists cs. split; [rewrite Hd; reflexivity|].
    eapply Forall2_impl; [|exact Hc]. cbn beta. intros c b (c0 & E & Hr). cbn [fst snd] in *.
    exists c0, (nodes_defs b (tree sp b k)). split; assumption.
  Qed.

  Lemma gen_step_sync_shape k sr step :
    is_async cfg = false -> gen_step j k vars sr = Ok step ->
    exists cs, Forall2 (chain_of k) cs (actives sp k) /\
      step = fst (thread_builders j k sr) ++ flat_map (fun b => nodes_defs b (tree sp b k)) (actives sp k)
             ++ [SLet (PIdent sr) (step_rhs_sync k cs)] ++ snd (thread_builders j k sr).
  Proof.
    intros Ha Hg. destruct (gen_step_chains k sr step Hg) as (cs & Eb & Hcs).
    unfold gen_step in Hg. rewrite Eb in Hg. cbn [rbind] in Hg.
    rewrite (r_cfg_j _ _ _ HR), Ha in Hg.
    exists cs. split; [exact Hcs|]. unfold step_rhs_sync.
    destruct (thread_builders j k sr) as [tbs sjs]. cbn [fst snd].
    destruct (Nat.ltb 1 (active_count j k)); [destruct (j_joiner j)|]; inversion Hg; reflexivity.
  Qed.

  Lemma gen_step_async_shape k sr step :
    is_async cfg = true -> gen_step j k vars sr = Ok step ->
    exists cs, Forall2 (chain_of k) cs (actives sp k) /\
      step = flat_map (fun b => nodes_defs b (tree sp b k)) (actives sp k)
             ++ [SLet (PIdent sr) (step_rhs_async k cs)].
  Proof.
    intros Ha Hg. destruct (gen_step_chains k sr step Hg) as (cs & Eb & Hcs).
    unfold gen_step in Hg. rewrite Eb in Hg. cbn [rbind] in Hg.
    rewrite (r_cfg_j _ _ _ HR), Ha in Hg.
    exists cs. split; [exact Hcs|]. unfold step_rhs_async.
    destruct (Nat.ltb 1 (active_count j k)); [destruct (j_joiner j)|]; inversion Hg; reflexivity.
  Qed.

  (* ---- wrap_branch, by cases ---- *)
  Definition lazy_wrap (c : rexpr) : rexpr := if j_lazy j then RMoveThunk c else c.

  Lemma wrap_single k b c : Nat.ltb 1 (active_count j k) = false -> wrap_branch j k b c = c.
  Proof. intros Hm. unfold wrap_branch. rewrite Hm. reflexivity. Qed.

  Lemma wrap_multi k b c : Nat.ltb 1 (active_count j k) = true ->
    wrap_branch j k b c =
    if is_spawn cfg then
      if is_async cfg then RBlock [] (RCall (RVar n_spawn_tokio) [RBoxPin (lazy_wrap c)])
      else RBlock [] (RGlue (RGlue (RVar (n_j b)) "spawn" [lazy_wrap c]) "unwrap" [])
    else lazy_wrap c.
  Proof. intros Hm. unfold wrap_branch, lazy_wrap. rewrite Hm, (r_cfg_j _ _ _ HR). reflexivity. Qed.

  (* what a branch hands over in a step with several active branches: its chain, or the thunk of its chain *)
  Lemma branch_arg_sem k ρ st cp b ds c0 :
    Inv ρ st -> In b (actives sp k) -> map fst cp = step_keys k (actives sp k) ->
    render_nodes (j_cfg j) b (tree sp b k) ([], wrap_into_block j (RVar (nth b vars ""))) = Ok (ds, c0) ->
    D (lazy_wrap c0) (ext_env ρ cp) = branch_arg (snap_of sp st) cp k st b.
  Proof.
    intros HI Hb Hk Hr. unfold lazy_wrap, SpecOpts.branch_arg. cbn [so_lazy opts_of].
    pose proof (chain_in_step' k ρ st cp b ds c0 HI Hb Hk Hr) as Hc.
    destruct (j_lazy j).
    - rewrite den_RMoveThunk, Hc. reflexivity.
    - exact Hc.
  Qed.

  (* the joiner expression sees the same snapshot as everything else in the step *)
  Lemma eval_joiner_sem ρ st cp jt : Inv ρ st -> j_joiner j = Some jt ->
    forall A (K : dval -> comp A) (K2 : option dval -> comp A),
      (forall v, K (DV v) = K2 (Some (DV v))) ->
      bind (D (RUser jt) (ext_env ρ cp)) K = bind (eval_joiner so (snap_of sp st)) K2.
  Proof.
    intros HI Hj A K K2 HK. unfold eval_joiner. cbn [so_joiner opts_of]. rewrite Hj.
    rewrite den_RUser, (snap_ext_env unames Huser), (snap_inv' ρ st HI).
    cbn [bind]. apply Vis_ext. intros v. apply HK.
  Qed.

  Lemma eval_joiner_none st : j_joiner j = None ->
    forall A (K2 : option dval -> comp A), bind (eval_joiner so (snap_of sp st)) K2 = K2 None.
  Proof. intros Hj A K2. unfold eval_joiner. cbn [so_joiner opts_of]. rewrite Hj. reflexivity. Qed.

  (* ---------------------------------------------------------------------------------------- *)
  (* one step, sequential form: not (spawn and several active branches)                        *)
  (* ---------------------------------------------------------------------------------------- *)

  Definition step_hyp_opts : Prop :=
    forall k ρ st step, Inv ρ st -> k < j_max j -> gen_step j k vars (n_sr k) = Ok step ->
    forall A (K : env -> comp A) (K' : dval -> comp A),
      (forall ρ' srv, Inv ρ' st -> ρ' (n_sr k) = Some srv -> K ρ' = K' srv) ->
      bind (execs step ρ) K = bind (step_result_opts k st) K'.

  Lemma two_shape {T U} (l : list T) (x : T -> U) (y : U) : 2 <= List.length l ->
    match l with [e] => x e | _ => y end = y.
  Proof. destruct l as [|a [|b r]]; cbn; intros; try lia; reflexivity. Qed.

  Lemma step_opts_plain k ρ st step :
    is_async cfg = false -> is_spawn cfg && Nat.ltb 1 (active_count j k) = false ->
    Inv ρ st -> k < j_max j -> gen_step j k vars (n_sr k) = Ok step ->
    forall A (K : env -> comp A) (K' : dval -> comp A),
      (forall ρ' srv, Inv ρ' st -> ρ' (n_sr k) = Some srv -> K ρ' = K' srv) ->
      bind (execs step ρ) K = bind (step_result_opts k st) K'.
  Proof.
    intros Ha Hs HI Hk Hg A K K' HK.
    destruct (gen_step_sync_shape k (n_sr k) step Ha Hg) as (cs & Hcs & ->).
    rewrite (plain_builders cfg j sp HR k _ Ha Hs). cbn [fst snd app].
    rewrite execs_app, execs_step_defs'. nb.
    unfold SpecOpts.step_result_opts. rewrite (r_cfg_sp _ _ _ HR), Ha.
    rewrite <- (rel_active_count _ _ _ HR), Hs.
    rewrite <- (snap_inv' ρ st HI). nb.
    eapply bind_ext_leaves; [apply captures_keys|]. intros cp Hkeys. nb.
    cbn [execs]. rewrite exec_SLet_ident. nb.
    pose proof (rel_actives_nonempty _ _ _ HR k Hk) as Hne.
    assert (HI' : Inv (ext_env ρ cp) st) by (apply Inv_ext_env'; exact HI).
    assert (HKsr : forall d, K (upd (ext_env ρ cp) (n_sr k) d) = K' d).
    { intros d. apply HK; [apply Inv_upd_temp'; [exact HI'|apply temp_sr]|apply upd_same]. }
    pose proof (Forall2_length' _ _ _ Hcs) as Hlen.
    unfold step_rhs_sync.
    destruct (Nat.ltb 1 (active_count j k)) eqn:Hm.
    - (* several active branches (so: not a thread kind) *)
      rewrite andb_true_r in Hs.
      assert (Hchain : Forall2 (fun c b => D c (ext_env ρ cp) = branch_arg (snapρ ρ) cp k st b) cs (actives sp k)).
      { eapply Forall2_impl_in; [exact Hcs|]. intros c b Hb (c0 & ds & Ec & Hr).
        rewrite Ec, (wrap_multi k b c0 Hm), Hs.
        rewrite (snap_inv' ρ st HI).
        eapply branch_arg_sem; eauto. }
      assert (H2 : 2 <= List.length cs).
      { rewrite Hlen, <- (rel_active_count _ _ _ HR). apply Nat.ltb_lt in Hm. lia. }
      destruct (j_joiner j) as [jt|] eqn:Ej.
      + rewrite den_RCall_user. nb. rewrite (snap_inv' ρ st HI).
        apply (eval_joiner_sem ρ st cp jt HI Ej). intros v. nb.
        rewrite dens_mapM, (mapM_Forall2 _ _ _ _ Hchain), (snap_inv' ρ st HI).
        apply bind_ext. intros ds. apply bind_ext. intros d. apply HKsr.
      + rewrite (snap_inv' ρ st HI), (eval_joiner_none st Ej), <- (snap_inv' ρ st HI). nb.
        rewrite den_RTuple, (two_shape cs _ _ H2). nb.
        rewrite dens_mapM, (mapM_Forall2 _ _ _ _ Hchain).
        apply bind_ext. intros ds. unfold vals_tuple. destruct (all_vals ds) as [vs|]; nb; [|reflexivity].
        apply HKsr.
    - (* one active branch: the options play no role *)
      assert (Hl1 : List.length (actives sp k) <= 1).
      { rewrite <- (rel_active_count _ _ _ HR). apply Nat.ltb_ge in Hm. lia. }
      destruct (actives sp k) as [|b [|b2 r]] eqn:Eacts; [congruence| |cbn in Hl1; lia].
      inversion Hcs as [|c ? cs' ? (c0 & ds & Ec & Hr) Hrest]; subst. inversion Hrest; subst.
      rewrite den_RTuple, (wrap_single k b c0 Hm).
      assert (Hb : In b (actives sp k)) by (rewrite Eacts; left; reflexivity).
      pose proof (chain_in_step' k ρ st cp b ds c0 HI Hb) as Hc.
      rewrite Eacts in Hc. specialize (Hc Hkeys Hr).
      rewrite Hc, (snap_inv' ρ st HI).
      apply bind_ext. intros d. apply HKsr.
  Qed.

  (* ---------------------------------------------------------------------------------------- *)
  (* one step, thread kinds with several active branches                                       *)
  (* ---------------------------------------------------------------------------------------- *)

  (* `let __srK = (__srK.0.join().unwrap(), ..);` - whatever __srK holds (the tuple of handles the macro
     built, or the joiner's output) *)
  Lemma join_handles_sem k ρ st hs : Inv ρ st -> 2 <= List.length (actives sp k) ->
    forall A (K : env -> comp A) (K' : dval -> comp A),
      (forall ρ' srv, Inv ρ' st -> ρ' (n_sr k) = Some srv -> K ρ' = K' srv) ->
      bind (X (SLet (PIdent (n_sr k))
                    (RTuple (map (fun ib : nat * nat => RGlue (RGlue (RField (RVar (n_sr k)) (fst ib)) "join" []) "unwrap" [])
                                 (enum_from 0 (actives sp k))))) (upd ρ (n_sr k) hs)) K
      = bind (join_handles (List.length (actives sp k)) hs) K'.
  Proof.
    intros HI H2 A K K' HK. set (acts := actives sp k) in *.
    rewrite exec_SLet_ident, den_RTuple. nb.
    rewrite two_shape by (rewrite map_length, enum_from_length; exact H2).
    rewrite dens_mapM, mapM_map. nb.
    set (ρ3 := upd ρ (n_sr k) hs).
    set (G := fun i : nat => match hs with
                             | DV (VTuple l) => match nth_error l i with Some v => join_unwrap v | None => Panic P_ILLTYPED end
                             | _ => Panic P_ILLTYPED end).
    assert (Hju : forall ib : nat * nat,
               D (RGlue (RGlue (RField (RVar (n_sr k)) (fst ib)) "join" []) "unwrap" []) ρ3 = G (fst ib)).
    { intros ib. rewrite !den_RGlue, den_RField, den_RVar. unfold ρ3. rewrite upd_same. nb. unfold G.
      destruct hs as [[]| | | | | |]; nb; try reflexivity.
      destruct (nth_error vs (fst ib)) as [v|]; nb; [|reflexivity].
      rewrite !dens_nil. nb. unfold join_unwrap. destruct v; reflexivity. }
    rewrite (mapM_ext_in _ _ _ (fun ib _ => Hju ib)).
    rewrite <- (mapM_map G fst), enum_from_fst.
    assert (HG : forall i, leaves is_DV (G i)).
    { intros i. unfold G. destruct hs as [[]| | | | | |]; try apply L_Panic.
      destruct (nth_error vs i); [apply join_unwrap_DV|apply L_Panic]. }
    rewrite (mapM_to_val' G (fun vs => Ret (DV (VTuple vs))) _ (seq 0 (List.length acts)) HG).
    unfold join_handles. nb.
    assert (HGv : forall i, bind (G i) to_val =
              match hs with
              | DV (VTuple l) =>
                  match nth_error l i with
                  | Some (VHandle h) => let! r := std_join h in let! u := std_unwrap r in to_val u
                  | _ => Panic P_ILLTYPED
                  end
              | _ => Panic P_ILLTYPED
              end).
    { intros i. unfold G. destruct hs as [[]| | | | | |]; nb; try reflexivity.
      destruct (nth_error vs i) as [v|]; nb; [|reflexivity]. unfold join_unwrap. destruct v; nb; reflexivity. }
    rewrite (mapM_ext_in _ _ _ (fun i _ => HGv i)).
    apply bind_ext. intros vs. nb.
    apply HK; [|apply upd_same].
    apply Inv_upd_temp'; [|apply temp_sr]. apply Inv_upd_temp'; [exact HI|apply temp_sr].
  Qed.

  Lemma step_opts_spawn k ρ st step :
    is_async cfg = false -> is_spawn cfg && Nat.ltb 1 (active_count j k) = true ->
    Inv ρ st -> k < j_max j -> gen_step j k vars (n_sr k) = Ok step ->
    forall A (K : env -> comp A) (K' : dval -> comp A),
      (forall ρ' srv, Inv ρ' st -> ρ' (n_sr k) = Some srv -> K ρ' = K' srv) ->
      bind (execs step ρ) K = bind (step_result_opts k st) K'.
  Proof.
    intros Ha Hs HI Hk Hg A K K' HK.
    destruct (gen_step_sync_shape k (n_sr k) step Ha Hg) as (cs & Hcs & ->).
    rewrite (spawn_builders cfg j sp HR k _ Ha Hs). cbn [fst snd].
    apply andb_prop in Hs as Hs'. destruct Hs' as [Hsp Hmulti].
    unfold SpecOpts.step_result_opts. rewrite (r_cfg_sp _ _ _ HR), Ha.
    rewrite <- (rel_active_count _ _ _ HR), Hs. rewrite (rel_active_count _ _ _ HR).
    assert (Hacts2 : 2 <= List.length (actives sp k)).
    { rewrite <- (rel_active_count _ _ _ HR). apply Nat.ltb_lt in Hmulti. lia. }
    set (acts := actives sp k) in *.
    rewrite execs_app, (execs_tbs unames msem dotsem callsem awaitsem acts ρ (inv_tb _ _ _ _ _ _ _ _ _ HI Hsp Ha)). nb.
    eapply bind_ext_leaves.
    { apply leaves_and; [apply leaves_mapM_length|apply (leaves_mapM is_builder)].
      intros b _. apply thread_builder_leaves. }
    intros bs [Hbl Hbb]. nb.
    set (ρ1 := upd_list ρ (map n_j acts) bs).
    assert (HI1 : Inv ρ1 st).
    { apply Inv_upd_list_temp'; [exact HI|]. intros x Hx. apply in_map_iff in Hx. destruct Hx as (b & <- & _). apply temp_j. }
    rewrite execs_app, execs_step_defs'. nb. rewrite (snap_inv' ρ1 st HI1).
    eapply bind_ext_leaves; [apply captures_keys|]. intros cp Hkeys. nb.
    set (ρ2 := ext_env ρ1 cp).
    assert (HI2 : Inv ρ2 st) by (apply Inv_ext_env'; exact HI1).
    rewrite execs_app. cbn [execs]. rewrite exec_SLet_ident. nb.
    unfold step_rhs_sync. rewrite Hmulti.
    (* the spawned handles *)
    set (F := fun nb : dval * nat =>
                let! a := branch_arg (snap_of sp st) cp k st (snd nb) in spawn_thread (fst nb) a).
    assert (Hnd : NoDup (map n_j acts)).
    { apply NoDup_map_inj; [intros a b; apply n_j_inj|apply rel_actives_nodup]. }
    assert (Hspawn : Forall2 (fun c nb => D c ρ2 = F nb) cs (combine bs acts)).
    { pose proof (upd_list_Forall2 (map n_j acts) bs ρ Hnd) as Hb.
      rewrite map_length in Hb. specialize (Hb Hbl). apply Forall2_map_l' in Hb.
      pose proof (Forall2_combine _ _ _ _ _ Hcs Hb) as Hc.
      eapply Forall2_impl_in; [exact Hc|]. cbn beta. intros c [bd b] Hin [(c0 & ds & Ec & Hr) Hbd]. cbn [fst snd] in *.
      assert (Hb_in : In b acts) by (apply in_combine_r in Hin; exact Hin).
      assert (Hbd_b : is_builder bd).
      { apply in_combine_l in Hin. rewrite Forall_forall in Hbb. apply Hbb. exact Hin. }
      destruct bd as [| | | |name| |]; try contradiction.
      rewrite Ec, (wrap_multi k b c0 Hmulti), Hsp, Ha.
      rewrite den_RBlock. cbn [execs]. nb. rewrite !den_RGlue, den_RVar.
      unfold ρ2. rewrite ext_env_not_ew by (intros b' e i; rewrite n_j_g, n_ew_g; apply gname_neq; discriminate).
      fold ρ1. unfold ρ1 at 1. rewrite Hbd. nb.
      rewrite dens_cons, (branch_arg_sem k ρ1 st cp b ds c0 HI1 Hb_in Hkeys Hr), !dens_nil. nb.
      unfold F. cbn [fst snd]. apply bind_ext. intros a. nb. unfold spawn_thread.
      destruct a; reflexivity. }
    assert (Hlen_cs : List.length cs = List.length acts) by (apply (Forall2_length' _ _ _ Hcs)).
    assert (Hcs2 : 2 <= List.length cs) by lia.
    destruct (j_joiner j) as [jt|] eqn:Ej.
    - rewrite den_RCall_user. nb.
      apply (eval_joiner_sem ρ1 st cp jt HI1 Ej). intros v. nb.
      fold ρ2. rewrite dens_mapM, (mapM_Forall2 _ _ _ _ Hspawn).
      apply bind_ext. intros handles. nb. apply bind_ext. intros hs. nb.
      apply (join_handles_sem k ρ2 st hs HI2 Hacts2). exact HK.
    - rewrite (eval_joiner_none st Ej).
      rewrite den_RTuple, (two_shape cs _ _ Hcs2). nb.
      rewrite dens_mapM, (mapM_Forall2 _ _ _ _ Hspawn).
      apply bind_ext. intros handles. unfold vals_tuple. destruct (all_vals handles) as [hs|]; nb; [|reflexivity].
      apply (join_handles_sem k ρ2 st (DV (VTuple hs)) HI2 Hacts2). exact HK.
  Qed.

  (* every sync kind *)
  Theorem step_opts_sync : is_async cfg = false -> step_hyp_opts.
  Proof.
    intros Ha k ρ st step HI Hk Hg A K K' HK.
    destruct (is_spawn cfg && Nat.ltb 1 (active_count j k)) eqn:Hs.
    - eapply step_opts_spawn; eauto.
    - eapply step_opts_plain; eauto.
  Qed.

  (* ---------------------------------------------------------------------------------------- *)
  (* one step, async kinds                                                                     *)
  (* ---------------------------------------------------------------------------------------- *)

  Theorem step_opts_async : is_async cfg = true -> step_hyp_opts.
  Proof.
    intros Ha k ρ st step HI Hk Hg A K K' HK.
    destruct (gen_step_async_shape k (n_sr k) step Ha Hg) as (cs & Hcs & ->).
    rewrite execs_app, execs_step_defs'. nb.
    unfold SpecOpts.step_result_opts. rewrite (r_cfg_sp _ _ _ HR), Ha.
    rewrite <- (rel_active_count _ _ _ HR), <- (snap_inv' ρ st HI). nb.
    eapply bind_ext_leaves; [apply captures_keys|]. intros cp Hkeys. nb.
    cbn [execs]. rewrite exec_SLet_ident. nb.
    pose proof (rel_actives_nonempty _ _ _ HR k Hk) as Hne.
    assert (HI' : Inv (ext_env ρ cp) st) by (apply Inv_ext_env'; exact HI).
    assert (HKsr : forall d, K (upd (ext_env ρ cp) (n_sr k) d) = K' d).
    { intros d. apply HK; [apply Inv_upd_temp'; [exact HI'|apply temp_sr]|apply upd_same]. }
    unfold step_rhs_async.
    destruct (Nat.ltb 1 (active_count j k)) eqn:Hm.
    - (* several active branches: the joiner, or join! / try_join! *)
      set (G := fun b => let! d := branch_arg (snapρ ρ) cp k st b in
                         if is_spawn cfg then spawn_task d else Ret d).
      assert (Hchain : Forall2 (fun c b => D c (ext_env ρ cp) = G b) cs (actives sp k)).
      { eapply Forall2_impl_in; [exact Hcs|]. intros c b Hb (c0 & ds & Ec & Hr).
        rewrite Ec, (wrap_multi k b c0 Hm), Ha. unfold G.
        pose proof (branch_arg_sem k ρ st cp b ds c0 HI Hb Hkeys Hr) as Hc. rewrite <- (snap_inv' ρ st HI) in Hc.
        destruct (is_spawn cfg) eqn:Hsp.
        - rewrite den_RBlock. cbn [execs]. nb. rewrite den_RCall_var, den_RVar.
          rewrite (inv_tokio _ _ _ _ _ _ _ _ _ HI' Hsp Ha). nb. rewrite dens_cons, den_RBoxPin, Hc, dens_nil. nb.
          apply bind_ext. intros d. nb. destruct d; reflexivity.
        - rewrite Hc. symmetry. apply bind_ret_r. }
      destruct (j_joiner j) as [jt|] eqn:Ej.
      + rewrite den_RCall_user. nb. rewrite (snap_inv' ρ st HI).
        apply (eval_joiner_sem ρ st cp jt HI Ej). intros v. nb.
        rewrite dens_mapM, (mapM_Forall2 _ _ _ _ Hchain). unfold G. rewrite (snap_inv' ρ st HI).
        apply bind_ext. intros futs. apply bind_ext. intros d. apply HKsr.
      + rewrite (snap_inv' ρ st HI), (eval_joiner_none st Ej).
        rewrite den_RCall_mac, dens_mapM, (mapM_Forall2 _ _ _ _ Hchain). nb.
        apply bind_ext. intros futs. nb. apply bind_ext. intros v. nb. apply HKsr.
    - (* one active branch: awaited in place; the options play no role *)
      assert (Hlen : List.length (actives sp k) <= 1).
      { rewrite <- (rel_active_count _ _ _ HR). apply Nat.ltb_ge in Hm. lia. }
      destruct (actives sp k) as [|b [|b2 r]] eqn:Eacts; [congruence| |cbn in Hlen; lia].
      inversion Hcs as [|c ? cs' ? (c0 & ds & Ec & Hr) Hrest]; subst. inversion Hrest; subst.
      rewrite den_RAwait, (wrap_single k b c0 Hm).
      assert (Hb : In b (actives sp k)) by (rewrite Eacts; left; reflexivity).
      pose proof (chain_in_step' k ρ st cp b ds c0 HI Hb) as Hc. rewrite Eacts in Hc. specialize (Hc Hkeys Hr).
      rewrite Hc, (snap_inv' ρ st HI). nb. apply bind_ext. intros d. nb. apply bind_ext. intros v. nb. apply HKsr.
  Qed.

  (* every kind, every option setting *)
  Theorem step_opts_all : step_hyp_opts.
  Proof.
    assert (H : {is_async cfg = true} + {is_async cfg = false}) by (destruct (is_async cfg); auto).
    destruct H as [Ha|Ha]; [apply step_opts_async|apply step_opts_sync]; exact Ha.
  Qed.

  (* ---------------------------------------------------------------------------------------- *)
  (* the steps: non-try kinds (transpose_results plays no role)                                *)
  (* ---------------------------------------------------------------------------------------- *)

  Theorem steps_opts_nontry : step_hyp_opts -> is_try cfg = false ->
    forall fuel k ss e, gen_steps j pats vars k fuel = Ok (Some (ss, e)) -> k + fuel = j_max j ->
    forall ρ st, Inv ρ st -> D (RBlock ss e) ρ = steps_opts fuel k st.
  Proof.
    intros Hstep Ht. induction fuel as [|f IH]; intros k ss e Hg Hk ρ st HI; [discriminate|].
    cbn [gen_steps] in Hg.
    destruct (gen_steps j pats vars (S k) f) as [next| |] eqn:En; cbn [rbind] in Hg; try discriminate.
    destruct (gen_step j k vars (n_sr k)) as [step| |] eqn:Es; cbn [rbind] in Hg; try discriminate.
    destruct (join_steps j k step next pats vars (n_sr k)) as [body| |] eqn:Ej; cbn [rbind] in Hg; try discriminate.
    inversion Hg; subst body; clear Hg.
    apply (join_steps_nontry cfg j sp HR _ _ _ _ Ht) in Ej.
    cbn [SpecOpts.steps_opts]. rewrite (r_cfg_sp _ _ _ HR), Ht. cbn [negb].
    assert (Hkm : k < j_max j) by lia.
    destruct f as [|f'].
    - (* last step *)
      cbn in En. inversion En; subst next. inversion Ej; subst ss e.
      rewrite den_RBlock, execs_app. nb. cbn [Nat.eqb].
      apply (Hstep k ρ st step HI Hkm Es). intros ρ1 srv HI1 Hsr.
      cbn [execs]. nb.
      apply (extract_refines' k ρ1 st srv HI1 Hsr Hkm). intros ρ2 ds HI2 _.
      apply final_tuple_sem'. exact HI2.
    - destruct (gen_steps_some _ _ _ _ En) as ([nss ne] & ->). inversion Ej; subst ss e.
      rewrite den_RBlock, !execs_app. nb. cbn [Nat.eqb].
      apply (Hstep k ρ st step HI Hkm Es). intros ρ1 srv HI1 Hsr.
      cbn [execs]. nb.
      apply (extract_refines' k ρ1 st srv HI1 Hsr Hkm). intros ρ2 ds HI2 _.
      rewrite <- den_RBlock. apply (IH (S k) nss ne En); [lia|exact HI2].
  Qed.

  (* ---------------------------------------------------------------------------------------- *)
  (* the steps: try kinds, transpose_results(true) - sync or async                             *)
  (* ---------------------------------------------------------------------------------------- *)

  Lemma join_steps_try_T k step next body :
    is_try cfg = true -> j_transpose j = true -> join_steps j k step next pats vars (n_sr k) = Ok body ->
    if Nat.ltb k (j_max j - 1) then
      exists nss ne, next = Some (nss, ne) /\
        body = (step ++ [extract_step j (n_sr k) pats k],
                RIfLetSome n_fail_index
                  (RGlue (RGlue (RArray (map (fun iv : nat * string => is_succ (snd iv))
                                             (map (fun b => (b, bname b)) (actives sp k)))) "iter" [])
                         "position" [RClosure n_v (RNot (RVar n_v))])
                  (RBlock [] (RMatchIdx (RVar n_fail_index)
                     (map (fun nv : nat * (nat * string) =>
                             (fst nv, RGlue (RVar (snd (snd nv))) "map" [RClosureIgn RUnreachable]))
                          (enum_from 0 (map (fun b => (b, bname b)) (actives sp k))))))
                  (RBlock nss ne))
    else exists t, transposer vars (tuple_of vars) = Some t /\
                   body = (step ++ [extract_step j (n_sr k) pats k], t).
  Proof.
    intros Ht HT. unfold join_steps. rewrite (r_cfg_j _ _ _ HR), Ht, HT. cbn [andb].
    destruct (Nat.ltb k (j_max j - 1)).
    - destruct next as [[nss ne]|]; [|discriminate]. intros H; inversion H; subst body. exists nss, ne.
      split; [reflexivity|]. unfold RefineSteps.vars. rewrite enum_filter_pairs, (rel_actives _ _ _ HR). reflexivity.
    - destruct (transposer vars (tuple_of vars)) as [t|]; [|discriminate]. intros H; inversion H. eauto.
  Qed.

  Theorem steps_opts_try_T : step_hyp_opts -> is_try cfg = true -> j_transpose j = true ->
    forall fuel k ss e, gen_steps j pats vars k fuel = Ok (Some (ss, e)) -> k + fuel = j_max j ->
    forall ρ st, Inv ρ st -> D (RBlock ss e) ρ = steps_opts fuel k st.
  Proof.
    intros Hstep Ht HT. induction fuel as [|f IH]; intros k ss e Hg Hk ρ st HI; [discriminate|].
    cbn [gen_steps] in Hg.
    destruct (gen_steps j pats vars (S k) f) as [next| |] eqn:En; cbn [rbind] in Hg; try discriminate.
    destruct (gen_step j k vars (n_sr k)) as [step| |] eqn:Es; cbn [rbind] in Hg; try discriminate.
    destruct (join_steps j k step next pats vars (n_sr k)) as [body| |] eqn:Ej; cbn [rbind] in Hg; try discriminate.
    inversion Hg; subst body; clear Hg.
    apply (join_steps_try_T _ _ _ _ Ht HT) in Ej.
    cbn [SpecOpts.steps_opts]. rewrite (r_cfg_sp _ _ _ HR), Ht. cbn [negb so_transpose opts_of]. rewrite HT.
    assert (Hkm : k < j_max j) by lia.
    destruct f as [|f'].
    - (* last step: the transposer *)
      replace (Nat.ltb k (j_max j - 1)) with false in Ej by (symmetry; apply Nat.ltb_ge; lia).
      destruct Ej as (t & Etr & Eb). inversion Eb; subst ss e.
      rewrite den_RBlock, execs_app. nb. cbn [Nat.eqb].
      apply (Hstep k ρ st step HI Hkm Es). intros ρ1 srv HI1 Hsr.
      cbn [execs]. nb.
      apply (extract_refines' k ρ1 st srv HI1 Hsr Hkm). intros ρ2 ds HI2 _.
      rewrite (rel_n_trees _ _ _ HR).
      apply (transposer_sem' (tuple_of vars) final_tuple_sem' (seq 0 n) t Etr); [|exact HI2].
      intros b Hb. apply in_seq in Hb. lia.
    - replace (Nat.ltb k (j_max j - 1)) with true in Ej by (symmetry; apply Nat.ltb_lt; lia).
      destruct Ej as (nss & ne & -> & Eb). inversion Eb; subst ss e.
      rewrite den_RBlock, execs_app. nb. cbn [Nat.eqb].
      apply (Hstep k ρ st step HI Hkm Es). intros ρ1 srv HI1 Hsr.
      cbn [execs]. nb.
      apply (extract_refines' k ρ1 st srv HI1 Hsr Hkm). intros ρ2 ds HI2 Hlen.
      nb. rewrite fail_check_sem' with (ds := ds).
      + apply bind_ext. intros oks. destruct (first_false oks ds); [reflexivity|].
        apply (IH (S k) nss ne En); [lia|exact HI2].
      + pose proof (set_all_nth (actives sp k) ds st (rel_actives_nodup sp k) Hlen) as HF.
        eapply Forall2_impl_in_l; [apply HF|].
        * intros b Hb. rewrite (inv_len _ _ _ _ _ _ _ _ _ HI). apply (rel_actives_lt _ _ _ HR k b Hb).
        * cbn beta. intros b d Hb Hn. rewrite <- Hn. apply (inv_names _ _ _ _ _ _ _ _ _ HI2).
          apply (rel_actives_lt _ _ _ HR k b Hb).
  Qed.

  (* ---------------------------------------------------------------------------------------- *)
  (* the steps: try kinds, transpose_results(false) - sync or async                            *)
  (* ---------------------------------------------------------------------------------------- *)

  Lemma join_steps_try_NT k step next body :
    is_try cfg = true -> j_transpose j = false -> join_steps j k step next pats vars (n_sr k) = Ok body ->
    if Nat.ltb k (j_max j - 1) then
      exists nss ne, next = Some (nss, ne) /\
        body = (step, RMatchOk (RVar (n_sr k)) (n_sr k)
                        (RBlock ((if is_async cfg
                                  then [SLet (PIdent (n_sr k))
                                             (RTuple (map (fun ib : nat * nat => ROk (indexed_sr j (n_sr k) k (fst ib)))
                                                          (enum_from 0 (actives sp k))));
                                        extract_step j (n_sr k) pats k]
                                  else [extract_step j (n_sr k) pats k]) ++ nss) ne))
    else if Nat.ltb 1 n then
      let inactive := filter (fun b => negb (is_active j k b)) (seq 0 n) in
      match inactive with
      | [] => body = (step, RMatchOk (RVar (n_sr k)) (n_sr k)
                              (RBlock [extract_step j (n_sr k) pats k] (ROk (tuple_of vars))))
      | _ => exists t, transposer (map bname inactive) (tuple_of vars) = Some t /\
                       body = (step, RMatchOk (RVar (n_sr k)) (n_sr k) (RBlock [extract_step j (n_sr k) pats k] t))
      end
    else body = (step, RMatchOk (RVar (n_sr k)) n_v (ROk (RTuple [RVar n_v]))).
  Proof.
    intros Ht HT. unfold join_steps. rewrite (r_cfg_j _ _ _ HR), Ht, HT. cbn [andb].
    rewrite (active_branches_eq cfg j sp HR).
    destruct (Nat.ltb k (j_max j - 1)).
    - destruct next as [[nss ne]|]; intros H; [|discriminate H]. inversion H; subst body. exists nss, ne.
      split; [reflexivity|]. destruct (is_async cfg); reflexivity.
    - destruct (Nat.ltb 1 n); [|intros H; inversion H; reflexivity].
      assert (Hres : map snd (filter (fun iv : nat * string => negb (is_active j k (fst iv))) (enum_from 0 vars))
                     = map bname (filter (fun b => negb (is_active j k b)) (seq 0 n))).
      { unfold RefineSteps.vars. apply (enum_filter_map bname (fun b => negb (is_active j k b)) n 0). }
      rewrite Hres. cbv zeta.
      destruct (filter (fun b => negb (is_active j k b)) (seq 0 n)) as [|i0 ir] eqn:Ef.
      + cbn [map]. intros H; inversion H; reflexivity.
      + remember (i0 :: ir) as inact. assert (Hne : map bname inact <> []) by (subst inact; discriminate).
        destruct (map bname inact) as [|x xs] eqn:Em; [congruence|].
        destruct (transposer (x :: xs) (tuple_of vars)) as [t|]; intros H; [|discriminate H].
        inversion H. subst inact. exists t. split; reflexivity.
  Qed.

  Theorem steps_opts_try_NT : step_hyp_opts -> is_try cfg = true -> j_transpose j = false ->
    forall fuel k ss e, gen_steps j pats vars k fuel = Ok (Some (ss, e)) -> k + fuel = j_max j ->
    forall ρ st, Inv ρ st -> D (RBlock ss e) ρ = steps_opts fuel k st.
  Proof.
    intros Hstep Ht HT. induction fuel as [|f IH]; intros k ss e Hg Hk ρ st HI; [discriminate|].
    cbn [gen_steps] in Hg.
    destruct (gen_steps j pats vars (S k) f) as [next| |] eqn:En; cbn [rbind] in Hg; try discriminate.
    destruct (gen_step j k vars (n_sr k)) as [step| |] eqn:Es; cbn [rbind] in Hg; try discriminate.
    destruct (join_steps j k step next pats vars (n_sr k)) as [body| |] eqn:Ej; cbn [rbind] in Hg; try discriminate.
    inversion Hg; subst body; clear Hg.
    apply (join_steps_try_NT _ _ _ _ Ht HT) in Ej.
    cbn [SpecOpts.steps_opts]. rewrite (r_cfg_sp _ _ _ HR), Ht. cbn [negb so_transpose opts_of]. rewrite HT.
    assert (Hkm : k < j_max j) by lia.
    pose proof (rel_actives_nonempty _ _ _ HR k Hkm) as Hne.
    destruct f as [|f'].
    - (* last step *)
      replace (Nat.ltb k (j_max j - 1)) with false in Ej by (symmetry; apply Nat.ltb_ge; lia).
      cbn [Nat.eqb]. rewrite (inactive_eq cfg j sp HR), (rel_n_trees _ _ _ HR).
      destruct (Nat.ltb 1 n) eqn:Hn1.
      + cbv zeta in Ej.
        destruct (filter (fun b => negb (is_active j k b)) (seq 0 n)) as [|i0 ir] eqn:Ef.
        * inversion Ej; subst ss e. rewrite den_RBlock.
          apply (Hstep k ρ st step HI Hkm Es). intros ρ1 srv HI1 Hsr.
          rewrite den_RMatchOk, den_RVar, Hsr. nb.
          destruct srv as [[]| | | | | |]; try reflexivity.
          rewrite den_RBlock. cbn [execs]. nb.
          apply (extract_refines' k (upd ρ1 (n_sr k) (DV v)) st (DV v)
                   (Inv_upd_temp' _ _ _ (DV v) HI1 (temp_sr k)) (upd_same _ _ _) Hkm).
          intros ρ2 ds HI2 _. nb. rewrite den_ROk, (final_tuple_sem' ρ2 _ HI2). reflexivity.
        * destruct Ej as (t & Etr & Eb). inversion Eb; subst ss e. rewrite den_RBlock.
          apply (Hstep k ρ st step HI Hkm Es). intros ρ1 srv HI1 Hsr.
          rewrite den_RMatchOk, den_RVar, Hsr. nb.
          destruct srv as [[]| | | | | |]; try reflexivity.
          rewrite den_RBlock. cbn [execs]. nb.
          apply (extract_refines' k (upd ρ1 (n_sr k) (DV v)) st (DV v)
                   (Inv_upd_temp' _ _ _ (DV v) HI1 (temp_sr k)) (upd_same _ _ _) Hkm).
          intros ρ2 ds HI2 _. nb.
          apply (transposer_sem' (tuple_of vars) final_tuple_sem' (i0 :: ir) t Etr); [|exact HI2].
          intros b Hb. rewrite <- Ef in Hb. apply filter_In in Hb. destruct Hb as [Hb _]. apply in_seq in Hb. lia.
      + inversion Ej; subst ss e. rewrite den_RBlock.
        apply (Hstep k ρ st step HI Hkm Es). intros ρ1 srv HI1 Hsr.
        rewrite den_RMatchOk, den_RVar, Hsr. nb.
        destruct srv as [[]| | | | | |]; reflexivity.
    - replace (Nat.ltb k (j_max j - 1)) with true in Ej by (symmetry; apply Nat.ltb_lt; lia).
      destruct Ej as (nss & ne & -> & Eb). inversion Eb; subst ss e. cbn [Nat.eqb].
      rewrite den_RBlock.
      apply (Hstep k ρ st step HI Hkm Es). intros ρ1 srv HI1 Hsr.
      rewrite den_RMatchOk, den_RVar, Hsr. nb.
      destruct srv as [[]| | | | | |]; try reflexivity.
      set (ρa := upd ρ1 (n_sr k) (DV v)).
      assert (HIa : Inv ρa st) by (apply Inv_upd_temp'; [exact HI1|apply temp_sr]).
      rewrite den_RBlock.
      destruct (is_async cfg) eqn:Ha.
      + (* async: the payloads are re-wrapped in Ok *)
        cbn [app]. rewrite execs_cons, exec_SLet_ident.
        rewrite (rewrap_sem' k ρa v (upd_same _ _ _) Hne). nb.
        eapply bind_ext_leaves; [apply rewrap_DV|]. intros rew Hrew. nb. fold (rewrapped rew).
        rewrite execs_cons. nb.
        apply (extract_refines' k (upd ρa (n_sr k) (rewrapped rew)) st (rewrapped rew)
                 (Inv_upd_temp' _ _ _ (rewrapped rew) HIa (temp_sr k)) (upd_same _ _ _) Hkm).
        intros ρ2 ds HI2 _. nb. rewrite <- den_RBlock.
        apply (IH (S k) nss ne En); [lia|exact HI2].
      + (* sync: the payload is destructured as it is *)
        cbn [app]. rewrite execs_cons. nb.
        apply (extract_refines' k ρa st (DV v) HIa (upd_same _ _ _) Hkm).
        intros ρ2 ds HI2 _. nb. rewrite <- den_RBlock.
        apply (IH (S k) nss ne En); [lia|exact HI2].
  Qed.

  (* every kind, every option setting *)
  Theorem steps_opts_all :
    forall ss e, gen_steps j pats vars 0 (j_max j) = Ok (Some (ss, e)) ->
    forall ρ st, Inv ρ st -> D (RBlock ss e) ρ = steps_opts (j_max j) 0 st.
  Proof.
    intros ss e Hg ρ st HI. pose proof step_opts_all as Hstep.
    assert (Hc : {is_try cfg = true} + {is_try cfg = false}) by (destruct (is_try cfg); auto).
    destruct Hc as [Ht|Ht].
    - assert (Hc : {j_transpose j = true} + {j_transpose j = false}) by (destruct (j_transpose j); auto).
      destruct Hc as [HT|HT].
      + eapply steps_opts_try_T; eauto.
      + eapply steps_opts_try_NT; eauto.
    - eapply steps_opts_nontry; eauto.
  Qed.

  (* the whole macro *)
  Theorem gen_output_opts e : gen_output j = Ok e ->
    D e empty_env = spec_opts msem dotsem callsem awaitsem so sp.
  Proof.
    intros Hg.
    change (spec_opts msem dotsem callsem awaitsem so sp)
      with (spec_with callsem awaitsem sp (steps_opts (max_depth sp) 0)).
    rewrite (rel_max _ _ _ HR).
    assert (Hc : {is_async cfg = true} + {is_async cfg = false}) by (destruct (is_async cfg); auto).
    destruct Hc as [Ha|Ha].
    - apply (gen_output_async_gen unames msem dotsem callsem awaitsem cfg j sp HR Hun _ e Ha); [|exact Hg].
      intros ss se Hgs ρ st HI. apply steps_opts_all; assumption.
    - apply (gen_output_sync_gen unames msem dotsem callsem awaitsem cfg j sp HR Hun _ e Ha); [|exact Hg].
      intros ss se Hgs ρ st HI. apply steps_opts_all; assumption.
  Qed.
End StepsOpts.

(* ------------------------------------------------------------------------------------------ *)
(* THE REFINEMENT THEOREM WITH OPTIONS: all eight kinds, all inputs, every option setting        *)
(* ------------------------------------------------------------------------------------------ *)

Section TopOpts.
  Variable msem : string -> option (list operand) -> dval -> list dval -> comp dval.
  Variable dotsem : operand -> list (string * option val) -> dval -> comp dval.
  Variable callsem : val -> list dval -> comp dval.
  Variable awaitsem : val -> comp val.

  Theorem gen_refines_spec_opts cfg inp e sp :
    wf_opts inp -> gen cfg inp = Ok e -> prepare cfg inp = Some sp ->
    den (user_names inp) msem dotsem callsem awaitsem e empty_env
    = spec_opts msem dotsem callsem awaitsem (resolve cfg inp) sp.
  Proof.
    intros Hwf Hg Hp.
    destruct (gen_inv cfg inp e Hg) as (fcp & j & Hj & Ho & Hpats).
    pose proof (rel_of_gen_opts cfg inp fcp j sp Hwf Hj Hp) as HR.
    assert (Hun : user_names inp = flat_map opt_list (map pat_name (j_pats j))).
    { rewrite Hpats. apply user_names_pats. }
    rewrite <- (opts_of_resolve cfg inp fcp j Hj).
    apply (gen_output_opts (user_names inp) msem dotsem callsem awaitsem cfg j sp HR Hun e Ho).
  Qed.

  (* the old theorem is the instance for the default options *)
  Corollary gen_refines_spec_from_opts cfg inp e sp :
    wf inp -> gen cfg inp = Ok e -> prepare cfg inp = Some sp ->
    den (user_names inp) msem dotsem callsem awaitsem e empty_env = spec msem dotsem callsem awaitsem sp.
  Proof.
    intros Hwf Hg Hp.
    rewrite (gen_refines_spec_opts cfg inp e sp (wf_wf_opts inp Hwf) Hg Hp).
    assert (E : resolve cfg inp = default_opts (sp_cfg sp)).
    { unfold resolve. rewrite (wf_joiner _ Hwf), (wf_lazy _ Hwf), (wf_transpose _ Hwf).
      unfold prepare in Hp. destruct (all_some _) in Hp; [|discriminate]. inversion Hp. reflexivity. }
    rewrite E. apply SpecOptsDefault.spec_opts_default.
  Qed.
End TopOpts.

Print Assumptions gen_refines_spec_opts.
