(* C07, the async pairs at value level: `join_async_spawn!` / `try_join_async_spawn!` denote the SAME computation as
   `join_async!` / `try_join_async!` whenever every branch chain of a multi-branch step yields something `tokio::spawn`
   accepts (a future or a value, not a macro-generated closure / thread builder - the only other `dval`s).
   In Spec.v `tokio::spawn(Box::pin(fut))` is erased to its future (Denote.v does the same: the task IS its future at value
   level); the only trace of `is_spawn` in an async kind is the shape test of the spawned thing.  Poll-level differences
   (tasks make progress without being polled by the root, wake-ups through the JoinHandle) are the subject of Async.v /
   AsyncProps.v, not of this file.
   (The sync pairs are SpecSpawn.spawn_macro_agrees_with_plain: there threads are real and the statement is about every
   schedule of the thread machine.) *)
From Coq Require Import ZArith List FunctionalExtensionality.
From Join Require Import Tok Names Ast Comp Std Denote Spec CompLaws Leaves SpecCode.
Import ListNotations.

(* what `tokio::spawn` / `join!` can be handed *)
Definition fut_or_val (d : dval) : Prop := match d with DFut _ | DV _ => True | _ => False end.

Lemma bind_ext_on_leaves {A B} (c : comp A) (Q : A -> Prop) (f g : A -> comp B) :
  leaves c Q -> (forall x, Q x -> f x = g x) -> bind c f = bind c g.
Proof.
  revert B f g Q.
  induction c as [A a|A n|A e k IH|A name t IHt k IH|A h k IH]; cbn [bind leaves]; intros B f g Q HQ Hfg.
  - apply Hfg, HQ.
  - reflexivity.
  - f_equal. extensionality x. apply (IH x B f g Q); [apply HQ|exact Hfg].
  - f_equal. extensionality x. apply (IH x B f g Q); [apply HQ|exact Hfg].
  - f_equal. extensionality x. apply (IH x B f g Q); [apply HQ|exact Hfg].
Qed.

Section AsyncSpawn.
  Variable msem : string -> option (list operand) -> dval -> list dval -> comp dval.
  Variable dotsem : operand -> list (string * option val) -> dval -> comp dval.
  Variable callsem : val -> list dval -> comp dval.
  Variable awaitsem : val -> comp val.
  Variable p : sprog.
  Hypothesis Hasync : is_async (sp_cfg p) = true.
  (* every chain of the program ends in a future or a value (what a well-typed async branch is) *)
  Hypothesis Hfut : forall sn cp k st b, leaves (chain msem dotsem callsem (with_spawn false p) sn cp k st b) fut_or_val.

  Notation SP := (with_spawn true p).
  Notation PL := (with_spawn false p).

  Lemma async_step_result_spawn_eq k st :
    step_result msem dotsem callsem awaitsem SP k st = step_result msem dotsem callsem awaitsem PL k st.
  Proof.
    unfold step_result. cbn [sp_cfg with_spawn is_async is_spawn is_try]. rewrite Hasync.
    apply bind_ext; intros cp.
    destruct (Nat.ltb 1 (List.length (actives PL k))) eqn:Em.
    - change (actives SP k) with (actives PL k). rewrite Em.
      assert (E : (fun b : nat =>
                     let! d := chain msem dotsem callsem SP (snap_of SP st) cp k st b in
                     match d with DFut _ | DV _ => Ret d | _ => Panic P_ILLTYPED end) =
                  (fun b : nat => let! d := chain msem dotsem callsem PL (snap_of PL st) cp k st b in Ret d)).
      { extensionality b. change (chain msem dotsem callsem SP (snap_of SP st) cp k st b)
          with (chain msem dotsem callsem PL (snap_of PL st) cp k st b).
        eapply bind_ext_on_leaves; [apply Hfut|]. intros d Hd. destruct d; cbn in Hd; try contradiction; reflexivity. }
      rewrite E. reflexivity.
    - change (actives SP k) with (actives PL k). rewrite Em. reflexivity.
  Qed.

  Lemma async_steps_spawn_eq fuel : forall k st,
    steps msem dotsem callsem awaitsem SP fuel k st = steps msem dotsem callsem awaitsem PL fuel k st.
  Proof.
    induction fuel as [|fuel IH]; intros k st; [reflexivity|].
    assert (IHf : steps msem dotsem callsem awaitsem SP fuel = steps msem dotsem callsem awaitsem PL fuel).
    { extensionality k'. extensionality st'. apply IH. }
    cbn [steps]. rewrite async_step_result_spawn_eq. apply bind_ext; intros sr.
    rewrite IHf. reflexivity.
  Qed.

  (* THE ASYNC PAIRS DENOTE THE SAME COMPUTATION *)
  Theorem async_spawn_macro_is_its_plain_counterpart :
    spec msem dotsem callsem awaitsem SP = spec msem dotsem callsem awaitsem PL.
  Proof.
    unfold spec, run_body. cbn [sp_cfg with_spawn is_async is_spawn is_try sp_handler sp_trees]. rewrite Hasync.
    change (max_depth SP) with (max_depth PL).
    rewrite async_steps_spawn_eq. reflexivity.
  Qed.
End AsyncSpawn.
Print Assumptions async_spawn_macro_is_its_plain_counterpart.

(* ------------------------------------------------------------------------------------------ *)
(* The hypothesis is satisfiable, and natural: it holds whenever user code (methods, member     *)
(* access, calls) never hands back a macro-generated closure / builder - for EVERY program.     *)
(* ------------------------------------------------------------------------------------------ *)
Lemma leaves_bind_any {A B} (c : comp A) (f : A -> comp B) (Q : B -> Prop) :
  (forall a, leaves (f a) Q) -> leaves (bind c f) Q.
Proof.
  intros H. apply leaves_bind. eapply leaves_weaken; [|apply leaves_true]. intros a _. apply H.
Qed.

Section Sufficient.
  Variable msem : string -> option (list operand) -> dval -> list dval -> comp dval.
  Variable dotsem : operand -> list (string * option val) -> dval -> comp dval.
  Variable callsem : val -> list dval -> comp dval.
  Hypothesis Hm : forall m t r ds, leaves (msem m t r ds) fut_or_val.
  Hypothesis Hd : forall o sn r, leaves (dotsem o sn r) fut_or_val.
  Hypothesis Hc : forall f ds, leaves (callsem f ds) fut_or_val.

  Definition is_val (d : dval) : Prop := match d with DV _ => True | _ => False end.

  (* the callee of `->` is an evaluated user expression: a value *)
  Lemma leaves_apply_val fv ds : leaves (apply callsem (DV fv) ds) fut_or_val.
  Proof.
    cbn [apply]. destruct (all_vals ds); [cbn; intros; exact I|apply Hc].
  Qed.

  Lemma leaves_eval_args sn cp b e c ops : forall i,
    leaves (eval_args sn cp b e i c ops) (Forall is_val).
  Proof.
    induction ops as [|o r IH]; intros i; cbn [eval_args]; [constructor|].
    apply leaves_bind.
    assert (H1 : leaves (if hoistable c o
                         then match lookup_cap cp (b, e, i) with Some v => Ret (DV v) | None => Panic P_UNBOUND end
                         else Vis (EEval o sn) (fun v => Ret (DV v))) is_val).
    { destruct (hoistable c o); [destruct (lookup_cap cp (b, e, i)); exact I|cbn; intros; exact I]. }
    eapply leaves_weaken; [|exact H1]. intros d Hd'. apply leaves_bind.
    eapply leaves_weaken; [|apply IH]. intros ds Hds. cbn. constructor; assumption.
  Qed.

  Lemma leaves_sem_node_async sn cp b n recv : leaves (sem_node msem dotsem callsem true sn cp b n recv) fut_or_val.
  Proof.
    destruct n as [e a|e a inner]; cbn [sem_node].
    - destruct (a_comb a);
        try (apply leaves_bind_any; intros r; apply leaves_bind_any; intros ds; apply Hm).
      + (* Dot *) destruct (a_ops a) as [|o [|? ?]]; try exact I. apply leaves_bind_any; intros r. apply Hd.
      + (* Inspect *) apply leaves_bind_any; intros r. apply leaves_bind_any; intros ds.
        destruct ds as [|f [|? ?]]; try exact I. apply Hm.
      + (* Then *) apply leaves_bind. eapply leaves_weaken; [|apply leaves_eval_args].
        intros ds Hds. destruct ds as [|f [|? ?]]; try exact I.
        apply leaves_bind_any; intros r. inversion Hds as [|? ? Hf _]; subst.
        destruct f; cbn in Hf; try contradiction. apply leaves_apply_val.
      + (* Initial *) apply leaves_bind. eapply leaves_weaken; [|apply leaves_eval_args].
        intros ds Hds. destruct ds as [|x [|? ?]]; try exact I. inversion Hds as [|? ? Hx _]; subst.
        destruct x; cbn in Hx; try contradiction. exact I.
      + (* UNWRAP *) exact I.
    - destruct (a_comb a); apply leaves_bind_any; intros r; apply Hm.
  Qed.

  Lemma leaves_sem_nodes_async sn cp b ns : forall recv,
    leaves recv fut_or_val -> leaves (sem_nodes msem dotsem callsem true sn cp b ns recv) fut_or_val.
  Proof.
    induction ns as [|x t IH]; intros recv Hr; cbn [sem_nodes]; [exact Hr|].
    apply IH. apply leaves_sem_node_async.
  Qed.

  (* user code that never returns a generated closure: the hypothesis of the theorem holds for every async program *)
  Theorem chains_end_in_futures (p : sprog) :
    is_async (sp_cfg p) = true ->
    forall sn cp k st b, leaves (chain msem dotsem callsem p sn cp k st b) fut_or_val.
  Proof.
    intros Ha sn cp k st b. unfold chain. rewrite Ha. apply leaves_sem_nodes_async.
    unfold start. rewrite Ha. exact I.
  Qed.

  Corollary async_spawn_macro_is_its_plain_counterpart_for_ordinary_user_code awaitsem (p : sprog) :
    is_async (sp_cfg p) = true ->
    spec msem dotsem callsem awaitsem (with_spawn true p) = spec msem dotsem callsem awaitsem (with_spawn false p).
  Proof.
    intros Ha. apply async_spawn_macro_is_its_plain_counterpart; [exact Ha|].
    intros. apply chains_end_in_futures. exact Ha.
  Qed.
End Sufficient.
Print Assumptions async_spawn_macro_is_its_plain_counterpart_for_ordinary_user_code.

(* ------------------------------------------------------------------------------------------ *)
(* Non-vacuity: the concrete world of the correspondence runs (Concrete.v) is such user code.   *)
(* ------------------------------------------------------------------------------------------ *)
From Join Require Import Concrete.

Ltac crunch :=
  repeat first
    [ exact I
    | progress cbn [leaves bind]
    | match goal with
      | |- forall _, _ => intro
      | |- leaves (bind _ _) _ => apply leaves_bind_any; intro
      | |- leaves (match ?x with _ => _ end) _ => destruct x
      | |- leaves (if ?x then _ else _) _ => destruct x
      end ].

Lemma c_msem_fut_or_val m t r ds : leaves (c_msem m t r ds) fut_or_val.
Proof. unfold c_msem. Time crunch. Qed.

Lemma c_dotsem_fut_or_val o sn r : leaves (c_dotsem o sn r) fut_or_val.
Proof. exact I. Qed.

Lemma c_callsem_fut_or_val f ds : leaves (c_callsem f ds) fut_or_val.
Proof. unfold c_callsem. apply leaves_bind_any. intros vs. cbn. intros; exact I. Qed.

Example concrete_world_async_pairs_agree (p : sprog) :
  is_async (sp_cfg p) = true ->
  spec c_msem c_dotsem c_callsem c_await (with_spawn true p) = spec c_msem c_dotsem c_callsem c_await (with_spawn false p).
Proof.
  apply async_spawn_macro_is_its_plain_counterpart_for_ordinary_user_code.
  - apply c_msem_fut_or_val. - apply c_dotsem_fut_or_val. - apply c_callsem_fut_or_val.
Qed.
