(* GenPropsD - C19 `no_hidden_cost_constructs` (and the construct census used by C16 in GenPropsE).
   A traversal collects every cost-relevant construct of an IR term that the GENERATOR put there (user
   operands are opaque `RUser` leaves; the methods the user asked for are `RMeth`, not `RGlue`).  One
   master theorem says, for ALL configurations and ALL inputs on which `gen` succeeds, which constructs
   can occur at all; the C19 statements are its corollaries.  No well-formedness hypothesis. *)
From Coq Require Import Lia.
From Join Require Import Tok Names Ast Ir Gen GenPropsBase GenPropsB.
From Join Require GenPropsA.

(* ---------------------------------------------------------------------------------------------- *)
(** * The census *)

Inductive construct :=
| KBoxPin | KAsyncMove | KAwait | KMoveThunk | KTbFn
| KSpawnTokioFn (path : operand) | KUseFutures (path : operand) | KJoinMac (path : operand) (try : bool)
| KGlue (m : string)
| KIfLetSome | KMatchIdx | KMatchOk | KJuxt.

Fixpoint constructs (e : rexpr) : list construct :=
  let es := fix go (l : list rexpr) : list construct :=
              match l with [] => [] | x :: r => constructs x ++ go r end in
  let ss := fix go (l : list rstmt) : list construct :=
              match l with [] => [] | s :: r => constructs_stmt s ++ go r end in
  match e with
  | RUser _ | RVar _ | RUsize _ | RBool _ | RUnreachable => []
  | RBlock s e => ss s ++ constructs e
  | RAsyncMove s e => KAsyncMove :: ss s ++ constructs e
  | RAwait e => KAwait :: constructs e
  | RBoxPin e => KBoxPin :: constructs e
  | RTuple l | RArray l => es l
  | RField e _ => constructs e
  | RMeth r _ _ args => constructs r ++ es args
  | RGlue r m args => KGlue m :: constructs r ++ es args
  | RDot r _ => constructs r
  | RCall f args => constructs f ++ es args
  | RThenCall o arg => constructs o ++ constructs arg
  | RClosure _ b | RClosureMove _ b | RClosureIgn b => constructs b      (* a `move` closure costs what a closure costs: nothing *)
  | RMoveThunk b => KMoveThunk :: constructs b
  | RNot e | RRef e | ROk e => constructs e
  | RIfLetSome _ s t e => KIfLetSome :: constructs s ++ constructs t ++ constructs e
  | RMatchIdx s arms =>
      KMatchIdx :: constructs s ++
      (fix go (l : list (nat * rexpr)) : list construct :=
         match l with [] => [] | ix :: r => constructs (snd ix) ++ go r end) arms
  | RMatchOk s _ a => KMatchOk :: constructs s ++ constructs a
  | RJoinMac p t => [KJoinMac p t]
  | RJuxt l => KJuxt :: es l
  end
with constructs_stmt (s : rstmt) : list construct :=
  match s with
  | SLet _ e | SExpr e => constructs e
  | SFn _ _ _ body => constructs body
  | STbFn => [KTbFn]
  | SSpawnTokioFn p => [KSpawnTokioFn p]
  | SUseFutures p => [KUseFutures p]
  end.

Lemma cs_list l :
  (fix go (l : list rexpr) : list construct := match l with [] => [] | x :: r => constructs x ++ go r end) l
  = flat_map constructs l.
Proof. induction l as [|x r IH]; [reflexivity|]. cbn [flat_map]. now rewrite IH. Qed.
Lemma cs_stmts l :
  (fix go (l : list rstmt) : list construct := match l with [] => [] | s :: r => constructs_stmt s ++ go r end) l
  = flat_map constructs_stmt l.
Proof. induction l as [|x r IH]; [reflexivity|]. cbn [flat_map]. now rewrite IH. Qed.
Lemma cs_arms l :
  (fix go (l : list (nat * rexpr)) : list construct :=
     match l with [] => [] | ix :: r => constructs (snd ix) ++ go r end) l
  = flat_map (fun ix => constructs (snd ix)) l.
Proof. induction l as [|x r IH]; [reflexivity|]. cbn [flat_map]. now rewrite IH. Qed.

Lemma c_RBlock ss e : constructs (RBlock ss e) = flat_map constructs_stmt ss ++ constructs e.
Proof. cbn [constructs]. now rewrite cs_stmts. Qed.
Lemma c_RAsyncMove ss e : constructs (RAsyncMove ss e) = KAsyncMove :: flat_map constructs_stmt ss ++ constructs e.
Proof. cbn [constructs]. now rewrite cs_stmts. Qed.
Lemma c_RTuple l : constructs (RTuple l) = flat_map constructs l.
Proof. cbn [constructs]. now rewrite cs_list. Qed.
Lemma c_RArray l : constructs (RArray l) = flat_map constructs l.
Proof. cbn [constructs]. now rewrite cs_list. Qed.
Lemma c_RMeth r m tf args : constructs (RMeth r m tf args) = constructs r ++ flat_map constructs args.
Proof. cbn [constructs]. now rewrite cs_list. Qed.
Lemma c_RGlue r m args : constructs (RGlue r m args) = KGlue m :: constructs r ++ flat_map constructs args.
Proof. cbn [constructs]. now rewrite cs_list. Qed.
Lemma c_RCall f args : constructs (RCall f args) = constructs f ++ flat_map constructs args.
Proof. cbn [constructs]. now rewrite cs_list. Qed.
Lemma c_RJuxt l : constructs (RJuxt l) = KJuxt :: flat_map constructs l.
Proof. cbn [constructs]. now rewrite cs_list. Qed.
Lemma c_RMatchIdx s arms :
  constructs (RMatchIdx s arms) = KMatchIdx :: constructs s ++ flat_map (fun ix => constructs (snd ix)) arms.
Proof. cbn [constructs]. now rewrite cs_arms. Qed.

(* ---------------------------------------------------------------------------------------------- *)
(** * "All constructs satisfy Q", compositionally *)

Section Inv.
  Variable Q : construct -> Prop.
  Definition okE (e : rexpr) : Prop := Forall Q (constructs e).
  Definition okS (s : rstmt) : Prop := Forall Q (constructs_stmt s).
  Definition okEs (l : list rexpr) : Prop := Forall okE l.
  Definition okSs (l : list rstmt) : Prop := Forall okS l.

  Lemma Forall_flat_map {A} (f : A -> list construct) l :
    Forall (fun x => Forall Q (f x)) l -> Forall Q (flat_map f l).
  Proof. induction 1; cbn [flat_map]; [constructor|]. apply Forall_app; auto. Qed.

  Lemma okE_leaf e : constructs e = [] -> okE e.
  Proof. unfold okE. intros ->. constructor. Qed.
  Lemma okE_RUser o : okE (RUser o). Proof. now apply okE_leaf. Qed.
  Lemma okE_RVar x : okE (RVar x). Proof. now apply okE_leaf. Qed.
  Lemma okE_RUsize n : okE (RUsize n). Proof. now apply okE_leaf. Qed.
  Lemma okE_RBool b : okE (RBool b). Proof. now apply okE_leaf. Qed.
  Lemma okE_RUnreachable : okE RUnreachable. Proof. now apply okE_leaf. Qed.

  Lemma okE_RBlock ss e : okSs ss -> okE e -> okE (RBlock ss e).
  Proof. unfold okE. rewrite c_RBlock. intros. apply Forall_app; split; auto. now apply Forall_flat_map. Qed.
  Lemma okE_RAsyncMove ss e : Q KAsyncMove -> okSs ss -> okE e -> okE (RAsyncMove ss e).
  Proof.
    unfold okE. rewrite c_RAsyncMove. intros. constructor; auto. apply Forall_app; split; auto.
    now apply Forall_flat_map.
  Qed.
  Lemma okE_RAwait e : Q KAwait -> okE e -> okE (RAwait e).
  Proof. unfold okE. cbn [constructs]. intros. constructor; auto. Qed.
  Lemma okE_RBoxPin e : Q KBoxPin -> okE e -> okE (RBoxPin e).
  Proof. unfold okE. cbn [constructs]. intros. constructor; auto. Qed.
  Lemma okE_RTuple l : okEs l -> okE (RTuple l).
  Proof. unfold okE. rewrite c_RTuple. intros. now apply Forall_flat_map. Qed.
  Lemma okE_RArray l : okEs l -> okE (RArray l).
  Proof. unfold okE. rewrite c_RArray. intros. now apply Forall_flat_map. Qed.
  Lemma okE_RField e i : okE e -> okE (RField e i).
  Proof. unfold okE. cbn [constructs]. auto. Qed.
  Lemma okE_RMeth r m tf args : okE r -> okEs args -> okE (RMeth r m tf args).
  Proof. unfold okE. rewrite c_RMeth. intros. apply Forall_app; split; auto. now apply Forall_flat_map. Qed.
  Lemma okE_RGlue r m args : Q (KGlue m) -> okE r -> okEs args -> okE (RGlue r m args).
  Proof.
    unfold okE. rewrite c_RGlue. intros. constructor; auto. apply Forall_app; split; auto.
    now apply Forall_flat_map.
  Qed.
  Lemma okE_RDot r o : okE r -> okE (RDot r o).
  Proof. unfold okE. cbn [constructs]. auto. Qed.
  Lemma okE_RCall f args : okE f -> okEs args -> okE (RCall f args).
  Proof. unfold okE. rewrite c_RCall. intros. apply Forall_app; split; auto. now apply Forall_flat_map. Qed.
  Lemma okE_RThenCall o a : okE o -> okE a -> okE (RThenCall o a).
  Proof. unfold okE. cbn [constructs]. intros. apply Forall_app; auto. Qed.
  Lemma okE_RClosure x b : okE b -> okE (RClosure x b).
  Proof. unfold okE. cbn [constructs]. auto. Qed.
  Lemma okE_RClosureMove x b : okE b -> okE (RClosureMove x b).
  Proof. unfold okE. cbn [constructs]. auto. Qed.
  Lemma okE_wrapper_closure cfg b : okE b -> okE (wrapper_closure cfg b).
  Proof. unfold wrapper_closure. destruct (is_async cfg && is_spawn cfg); unfold okE; cbn [constructs]; auto. Qed.
  Lemma okE_RClosureIgn b : okE b -> okE (RClosureIgn b).
  Proof. unfold okE. cbn [constructs]. auto. Qed.
  Lemma okE_RMoveThunk b : Q KMoveThunk -> okE b -> okE (RMoveThunk b).
  Proof. unfold okE. cbn [constructs]. intros. constructor; auto. Qed.
  Lemma okE_RNot e : okE e -> okE (RNot e).
  Proof. unfold okE. cbn [constructs]. auto. Qed.
  Lemma okE_RRef e : okE e -> okE (RRef e).
  Proof. unfold okE. cbn [constructs]. auto. Qed.
  Lemma okE_ROk e : okE e -> okE (ROk e).
  Proof. unfold okE. cbn [constructs]. auto. Qed.
  Lemma okE_RIfLetSome x s t e : Q KIfLetSome -> okE s -> okE t -> okE e -> okE (RIfLetSome x s t e).
  Proof. unfold okE. cbn [constructs]. intros. constructor; auto. repeat (apply Forall_app; split; auto). Qed.
  Lemma okE_RMatchIdx s arms : Q KMatchIdx -> okE s -> Forall (fun ix => okE (snd ix)) arms -> okE (RMatchIdx s arms).
  Proof.
    unfold okE. rewrite c_RMatchIdx. intros. constructor; auto. apply Forall_app; split; auto.
    now apply Forall_flat_map.
  Qed.
  Lemma okE_RMatchOk s x a : Q KMatchOk -> okE s -> okE a -> okE (RMatchOk s x a).
  Proof. unfold okE. cbn [constructs]. intros. constructor; auto. apply Forall_app; auto. Qed.
  Lemma okE_RJoinMac p t : Q (KJoinMac p t) -> okE (RJoinMac p t).
  Proof. unfold okE. cbn [constructs]. intros. constructor; auto. Qed.
  Lemma okE_RJuxt l : Q KJuxt -> okEs l -> okE (RJuxt l).
  Proof. unfold okE. rewrite c_RJuxt. intros. constructor; auto. now apply Forall_flat_map. Qed.

  Lemma okS_SLet p e : okE e -> okS (SLet p e). Proof. exact (fun H => H). Qed.
  Lemma okS_SExpr e : okE e -> okS (SExpr e). Proof. exact (fun H => H). Qed.
  Lemma okS_SFn n sg ps b : okE b -> okS (SFn n sg ps b). Proof. exact (fun H => H). Qed.
  Lemma okS_STbFn : Q KTbFn -> okS STbFn. Proof. unfold okS. cbn. auto. Qed.
  Lemma okS_SSpawnTokioFn p : Q (KSpawnTokioFn p) -> okS (SSpawnTokioFn p). Proof. unfold okS. cbn. auto. Qed.
  Lemma okS_SUseFutures p : Q (KUseFutures p) -> okS (SUseFutures p). Proof. unfold okS. cbn. auto. Qed.

  Lemma okSs_nil : okSs []. Proof. constructor. Qed.
  Lemma okSs_cons s l : okS s -> okSs l -> okSs (s :: l). Proof. now constructor. Qed.
  Lemma okSs_app l l' : okSs l -> okSs l' -> okSs (l ++ l'). Proof. intros. apply Forall_app; auto. Qed.
  Lemma okEs_nil : okEs []. Proof. constructor. Qed.
  Lemma okEs_cons s l : okE s -> okEs l -> okEs (s :: l). Proof. now constructor. Qed.
  Lemma okEs_map {A} (f : A -> rexpr) l : (forall x, In x l -> okE (f x)) -> okEs (map f l).
  Proof. intros H. apply Forall_forall. intros y Hy. apply in_map_iff in Hy as (x & <- & Hx). auto. Qed.
  Lemma okSs_map {A} (f : A -> rstmt) l : (forall x, In x l -> okS (f x)) -> okSs (map f l).
  Proof. intros H. apply Forall_forall. intros y Hy. apply in_map_iff in Hy as (x & <- & Hx). auto. Qed.

  Hint Resolve okE_RUser okE_RVar okE_RUsize okE_RBool okE_RUnreachable okE_RBlock okE_RAsyncMove okE_RAwait
       okE_RBoxPin okE_RTuple okE_RArray okE_RField okE_RMeth okE_RGlue okE_RDot okE_RCall okE_RThenCall
       okE_RClosure okE_RClosureMove okE_wrapper_closure okE_RClosureIgn okE_RMoveThunk okE_RNot okE_RRef okE_ROk okE_RIfLetSome okE_RMatchIdx
       okE_RMatchOk okE_RJoinMac okE_RJuxt okS_SLet okS_SExpr okS_SFn okS_STbFn okS_SSpawnTokioFn
       okS_SUseFutures okSs_nil okSs_cons okSs_app okEs_nil okEs_cons : okc.

  (* ---- the wrapper stack machine introduces no construct at all ---- *)

  Lemma meth1_okc prev m args r : okE prev -> okEs args -> meth1 prev m args = Ok r -> okE r.
  Proof.
    unfold meth1. intros Hp Ha. destruct args as [|f [|g l]]; intros H; inversion H; subst.
    inversion Ha; subst. auto with okc.
  Qed.

  Lemma expand_okc cfg prev c args ops r :
    okE prev -> okEs args -> expand cfg prev c args ops = Ok r -> okE r.
  Proof.
    intros Hp Ha. unfold expand.
    destruct c; try (intros H; eapply meth1_okc; eassumption);
      try (intros H; inversion H; subst; auto with okc; fail).
    - (* Dot *) destruct ops as [|o [|o' l]]; intros H; inversion H; subst. auto with okc.
    - (* Inspect *) destruct args as [|f [|g l]]; intros H; inversion H; subst. inversion Ha; subst.
      destruct (is_async cfg); auto 6 with okc.
    - (* Then *) destruct args as [|f [|g l]]; intros H; inversion H; subst. inversion Ha; subst. auto with okc.
    - (* Initial *) destruct args as [|f [|g l]]; intros H; inversion H; subst. now inversion Ha.
    - (* Fold *) destruct args as [|f [|g [|h l]]]; intros H; inversion H; subst.
      inversion Ha as [|? ? ? Ha']; subst. inversion Ha'; subst. auto 6 with okc.
    - (* TryFold *) destruct args as [|f [|g [|h l]]]; intros H; inversion H; subst.
      inversion Ha as [|? ? ? Ha']; subst. inversion Ha'; subst. auto 6 with okc.
  Qed.

  Lemma hoist_okc b e args : forall i ds rs,
    okEs args -> hoist b e i args = (ds, rs) -> okSs ds /\ okEs rs.
  Proof.
    induction args as [|a r IH]; intros i ds rs Ha H; cbn [hoist] in H.
    - inversion H; subst. split; constructor.
    - inversion Ha as [|? ? Ha1 Ha2]; subst. destruct (hoist b e (S i) r) as [ds' rs'] eqn:E.
      destruct (IH (S i) ds' rs') as [Hds Hrs]; auto.
      destruct (arg_is_block a); inversion H; subst; split; auto with okc.
  Qed.

  Lemma replace_inner_In {A} c (l args : list A) x : replace_inner c l = Some args -> In x args -> In x l.
  Proof.
    unfold replace_inner, last_error. intros H Hx.
    assert (Hlast : forall y, match rev l with [] => None | z :: _ => Some z end = Some y -> In y l).
    { intros y Hy. destruct (rev l) as [|z t] eqn:E; [discriminate|]. inversion Hy; subst.
      apply in_rev. rewrite E. now left. }
    destruct (match rev l with [] => None | z :: _ => Some z end) as [lst|]; [|discriminate].
    specialize (Hlast lst eq_refl).
    destruct c; try discriminate;
      try (inversion H; subst; destruct Hx as [<-|[]]; assumption);
      try (destruct l as [|y [|z t]]; try discriminate; inversion H; subst; destruct Hx as [<-|[]]; assumption).
    - destruct l as [|y t]; [discriminate|]. inversion H; subst.
      destruct Hx as [<-|[<-|[]]]; [now left|assumption].
    - destruct l as [|y t]; [discriminate|]. inversion H; subst.
      destruct Hx as [<-|[<-|[]]]; [now left|assumption].
  Qed.

  Lemma separate_okc p ds args :
    okEs (p_args p) -> separate_block_expr p = (ds, args) -> okSs ds /\ okEs args.
  Proof.
    intros Ha. unfold separate_block_expr.
    destruct (is_replaceable (p_comb p) && has_inner_exprs (p_comb p)).
    - destruct (hoist (p_branch p) (p_expr p) 0 (p_args p)) as [ds' rs] eqn:E.
      destruct (hoist_okc _ _ _ _ _ _ Ha E) as [H1 H2].
      destruct ds' as [|d ds'']; [intros H; inversion H; subst; split; auto with okc|].
      destruct (replace_inner (p_comb p) rs) as [args'|] eqn:Er; intros H; inversion H; subst; split; auto.
      apply Forall_forall. intros x Hx. unfold okEs in H2. rewrite Forall_forall in H2.
      apply H2. eapply replace_inner_In; eauto.
    - intros H; inversion H; subst. split; auto with okc.
  Qed.

  Lemma gen_def_and_step_okc cfg ds prev p ds' s :
    okSs ds -> okE prev -> okEs (p_args p) ->
    gen_def_and_step cfg ds prev p = Ok (ds', s) -> okSs ds' /\ okE s.
  Proof.
    intros Hd Hp Ha. unfold gen_def_and_step. destruct (separate_block_expr p) as [d args] eqn:E.
    destruct (separate_okc _ _ _ Ha E) as [H1 H2]. intros H. inv_bind H. inversion H; subst.
    split; [auto with okc|]. eapply expand_okc; eauto.
  Qed.

  Definition acc_okc (a : acc) : Prop := okSs (a_defs a) /\ Forall (fun x => okE (fst x)) (a_stk a).

  Lemma wrap_last_okc cfg a a' : acc_okc a -> wrap_last cfg a = Ok a' -> acc_okc a'.
  Proof.
    intros [Hd Hs]. unfold wrap_last.
    destruct (a_stk a) as [|[prev w0] [|[cur [w|]] rest]]; try discriminate.
    destruct (replace_inner (p_comb w) [wrapper_closure cfg prev]) as [args|] eqn:Er; [|discriminate].
    intros H. inv_bind H. destruct x as [ds' s]. inversion H; subst.
    inversion Hs as [|? ? Hprev Hs']; subst. inversion Hs' as [|? ? Hcur Hrest]; subst. cbn [fst] in *.
    assert (Hargs : okEs args).
    { apply Forall_forall. intros y Hy. pose proof (replace_inner_In _ _ _ _ Er Hy) as [<-|[]]. auto with okc. }
    destruct (gen_def_and_step_okc cfg (a_defs a) cur (set_args w args) ds' s Hd Hcur Hargs E) as [H1 H2].
    split; cbn [a_defs a_stk fst snd]; auto.
  Qed.

  Lemma process_action_okc cfg p m a a' :
    acc_okc a -> okEs (p_args p) -> process_action cfg p m a = Ok a' -> acc_okc a'.
  Proof.
    intros Ha Hp. unfold process_action. destruct m.
    - destruct Ha as [Hd Hs]. destruct (a_stk a) as [|[s w] rest]; [discriminate|].
      intros H; inversion H; subst. inversion Hs; subst. split; cbn [a_defs a_stk]; auto.
      constructor; [cbn [fst]; auto with okc|]. constructor; auto.
    - apply wrap_last_okc. exact Ha.
    - destruct Ha as [Hd Hs]. destruct (a_stk a) as [|[s w] rest]; [discriminate|].
      intros H. inv_bind H. destruct x as [ds' s']. inversion H; subst. inversion Hs; subst. cbn [fst] in *.
      destruct (gen_def_and_step_okc _ _ _ _ _ _ Hd H2 Hp E) as [H1' H2'].
      split; cbn [a_defs a_stk fst snd]; auto.
  Qed.

  Lemma mk_pos_args_okc x b e : okEs (p_args (mk_pos x b e)).
  Proof.
    unfold mk_pos. cbn [p_args]. destruct (has_inner_exprs (a_comb x)); [|constructor].
    apply okEs_map. auto with okc.
  Qed.

  Lemma process_actions_okc cfg b acts : forall e a a',
    acc_okc a -> process_actions cfg b e acts a = Ok a' -> acc_okc a'.
  Proof.
    induction acts as [|x r IH]; intros e a a' Ha H; cbn [process_actions] in H.
    - inversion H; subst; auto.
    - inv_bind H. eapply IH; [|exact H]. eapply process_action_okc; eauto. apply mk_pos_args_okc.
  Qed.

  Lemma close_all_okc cfg : forall fuel a ds s,
    acc_okc a -> close_all fuel cfg a = Ok (ds, s) -> okSs ds /\ okE s.
  Proof.
    induction fuel as [|fuel IH]; intros a ds s Ha H; cbn [close_all] in H;
      pose proof Ha as [Hd Hs]; destruct (a_stk a) as [|[s0 w] [|y r]] eqn:Es; try discriminate.
    - inversion H; subst. inversion Hs; subst. auto.
    - inversion H; subst. inversion Hs; subst. auto.
    - inv_bind H. eapply IH; [|exact H]. eapply wrap_last_okc; eauto.
  Qed.

  Lemma gen_branch_step_okc j b prev acts ds s :
    okE (wrap_into_block j (RVar prev)) ->
    gen_branch_step j b prev acts = Ok (ds, s) -> okSs ds /\ okE s.
  Proof.
    intros Hw. unfold gen_branch_step. intros H. inv_bind H.
    eapply close_all_okc; [|exact H]. eapply process_actions_okc; [|exact E].
    split; cbn [a_defs a_stk]; [constructor|]. constructor; [exact Hw|constructor].
  Qed.

  Lemma transposer_okc vars ret : forall t, okE ret -> Q (KGlue "map") -> Q (KGlue "and_then") ->
    transposer vars ret = Some t -> okE t.
  Proof.
    induction vars as [|x r IH]; intros t Hr Hm Ha H; cbn [transposer] in H; [discriminate|].
    destruct r as [|y r'].
    - inversion H; subst. auto 6 with okc.
    - destruct (transposer (y :: r') ret) as [acc|] eqn:E; [|discriminate]. inversion H; subst.
      specialize (IH acc Hr Hm Ha eq_refl). auto 6 with okc.
  Qed.
End Inv.

#[export] Hint Resolve okE_RUser okE_RVar okE_RUsize okE_RBool okE_RUnreachable okE_RBlock okE_RAsyncMove okE_RAwait
     okE_RBoxPin okE_RTuple okE_RArray okE_RField okE_RMeth okE_RGlue okE_RDot okE_RCall okE_RThenCall
     okE_RClosure okE_RClosureMove okE_wrapper_closure okE_RClosureIgn okE_RMoveThunk okE_RNot okE_RRef okE_ROk okE_RIfLetSome okE_RMatchIdx
     okE_RMatchOk okE_RJoinMac okE_RJuxt okS_SLet okS_SExpr okS_SFn okS_STbFn okS_SSpawnTokioFn
     okS_SUseFutures okSs_nil okSs_cons okSs_app okEs_nil okEs_cons : okc.

(* ---------------------------------------------------------------------------------------------- *)
(** * What a JoinOutput may emit *)

Definition base_glue : list string := ["as_ref"; "map"; "unwrap_or"; "iter"; "position"; "and_then"].
Definition spawn_glue : list string := ["spawn"; "unwrap"; "join"].

Definition allowedj (JX : Prop) (j : jout) (c : construct) : Prop :=
  let cfg := j_cfg j in
  let path := opt_default (j_fcp j) [] in
  match c with
  | KBoxPin | KAsyncMove | KAwait => is_async cfg = true
  | KUseFutures p => is_async cfg = true /\ p = path
  | KJoinMac p t => is_async cfg = true /\ p = path /\ t = is_try cfg /\ j_joiner j = None
  | KSpawnTokioFn p => is_async cfg = true /\ is_spawn cfg = true /\ p = path
  | KTbFn => is_async cfg = false /\ is_spawn cfg = true
  | KMoveThunk => j_lazy j = true
  | KGlue m => In m base_glue \/ (is_async cfg = false /\ is_spawn cfg = true /\ In m spawn_glue)
  | KIfLetSome | KMatchIdx => is_try cfg = true /\ j_transpose j = true
  | KMatchOk => is_try cfg = true /\ j_transpose j = false
  | KJuxt => is_async cfg = true /\ JX          (* plain juxtaposition: see HJX below *)
  end.

Section Jout.
  Variable j : jout.
  (* JX = "a juxtaposition may occur".  It can only arise in an async step k < j_max with at most one active branch
     whose number of generated chains is not one. *)
  Variable JX : Prop.
  Hypothesis HJX : forall k vars defs chains,
    k < j_max j -> gen_branches j k vars 0 (j_chains j) = Ok (defs, chains) ->
    active_count j k <= 1 -> (forall c, chains <> [c]) -> JX.
  Notation Qj := (allowedj JX j).
  Notation okEj := (okE Qj).
  Notation okSj := (okS Qj).
  Notation okEsj := (okEs Qj).
  Notation okSsj := (okSs Qj).

  Lemma glue_base m : In m base_glue -> Qj (KGlue m).
  Proof. intros H. left. exact H. Qed.
  Lemma glue_map : Qj (KGlue "map"). Proof. apply glue_base. cbn. tauto. Qed.
  Lemma glue_and_then : Qj (KGlue "and_then"). Proof. apply glue_base. cbn. tauto. Qed.
  Lemma glue_as_ref : Qj (KGlue "as_ref"). Proof. apply glue_base. cbn. tauto. Qed.
  Lemma glue_unwrap_or : Qj (KGlue "unwrap_or"). Proof. apply glue_base. cbn. tauto. Qed.
  Lemma glue_iter : Qj (KGlue "iter"). Proof. apply glue_base. cbn. tauto. Qed.
  Lemma glue_position : Qj (KGlue "position"). Proof. apply glue_base. cbn. tauto. Qed.
  Hint Resolve glue_map glue_and_then glue_as_ref glue_unwrap_or glue_iter glue_position : okc.

  Lemma wrap_into_block_okc e : okEj e -> okEj (wrap_into_block j e).
  Proof.
    intros H. unfold wrap_into_block. destruct (is_async (j_cfg j)) eqn:Ea; auto with okc.
  Qed.

  Lemma wrap_branch_okc k b chain : okEj chain -> okEj (wrap_branch j k b chain).
  Proof.
    intros H. unfold wrap_branch. destruct (Nat.ltb 1 (active_count j k)); [|exact H].
    assert (Hc : okEj (if j_lazy j then RMoveThunk chain else chain)).
    { destruct (j_lazy j) eqn:El; [|exact H]. apply okE_RMoveThunk; auto. }
    destruct (is_spawn (j_cfg j)) eqn:Es; [|exact Hc].
    destruct (is_async (j_cfg j)) eqn:Ea.
    - apply okE_RBlock; auto with okc.
    - apply okE_RBlock; auto with okc.
      apply okE_RGlue; auto with okc; [right; cbn; tauto|].
      apply okE_RGlue; auto with okc. right; cbn; tauto.
  Qed.

  Lemma gen_branches_okc k vars chains : forall b defs cs,
    gen_branches j k vars b chains = Ok (defs, cs) -> okSsj defs /\ okEsj cs.
  Proof.
    induction chains as [|ch rest IH]; intros b defs cs H; cbn [gen_branches] in H.
    - inversion H; subst. split; constructor.
    - inv_bind H. destruct x as [d0 c0]. destruct (IH _ _ _ E) as [H1 H2].
      destruct (nth_error ch k) as [[|a acts]|]; try (inversion H; subst; auto; fail).
      inv_bind H. destruct x as [ds s]. inversion H; subst. cbn [fst snd].
      destruct (gen_branch_step_okc Qj j b (nth b vars "") (a :: acts) ds s) as [H3 H4]; auto.
      { apply wrap_into_block_okc. auto with okc. }
      split; [auto with okc|]. constructor; auto. apply wrap_branch_okc. exact H4.
  Qed.

  Lemma indexed_sr_okc sr k i : okEj (indexed_sr j sr k i).
  Proof. unfold indexed_sr. destruct (Nat.ltb 1 (active_count j k)); auto with okc. Qed.

  Lemma thread_builders_okc k sr tbs sjs : thread_builders j k sr = (tbs, sjs) -> okSsj tbs /\ okSsj sjs.
  Proof.
    unfold thread_builders.
    destruct (is_async (j_cfg j)) eqn:Ea; cbn [orb]; [intros H; inversion H; subst; split; constructor|].
    destruct (is_spawn (j_cfg j)) eqn:Es; cbn [negb orb]; [|intros H; inversion H; subst; split; constructor].
    destruct (Nat.ltb (active_count j k) 2); intros H; inversion H; subst; [split; constructor|].
    split.
    - apply okSs_map. intros b _. apply okS_SLet. auto 6 with okc.
    - constructor; [|constructor]. apply okS_SLet. apply okE_RTuple. apply okEs_map. intros ib _.
      apply okE_RGlue; [right; cbn; tauto| |constructor].
      apply okE_RGlue; [right; cbn; tauto| |constructor]. apply indexed_sr_okc.
  Qed.

  Lemma gen_step_okc k vars sr stmts : k < j_max j -> gen_step j k vars sr = Ok stmts -> okSsj stmts.
  Proof.
    unfold gen_step. intros Hk H. inv_bind H. destruct x as [defs chains].
    destruct (gen_branches_okc _ _ _ _ _ _ E) as [Hd Hc].
    destruct (is_async (j_cfg j)) eqn:Ea.
    - inversion H; subst. apply okSs_app; auto. constructor; [|constructor]. apply okS_SLet.
      destruct (Nat.ltb 1 (active_count j k)) eqn:El.
      + destruct (j_joiner j) eqn:Ej; apply okE_RCall; auto with okc.
        apply okE_RJoinMac. cbn. auto.
      + apply Nat.ltb_ge in El. apply okE_RAwait; [exact Ea|].
        destruct chains as [|c [|c' l]].
        * apply okE_RJuxt; auto. cbn. split; [exact Ea|]. eapply HJX; eauto. intros c; discriminate.
        * now inversion Hc.
        * apply okE_RJuxt; auto. cbn. split; [exact Ea|]. eapply HJX; eauto. intros c0; discriminate.
    - destruct (thread_builders j k sr) as [tbs sjs] eqn:Et. destruct (thread_builders_okc _ _ _ _ Et) as [H1 H2].
      inversion H; subst. apply okSs_app; [exact H1|]. apply okSs_app; [exact Hd|]. apply okSs_cons; [|exact H2].
      apply okS_SLet.
      destruct (Nat.ltb 1 (active_count j k)); [destruct (j_joiner j)|]; auto with okc.
  Qed.

  Lemma extract_step_okc sr pats k : okSj (extract_step j sr pats k).
  Proof. unfold extract_step. auto with okc. Qed.

  Lemma is_succ_okc x : okEj (is_succ x).
  Proof. unfold is_succ. auto 12 with okc. Qed.

  Lemma tuple_of_okc vars : okEj (tuple_of vars).
  Proof. unfold tuple_of. apply okE_RTuple, okEs_map. auto with okc. Qed.

  Lemma join_steps_okc k step next pats vars sr ss e :
    okSsj step -> (forall nss ne, next = Some (nss, ne) -> okSsj nss /\ okEj ne) ->
    join_steps j k step next pats vars sr = Ok (ss, e) -> okSsj ss /\ okEj e.
  Proof.
    intros Hs Hn. unfold join_steps. pose proof (extract_step_okc sr pats k) as Hx.
    destruct (is_try (j_cfg j)) eqn:Et; cbn [andb].
    - destruct (Nat.ltb k (j_max j - 1)).
      + destruct (j_transpose j) eqn:Etr.
        * destruct next as [[nss ne]|]; [|discriminate]. destruct (Hn _ _ eq_refl) as [Hn1 Hn2].
          intros H; inversion H; subst. split; [auto with okc|].
          apply okE_RIfLetSome; [cbn; auto| | |auto with okc].
          -- apply okE_RGlue; auto with okc. apply okE_RGlue; auto with okc.
             apply okE_RArray, okEs_map. intros; apply is_succ_okc.
          -- apply okE_RBlock; auto with okc. apply okE_RMatchIdx; [cbn; auto|auto with okc|].
             apply Forall_forall. intros ix Hix. apply in_map_iff in Hix as (nv & <- & _). cbn [snd].
             auto 6 with okc.
        * destruct next as [[nss ne]|]; [|discriminate]. destruct (Hn _ _ eq_refl) as [Hn1 Hn2].
          intros H; inversion H; subst. split; [auto|].
          apply okE_RMatchOk; [cbn; auto|auto with okc|]. apply okE_RBlock; auto.
          apply okSs_app; auto. destruct (is_async (j_cfg j)); [|auto with okc].
          constructor; [|auto with okc]. apply okS_SLet, okE_RTuple, okEs_map. intros ib _.
          apply okE_ROk, indexed_sr_okc.
      + destruct (j_transpose j) eqn:Etr; cbn [andb].
        * destruct (transposer vars (tuple_of vars)) as [t|] eqn:E; [|discriminate].
          intros H; inversion H; subst. split; [auto with okc|].
          exact (transposer_okc Qj vars (tuple_of vars) _ (tuple_of_okc vars) glue_map glue_and_then E).
        * destruct (Nat.ltb 1 (j_branch_count j)).
          -- destruct (map snd (filter (fun iv => negb (is_active j k (fst iv))) (enum_from 0 vars))) as [|r0 rs].
             ++ intros H; inversion H; subst. split; [auto|].
                apply okE_RMatchOk; [cbn; auto|auto with okc|]. apply okE_RBlock; auto with okc.
                apply okE_ROk, tuple_of_okc.
             ++ destruct (transposer (r0 :: rs) (tuple_of vars)) as [t|] eqn:E; [|discriminate].
                intros H; inversion H; subst. split; [auto|].
                apply okE_RMatchOk; [cbn; auto|auto with okc|]. apply okE_RBlock; auto with okc.
                exact (transposer_okc Qj (r0 :: rs) (tuple_of vars) _ (tuple_of_okc vars) glue_map glue_and_then E).
          -- intros H; inversion H; subst. split; [auto|].
             apply okE_RMatchOk; [cbn; auto|auto with okc|]. auto 6 with okc.
    - rewrite andb_false_r. destruct next as [[nss ne]|].
      + destruct (Hn _ _ eq_refl) as [Hn1 Hn2]. intros H; inversion H; subst. split; auto with okc.
      + intros H; inversion H; subst. split; [auto with okc|apply tuple_of_okc].
  Qed.

  Lemma gen_steps_okc pats vars : forall n k r,
    k + n = j_max j ->
    gen_steps j pats vars k n = Ok r -> forall ss e, r = Some (ss, e) -> okSsj ss /\ okEj e.
  Proof.
    induction n as [|n IH]; intros k r Hkn H ss e Hr; cbn [gen_steps] in H.
    - inversion H; subst. discriminate.
    - inv_bind H. inv_bind H. inv_bind H. rewrite Hr in H. inversion H; subst.
      eapply join_steps_okc; [| |exact E1].
      + eapply gen_step_okc; [|eauto]. lia.
      + intros nss ne ->. eapply (IH (S k)); [lia|eauto|reflexivity].
  Qed.

  Lemma gen_handle_okc : okEj (gen_handle j).
  Proof.
    unfold gen_handle.
    assert (Hcall : okEj (RBlock [SLet (PTuple (map PIdent (map n_r (seq 0 (j_branch_count j))))) (RVar n_rs)]
                                 (RCall (RVar n_h) (map RVar (map n_r (seq 0 (j_branch_count j))))))).
    { apply okE_RBlock; auto with okc. apply okE_RCall; auto with okc. apply okEs_map. auto with okc. }
    assert (Haw : forall e, okEj e -> okEj (if is_async (j_cfg j) then RAwait e else e)).
    { intros e He. destruct (is_async (j_cfg j)) eqn:Ea; auto. apply okE_RAwait; auto. }
    destruct (j_handler j) as [[[| |] h]|]; auto with okc.
    - apply Haw. apply okE_RGlue; [apply glue_map|apply wrap_into_block_okc; auto with okc|].
      constructor; [|constructor]. apply okE_RClosure, okE_RBlock; auto with okc.
      destruct (is_async (j_cfg j)); auto 6 with okc.
    - apply Haw. apply okE_RGlue; [apply glue_and_then|apply wrap_into_block_okc; auto with okc|].
      constructor; [|constructor]. auto with okc.
  Qed.

  Lemma inspect_fn_okc : okSj inspect_fn.
  Proof. unfold inspect_fn. apply okS_SFn. auto 8 with okc. Qed.

  Theorem gen_output_okc e : gen_output j = Ok e -> okEj e.
  Proof.
    unfold gen_output. intros H. inv_bind H. destruct x as [[sss se]|]; [|discriminate].
    destruct (gen_steps_okc _ _ _ _ _ (Nat.add_0_l _) E sss se eq_refl) as [H1 H2].
    assert (Htail : okSsj (match j_handler j with Some (_, h) => [SLet (PIdent n_h) (RUser h)] | None => [] end
                           ++ [SLet (PIdent n_rs) (RBlock sss se)])).
    { apply okSs_app; [destruct (j_handler j) as [[hk h]|]; auto with okc|auto with okc]. }
    destruct (is_async (j_cfg j)) eqn:Ea; inversion H; subst.
    - apply okE_RBoxPin; [exact Ea|]. apply okE_RAsyncMove; [exact Ea| |apply gen_handle_okc].
      apply okSs_cons; [apply okS_SUseFutures; cbn; auto|].
      apply okSs_app; [|exact Htail].
      destruct (is_spawn (j_cfg j)) eqn:Es; [|constructor]. constructor; [|constructor].
      apply okS_SSpawnTokioFn. cbn. auto.
    - apply okE_RBlock; [|apply gen_handle_okc].
      apply okSs_cons; [apply inspect_fn_okc|].
      apply okSs_app; [|exact Htail].
      destruct (is_spawn (j_cfg j)) eqn:Es; [|constructor]. constructor; [|constructor].
      apply okS_STbFn. cbn. auto.
  Qed.
End Jout.

(* ---------------------------------------------------------------------------------------------- *)
(** * The master theorem, in terms of the configuration and the input *)

(* the futures path every futures item carries: the given one, `::futures` by default *)
Definition futures_path (inp : input) : operand := opt_default (i_fcp inp) default_futures_path.

Definition allowed (cfg : config) (inp : input) (c : construct) : Prop :=
  match c with
  | KBoxPin | KAsyncMove | KAwait => is_async cfg = true
  | KUseFutures p => is_async cfg = true /\ p = futures_path inp
  | KJoinMac p t => is_async cfg = true /\ p = futures_path inp /\ t = is_try cfg /\ i_joiner inp = None
  | KSpawnTokioFn p => is_async cfg = true /\ is_spawn cfg = true /\ p = futures_path inp
  | KTbFn => is_async cfg = false /\ is_spawn cfg = true
  | KMoveThunk => eff_lazy cfg inp = true
  | KGlue m => In m base_glue \/ (is_async cfg = false /\ is_spawn cfg = true /\ In m spawn_glue)
  | KIfLetSome | KMatchIdx => is_try cfg = true /\ eff_transpose cfg inp = true
  | KMatchOk => is_try cfg = true /\ eff_transpose cfg inp = false
  | KJuxt => is_async cfg = true
  end.

Lemma async_path cfg inp : is_async cfg = true -> opt_default (eff_fcp cfg inp) [] = futures_path inp.
Proof. intros Ha. unfold eff_fcp, futures_path. destruct (i_fcp inp); [reflexivity|]. rewrite Ha. reflexivity. Qed.

Lemma allowedj_allowed JX cfg inp c : allowedj JX (the_jout cfg inp) c -> allowed cfg inp c.
Proof.
  destruct c; cbn [allowedj allowed the_jout j_cfg j_fcp j_lazy j_transpose j_joiner]; auto.
  - intros (Ha & Hs & ->). rewrite (async_path _ _ Ha). auto.
  - intros (Ha & ->). rewrite (async_path _ _ Ha). auto.
  - intros (Ha & -> & Ht & Hj). rewrite (async_path _ _ Ha). auto.
  - tauto.
Qed.

Theorem gen_constructs_allowed cfg inp e :
  gen cfg inp = Ok e -> Forall (allowed cfg inp) (constructs e).
Proof.
  intros H. apply gen_ok_unfold in H as [_ H].
  apply (gen_output_okc (the_jout cfg inp) True) in H; [|intros; exact I].
  unfold okE in H. eapply Forall_impl; [|exact H]. intros c. apply allowedj_allowed.
Qed.

(* ---------------------------------------------------------------------------------------------- *)
(** * C19 *)

Definition is_cost_construct (c : construct) : bool :=
  match c with
  | KBoxPin | KAsyncMove | KAwait | KMoveThunk | KTbFn | KSpawnTokioFn _ | KUseFutures _ | KJoinMac _ _ => true
  | _ => false
  end.

(* (a) the plain synchronous kinds (join!, try_join!) with lazy_branches not switched on *)
Theorem no_hidden_cost_constructs cfg inp e :
  is_async cfg = false -> is_spawn cfg = false -> i_lazy inp <> Some true ->
  gen cfg inp = Ok e ->
  forall c, In c (constructs e) ->
    is_cost_construct c = false /\
    (forall m, c = KGlue m -> In m ["as_ref"; "map"; "unwrap_or"; "iter"; "position"; "and_then"]).
Proof.
  intros Ha Hs Hl H c Hc. pose proof (gen_constructs_allowed cfg inp e H) as Hall.
  rewrite Forall_forall in Hall. specialize (Hall c Hc).
  assert (Hlazy : eff_lazy cfg inp = false).
  { unfold eff_lazy. rewrite Hs. cbn. destruct (i_lazy inp) as [[|]|]; [congruence|reflexivity|reflexivity]. }
  destruct c; cbn [allowed is_cost_construct] in *; try congruence;
    try (destruct Hall; congruence); try (split; [reflexivity|intros; discriminate]).
  split; [reflexivity|]. intros m' Hm; inversion Hm; subst m'.
  destruct Hall as [Hb|(_ & Hs' & _)]; [exact Hb|congruence].
Qed.

(* (b) no configuration emits `clone` / `to_owned` (nor `collect`, nor any glue method outside the nine) *)
Theorem glue_methods_closed cfg inp e m :
  gen cfg inp = Ok e -> In (KGlue m) (constructs e) ->
  In m ["as_ref"; "map"; "unwrap_or"; "iter"; "position"; "and_then"; "spawn"; "unwrap"; "join"].
Proof.
  intros H Hc. pose proof (gen_constructs_allowed cfg inp e H) as Hall.
  rewrite Forall_forall in Hall. specialize (Hall _ Hc). cbn [allowed] in Hall.
  destruct Hall as [Hb|(_ & _ & Hb)].
  - change (In m (base_glue ++ spawn_glue)). apply in_or_app. left; exact Hb.
  - change (In m (base_glue ++ spawn_glue)). apply in_or_app. right; exact Hb.
Qed.

Corollary no_clone_anywhere cfg inp e :
  gen cfg inp = Ok e ->
  ~ In (KGlue "clone") (constructs e) /\ ~ In (KGlue "to_owned") (constructs e) /\ ~ In (KGlue "collect") (constructs e).
Proof.
  intros H. repeat split; intros Hc; apply (glue_methods_closed _ _ _ _ H) in Hc; cbn in Hc;
    repeat (destruct Hc as [Hc|Hc]; [discriminate|]); exact Hc.
Qed.

(* (c) thread constructs only in the thread kinds *)
Theorem spawn_constructs_only_if_spawn cfg inp e c :
  gen cfg inp = Ok e -> In c (constructs e) ->
  (c = KGlue "spawn" \/ c = KGlue "join" \/ c = KGlue "unwrap" \/ c = KTbFn \/ (exists p, c = KSpawnTokioFn p)) ->
  is_spawn cfg = true.
Proof.
  intros H Hc Hk. pose proof (gen_constructs_allowed cfg inp e H) as Hall.
  rewrite Forall_forall in Hall. specialize (Hall _ Hc).
  destruct Hk as [->|[->|[->|[->|(p & ->)]]]]; cbn [allowed] in Hall; try tauto;
    destruct Hall as [Hb|(_ & Hs & _)]; auto; cbn in Hb;
    repeat (destruct Hb as [Hb|Hb]; [discriminate|]); contradiction.
Qed.

(* (d) future constructs only in the async kinds *)
Theorem async_constructs_only_if_async cfg inp e c :
  gen cfg inp = Ok e -> In c (constructs e) ->
  (c = KBoxPin \/ c = KAsyncMove \/ c = KAwait \/ (exists p, c = KUseFutures p) \/ (exists p t, c = KJoinMac p t)
   \/ (exists p, c = KSpawnTokioFn p)) ->
  is_async cfg = true.
Proof.
  intros H Hc Hk. pose proof (gen_constructs_allowed cfg inp e H) as Hall.
  rewrite Forall_forall in Hall. specialize (Hall _ Hc).
  destruct Hk as [->|[->|[->|[(p & ->)|[(p & t & ->)|(p & ->)]]]]]; cbn [allowed] in Hall; tauto.
Qed.

(* (e) `move || ..` thunks only when the effective lazy_branches flag is on
       (default: exactly the synchronous thread kinds) *)
Theorem move_thunk_only_if_lazy cfg inp e :
  gen cfg inp = Ok e -> In KMoveThunk (constructs e) -> eff_lazy cfg inp = true.
Proof.
  intros H Hc. pose proof (gen_constructs_allowed cfg inp e H) as Hall.
  rewrite Forall_forall in Hall. exact (Hall _ Hc).
Qed.
Lemma eff_lazy_default cfg inp : i_lazy inp = None -> eff_lazy cfg inp = is_spawn cfg && negb (is_async cfg).
Proof. unfold eff_lazy. intros ->. reflexivity. Qed.

(* the thread-builder function belongs to the synchronous thread kinds, `__spawn_tokio` to the async ones *)
Theorem tb_fn_sync_spawn cfg inp e :
  gen cfg inp = Ok e -> In KTbFn (constructs e) -> is_async cfg = false /\ is_spawn cfg = true.
Proof.
  intros H Hc. pose proof (gen_constructs_allowed cfg inp e H) as Hall.
  rewrite Forall_forall in Hall. exact (Hall _ Hc).
Qed.

Print Assumptions gen_constructs_allowed.
Print Assumptions no_hidden_cost_constructs.
Print Assumptions glue_methods_closed.
Print Assumptions spawn_constructs_only_if_spawn.
Print Assumptions async_constructs_only_if_async.
Print Assumptions move_thunk_only_if_lazy.

(* ---------------------------------------------------------------------------------------------- *)
(** * Non-vacuity (the 3-branch input of GenPropsA: wrappers, blocks, depths 3/1/2, custom joiner, handler) *)

Definition census (cfg : config) (inp : input) : list construct :=
  match gen cfg inp with Ok e => constructs e | _ => [] end.
Definition ex_input := GenPropsA.ex_input.
Definition ex_input_nojoiner : input :=
  mkInput (i_branches ex_input) (i_handler ex_input) None None None None.
Definition construct_eqb (a b : construct) : bool :=
  match a, b with
  | KBoxPin, KBoxPin | KAsyncMove, KAsyncMove | KAwait, KAwait | KMoveThunk, KMoveThunk | KTbFn, KTbFn
  | KIfLetSome, KIfLetSome | KMatchIdx, KMatchIdx | KMatchOk, KMatchOk | KJuxt, KJuxt => true
  | KSpawnTokioFn p, KSpawnTokioFn q | KUseFutures p, KUseFutures q => toks_eqb p q
  | KJoinMac p t, KJoinMac q u => toks_eqb p q && Bool.eqb t u
  | KGlue m, KGlue n => String.eqb m n
  | _, _ => false
  end.
Definition occurs (c : construct) (l : list construct) : bool := existsb (construct_eqb c) l.

(* the hypotheses of no_hidden_cost_constructs hold for try_join! on this input, the expansion exists, and the census
   is not empty (so the conclusion says something) *)
Example ex_sync_hyps :
  exists e, gen (mkConfig false true false) ex_input = Ok e /\ i_lazy ex_input <> Some true /\
            List.length (constructs e) = 32 /\ occurs KIfLetSome (constructs e) = true.
Proof. vm_compute. eexists. repeat split. discriminate. Qed.
Example ex_sync_census_glue_only :
  forallb (fun c => match c with KGlue _ | KIfLetSome | KMatchIdx => true | _ => false end)
          (census (mkConfig false true false) ex_input) = true.
Proof. vm_compute. reflexivity. Qed.
(* the restricted constructs DO occur where the theorems allow them: the "only if" statements are not vacuous *)
Example ex_spawn_census :
  let l := census (mkConfig false true true) ex_input in
  occurs KTbFn l && occurs KMoveThunk l && occurs (KGlue "spawn") l && occurs (KGlue "join") l &&
  occurs (KGlue "unwrap") l = true.
Proof. vm_compute. reflexivity. Qed.
Example ex_async_census :
  let l := census (mkConfig true true true) ex_input_nojoiner in
  occurs KBoxPin l && occurs KAsyncMove l && occurs KAwait l && occurs (KUseFutures default_futures_path) l &&
  occurs (KSpawnTokioFn default_futures_path) l && occurs (KJoinMac default_futures_path true) l &&
  negb (occurs KMoveThunk l) && negb (occurs KTbFn l) = true.
Proof. vm_compute. reflexivity. Qed.
(* lazy_branches(true) in a plain sync macro does emit thunks: the hypothesis `i_lazy inp <> Some true` is needed *)
Example ex_lazy_needed :
  occurs KMoveThunk (census (mkConfig false true false)
                            (mkInput (i_branches ex_input) None None None None (Some true))) = true.
Proof. vm_compute. reflexivity. Qed.
