(* A predicate transformer on computation trees: `leaves c Q` says that every way the computation c
   can end normally (every `Ret a` leaf, whatever the world / scheduler answers) satisfies Q.
   Panic leaves are not constrained.  This is how properties are stated for EVERY world at once. *)
From Coq Require Import FunctionalExtensionality.
From Join Require Import Tok Comp CompLaws.

Fixpoint leaves {A} (c : comp A) (Q : A -> Prop) : Prop :=
  match c with
  | Ret a => Q a
  | Panic _ => True
  | Vis _ k => forall v, leaves (k v) Q
  | Spawn _ _ k => forall h, leaves (k h) Q
  | Join _ k => forall r, leaves (k r) Q
  end.

Lemma leaves_bind {A B} (c : comp A) (f : A -> comp B) (Q : B -> Prop) :
  leaves c (fun a => leaves (f a) Q) -> leaves (bind c f) Q.
Proof.
  revert B f Q. induction c as [A a|A n|A e k IH|A name t IHt k IH|A h k IH]; cbn [bind leaves]; intros B f Q H; auto.
Qed.

Lemma leaves_bind_inv {A B} (c : comp A) (f : A -> comp B) (Q : B -> Prop) :
  leaves (bind c f) Q -> leaves c (fun a => leaves (f a) Q).
Proof.
  revert B f Q. induction c as [A a|A n|A e k IH|A name t IHt k IH|A h k IH]; cbn [bind leaves]; intros B f Q H; auto.
Qed.

Lemma leaves_weaken {A} (c : comp A) (Q Q' : A -> Prop) :
  (forall a, Q a -> Q' a) -> leaves c Q -> leaves c Q'.
Proof.
  revert Q Q'. induction c as [A a|A n|A e k IH|A name t IHt k IH|A h k IH]; cbn [leaves]; intros Q Q' HQ H; eauto.
Qed.

Lemma leaves_conj {A} (c : comp A) (Q Q' : A -> Prop) :
  leaves c Q -> leaves c Q' -> leaves c (fun a => Q a /\ Q' a).
Proof.
  revert Q Q'. induction c as [A a|A n|A e k IH|A name t IHt k IH|A h k IH]; cbn [leaves]; intros Q Q' H H'; auto.
Qed.

Lemma leaves_ret {A} (a : A) (Q : A -> Prop) : Q a -> leaves (Ret a) Q.
Proof. exact (fun H => H). Qed.

Lemma leaves_true {A} (c : comp A) : leaves c (fun _ => True).
Proof. induction c; cbn [leaves]; auto. Qed.

(* mapM: the j-th result comes from the j-th element *)
Lemma leaves_mapM {A B} (f : A -> comp B) (R : A -> B -> Prop) (l : list A) :
  (forall x, In x l -> leaves (f x) (R x)) ->
  leaves (mapM f l) (fun ys => Forall2 R l ys).
Proof.
  induction l as [|x l IH]; intros H; cbn [mapM].
  - cbn. constructor.
  - apply leaves_bind. eapply leaves_weaken; [|apply H; left; reflexivity].
    intros y Hy. apply leaves_bind. eapply leaves_weaken; [|apply IH; intros; apply H; right; assumption].
    intros ys Hys. cbn. constructor; assumption.
Qed.

(* events: `no_event c P` - no event satisfying P occurs anywhere in c (on the calling thread's tree
   and in the threads it spawns) *)
Fixpoint no_event {A} (P : ev -> Prop) (c : comp A) : Prop :=
  match c with
  | Ret _ | Panic _ => True
  | Vis e k => ~ P e /\ forall v, no_event P (k v)
  | Spawn _ t k => no_event P t /\ forall h, no_event P (k h)
  | Join _ k => forall r, no_event P (k r)
  end.

Lemma no_event_bind {A B} P (c : comp A) (f : A -> comp B) :
  no_event P c -> (forall a, no_event P (f a)) -> no_event P (bind c f).
Proof.
  revert B f. induction c as [A a|A n|A e k IH|A name t IHt k IH|A h k IH]; cbn [bind no_event]; intros B f H Hf; auto.
  - destruct H; split; auto.
  - destruct H; split; auto.
Qed.
