(* Schedule independence (confluence) for NESTED fork-join blocks on the thread machine.

   ThreadsProps.v section 11 proves schedule independence for ONE block with events-only children.
   This file proves it for hereditarily block-structured code of ARBITRARY nesting depth, in the
   same per-name product world [pw_handle]:

     prog / compile     the syntax of hereditarily block-structured code (events + blocks whose
                        children and continuations are again such code) and its computation tree;
                        [compile p] satisfies ThreadsProps.hb (lemma hb_compile)
     wf                 the name discipline: in every block the children's name scopes are pairwise
                        disjoint and do not contain the name of the thread that runs the block
                        (hence of no ancestor); blocks are non-empty, [post] is strict
     ref / refs / rlog  the schedule-free reference, by structural recursion on the code
     TInv / KInv        the invariant (by recursion on the code), its frame and step lemmas
     schedule_independence_nested, two_schedules_agree_nested          any pool, caller = any thread
     schedule_independence_init, two_schedules_agree_init,
     every_finished_run_is_the_reference                               from [init]: one thread
     ExNestedIndep, ExNestedPanic                                      examples by vm_compute
     generated_names_wf, generated_code_schedule_independent           the names <parent>_join_<i>
   No parametricity in handles is needed: inside a block handles only reach `Join`, so the
   invariant quantifies the children's thread indices existentially and never looks into a
   continuation at two different handles.
   No axioms: every theorem is closed under the global context.  See THREADS_NOTES.md section 4. *)
From Coq Require Import ZArith Lia List Relations Wellfounded Permutation.
From Join Require Import Tok Names Comp Std Threads CompLaws NamesInj ThreadsProps.

(* ================================================================== *)
(** * 1. Syntax of hereditarily block-structured code                  *)
(* ================================================================== *)

(* [prog] is ThreadsProps.hb as a data type (so that the reference can be defined by structural
   recursion): a value, a panic, an event, or a block - named children, a pure post-processing of
   each join outcome, and a continuation that receives the post-processed outcomes. *)
Inductive prog : Type :=
| PRet (v : val)
| PPanic (n : N)
| PVis (e : ev) (k : val -> prog)
| PBlock (B : Type) (post : option val -> B + N) (kids : progs) (K : list B -> prog)
with progs : Type :=
| PNil
| PCons (name : string) (p : prog) (r : progs).

Scheme prog_mind := Induction for prog Sort Prop
  with progs_mind := Induction for progs Sort Prop.
Combined Scheme prog_progs_ind from prog_mind, progs_mind.

Fixpoint compile (p : prog) : comp val :=
  match p with
  | PRet v => Ret v
  | PPanic n => Panic n
  | PVis e k => Vis e (fun v => compile (k v))
  | PBlock B post kids K => gblock post (cnts kids) (fun bs => compile (K bs))
  end
with cnts (ps : progs) : list (string * comp val) :=
  match ps with
  | PNil => []
  | PCons a p r => (a, compile p) :: cnts r
  end.

Fixpoint plen (ps : progs) : nat :=
  match ps with PNil => 0 | PCons _ _ r => S (plen r) end.

Fixpoint pskip (j : nat) (ps : progs) : progs :=
  match j, ps with
  | O, _ => ps
  | S j', PNil => PNil
  | S j', PCons _ _ r => pskip j' r
  end.

Lemma cnts_length ps : List.length (cnts ps) = plen ps.
Proof. induction ps as [|a p r IH]; cbn; auto. Qed.

Lemma cnts_pskip j : forall ps, cnts (pskip j ps) = skipn j (cnts ps).
Proof. induction j as [|j IH]; intros [|a p r]; cbn; auto. Qed.

Lemma pskip_all ps : pskip (plen ps) ps = PNil.
Proof. induction ps as [|a p r IH]; cbn; auto. Qed.

Lemma pskip_cons_lt j : forall ps a q r, pskip j ps = PCons a q r -> j < plen ps.
Proof.
  induction j as [|j IH]; intros [|b p r'] a q r H; cbn in *; try discriminate; try lia.
  apply IH in H. lia.
Qed.

Lemma pskip_S j : forall ps a q r, pskip j ps = PCons a q r -> pskip (S j) ps = r.
Proof.
  induction j as [|j IH]; intros [|b p r'] a q r H; cbn in *; try discriminate.
  - now injection H as _ _ ->.
  - eapply IH; eauto.
Qed.

Lemma pskip_lt_cons j : forall ps, j < plen ps -> exists a q r, pskip j ps = PCons a q r.
Proof.
  induction j as [|j IH]; intros [|b p r'] H; cbn in *; try lia; eauto.
  apply IH. lia.
Qed.

(* ---------------------------------------------------------------- *)
(** ** Names: which thread names a program may use (statically)       *)

(* [uses p n]: on some path p spawns, at some depth, a thread named n *)
Fixpoint uses (p : prog) (n : option string) : Prop :=
  match p with
  | PRet _ | PPanic _ => False
  | PVis e k => exists v, uses (k v) n
  | PBlock B post kids K => kuses kids n \/ exists bs, uses (K bs) n
  end
with kuses (ps : progs) (n : option string) : Prop :=
  match ps with
  | PNil => False
  | PCons a p r => (n = Some a \/ uses p n) \/ kuses r n
  end.

(* the name scope of a thread named nm that runs p *)
Definition inscope (nm : option string) (p : prog) (n : option string) : Prop := n = nm \/ uses p n.

(* THE NAME DISCIPLINE (with the two side conditions of ThreadsProps.hb: blocks are non-empty and
   [post] turns "the thread panicked" into a panic).  [wf nm p]: p is run by a thread named nm;
   in every block the children's scopes (own name + every name used below) are pairwise disjoint
   and do not contain nm; hereditarily, so no thread carries the name of an ancestor and two
   threads that may be alive at the same time carry different names.  (Sequentially composed
   blocks MAY reuse names - the generated names <parent>_join_<i> do.) *)
Fixpoint wf (nm : option string) (p : prog) : Prop :=
  match p with
  | PRet _ | PPanic _ => True
  | PVis e k => forall v, wf nm (k v)
  | PBlock B post kids K =>
      kids <> PNil /\ strict_post post /\ ~ kuses kids nm /\ kwf kids /\ forall bs, wf nm (K bs)
  end
with kwf (ps : progs) : Prop :=
  match ps with
  | PNil => True
  | PCons a p r => wf (Some a) p /\ (forall n, inscope (Some a) p n -> ~ kuses r n) /\ kwf r
  end.

(* [compile p] is hereditarily block-structured in the sense of ThreadsProps *)
Lemma hb_compile_mut :
  (forall p nm, wf nm p -> hb (compile p)) /\
  (forall ps, kwf ps -> Forall (fun nt => hb (snd nt)) (cnts ps)).
Proof.
  apply prog_progs_ind; cbn.
  - constructor.
  - constructor.
  - intros e k IH nm H. constructor. intros v. eapply IH; eauto.
  - intros B post kids IHk K IH nm (Hne & Hs & _ & Hk & HK). apply hb_block; auto.
    + destruct kids; cbn; [contradiction|discriminate].
    + intros bs. eapply IH; eauto.
  - constructor.
  - intros a p IHp r IHr (Hp & _ & Hr). constructor; eauto.
Qed.

Theorem hb_compile p nm : wf nm p -> hb (compile p).
Proof. apply hb_compile_mut. Qed.

Lemma oname_dec (a b : option string) : {a = b} + {a <> b}.
Proof. decide equality. apply String.string_dec. Qed.

Lemma name_eqb_refl a : name_eqb a a = true.
Proof. now apply name_eqb_spec. Qed.

Lemma name_eqb_neq a b : a <> b -> name_eqb a b = false.
Proof. intros H. destruct (name_eqb a b) eqn:E; [|reflexivity]. apply name_eqb_spec in E. contradiction. Qed.

Lemma posts_fail' {B} (post : option val -> B + N) : forall os m bs o n0,
  Forall2 (fun o b => post o = inl b) (firstn m os) bs -> nth_error os m = Some o ->
  post o = inr n0 -> posts post os = inr n0.
Proof.
  induction os as [|o' os IH]; intros [|m] bs o n0 HF Hn Hp; cbn in *; try discriminate.
  - injection Hn as ->. now rewrite Hp.
  - inversion HF as [|? b ? bs' Hob HF']; subst. rewrite Hob. now rewrite (IH m bs' o n0 HF' Hn Hp).
Qed.

Lemma posts_inl_all {B} (post : option val -> B + N) : forall os bs,
  posts post os = inl bs -> Forall2 (fun o b => post o = inl b) os bs.
Proof.
  induction os as [|o os IH]; intros bs H; cbn in H.
  - injection H as <-. constructor.
  - destruct (post o) as [b|n] eqn:E; [|discriminate].
    destruct (posts post os) as [bs'|n] eqn:E'; [|discriminate]. injection H as <-.
    constructor; auto.
Qed.

(* a strict post-processing that succeeded on all outcomes: all of them are values *)
Lemma posts_strict_all_some {B} (post : option val -> B + N) os bs :
  strict_post post -> posts post os = inl bs -> forall o, In o os -> exists v, o = Some v.
Proof.
  intros [n Hn] H o Hin. apply posts_inl_all in H.
  destruct (Forall2_In_l _ _ _ _ H Hin) as (b & _ & Hb). destruct o as [v|]; [eauto|congruence].
Qed.

(* ================================================================== *)
(** * 2. The schedule-free reference                                   *)
(* ================================================================== *)

Section Indep.
  Variable cstate : Type.
  (* the per-thread component of the world: thread NAME, event, that name's own state *)
  Variable h : option string -> ev -> cstate -> option val * cstate.

  (* The reference runs on the product world EXTENDED by a ghost log per name: component n =
     (the state of n's component, the events made so far under the name n, oldest first). *)
  Definition xst : Type := (cstate * list ev)%type.
  Definition xworld : Type := option string -> xst.

  Definition xans (nm : option string) (e : ev) (x : xst) : option val * xst :=
    let a := answer h nm e (fst x) in (fst a, (snd a, snd x ++ [e])).

  Definition xupd (w : xworld) (nm : option string) (x : xst) : xworld :=
    fun n => if name_eqb n nm then x else w n.

  Lemma xupd_same w nm x : xupd w nm x nm = x.
  Proof. unfold xupd. now rewrite name_eqb_refl. Qed.
  Lemma xupd_other w nm x n : n <> nm -> xupd w nm x n = w n.
  Proof. intros H. unfold xupd. now rewrite name_eqb_neq. Qed.

  (* THE REFERENCE, by structural recursion on the code; no pool, no schedule, no handles.
     [ref nm p w] = (outcome, final world, own events) of a thread named nm that runs p from w:
     an event reads and writes component nm; a block runs its children one after the other,
     child (a, q) under the name a on the world its predecessor left (they touch different
     components, so this is "each on its own components"), feeds their outcomes through [post]
     and, if no post-processing fails, continues with K.  This is the run of the schedule that
     runs every child to completion at its spawn point (theorem [ref_is_a_run] below). *)
  Fixpoint ref (nm : option string) (p : prog) (w : xworld) : option val * xworld * list ev :=
    match p with
    | PRet v => (Some v, w, [])
    | PPanic _ => (None, w, [])
    | PVis e k =>
        let a := xans nm e (w nm) in
        let w' := xupd w nm (snd a) in
        match fst a with
        | Some v => let r := ref nm (k v) w' in (fst (fst r), snd (fst r), e :: snd r)
        | None => (None, w', [e])
        end
    | PBlock B post kids K =>
        let rs := refs kids w in
        match posts post (fst rs) with
        | inl bs => ref nm (K bs) (snd rs)
        | inr _ => (None, snd rs, [])
        end
    end
  with refs (ps : progs) (w : xworld) : list (option val) * xworld :=
    match ps with
    | PNil => ([], w)
    | PCons a p r =>
        let x := ref (Some a) p w in
        let y := refs r (snd (fst x)) in
        (fst (fst x) :: fst y, snd y)
    end.

  (* one record per thread: name, outcome, own events *)
  Definition trec : Type := (option string * option val * list ev)%type.
  Definition rname (r : trec) : option string := fst (fst r).

  (* the threads SPAWNED (at any depth) while a thread named nm runs p from w, in reference order *)
  Fixpoint rlog (nm : option string) (p : prog) (w : xworld) : list trec :=
    match p with
    | PRet _ | PPanic _ => []
    | PVis e k =>
        let a := xans nm e (w nm) in
        match fst a with
        | Some v => rlog nm (k v) (xupd w nm (snd a))
        | None => []
        end
    | PBlock B post kids K =>
        let rs := refs kids w in
        rlogs kids w ++
        match posts post (fst rs) with
        | inl bs => rlog nm (K bs) (snd rs)
        | inr _ => []
        end
    end
  with rlogs (ps : progs) (w : xworld) : list trec :=
    match ps with
    | PNil => []
    | PCons a p r =>
        let x := ref (Some a) p w in
        (Some a, fst (fst x), snd x) :: rlog (Some a) p w ++ rlogs r (snd (fst x))
    end.

  Definition rnames (nm : option string) (p : prog) (w : xworld) : list (option string) :=
    map rname (rlog nm p w).
  Definition knames (ps : progs) (w : xworld) : list (option string) := map rname (rlogs ps w).

  Lemma refs_length ps : forall w, List.length (fst (refs ps w)) = plen ps.
  Proof. induction ps as [|a p r IH]; intros w; cbn; auto. Qed.

  (* the names in the reference log are names the program uses *)
  Lemma rlog_uses_mut :
    (forall p nm w r, In r (rlog nm p w) -> uses p (rname r)) /\
    (forall ps w r, In r (rlogs ps w) -> kuses ps (rname r)).
  Proof.
    apply prog_progs_ind; cbn.
    - intros v nm w r [].
    - intros n nm w r [].
    - intros e k IH nm w r. destruct (fst (answer h nm e (fst (w nm)))) as [v|]; [|intros []].
      intros H. exists v. eapply IH; eauto.
    - intros B post kids IHk K IH nm w r H. apply in_app_iff in H. destruct H as [H|H].
      + left. eapply IHk; eauto.
      + destruct (posts post (fst (refs kids w))) as [bs|]; [|destruct H]. right. exists bs. eapply IH; eauto.
    - intros w r [].
    - intros a p IHp r IHr w x [<-|H]; [left; left; reflexivity|].
      apply in_app_iff in H. destruct H as [H|H].
      + left. right. eapply IHp; eauto.
      + right. eapply IHr; eauto.
  Qed.

  Lemma rnames_uses p nm w n : In n (rnames nm p w) -> uses p n.
  Proof.
    unfold rnames. intros H. apply in_map_iff in H. destruct H as (r & <- & Hr).
    eapply (proj1 rlog_uses_mut); eauto.
  Qed.
  Lemma knames_kuses ps w n : In n (knames ps w) -> kuses ps n.
  Proof.
    unfold knames. intros H. apply in_map_iff in H. destruct H as (r & <- & Hr).
    eapply (proj2 rlog_uses_mut); eauto.
  Qed.

  (* FRAME: the reference changes only the component of the running thread and the components of
     the threads it spawns *)
  Lemma ref_frame_mut :
    (forall p nm w n, n <> nm -> ~ In n (rnames nm p w) -> snd (fst (ref nm p w)) n = w n) /\
    (forall ps w n, ~ In n (knames ps w) -> snd (refs ps w) n = w n).
  Proof.
    apply prog_progs_ind; cbn.
    - reflexivity.
    - reflexivity.
    - intros e k IH nm w n Hne Hn. unfold rnames in *. cbn in Hn.
      destruct (fst (answer h nm e (fst (w nm)))) as [v|]; cbn.
      + rewrite IH by auto. now apply xupd_other.
      + now apply xupd_other.
    - intros B post kids IHk K IH nm w n Hne Hn. unfold rnames in *. cbn in Hn.
      rewrite map_app, in_app_iff in Hn.
      destruct (posts post (fst (refs kids w))) as [bs|]; cbn.
      + rewrite IH by (unfold rnames; auto). apply IHk. unfold knames. auto.
      + apply IHk. unfold knames. auto.
    - reflexivity.
    - intros a p IHp r IHr w n Hn. unfold knames in *. cbn in Hn. rewrite map_app, in_app_iff in Hn.
      rewrite IHr by (unfold knames; auto). apply IHp; unfold rnames; auto.
  Qed.

  Definition ref_frame := proj1 ref_frame_mut.
  Definition refs_frame := proj2 ref_frame_mut.

  (* ================================================================== *)
  (** * 3. The machine in the product world; the extended world of a state *)
  (* ================================================================== *)

  Notation state := (state (pworld cstate)).
  Notation step_rel := (step_rel (pworld cstate) (pw_handle cstate h)).
  Notation run_thr := (run_thr (pw_handle cstate h)).
  Notation thr := (thr_of (pworld cstate)).
  Notation fin := (fin (pworld cstate)).
  Notation unfinished := (unfinished (pworld cstate)).

  (* the name of thread i, if it exists *)
  Definition tname (s : state) (i : nat) : option (option string) :=
    option_map th_name (nth_error (pool s) i).
  Definition named_b (s : state) (n : option string) (x : nat * ev) : bool :=
    match tname s (fst x) with Some m => name_eqb m n | None => false end.
  (* the events made under the NAME n (by whichever threads carried it), oldest first *)
  Definition nev (n : option string) (s : state) : list ev :=
    rev (map snd (filter (named_b s n) (trace s))).
  (* the extended world of a machine state: the real component and the ghost log *)
  Definition xw (s : state) : xworld := fun n => (world s n, nev n s).

  Definition tvalid (s : state) : Prop := forall x, In x (trace s) -> fst x < List.length (pool s).
  Definition isthr (s : state) (y : nat) (nm : option string) : Prop :=
    exists th, thr s y = Some th /\ th_name th = nm.
  Definition xcode (s : state) (x : nat) (d : comp val) : Prop :=
    exists th, thr s x = Some th /\ th_code th = d.
  (* the own events of thread x *)
  Definition xevs (s : state) (x : nat) : list ev := evs_of x (trace s).

  Lemma isthr_tname s y nm : isthr s y nm <-> tname s y = Some nm.
  Proof.
    unfold isthr, tname, thr_of. split.
    - intros (th & -> & <-). reflexivity.
    - destruct (nth_error (pool s) y) as [th|]; cbn; [|discriminate]. intros H; injection H as <-. eauto.
  Qed.

  Lemma isthr_inj s y a b : isthr s y a -> isthr s y b -> a = b.
  Proof. intros (th & H1 & <-) (th' & H2 & <-). congruence. Qed.

  Lemma isthr_lt s y nm : isthr s y nm -> y < List.length (pool s).
  Proof. intros (th & H & _). eapply nth_error_Some_lt; eauto. Qed.

  Lemma isthr_step i s s' y nm : step_rel i s s' -> isthr s y nm -> isthr s' y nm.
  Proof.
    intros Hst (th & Hth & Hn).
    destruct (step_thr_stable _ _ _ _ _ _ _ Hst Hth) as (th' & Hth' & Hn' & _).
    exists th'. split; [exact Hth'|congruence].
  Qed.

  Lemma tname_step i s s' j : step_rel i s s' -> j < List.length (pool s) -> tname s' j = tname s j.
  Proof.
    intros Hst Hlt. destruct (thr_exists _ _ _ Hlt) as [th Hth].
    assert (H1 : isthr s j (th_name th)) by (exists th; auto).
    pose proof (isthr_step _ _ _ _ _ Hst H1) as H2.
    apply isthr_tname in H1, H2. congruence.
  Qed.

  Lemma tvalid_step i s s' : step_rel i s s' -> tvalid s -> tvalid s'.
  Proof.
    intros Hst Hv x Hx. pose proof (step_length _ _ _ _ _ Hst) as Hl.
    destruct (step_trace _ _ _ _ _ Hst) as [E|[e E]]; rewrite E in Hx.
    - specialize (Hv x Hx). lia.
    - destruct Hx as [<-|Hx]; [|specialize (Hv x Hx); lia]. cbn.
      destruct (step_unfinished _ _ _ _ _ Hst) as (th & Hth & _). apply nth_error_Some_lt in Hth. lia.
  Qed.

  Lemma filter_named_step i s s' n :
    step_rel i s s' -> tvalid s -> filter (named_b s' n) (trace s) = filter (named_b s n) (trace s).
  Proof.
    intros Hst Hv. apply filter_ext_in. intros x Hx. unfold named_b.
    now rewrite (tname_step _ _ _ _ Hst (Hv x Hx)).
  Qed.

  Lemma nev_same i s s' n : step_rel i s s' -> tvalid s -> trace s' = trace s -> nev n s' = nev n s.
  Proof. intros Hst Hv E. unfold nev. rewrite E. now rewrite (filter_named_step _ _ _ _ Hst Hv). Qed.

  Lemma nev_cons i s s' e nmi n :
    step_rel i s s' -> tvalid s -> trace s' = (i, e) :: trace s -> isthr s i nmi ->
    nev n s' = if name_eqb nmi n then nev n s ++ [e] else nev n s.
  Proof.
    intros Hst Hv E Hi. unfold nev. rewrite E. cbn [filter].
    rewrite (filter_named_step _ _ _ _ Hst Hv).
    pose proof (isthr_step _ _ _ _ _ Hst Hi) as Hi'. apply isthr_tname in Hi'.
    unfold named_b at 1. cbn [fst]. rewrite Hi'. destruct (name_eqb nmi n); reflexivity.
  Qed.

  (* ONE STEP, in terms of the extended world *)
  Lemma step_cases i s s' :
    step_rel i s s' -> tvalid s ->
    exists th, thr s i = Some th /\
      ((exists e k, th_code th = Vis e k /\
          let a := xans (th_name th) e (xw s (th_name th)) in
          pool s' = upd (pool s) i (set_code th (vis_next k (fst a))) /\
          xw s' (th_name th) = snd a /\ (forall n, n <> th_name th -> xw s' n = xw s n) /\
          trace s' = (i, e) :: trace s) \/
       (exists a t k, th_code th = Spawn a t k /\
          pool s' = upd (pool s) i (set_code th (k (List.length (pool s)))) ++ [mkThread (Some a) (Some i) t] /\
          (forall n, xw s' n = xw s n) /\ trace s' = trace s) \/
       (exists hj k th' r, th_code th = Join hj k /\ thr s hj = Some th' /\ outcome (th_code th') = Some r /\
          pool s' = upd (pool s) i (set_code th (k r)) /\
          (forall n, xw s' n = xw s n) /\ trace s' = trace s)).
  Proof.
    intros Hst Hv. pose proof Hst as Hst0.
    destruct Hst as [th e k r w' Hth Hc Ha Es'|th a t k Hth Hc Es'|th hj k th' r Hth Hc Hth' Ho Es'];
      exists th; (split; [exact Hth|]).
    - left. exists e, k. split; [exact Hc|]. cbn zeta.
      destruct (answer_pw cstate h (th_name th) e (world s)) as (H1 & H2 & H3). rewrite Ha in H1, H2, H3. cbn in H1, H2, H3.
      assert (Ht : trace s' = (i, e) :: trace s) by (subst s'; reflexivity).
      assert (Hw : world s' = w') by (subst s'; reflexivity).
      assert (Hi : isthr s i (th_name th)) by (exists th; auto).
      unfold xans. cbn [fst snd xw].
      split; [subst s'; cbn; now rewrite <- H1|]. split; [|split; [|exact Ht]].
      + unfold xw. rewrite Hw, H2. f_equal.
        rewrite (nev_cons _ _ _ _ _ _ Hst0 Hv Ht Hi). now rewrite name_eqb_refl.
      + intros n Hn. unfold xw. rewrite Hw, (H3 n Hn). f_equal.
        rewrite (nev_cons _ _ _ _ _ _ Hst0 Hv Ht Hi). rewrite name_eqb_neq by congruence. reflexivity.
    - right; left. exists a, t, k. split; [exact Hc|]. split; [subst s'; reflexivity|].
      assert (Ht : trace s' = trace s) by (subst s'; reflexivity).
      split; [|exact Ht]. intros n. unfold xw. rewrite (nev_same _ _ _ _ Hst0 Hv Ht). subst s'. reflexivity.
    - right; right. exists hj, k, th', r. split; [exact Hc|]. split; [exact Hth'|]. split; [exact Ho|].
      split; [subst s'; reflexivity|].
      assert (Ht : trace s' = trace s) by (subst s'; reflexivity).
      split; [|exact Ht]. intros n. unfold xw. rewrite (nev_same _ _ _ _ Hst0 Hv Ht). subst s'. reflexivity.
  Qed.

  (* a step of a thread named nmi leaves every other component alone *)
  Lemma xw_other i s s' nmi n :
    step_rel i s s' -> tvalid s -> isthr s i nmi -> n <> nmi -> xw s' n = xw s n.
  Proof.
    intros Hst Hv Hi Hn. destruct (step_cases _ _ _ Hst Hv) as (th & Hth & Hc).
    assert (th_name th = nmi) as <-.
    { apply (isthr_inj s i); [exists th; auto|exact Hi]. }
    destruct Hc as [(e & k & _ & _ & _ & H & _)|[(a & t & k & _ & _ & H & _)|(hj & k & th' & r & _ & _ & _ & _ & H & _)]]; auto.
  Qed.

  Lemma xevs_other i s s' x : step_rel i s s' -> x <> i -> xevs s' x = xevs s x.
  Proof.
    intros Hst Hne. unfold xevs. destruct (step_trace _ _ _ _ _ Hst) as [E|[e E]]; rewrite E; [reflexivity|].
    apply evs_of_cons_other. congruence.
  Qed.

  Lemma xcode_other i s s' x d : step_rel i s s' -> x <> i -> xcode s x d -> xcode s' x d.
  Proof.
    intros Hst Hne (th & Hth & Hc).
    destruct (step_thr_stable _ _ _ _ _ _ _ Hst Hth) as (th' & Hth' & _ & _ & Hsame & _).
    rewrite (Hsame Hne) in Hth'. exists th; auto.
  Qed.

  Lemma xevs_new s x : tvalid s -> List.length (pool s) <= x -> xevs s x = [].
  Proof.
    intros Hv Hx. unfold xevs. apply evs_of_none. intros y Hy E. specialize (Hv y Hy). lia.
  Qed.

  (* ================================================================== *)
  (** * 4. The invariant                                                 *)
  (* ================================================================== *)

  (* thread x has code [code], has made [base] events, and the components in Sc are as in w *)
  Definition Leaf (Sc : option string -> Prop) (x : nat) (s : state) (code : comp val)
             (w : xworld) (base : nat) : Prop :=
    xcode s x code /\ List.length (xevs s x) = base /\ forall n, Sc n -> xw s n = w n.

  (* children with their descendants: (thread of the child, its descendants) *)
  Definition flat (hDs : list (nat * list nat)) : list nat :=
    List.concat (map (fun hd => fst hd :: snd hd) hDs).

  (* thread y is finished and (name, outcome, own events) is a record of the log *)
  Definition finrec (s : state) (y : nat) (log : list trec) : Prop :=
    exists th r, thr s y = Some th /\ outcome (th_code th) = Some r /\ In (th_name th, r, xevs s y) log.

  (* the caller x of a block, inside the block; hs = the children spawned so far.  x is silent,
     the names outside the logged names of the children are untouched, and x is spawning, or
     joining (the first m children are finished and joined), or finished by a failed join *)
  Definition InBlock {B} (post : option val -> B + N) (kids : progs) (K' : list B -> comp val)
             (Sc : option string -> Prop) (w : xworld) (x : nat) (s : state) (base : nat)
             (hs : list nat) : Prop :=
    let outs := fst (refs kids w) in
    (forall n, Sc n -> ~ In n (knames kids w) -> xw s n = w n) /\
    List.length (xevs s x) = base /\
    ( ((exists a q r, pskip (List.length hs) kids = PCons a q r) /\
       xcode s x (spawn_all_acc (cnts (pskip (List.length hs) kids)) (rev hs)
                                (fun hs' => join_all_acc post hs' [] K')))
      \/
      (List.length hs = plen kids /\ exists m bs, m < List.length hs /\
         Forall2 (fun o b => post o = inl b) (firstn m outs) bs /\
         Forall (fun y => exists r, fin s y r) (firstn m hs) /\
         xcode s x (join_all_acc post (skipn m hs) (rev bs) K'))
      \/
      (List.length hs = plen kids /\ exists n0, posts post outs = inr n0 /\ xcode s x (Panic n0)) ).

  (* [TInv Sc p nm w x s base D]: thread x, named nm, began to run [compile p] when it had made
     [base] events and the extended world was w on Sc (a set of names that contains the scope of
     (nm, p) and that no thread outside x's subtree touches); s is a state this can have led to, and D
     lists the threads spawned below x since then.  The definition follows the REFERENCE run of p
     from w: every expectation is computed from w, none from s.
     [KInv ps w s hDs]: the children ps of a block that began in world w; the first |hDs| of them
     have been spawned (child thread, its descendants), the others have not and their scopes are
     untouched. *)
  Fixpoint TInv (Sc : option string -> Prop) (p : prog) (nm : option string) (w : xworld)
           (x : nat) (s : state) (base : nat) (D : list nat) {struct p} : Prop :=
    (Leaf Sc x s (compile p) w base /\ D = []) \/
    match p with
    | PRet _ | PPanic _ => False
    | PVis e k =>
        nth_error (xevs s x) base = Some e /\
        let a := xans nm e (w nm) in
        let w' := xupd w nm (snd a) in
        match fst a with
        | Some v => TInv Sc (k v) nm w' x s (S base) D
        | None => Leaf Sc x s (Panic P_USER) w' (S base) /\ D = []
        end
    | PBlock B post kids K =>
        let outs := fst (refs kids w) in
        let wn := snd (refs kids w) in
        (* inside the block *)
        (exists hDs, D = flat hDs /\ KInv kids w s hDs /\
           InBlock post kids (fun bs => compile (K bs)) Sc w x s base (map fst hDs))
        \/ (* past the block: every child and descendant is finished, as the log says *)
        (exists bs Dold DK, D = Dold ++ DK /\ posts post outs = inl bs /\
           (forall y, In y Dold -> finrec s y (rlogs kids w)) /\
           TInv Sc (K bs) nm wn x s base DK)
    end
  with KInv (ps : progs) (w : xworld) (s : state) (hDs : list (nat * list nat)) {struct ps} : Prop :=
    match ps with
    | PNil => hDs = []
    | PCons a q r =>
        let w' := snd (fst (ref (Some a) q w)) in
        match hDs with
        | [] => (forall n, inscope (Some a) q n -> xw s n = w n) /\ KInv r w' s []
        | hd :: rest =>
            isthr s (fst hd) (Some a) /\
            TInv (inscope (Some a) q) q (Some a) w (fst hd) s 0 (snd hd) /\
            KInv r w' s rest
        end
    end.

  (* ---------------------------------------------------------------- *)
  (** ** Reading the invariant: names of the members                   *)

  Lemma rnames_block nm B (post : option val -> B + N) kids K w :
    rnames nm (PBlock B post kids K) w =
    knames kids w ++ match posts post (fst (refs kids w)) with
                     | inl bs => rnames nm (K bs) (snd (refs kids w))
                     | inr _ => []
                     end.
  Proof.
    unfold rnames, knames. cbn. rewrite map_app. f_equal.
    destruct (posts post (fst (refs kids w))); reflexivity.
  Qed.

  Lemma knames_cons a q r w :
    knames (PCons a q r) w = Some a :: rnames (Some a) q w ++ knames r (snd (fst (ref (Some a) q w))).
  Proof. unfold knames, rnames. cbn. now rewrite map_app. Qed.

  Lemma flat_cons hd rest : flat (hd :: rest) = fst hd :: snd hd ++ flat rest.
  Proof. reflexivity. Qed.

  Lemma flat_app a b : flat (a ++ b) = flat a ++ flat b.
  Proof. unfold flat. now rewrite map_app, concat_app. Qed.

  (* every member is a thread whose name is in the reference log *)
  Lemma TInv_names_mut :
    (forall p Sc nm w x s base D, TInv Sc p nm w x s base D ->
       forall y, In y D -> exists m, isthr s y m /\ In m (rnames nm p w)) /\
    (forall ps w s hDs, KInv ps w s hDs ->
       forall y, In y (flat hDs) -> exists m, isthr s y m /\ In m (knames ps w)).
  Proof.
    apply prog_progs_ind.
    - intros v Sc nm w x s base D [[_ ->]|[]] y [].
    - intros n Sc nm w x s base D [[_ ->]|[]] y [].
    - intros e k IH Sc nm w x s base D [[_ ->]|H] y Hy; [destruct Hy|].
      cbn in H. destruct H as [_ H]. unfold rnames. cbn.
      destruct (fst (answer h nm e (fst (w nm)))) as [v|].
      + eapply IH; eauto.
      + destruct H as [_ ->]. destruct Hy.
    - intros B post kids IHk K IH Sc nm w x s base D [[_ ->]|H] y Hy; [destruct Hy|].
      rewrite rnames_block. cbn in H.
      destruct H as [(hDs & -> & Hk & _)|(bs & Dold & DK & -> & Hps & Hold & HK)].
      + destruct (IHk _ _ _ Hk y Hy) as (m & Hm & Hin). exists m. split; [exact Hm|]. apply in_or_app. now left.
      + rewrite Hps. apply in_app_iff in Hy. destruct Hy as [Hy|Hy].
        * destruct (Hold y Hy) as (th & r & Hth & _ & Hin). exists (th_name th). split; [exists th; auto|].
          apply in_or_app. left. unfold knames. apply in_map_iff. eexists; split; [|exact Hin]. reflexivity.
        * destruct (IH bs _ _ _ _ _ _ _ HK y Hy) as (m & Hm & Hin). exists m. split; [exact Hm|].
          apply in_or_app. now right.
    - intros w s hDs H y Hy. cbn in H. subst hDs. destruct Hy.
    - intros a q IHq r IHr w s hDs H y Hy. rewrite knames_cons. cbn in H.
      destruct hDs as [|hd rest]; [destruct Hy|]. destruct H as (Hhd & Hq & Hr).
      rewrite flat_cons in Hy. destruct Hy as [<-|Hy].
      + exists (Some a). split; [exact Hhd|now left].
      + apply in_app_iff in Hy. destruct Hy as [Hy|Hy].
        * destruct (IHq _ _ _ _ _ _ _ Hq y Hy) as (m & Hm & Hin). exists m. split; [exact Hm|].
          right. apply in_or_app. now left.
        * destruct (IHr _ _ _ Hr y Hy) as (m & Hm & Hin). exists m. split; [exact Hm|].
          right. apply in_or_app. now right.
  Qed.

  Definition TInv_names := proj1 TInv_names_mut.
  Definition KInv_names := proj2 TInv_names_mut.

  (* members of a thread named nm that runs p have names p uses *)
  Lemma TInv_member_uses p Sc nm w x s base D y m :
    TInv Sc p nm w x s base D -> In y D -> isthr s y m -> uses p m.
  Proof.
    intros H Hy Hm. destruct (TInv_names _ _ _ _ _ _ _ _ H y Hy) as (m' & Hm' & Hin).
    rewrite (isthr_inj _ _ _ _ Hm Hm'). eapply rnames_uses; eauto.
  Qed.

  (* ---------------------------------------------------------------- *)
  (** ** Reading the invariant: a finished thread                      *)

  Lemma fin_xcode s x r d : fin s x r -> xcode s x d -> outcome d = Some r.
  Proof. intros (th & H1 & H2) (th' & H3 & H4). congruence. Qed.

  Lemma skipn_len {A} (l : list A) n : List.length l = n -> skipn n l = [].
  Proof. intros <-. apply skipn_all. Qed.

  Lemma spawn_all_unfinished nt todo acc k : outcome (spawn_all_acc (nt :: todo) acc k) = None.
  Proof. reflexivity. Qed.

  Lemma join_all_unfinished {B} (post : option val -> B + N) hj todo acc K :
    outcome (join_all_acc post (hj :: todo) acc K) = None.
  Proof. reflexivity. Qed.

  Lemma cnts_pskip_cons j kids a q r :
    pskip j kids = PCons a q r -> cnts (pskip j kids) = (a, compile q) :: cnts r.
  Proof. intros ->. reflexivity. Qed.

  Lemma skipn_lt_cons {A} (l : list A) m : m < List.length l -> exists a r, skipn m l = a :: r.
  Proof.
    revert m; induction l as [|a l IH]; intros [|m] H; cbn in *; try lia; eauto. apply IH. lia.
  Qed.

  (* A FINISHED THREAD: its outcome and its own events are the reference's *)
  Lemma TInv_fin p : forall Sc nm w x s base D r,
    wf nm p -> TInv Sc p nm w x s base D -> fin s x r ->
    r = fst (fst (ref nm p w)) /\ skipn base (xevs s x) = snd (ref nm p w).
  Proof.
    induction p as [v|n|e k IH|B post kids _ K IH| |] using prog_mind with (P0 := fun _ => True);
      try (intros; exact I); intros Sc nm w x s base D r Hwf H Hfin.
    - destruct H as [[(Hc & Hl & _) _]|[]]. pose proof (fin_xcode _ _ _ _ Hfin Hc) as E. cbn in E.
      injection E as <-. cbn. split; [reflexivity|now apply skipn_len].
    - destruct H as [[(Hc & Hl & _) _]|[]]. pose proof (fin_xcode _ _ _ _ Hfin Hc) as E. cbn in E.
      injection E as <-. cbn. split; [reflexivity|now apply skipn_len].
    - destruct H as [[(Hc & _) _]|H].
      { pose proof (fin_xcode _ _ _ _ Hfin Hc) as E. discriminate. }
      cbn in H. destruct H as [Hn H]. cbn. cbn in Hwf.
      rewrite (skipn_nth _ _ _ Hn).
      destruct (fst (answer h nm e (fst (w nm)))) as [v|].
      + destruct (IH v _ _ _ _ _ _ _ _ (Hwf v) H Hfin) as [-> E]. cbn [fst snd]. split; [reflexivity|]. now rewrite E.
      + destruct H as [(Hc & Hl & _) _]. pose proof (fin_xcode _ _ _ _ Hfin Hc) as E. cbn in E.
        injection E as <-. cbn [fst snd]. split; [reflexivity|]. f_equal. now apply skipn_len.
    - cbn in Hwf. destruct Hwf as (Hne & Hs & Hnm & Hk & HK).
      destruct H as [[(Hc & _) _]|H].
      { pose proof (fin_xcode _ _ _ _ Hfin Hc) as E. cbn in E. destruct kids; [contradiction|discriminate]. }
      cbn in H. destruct H as [(hDs & _ & _ & HB)|(bs & Dold & DK & _ & Hps & _ & HKb)].
      + destruct HB as (_ & Hl & Hph). rewrite map_length in Hph. destruct Hph as [[(a & q & r' & Hsk) Hc]|[(_ & m & bs & Hm & _ & _ & Hc)|(_ & n0 & Hps & Hc)]].
        * pose proof (fin_xcode _ _ _ _ Hfin Hc) as E. rewrite (cnts_pskip_cons _ _ _ _ _ Hsk) in E. discriminate.
        * pose proof (fin_xcode _ _ _ _ Hfin Hc) as E.
          destruct (skipn_lt_cons (map fst hDs) m) as (a & r' & Es); [now rewrite map_length|].
          rewrite Es in E. discriminate.
        * pose proof (fin_xcode _ _ _ _ Hfin Hc) as E. cbn in E. injection E as <-.
          cbn. rewrite Hps. cbn. split; [reflexivity|now apply skipn_len].
      + cbn. rewrite Hps. eapply IH; eauto.
  Qed.

  (* ---------------------------------------------------------------- *)
  (** ** FRAME: a step of a thread whose name is outside the scope     *)

  Lemma Leaf_frame Sc x s s' i nmi code w base :
    step_rel i s s' -> tvalid s -> isthr s i nmi -> ~ Sc nmi -> x <> i ->
    Leaf Sc x s code w base -> Leaf Sc x s' code w base.
  Proof.
    intros Hst Hv Hi Hn Hne (Hc & Hl & Hw). split; [|split].
    - eapply xcode_other; eauto.
    - now rewrite (xevs_other _ _ _ _ Hst Hne).
    - intros n Hs. rewrite (xw_other _ _ _ _ n Hst Hv Hi); auto. intros ->. contradiction.
  Qed.

  Lemma fin_thr_step i s s' y r : step_rel i s s' -> fin s y r -> y <> i /\ thr s' y = thr s y.
  Proof.
    intros Hst Hf. assert (Hne : y <> i).
    { intros ->. eapply fin_not_unfinished; eauto. eapply step_unfinished; eauto. }
    split; [exact Hne|]. destruct Hf as (th & Hth & _).
    eapply step_other; eauto. eapply nth_error_Some_lt; eauto.
  Qed.

  Lemma finrec_step i s s' y log : step_rel i s s' -> finrec s y log -> finrec s' y log.
  Proof.
    intros Hst (th & r & Hth & Ho & Hin).
    destruct (fin_thr_step i s s' y r Hst) as [Hne Hsame]; [exists th; auto|].
    exists th, r. rewrite Hsame, (xevs_other _ _ _ _ Hst Hne). auto.
  Qed.

  Lemma TInv_frame_mut :
    (forall p Sc nm w x s base D i s' nmi,
       step_rel i s s' -> tvalid s -> isthr s i nmi -> ~ Sc nmi -> x <> i ->
       (forall n, uses p n -> Sc n) ->
       TInv Sc p nm w x s base D -> TInv Sc p nm w x s' base D) /\
    (forall ps w s hDs i s' nmi,
       step_rel i s s' -> tvalid s -> isthr s i nmi -> ~ kuses ps nmi ->
       KInv ps w s hDs -> KInv ps w s' hDs).
  Proof.
    apply prog_progs_ind.
    - intros v Sc nm w x s base D i s' nmi Hst Hv Hi Hn Hne Hsub [[H ->]|[]].
      left. split; [|reflexivity]. eapply Leaf_frame; eauto.
    - intros n Sc nm w x s base D i s' nmi Hst Hv Hi Hn Hne Hsub [[H ->]|[]].
      left. split; [|reflexivity]. eapply Leaf_frame; eauto.
    - intros e k IH Sc nm w x s base D i s' nmi Hst Hv Hi Hn Hne Hsub [[H ->]|H].
      { left. split; [|reflexivity]. eapply Leaf_frame; eauto. }
      right. cbn in H |- *. destruct H as [Hnth H]. rewrite (xevs_other _ _ _ _ Hst Hne). split; [exact Hnth|].
      destruct (fst (answer h nm e (fst (w nm)))) as [v|].
      + eapply IH; eauto. intros n Hu. apply Hsub. cbn. eauto.
      + destruct H as [H ->]. split; [|reflexivity]. eapply Leaf_frame; eauto.
    - intros B post kids IHk K IH Sc nm w x s base D i s' nmi Hst Hv Hi Hn Hne Hsub [[H ->]|H].
      { left. split; [|reflexivity]. eapply Leaf_frame; eauto. }
      right. cbn in H |- *.
      destruct H as [(hDs & HD & Hk & HU & Hl & Hph)|(bs & Dold & DK & HD & Hps & Hold & HK)].
      + left. exists hDs. split; [exact HD|]. split.
        { eapply IHk; eauto. intros Hu. apply Hn, Hsub. cbn. now left. }
        split.
        { intros n Hs Hnin. rewrite (xw_other _ _ _ _ n Hst Hv Hi); auto. intros ->. contradiction. }
        split; [now rewrite (xevs_other _ _ _ _ Hst Hne)|].
        destruct Hph as [[Hsk Hc]|[(Hlen & m & bs & Hm & HF & Hfin & Hc)|(Hlen & n0 & Hps & Hc)]].
        * left. split; [exact Hsk|]. eapply xcode_other; eauto.
        * right; left. split; [exact Hlen|]. exists m, bs. split; [exact Hm|]. split; [exact HF|]. split.
          -- eapply Forall_impl; [|exact Hfin]. cbn. intros y [r Hr]. exists r. eapply step_fin_stable; eauto.
          -- eapply xcode_other; eauto.
        * right; right. split; [exact Hlen|]. exists n0. split; [exact Hps|]. eapply xcode_other; eauto.
      + right. exists bs, Dold, DK. split; [exact HD|]. split; [exact Hps|]. split.
        { intros y Hy. eapply finrec_step; eauto. }
        eapply IH; eauto. intros n Hu. apply Hsub. cbn. right. eauto.
    - intros w s hDs i s' nmi Hst Hv Hi Hn H. exact H.
    - intros a q IHq r IHr w s hDs i s' nmi Hst Hv Hi Hn H. cbn in H |- *. cbn in Hn.
      destruct hDs as [|hd rest].
      + destruct H as [Hw Hr]. split.
        * intros n Hs. rewrite (xw_other _ _ _ _ n Hst Hv Hi); auto. intros ->. apply Hn. left. exact Hs.
        * eapply IHr; eauto.
      + destruct H as (Hhd & Hq & Hr). split; [eapply isthr_step; eauto|]. split.
        * apply (IHq _ _ _ _ _ _ _ i s' nmi Hst Hv Hi); [| | |exact Hq].
          -- intros Hs. apply Hn. left. exact Hs.
          -- intros E. apply Hn. left. left. rewrite <- E in Hi. eapply isthr_inj; eauto.
          -- intros n Hu. right. exact Hu.
        * eapply IHr; eauto.
  Qed.

  Definition TInv_frame := proj1 TInv_frame_mut.
  Definition KInv_frame := proj2 TInv_frame_mut.

  (* ---------------------------------------------------------------- *)
  (** ** Reading the invariant: a thread that RETURNED                 *)

  (* all its members are finished as the log says, and the components in Sc are the reference's
     final ones *)
  Lemma TInv_returned p : forall Sc nm w x s base D v,
    wf nm p -> TInv Sc p nm w x s base D -> fin s x (Some v) ->
    (forall y, In y D -> finrec s y (rlog nm p w)) /\
    (forall n, Sc n -> xw s n = snd (fst (ref nm p w)) n).
  Proof.
    induction p as [v0|n0|e k IH|B post kids _ K IH| |] using prog_mind with (P0 := fun _ => True);
      try (intros; exact I); intros Sc nm w x s base D v Hwf H Hfin.
    - destruct H as [[(Hc & Hl & Hw) ->]|[]]. split; [intros y []|exact Hw].
    - destruct H as [[(Hc & _) _]|[]]. pose proof (fin_xcode _ _ _ _ Hfin Hc) as E. discriminate.
    - destruct H as [[(Hc & _) _]|H].
      { pose proof (fin_xcode _ _ _ _ Hfin Hc) as E. discriminate. }
      cbn in H. destruct H as [Hn H]. cbn. cbn in Hwf.
      destruct (fst (answer h nm e (fst (w nm)))) as [v'|].
      + destruct (IH v' _ _ _ _ _ _ _ _ (Hwf v') H Hfin) as [H1 H2]. cbn [fst snd]. auto.
      + destruct H as [(Hc & _) _]. pose proof (fin_xcode _ _ _ _ Hfin Hc) as E. discriminate.
    - cbn in Hwf. destruct Hwf as (Hne & Hs & Hnm & Hk & HK).
      destruct H as [[(Hc & _) _]|H].
      { pose proof (fin_xcode _ _ _ _ Hfin Hc) as E. cbn in E. destruct kids; [contradiction|discriminate]. }
      cbn in H. destruct H as [(hDs & _ & _ & HB)|(bs & Dold & DK & -> & Hps & Hold & HKb)].
      + exfalso. destruct HB as (_ & Hl & Hph). rewrite map_length in Hph.
        destruct Hph as [[(a & q & r' & Hsk) Hc]|[(_ & m & bs & Hm & _ & _ & Hc)|(_ & n1 & Hps & Hc)]].
        * pose proof (fin_xcode _ _ _ _ Hfin Hc) as E. rewrite (cnts_pskip_cons _ _ _ _ _ Hsk) in E. discriminate.
        * pose proof (fin_xcode _ _ _ _ Hfin Hc) as E.
          destruct (skipn_lt_cons (map fst hDs) m) as (a & r' & Es); [now rewrite map_length|].
          rewrite Es in E. discriminate.
        * pose proof (fin_xcode _ _ _ _ Hfin Hc) as E. discriminate.
      + destruct (IH bs _ _ _ _ _ _ _ _ (HK bs) HKb Hfin) as [H1 H2]. cbn. rewrite Hps. split; [|exact H2].
        intros y Hy. apply in_app_iff in Hy. destruct Hy as [Hy|Hy].
        * destruct (Hold y Hy) as (th & r & Hth & Ho & Hin). exists th, r. split; [exact Hth|]. split; [exact Ho|].
          apply in_or_app. now left.
        * destruct (H1 y Hy) as (th & r & Hth & Ho & Hin). exists th, r. split; [exact Hth|]. split; [exact Ho|].
          apply in_or_app. now right.
  Qed.

  (* ---------------------------------------------------------------- *)
  (** ** The children of a block                                       *)

  Lemma TInv_leaf Sc p nm w x s base :
    Leaf Sc x s (compile p) w base -> TInv Sc p nm w x s base [].
  Proof. intros H. destruct p; left; auto. Qed.

  (* nobody spawned yet: the children's scopes are as in w *)
  Lemma KInv_init ps : forall w s,
    kwf ps -> (forall n, kuses ps n -> xw s n = w n) -> KInv ps w s [].
  Proof.
    induction ps as [|a q r IH]; intros w s Hwf Hw; cbn; [reflexivity|].
    cbn in Hwf. destruct Hwf as (Hq & Hdis & Hr). split.
    - intros n Hn. apply Hw. cbn. now left.
    - apply IH; [exact Hr|]. intros n Hn. rewrite ref_frame.
      + apply Hw. cbn. now right.
      + intros ->. apply (Hdis (Some a)); [now left|exact Hn].
      + intros Hin. apply (Hdis n); [right; eapply rnames_uses; eauto|exact Hn].
  Qed.

  (* the m-th spawned child *)
  Lemma KInv_nth ps : forall w s hDs m hd,
    kwf ps -> KInv ps w s hDs -> nth_error hDs m = Some hd ->
    exists a q wm, wf (Some a) q /\ isthr s (fst hd) (Some a) /\
      TInv (inscope (Some a) q) q (Some a) wm (fst hd) s 0 (snd hd) /\
      nth_error (fst (refs ps w)) m = Some (fst (fst (ref (Some a) q wm))).
  Proof.
    induction ps as [|a q r IH]; intros w s hDs m hd Hwf H Hn; cbn in H.
    - subst hDs. destruct m; discriminate.
    - cbn in Hwf. destruct Hwf as (Hq & Hdis & Hr).
      destruct hDs as [|hd0 rest]; [destruct m; discriminate|]. destruct H as (Hhd & Hq' & Hr').
      destruct m as [|m]; cbn in Hn.
      + injection Hn as <-. exists a, q, w. cbn. auto.
      + destruct (IH _ _ _ _ _ Hr Hr' Hn) as (a' & q' & wm & H1 & H2 & H3 & H4).
        exists a', q', wm. cbn. auto.
  Qed.

  (* the caller x (named nm, not a name the children use) spawns the next child *)
  Lemma KInv_spawn ps : forall w s s' hDs x nm a q r,
    step_rel x s s' -> tvalid s -> isthr s x nm -> ~ kuses ps nm ->
    (forall n, xw s' n = xw s n) ->
    KInv ps w s hDs -> pskip (List.length hDs) ps = PCons a q r ->
    let L := List.length (pool s) in
    isthr s' L (Some a) -> xcode s' L (compile q) -> xevs s' L = [] ->
    KInv ps w s' (hDs ++ [(L, [])]).
  Proof.
    induction ps as [|b p r' IH]; intros w s s' hDs x nm a q r Hst Hv Hx Hnm Hw H Hsk L HL Hc He.
    - destruct hDs; discriminate.
    - cbn in H, Hnm. destruct hDs as [|hd rest].
      + cbn in Hsk. injection Hsk as <- <- <-. destruct H as [Hsc Hr]. cbn. split; [exact HL|]. split.
        * apply TInv_leaf. split; [exact Hc|]. split.
          -- now rewrite He.
          -- intros n Hn. rewrite Hw. now apply Hsc.
        * eapply KInv_frame; eauto.
      + cbn in Hsk. destruct H as (Hhd & Hp & Hr). cbn. split; [eapply isthr_step; eauto|]. split.
        * apply (TInv_frame _ _ _ _ _ _ _ _ x s' nm Hst Hv Hx); [| | |exact Hp].
          -- intros Hs. apply Hnm. left. exact Hs.
          -- intros E. apply Hnm. left. left. rewrite <- E in Hx. eapply isthr_inj; eauto.
          -- intros n Hu. right. exact Hu.
        * eapply IH; eauto.
  Qed.

  Lemma pskip_last j : forall ps a q, pskip j ps = PCons a q PNil -> plen ps = S j.
  Proof.
    induction j as [|j IH]; intros [|b p r] a q H; cbn in *; try discriminate.
    - injection H as _ _ ->. reflexivity.
    - f_equal. eapply IH; eauto.
  Qed.

  Lemma KInv_length ps : forall w s hDs, KInv ps w s hDs -> List.length hDs <= plen ps.
  Proof.
    induction ps as [|a q r IH]; intros w s hDs H; cbn in H.
    - subst. cbn. lia.
    - destruct hDs as [|hd rest]; cbn; [lia|]. destruct H as (_ & _ & H). apply IH in H. lia.
  Qed.

  (* all children are finished and returned values: all their descendants are finished as the
     log says, and the world on the logged names is the reference's world after the children *)
  Lemma KInv_all_returned ps : forall w s hDs,
    kwf ps -> KInv ps w s hDs -> List.length hDs = plen ps ->
    Forall (fun y => exists r, fin s y r) (map fst hDs) ->
    (forall o, In o (fst (refs ps w)) -> exists v, o = Some v) ->
    (forall y, In y (flat hDs) -> finrec s y (rlogs ps w)) /\
    (forall n, In n (knames ps w) -> xw s n = snd (refs ps w) n).
  Proof.
    induction ps as [|a q r IH]; intros w s hDs Hwf H Hlen Hfin Hsome.
    - cbn in H. subst hDs. split; [intros y []|intros n []].
    - cbn in Hwf. destruct Hwf as (Hq & Hdis & Hr). cbn in H.
      destruct hDs as [|hd rest]; [discriminate|]. destruct H as (Hhd & Hq' & Hr').
      cbn in Hlen. cbn [map] in Hfin. inversion Hfin as [|? ? [r0 Hr0] Hfin']; subst.
      destruct (TInv_fin _ _ _ _ _ _ _ _ _ Hq Hq' Hr0) as [Er Eev]. cbn in Eev.
      destruct (Hsome (fst (fst (ref (Some a) q w)))) as [v Hv]; [cbn; now left|].
      rewrite Hv in Er. subst r0.
      destruct (TInv_returned _ _ _ _ _ _ _ _ _ Hq Hq' Hr0) as [Hrec Hwq].
      destruct (IH _ _ _ Hr Hr' (eq_add_S _ _ Hlen) Hfin') as [Hrec' Hwr].
      { intros o Ho. apply Hsome. cbn. now right. }
      split.
      + intros y Hy. rewrite flat_cons in Hy. cbn [rlogs]. destruct Hy as [<-|Hy].
        * destruct Hhd as (th & Hth & Hn). destruct Hr0 as (th' & Hth' & Ho). rewrite Hth in Hth'; injection Hth' as <-.
          exists th, (Some v). split; [exact Hth|]. split; [exact Ho|]. left. rewrite Hn, Hv, Eev. reflexivity.
        * apply in_app_iff in Hy. destruct Hy as [Hy|Hy].
          -- destruct (Hrec y Hy) as (th & r0 & Hth & Ho & Hin). exists th, r0. split; [exact Hth|]. split; [exact Ho|].
             right. apply in_or_app. now left.
          -- destruct (Hrec' y Hy) as (th & r0 & Hth & Ho & Hin). exists th, r0. split; [exact Hth|]. split; [exact Ho|].
             right. apply in_or_app. now right.
      + intros n Hn. rewrite knames_cons in Hn. cbn [refs snd].
        assert (Hhead : inscope (Some a) q n -> xw s n = snd (refs r (snd (fst (ref (Some a) q w)))) n).
        { intros Hs. rewrite refs_frame; [now apply Hwq|].
          intros Hin. apply (Hdis n Hs). eapply knames_kuses; eauto. }
        destruct Hn as [<-|Hn]; [apply Hhead; now left|].
        apply in_app_iff in Hn. destruct Hn as [Hn|Hn]; [apply Hhead; right; eapply rnames_uses; eauto|].
        now apply Hwr.
  Qed.

  (* ---------------------------------------------------------------- *)
  (** ** Small facts about one step                                    *)

  Definition newthr (s s' : state) (z : nat) : Prop :=
    List.length (pool s) <= z < List.length (pool s').

  Lemma thr_upd s s' i th t' :
    pool s' = upd (pool s) i t' -> thr s i = Some th -> thr s' i = Some t' /\ List.length (pool s') = List.length (pool s).
  Proof.
    intros Hp Hth. apply nth_error_Some_lt in Hth. unfold thr_of. rewrite Hp, upd_length. split; [|reflexivity].
    now apply nth_error_upd_eq.
  Qed.

  Lemma thr_upd_app s s' i th t' new :
    pool s' = upd (pool s) i t' ++ [new] -> thr s i = Some th ->
    thr s' i = Some t' /\ thr s' (List.length (pool s)) = Some new /\
    List.length (pool s') = S (List.length (pool s)).
  Proof.
    intros Hp Hth. apply nth_error_Some_lt in Hth. unfold thr_of. rewrite Hp. split; [|split].
    - rewrite nth_error_app1 by (now rewrite upd_length). now apply nth_error_upd_eq.
    - rewrite nth_error_app2 by (rewrite upd_length; lia). rewrite upd_length, Nat.sub_diag. reflexivity.
    - rewrite app_length, upd_length. cbn. lia.
  Qed.

  Lemma newthr_same_length s s' z : List.length (pool s') = List.length (pool s) -> ~ newthr s s' z.
  Proof. unfold newthr. lia. Qed.

  Lemma finished_no_step i s s' d r : step_rel i s s' -> xcode s i d -> outcome d = Some r -> False.
  Proof.
    intros Hst (th & Hth & Hc) Ho. eapply fin_not_unfinished; [|eapply step_unfinished; eauto].
    exists th. split; [exact Hth|]. rewrite Hc. exact Ho.
  Qed.

  Lemma fin_no_step i s s' r : step_rel i s s' -> fin s i r -> False.
  Proof. intros Hst Hf. eapply fin_not_unfinished; [exact Hf|eapply step_unfinished; eauto]. Qed.

  Lemma finrec_fin s y log : finrec s y log -> exists r, fin s y r.
  Proof. intros (th & r & Hth & Ho & _). exists r, th. auto. Qed.

  Lemma step_isthr i s s' : step_rel i s s' -> exists nmi, isthr s i nmi.
  Proof. intros Hst. destruct (step_unfinished _ _ _ _ _ Hst) as (th & Hth & _). exists (th_name th), th. auto. Qed.

  Lemma xevs_step_app i s s' x : step_rel i s s' -> exists l, xevs s' x = xevs s x ++ l.
  Proof.
    intros Hst. unfold xevs. destruct (step_trace _ _ _ _ _ Hst) as [E|[e E]]; rewrite E.
    - exists []. now rewrite app_nil_r.
    - destruct (Nat.eq_dec i x) as [->|Hne].
      + exists [e]. apply evs_of_cons_same.
      + exists []. rewrite app_nil_r. now apply evs_of_cons_other.
  Qed.

  Lemma nth_error_app_some {A} (l l' : list A) n e : nth_error l n = Some e -> nth_error (l ++ l') n = Some e.
  Proof. intros H. rewrite nth_error_app1; [exact H|]. eapply nth_error_Some_lt; eauto. Qed.

  Lemma nth_error_snoc {A} (l : list A) n e : List.length l = n -> nth_error (l ++ [e]) n = Some e.
  Proof. intros <-. rewrite nth_error_app2 by lia. now rewrite Nat.sub_diag. Qed.

  Lemma nth_error_map_inv {A C} (f : A -> C) l n c :
    nth_error (map f l) n = Some c -> exists a, nth_error l n = Some a /\ f a = c.
  Proof.
    revert n; induction l as [|a l IH]; intros [|n] H; cbn in *; try discriminate.
    - injection H as <-. eauto.
    - eauto.
  Qed.

  (* the caller of a block is not affected by a step of a thread that carries a logged name *)
  Lemma InBlock_other {B} (post : option val -> B + N) kids K' (Sc : option string -> Prop) w x s s' base hs i nmi :
    step_rel i s s' -> tvalid s -> isthr s i nmi -> In nmi (knames kids w) -> x <> i ->
    InBlock post kids K' Sc w x s base hs -> InBlock post kids K' Sc w x s' base hs.
  Proof.
    intros Hst Hv Hi Hin Hne (HU & Hl & Hph). split; [|split].
    - intros n Hs Hnin. rewrite (xw_other _ _ _ _ n Hst Hv Hi); auto. intros ->. contradiction.
    - now rewrite (xevs_other _ _ _ _ Hst Hne).
    - destruct Hph as [[Hsk Hc]|[(Hlen & m & bs & Hm & HF & Hfin & Hc)|(Hlen & n0 & Hps & Hc)]].
      + left. split; [exact Hsk|]. eapply xcode_other; eauto.
      + right; left. split; [exact Hlen|]. exists m, bs. split; [exact Hm|]. split; [exact HF|]. split.
        * eapply Forall_impl; [|exact Hfin]. cbn. intros y [r Hr]. exists r. eapply step_fin_stable; eauto.
        * eapply xcode_other; eauto.
      + right; right. split; [exact Hlen|]. exists n0. split; [exact Hps|]. eapply xcode_other; eauto.
  Qed.

  (* a thread that has not begun its block is inside it, with no child yet *)
  Lemma block_enter {B} (post : option val -> B + N) kids K (Sc : option string -> Prop) w x s base :
    kids <> PNil -> kwf kids -> (forall n, kuses kids n -> Sc n) ->
    Leaf Sc x s (compile (PBlock B post kids K)) w base ->
    KInv kids w s [] /\ InBlock post kids (fun bs => compile (K bs)) Sc w x s base [].
  Proof.
    intros Hne Hwf Hsub (Hc & Hl & Hw). split.
    - apply KInv_init; [exact Hwf|]. intros n Hn. apply Hw, Hsub, Hn.
    - split; [|split; [exact Hl|]].
      + intros n Hs _. now apply Hw.
      + left. cbn. split; [|exact Hc]. destruct kids as [|a q r]; [contradiction|eauto].
  Qed.

  (* ---------------------------------------------------------------- *)
  (** ** The caller of a block makes a step (a spawn or a join)         *)

  Lemma block_caller_step {B} (post : option val -> B + N) kids (K : list B -> prog)
        (Sc : option string -> Prop) nm w x s s' base hDs :
    kids <> PNil -> strict_post post -> ~ kuses kids nm -> kwf kids ->
    isthr s x nm -> tvalid s -> step_rel x s s' ->
    KInv kids w s hDs ->
    InBlock post kids (fun bs => compile (K bs)) Sc w x s base (map fst hDs) ->
    (exists hDs', KInv kids w s' hDs' /\
        InBlock post kids (fun bs => compile (K bs)) Sc w x s' base (map fst hDs') /\
        (forall z, In z (flat hDs') <-> In z (flat hDs) \/ newthr s s' z))
    \/
    (exists bs, posts post (fst (refs kids w)) = inl bs /\
        (forall y, In y (flat hDs) -> finrec s' y (rlogs kids w)) /\
        Leaf Sc x s' (compile (K bs)) (snd (refs kids w)) base /\
        List.length (pool s') = List.length (pool s)).
  Proof.
    intros Hne Hstrict Hnm Hwf Hx Hv Hst Hk (HU & Hl & Hph).
    assert (Hlhs : List.length (map fst hDs) = List.length hDs) by apply map_length.
    set (hs := map fst hDs) in *.
    set (K' := fun bs => compile (K bs)) in *.
    destruct (step_cases _ _ _ Hst Hv) as (th & Hth & Hcases).
    assert (Hcode : forall d, xcode s x d -> th_code th = d).
    { intros d (th1 & H1 & H2). rewrite Hth in H1. injection H1 as <-. exact H2. }
    destruct Hph as [[(a & q & r & Hsk) Hc]|[(Hlen & m & bs & Hm & HF & Hfin & Hc)|(Hlen & n0 & Hps & Hc)]].
    - (* spawning *)
      left. apply Hcode in Hc. rewrite (cnts_pskip_cons _ _ _ _ _ Hsk) in Hc. cbn [spawn_all_acc fst snd] in Hc.
      destruct Hcases as [(e & k & Hc1 & _)|[(a0 & t & k & Hc1 & Hpool & Hw & Htr)|(hj & k & th' & r0 & Hc1 & _)]];
        rewrite Hc in Hc1; try discriminate.
      injection Hc1 as <- <- <-.
      destruct (thr_upd_app _ _ _ _ _ _ Hpool Hth) as (Hx' & HL & Hlen').
      set (L := List.length (pool s)) in *.
      exists (hDs ++ [(L, [])]).
      assert (HeL : xevs s' L = []).
      { unfold xevs. rewrite Htr. apply evs_of_none. intros y Hy E. specialize (Hv y Hy). fold L in Hv. lia. }
      split; [|split].
      + eapply KInv_spawn; eauto.
        * rewrite <- Hlhs. exact Hsk.
        * eexists; split; [exact HL|reflexivity].
        * eexists; split; [exact HL|reflexivity].
      + rewrite map_app. cbn [map fst]. fold hs.
        split; [|split].
        * intros n Hs Hn. rewrite Hw. now apply HU.
        * unfold xevs. rewrite Htr. exact Hl.
        * rewrite app_length. cbn [List.length]. rewrite Nat.add_1_r. rewrite (pskip_S _ _ _ _ _ Hsk).
          destruct r as [|a1 q1 r1].
          -- right; left. split; [apply pskip_last in Hsk; lia|]. exists 0, []. split; [lia|].
             split; [constructor|]. split; [constructor|].
             eexists; split; [exact Hx'|]. cbn. rewrite rev_involutive. reflexivity.
          -- left. split; [eauto|]. eexists; split; [exact Hx'|]. cbn [set_code th_code]. rewrite rev_unit. reflexivity.
      + intros z. rewrite flat_app, in_app_iff. cbn. unfold newthr. fold L. rewrite Hlen'.
        split; [intros [H|[<-|[]]]; [now left|right; lia]|intros [H|H]; [now left|right; left; lia]].
    - (* joining *)
      apply Hcode in Hc.
      assert (Hhj : exists hj, nth_error hs m = Some hj).
      { destruct (nth_error hs m) eqn:E; [eauto|]. apply nth_error_None in E. lia. }
      destruct Hhj as [hj Hhj]. rewrite (skipn_nth _ _ _ Hhj) in Hc.
      remember (skipn (S m) hs) as rest eqn:Erest. cbn [join_all_acc] in Hc.
      destruct Hcases as [(e & k & Hc1 & _)|[(a0 & t & k & Hc1 & _)|(hj0 & k & th' & r0 & Hc1 & Hth' & Ho & Hpool & Hw & Htr)]];
        rewrite Hc in Hc1; try discriminate.
      injection Hc1 as <- <-.
      destruct (thr_upd _ _ _ _ _ Hpool Hth) as (Hx' & Hlen').
      destruct (nth_error_map_inv _ _ _ _ Hhj) as (hd & Hhd & Ehd).
      destruct (KInv_nth _ _ _ _ _ _ Hwf Hk Hhd) as (a & q & wm & Hq & Hnm' & HT & Ho').
      assert (Hf0 : fin s hj r0) by (exists th'; auto).
      rewrite Ehd in HT. destruct (TInv_fin _ _ _ _ _ _ _ _ _ Hq HT Hf0) as [Er _].
      rewrite <- Er in Ho'.
      assert (Hk' : KInv kids w s' hDs) by (eapply KInv_frame; eauto).
      assert (Hl' : List.length (xevs s' x) = base) by (unfold xevs; rewrite Htr; exact Hl).
      assert (HU' : forall n, Sc n -> ~ In n (knames kids w) -> xw s' n = w n) by (intros; rewrite Hw; auto).
      assert (Hfin' : Forall (fun y => exists r, fin s' y r) (firstn (S m) hs)).
      { rewrite (firstn_snoc _ _ _ Hhj). apply Forall_app. split.
        - eapply Forall_impl; [|exact Hfin]. intros y [r Hr]. exists r. eapply step_fin_stable; eauto.
        - constructor; [|constructor]. exists r0. eapply step_fin_stable; eauto. }
      assert (Hiff : forall z, In z (flat hDs) <-> In z (flat hDs) \/ newthr s s' z).
      { intros z. split; [now left|intros [H|H]; [exact H|]]. exfalso. eapply newthr_same_length; eauto. }
      destruct (post r0) as [b|n1] eqn:Ep.
      + assert (HF' : Forall2 (fun o b => post o = inl b) (firstn (S m) (fst (refs kids w))) (bs ++ [b])).
        { rewrite (firstn_snoc _ _ _ Ho'). apply Forall2_app; [exact HF|]. constructor; [exact Ep|constructor]. }
        destruct (Nat.eq_dec (S m) (List.length hs)) as [E|E].
        * (* the last join *)
          right. exists (bs ++ [b]).
          assert (Hps : posts post (fst (refs kids w)) = inl (bs ++ [b])).
          { apply posts_all. rewrite E, Hlen, <- (refs_length kids w), firstn_all in HF'. exact HF'. }
          rewrite E, firstn_all in Hfin'.
          assert (Hlen2 : List.length hDs = plen kids) by lia.
          destruct (KInv_all_returned kids w s' hDs Hwf Hk' Hlen2 Hfin'
                      (posts_strict_all_some _ _ _ Hstrict Hps)) as [Hrec Hwk].
          split; [exact Hps|]. split; [exact Hrec|]. split; [|exact Hlen'].
          split; [|split; [exact Hl'|]].
          -- eexists; split; [exact Hx'|]. cbn [set_code th_code]. try rewrite Ep.
             rewrite (skipn_all2 hs) in Erest by lia. subst rest. cbn. rewrite rev_involutive. reflexivity.
          -- intros n Hs. destruct (in_dec oname_dec n (knames kids w)) as [Hin|Hnin].
             ++ now apply Hwk.
             ++ rewrite refs_frame by exact Hnin. now apply HU'.
        * left. exists hDs. split; [exact Hk'|]. split; [|exact Hiff].
          fold hs. split; [exact HU'|]. split; [exact Hl'|]. right; left. split; [exact Hlen|].
          exists (S m), (bs ++ [b]). split; [lia|]. split; [exact HF'|]. split; [exact Hfin'|].
          eexists; split; [exact Hx'|]. cbn [set_code th_code]. try rewrite Ep. rewrite rev_unit. subst rest. reflexivity.
      + left. exists hDs. split; [exact Hk'|]. split; [|exact Hiff].
        fold hs. split; [exact HU'|]. split; [exact Hl'|]. right; right. split; [exact Hlen|]. exists n1. split.
        * eapply posts_fail'; eauto.
        * eexists; split; [exact Hx'|]. cbn. try rewrite Ep. reflexivity.
    - (* failed: the caller is finished *)
      exfalso. eapply finished_no_step; eauto. reflexivity.
  Qed.

  (* ---------------------------------------------------------------- *)
  (** ** A thread that is about to make an event makes it               *)

  Lemma vis_leaf_step (Sc : option string -> Prop) e k nm w x s s' base :
    Leaf Sc x s (compile (PVis e k)) w base -> Sc nm -> isthr s x nm -> tvalid s -> step_rel x s s' ->
    nth_error (xevs s' x) base = Some e /\
    (let a := xans nm e (w nm) in
     let w' := xupd w nm (snd a) in
     match fst a with
     | Some v => Leaf Sc x s' (compile (k v)) w' (S base)
     | None => Leaf Sc x s' (Panic P_USER) w' (S base)
     end) /\
    List.length (pool s') = List.length (pool s).
  Proof.
    intros (Hc & Hl & Hw) Hnm Hx Hv Hst.
    destruct (step_cases _ _ _ Hst Hv) as (th & Hth & Hcases).
    assert (Hcode : th_code th = compile (PVis e k)).
    { destruct Hc as (th1 & H1 & H2). rewrite Hth in H1. injection H1 as <-. exact H2. }
    assert (Hname : th_name th = nm).
    { destruct Hx as (th1 & H1 & H2). rewrite Hth in H1. injection H1 as <-. exact H2. }
    cbn in Hcode.
    destruct Hcases as [(e0 & k0 & Hc1 & Hpool & Hwnm & Hwo & Htr)|[(a0 & t & k0 & Hc1 & _)|(hj0 & k0 & th' & r0 & Hc1 & _)]];
      rewrite Hcode in Hc1; try discriminate.
    injection Hc1 as <- <-. rewrite Hname in *. rewrite (Hw nm Hnm) in *.
    destruct (thr_upd _ _ _ _ _ Hpool Hth) as (Hx' & Hlen').
    assert (He : xevs s' x = xevs s x ++ [e]) by (unfold xevs; rewrite Htr; apply evs_of_cons_same).
    split; [rewrite He; now apply nth_error_snoc|]. split; [|exact Hlen'].
    cbn zeta.
    assert (Hworld : forall n, Sc n -> xw s' n = xupd w nm (snd (xans nm e (w nm))) n).
    { intros n Hs. destruct (oname_dec n nm) as [->|Hne].
      - now rewrite xupd_same.
      - rewrite xupd_other by exact Hne. rewrite Hwo by exact Hne. now apply Hw. }
    assert (Hlen2 : List.length (xevs s' x) = S base) by (rewrite He, app_length; cbn; lia).
    destruct (fst (xans nm e (w nm))) as [v|] eqn:Ea.
    - split; [|split; [exact Hlen2|exact Hworld]]. eexists; split; [exact Hx'|]. reflexivity.
    - split; [|split; [exact Hlen2|exact Hworld]]. eexists; split; [exact Hx'|]. reflexivity.
  Qed.

  (* ================================================================== *)
  (** * 5. ONE STEP of a member preserves the invariant                  *)
  (* ================================================================== *)

  Lemma iff_nil_nonew s s' :
    List.length (pool s') = List.length (pool s) ->
    forall z, In z (@nil nat) <-> In z (@nil nat) \/ newthr s s' z.
  Proof. intros Hl z. split; [intros []|intros [[]|H]]. exfalso. eapply newthr_same_length; eauto. Qed.

  Lemma TInv_step_mut :
    (forall p (Sc : option string -> Prop) nm w x s base D i s',
       wf nm p -> (forall n, inscope nm p n -> Sc n) -> isthr s x nm -> tvalid s ->
       step_rel i s s' -> (i = x \/ In i D) ->
       TInv Sc p nm w x s base D ->
       exists D', TInv Sc p nm w x s' base D' /\ forall z, In z D' <-> In z D \/ newthr s s' z) /\
    (forall ps w s hDs i s',
       kwf ps -> tvalid s -> step_rel i s s' -> In i (flat hDs) ->
       KInv ps w s hDs ->
       exists hDs', KInv ps w s' hDs' /\ map fst hDs' = map fst hDs /\
                    forall z, In z (flat hDs') <-> In z (flat hDs) \/ newthr s s' z).
  Proof.
    apply prog_progs_ind.
    - (* PRet *)
      intros v Sc nm w x s base D i s' Hwf Hsub Hx Hv Hst Hi [[(Hc & _) ->]|[]].
      destruct Hi as [->|[]]. exfalso. eapply finished_no_step; eauto. reflexivity.
    - (* PPanic *)
      intros n Sc nm w x s base D i s' Hwf Hsub Hx Hv Hst Hi [[(Hc & _) ->]|[]].
      destruct Hi as [->|[]]. exfalso. eapply finished_no_step; eauto. reflexivity.
    - (* PVis *)
      intros e k IH Sc nm w x s base D i s' Hwf Hsub Hx Hv Hst Hi [[HL ->]|H].
      + (* not begun: x makes the event *)
        destruct Hi as [->|[]].
        destruct (vis_leaf_step _ _ _ _ _ _ _ _ _ HL (Hsub nm (or_introl eq_refl)) Hx Hv Hst) as (Hn & Hleaf & Hlen).
        exists []. split; [|now apply iff_nil_nonew]. right. cbn. split; [exact Hn|]. cbn zeta in Hleaf.
        unfold xans in Hleaf. cbn [fst snd] in Hleaf.
        destruct (fst (answer h nm e (fst (w nm)))) as [v|].
        * now apply TInv_leaf.
        * auto.
      + cbn in H. destruct H as [Hn H].
        assert (Hn' : nth_error (xevs s' x) base = Some e).
        { destruct (xevs_step_app _ _ _ x Hst) as [l ->]. now apply nth_error_app_some. }
        cbn in Hwf.
        destruct (fst (answer h nm e (fst (w nm)))) as [v|] eqn:Ea.
        * assert (Hs2 : forall n, inscope nm (k v) n -> Sc n).
          { intros n [->|Hu]; apply Hsub; [now left|right; cbn; eauto]. }
          destruct (IH v Sc nm _ x s (S base) D i s' (Hwf v) Hs2 Hx Hv Hst Hi H) as (D' & HT & HD).
          exists D'. split; [|exact HD]. right. cbn. rewrite Ea. auto.
        * destruct H as [(Hc & _) ->]. destruct Hi as [->|[]].
          exfalso. eapply finished_no_step; eauto. reflexivity.
    - (* PBlock *)
      intros B post kids IHk K IH Sc nm w x s base D i s' Hwf Hsub Hx Hv Hst Hi H.
      cbn in Hwf. destruct Hwf as (Hne & Hstrict & Hnm & Hkwf & HK).
      assert (Hksub : forall n, kuses kids n -> Sc n).
      { intros n Hn. apply Hsub. right. cbn. now left. }
      (* normalise: not begun = inside the block, no child yet *)
      assert (H' : (exists hDs, D = flat hDs /\ KInv kids w s hDs /\
                       InBlock post kids (fun bs => compile (K bs)) Sc w x s base (map fst hDs)) \/
                   (exists bs Dold DK, D = Dold ++ DK /\ posts post (fst (refs kids w)) = inl bs /\
                       (forall y, In y Dold -> finrec s y (rlogs kids w)) /\
                       TInv Sc (K bs) nm (snd (refs kids w)) x s base DK)).
      { destruct H as [[HL ->]|H]; [|exact H]. left. exists []. split; [reflexivity|].
        eapply block_enter; eauto. }
      clear H. destruct H' as [(hDs & -> & Hk & HB)|(bs & Dold & DK & -> & Hps & Hold & HKb)].
      + (* inside the block *)
        destruct Hi as [->|Hi].
        * (* the caller steps *)
          destruct (block_caller_step post kids K Sc nm w x s s' base hDs Hne Hstrict Hnm Hkwf Hx Hv Hst Hk HB)
            as [(hDs' & Hk' & HB' & Hiff)|(bs & Hps & Hrec & HL & Hlen)].
          -- exists (flat hDs'). split; [|exact Hiff]. right. cbn. left. exists hDs'. auto.
          -- exists (flat hDs ++ []). split.
             ++ right. cbn. right. exists bs, (flat hDs), []. split; [reflexivity|]. split; [exact Hps|].
                split; [exact Hrec|]. now apply TInv_leaf.
             ++ intros z. rewrite app_nil_r. split; [now left|intros [Hz|Hz]; [exact Hz|]].
                exfalso. eapply newthr_same_length; eauto.
        * (* a descendant steps *)
          destruct (IHk w s hDs i s' Hkwf Hv Hst Hi Hk) as (hDs' & Hk' & Hfst & Hiff).
          destruct (KInv_names _ _ _ _ Hk i Hi) as (nmi & Hnmi & Hin).
          assert (Hxi : x <> i).
          { intros ->. apply Hnm. rewrite (isthr_inj _ _ _ _ Hx Hnmi). eapply knames_kuses; eauto. }
          exists (flat hDs'). split; [|exact Hiff]. right. cbn. left. exists hDs'. split; [reflexivity|].
          split; [exact Hk'|]. rewrite Hfst. eapply InBlock_other; eauto.
      + (* past the block *)
        assert (Hi' : i = x \/ In i DK).
        { destruct Hi as [->|Hi]; [now left|]. apply in_app_iff in Hi. destruct Hi as [Hi|Hi]; [|now right].
          exfalso. destruct (finrec_fin _ _ _ (Hold i Hi)) as [r Hr]. eapply fin_no_step; eauto. }
        assert (Hs2 : forall n, inscope nm (K bs) n -> Sc n).
        { intros n [->|Hu]; apply Hsub; [now left|right; cbn; right; eauto]. }
        destruct (IH bs Sc nm _ x s base DK i s' (HK bs) Hs2 Hx Hv Hst Hi' HKb) as (DK' & HT & HD).
        exists (Dold ++ DK'). split.
        * right. cbn. right. exists bs, Dold, DK'. split; [reflexivity|]. split; [exact Hps|]. split; [|exact HT].
          intros y Hy. eapply finrec_step; eauto.
        * intros z. rewrite !in_app_iff, HD. tauto.
    - (* PNil *)
      intros w s hDs i s' _ _ _ Hi H. cbn in H. subst hDs. destruct Hi.
    - (* PCons *)
      intros a q IHq r IHr w s hDs i s' Hwf Hv Hst Hi H.
      cbn in Hwf. destruct Hwf as (Hq & Hdis & Hr). cbn in H.
      destruct hDs as [|hd rest]; [destruct Hi|]. destruct H as (Hhd & HT & Hrest).
      destruct (step_isthr _ _ _ Hst) as [nmi Hnmi].
      rewrite flat_cons in Hi.
      assert (Hcase : (i = fst hd \/ In i (snd hd)) \/ In i (flat rest)).
      { destruct Hi as [<-|Hi]; [left; now left|]. apply in_app_iff in Hi. tauto. }
      destruct Hcase as [Hhead|Htail].
      + (* the step is in the subtree of the first child *)
        assert (Hscope : inscope (Some a) q nmi).
        { destruct Hhead as [->|Hin].
          - left. eapply isthr_inj; eauto.
          - right. eapply TInv_member_uses; eauto. }
        destruct (IHq (inscope (Some a) q) (Some a) w (fst hd) s 0 (snd hd) i s' Hq) as (D' & HT' & HD); auto.
        exists ((fst hd, D') :: rest). split; [|split; [reflexivity|]].
        * cbn. split; [eapply isthr_step; eauto|]. split; [exact HT'|].
          eapply KInv_frame; eauto.
        * intros z. rewrite !flat_cons. cbn [fst snd In]. rewrite !in_app_iff, HD. tauto.
      + (* the step is in the subtree of a later child *)
        destruct (IHr _ s rest i s' Hr Hv Hst Htail Hrest) as (rest' & Hrest' & Hfst & Hiff).
        destruct (KInv_names _ _ _ _ Hrest i Htail) as (nmi' & Hnmi' & Hin).
        rewrite <- (isthr_inj _ _ _ _ Hnmi Hnmi') in Hin.
        assert (Hku : kuses r nmi) by (eapply knames_kuses; eauto).
        exists (hd :: rest'). split; [|split; [cbn; now rewrite Hfst|]].
        * cbn. split; [eapply isthr_step; eauto|]. split; [|exact Hrest'].
          apply (TInv_frame _ _ _ _ _ _ _ _ i s' nmi Hst Hv Hnmi); [| | |exact HT].
          -- intros Hs. exact (Hdis nmi Hs Hku).
          -- intros E. apply (Hdis (Some a)); [now left|]. rewrite <- E in Hnmi.
             now rewrite (isthr_inj _ _ _ _ Hhd Hnmi).
          -- intros n Hu. right. exact Hu.
        * intros z. rewrite !flat_cons. cbn [In]. rewrite !in_app_iff, Hiff. tauto.
  Qed.

  Definition TInv_step := proj1 TInv_step_mut.

  (* ================================================================== *)
  (** * 6. Reading the invariant: every finished member; all finished    *)
  (* ================================================================== *)

  (* EVERY FINISHED MEMBER has its record (name, outcome, own events) in the reference log *)
  Lemma TInv_log_mut :
    (forall p (Sc : option string -> Prop) nm w x s base D,
       wf nm p -> TInv Sc p nm w x s base D ->
       forall y r, In y D -> fin s y r -> finrec s y (rlog nm p w)) /\
    (forall ps w s hDs,
       kwf ps -> KInv ps w s hDs ->
       forall y r, In y (flat hDs) -> fin s y r -> finrec s y (rlogs ps w)).
  Proof.
    assert (Hmono : forall s y (l1 l2 : list trec), (forall x, In x l1 -> In x l2) -> finrec s y l1 -> finrec s y l2).
    { intros s y l1 l2 Hl (th & r & H1 & H2 & H3). exists th, r. auto. }
    apply prog_progs_ind.
    - intros v Sc nm w x s base D _ [[_ ->]|[]] y r [].
    - intros n Sc nm w x s base D _ [[_ ->]|[]] y r [].
    - intros e k IH Sc nm w x s base D Hwf [[_ ->]|H] y r Hy Hf; [destruct Hy|].
      cbn in H, Hwf |- *. destruct H as [_ H].
      destruct (fst (answer h nm e (fst (w nm)))) as [v|].
      + eapply IH; eauto.
      + destruct H as [_ ->]. destruct Hy.
    - intros B post kids IHk K IH Sc nm w x s base D Hwf [[_ ->]|H] y r Hy Hf; [destruct Hy|].
      cbn in Hwf. destruct Hwf as (Hne & Hstrict & Hnm & Hkwf & HK). cbn in H |- *.
      destruct H as [(hDs & -> & Hk & _)|(bs & Dold & DK & -> & Hps & Hold & HKb)].
      + eapply Hmono; [|eapply IHk; eauto]. intros z Hz. apply in_or_app. now left.
      + rewrite Hps. apply in_app_iff in Hy. destruct Hy as [Hy|Hy].
        * eapply Hmono; [|apply Hold; exact Hy]. intros z Hz. apply in_or_app. now left.
        * eapply Hmono; [|eapply IH; eauto]. intros z Hz. apply in_or_app. now right.
    - intros w s hDs _ H y r Hy. cbn in H. subst hDs. destruct Hy.
    - intros a q IHq r' IHr w s hDs Hwf H y r Hy Hf.
      cbn in Hwf. destruct Hwf as (Hq & Hdis & Hr). cbn in H |- *.
      destruct hDs as [|hd rest]; [destruct Hy|]. destruct H as (Hhd & HT & Hrest).
      rewrite flat_cons in Hy. destruct Hy as [<-|Hy].
      + destruct (TInv_fin _ _ _ _ _ _ _ _ _ Hq HT Hf) as [Er Eev]. cbn in Eev.
        destruct Hhd as (th & Hth & Hn). destruct Hf as (th' & Hth' & Ho). rewrite Hth in Hth'; injection Hth' as <-.
        exists th, r. split; [exact Hth|]. split; [exact Ho|]. left. now rewrite Hn, Er, Eev.
      + apply in_app_iff in Hy. destruct Hy as [Hy|Hy].
        * eapply Hmono; [|eapply IHq; eauto]. intros z Hz. right. apply in_or_app. now left.
        * eapply Hmono; [|eapply IHr; eauto]. intros z Hz. right. apply in_or_app. now right.
  Qed.

  Definition TInv_log := proj1 TInv_log_mut.

  (* ALL FINISHED (the thread and all its members, whether they returned or panicked): the
     components in Sc are the reference's final ones *)
  Lemma TInv_allfin_mut :
    (forall p (Sc : option string -> Prop) nm w x s base D,
       wf nm p -> TInv Sc p nm w x s base D ->
       (exists r, fin s x r) -> (forall y, In y D -> exists r, fin s y r) ->
       forall n, Sc n -> xw s n = snd (fst (ref nm p w)) n) /\
    (forall ps w s hDs,
       kwf ps -> KInv ps w s hDs -> List.length hDs = plen ps ->
       (forall y, In y (flat hDs) -> exists r, fin s y r) ->
       forall n, In n (knames ps w) -> xw s n = snd (refs ps w) n).
  Proof.
    apply prog_progs_ind.
    - intros v Sc nm w x s base D _ [[(_ & _ & Hw) _]|[]] _ _ n Hs. now apply Hw.
    - intros n0 Sc nm w x s base D _ [[(_ & _ & Hw) _]|[]] _ _ n Hs. now apply Hw.
    - intros e k IH Sc nm w x s base D Hwf [[(Hc & _) _]|H] [r Hf] HD n Hs.
      { pose proof (fin_xcode _ _ _ _ Hf Hc) as E. discriminate. }
      cbn in H, Hwf |- *. destruct H as [_ H].
      destruct (fst (answer h nm e (fst (w nm)))) as [v|].
      + cbn [fst snd]. eapply IH; eauto.
      + destruct H as [(_ & _ & Hw) _]. cbn [fst snd]. now apply Hw.
    - intros B post kids IHk K IH Sc nm w x s base D Hwf H [r Hf] HD n Hs.
      cbn in Hwf. destruct Hwf as (Hne & Hstrict & Hnm & Hkwf & HK).
      destruct H as [[(Hc & _) _]|H].
      { pose proof (fin_xcode _ _ _ _ Hf Hc) as E. cbn in E. destruct kids; [contradiction|discriminate]. }
      cbn in H |- *. destruct H as [(hDs & -> & Hk & HB)|(bs & Dold & DK & -> & Hps & Hold & HKb)].
      + destruct HB as (HU & Hl & Hph). rewrite map_length in Hph.
        destruct Hph as [[(a & q & r' & Hsk) Hc]|[(_ & m & bs & Hm & _ & _ & Hc)|(Hlen & n1 & Hps & Hc)]].
        * exfalso. pose proof (fin_xcode _ _ _ _ Hf Hc) as E. rewrite (cnts_pskip_cons _ _ _ _ _ Hsk) in E. discriminate.
        * exfalso. pose proof (fin_xcode _ _ _ _ Hf Hc) as E.
          destruct (skipn_lt_cons (map fst hDs) m) as (a & r' & Es); [now rewrite map_length|].
          rewrite Es in E. discriminate.
        * rewrite Hps. cbn [fst snd].
          destruct (in_dec oname_dec n (knames kids w)) as [Hin|Hnin].
          -- eapply IHk; eauto.
          -- rewrite refs_frame by exact Hnin. now apply HU.
      + rewrite Hps. eapply IH; eauto. intros y Hy. apply HD. apply in_or_app. now right.
    - intros w s hDs _ _ _ _ n [].
    - intros a q IHq r IHr w s hDs Hwf H Hlen HD n Hn.
      cbn in Hwf. destruct Hwf as (Hq & Hdis & Hr). cbn in H.
      destruct hDs as [|hd rest]; [discriminate|]. destruct H as (Hhd & HT & Hrest).
      cbn in Hlen. rewrite knames_cons in Hn. cbn [refs snd].
      assert (Hhead : inscope (Some a) q n -> xw s n = snd (refs r (snd (fst (ref (Some a) q w)))) n).
      { intros Hs. rewrite refs_frame.
        - eapply IHq; eauto.
          + apply HD. rewrite flat_cons. now left.
          + intros y Hy. apply HD. rewrite flat_cons. right. apply in_or_app. now left.
        - intros Hin. apply (Hdis n Hs). eapply knames_kuses; eauto. }
      destruct Hn as [<-|Hn]; [apply Hhead; now left|].
      apply in_app_iff in Hn. destruct Hn as [Hn|Hn]; [apply Hhead; right; eapply rnames_uses; eauto|].
      eapply IHr; eauto. intros y Hy. apply HD. rewrite flat_cons. right. apply in_or_app. now right.
  Qed.

  Definition TInv_allfin := proj1 TInv_allfin_mut.

  (* ================================================================== *)
  (** * 7. Schedule independence                                         *)
  (* ================================================================== *)

  Lemma not_unfinished_fin s y th : thr s y = Some th -> ~ unfinished s y -> exists r, fin s y r.
  Proof.
    intros Hth Hn. destruct (outcome (th_code th)) as [r|] eqn:E.
    - exists r, th. auto.
    - exfalso. apply Hn. exists th. auto.
  Qed.

  Lemma fin_result_of s y r : fin s y r -> result_of y s = Some r.
  Proof. intros (th & Hth & Ho). unfold result_of. unfold thr_of in Hth. now rewrite Hth. Qed.

  Section Top.
    Variable p : prog.                 (* the code: hereditarily block-structured, any nesting depth *)
    Variable nm : option string.       (* the caller's name *)
    Variable s0 : state.               (* the initial state: any pool in which only the caller runs *)
    Variable c : nat.                  (* the caller: thread 0 of [init], or any thread *)
    Variable th0 : thread.
    Hypothesis Hwf : wf nm p.
    Hypothesis Hc0 : thr s0 c = Some th0.
    Hypothesis Hname0 : th_name th0 = nm.
    Hypothesis Hcode0 : th_code th0 = compile p.
    Hypothesis Hothers : forall x, x <> c -> ~ unfinished s0 x.    (* nobody else is running *)
    Hypothesis Hvalid0 : tvalid s0.                                 (* trace entries name existing threads *)

    Let L0 := List.length (pool s0).
    Let base := List.length (xevs s0 c).
    Let w0 := xw s0.

    Definition All : option string -> Prop := fun _ => True.

    Definition ninv (s : state) : Prop :=
      tvalid s /\ isthr s c nm /\ L0 <= List.length (pool s) /\
      (forall y, y < L0 -> y <> c -> exists r, fin s y r) /\
      exists D, TInv All p nm w0 c s base D /\ forall y, In y D <-> L0 <= y < List.length (pool s).

    Lemma ninv_init : ninv s0.
    Proof.
      split; [exact Hvalid0|]. split; [exists th0; auto|]. split; [unfold L0; lia|]. split.
      - intros y Hy Hne. destruct (thr_exists _ _ _ Hy) as [th Hth]. eapply not_unfinished_fin; eauto.
      - exists []. split.
        + apply TInv_leaf. split; [exists th0; auto|]. split; [reflexivity|]. intros n _. reflexivity.
        + intros y. split; [intros []|]. fold L0. lia.
    Qed.

    Lemma ninv_step i s s' : ninv s -> step_rel i s s' -> ninv s'.
    Proof.
      intros (Hv & Hx & HL & Hold & D & HT & HD) Hst.
      pose proof (step_length _ _ _ _ _ Hst) as Hlen.
      assert (Hi : i = c \/ In i D).
      { destruct (Nat.eq_dec i c) as [->|Hne]; [now left|right]. apply HD.
        destruct (step_unfinished _ _ _ _ _ Hst) as (th & Hth & Ho).
        split; [|eapply nth_error_Some_lt; eauto].
        destruct (Nat.lt_ge_cases i L0) as [Hlt|Hge]; [|exact Hge]. exfalso.
        destruct (Hold i Hlt Hne) as [r Hr]. eapply fin_no_step; eauto. }
      destruct (TInv_step p All nm w0 c s base D i s' Hwf (fun _ _ => I) Hx Hv Hst Hi HT) as (D' & HT' & HD').
      split; [eapply tvalid_step; eauto|]. split; [eapply isthr_step; eauto|]. split; [lia|]. split.
      - intros y Hy Hne. destruct (Hold y Hy Hne) as [r Hr]. exists r. eapply step_fin_stable; eauto.
      - exists D'. split; [exact HT'|]. intros y. rewrite HD', HD. unfold newthr. lia.
    Qed.

    Lemma ninv_reachable sched : ninv (run_thr sched s0).
    Proof.
      apply (run_thr_invariant _ (pw_handle cstate h) ninv); [|exact ninv_init].
      intros i s s' H Hst. eapply ninv_step; eauto.
    Qed.

    (* the reference: outcome, final extended world, own events of the caller; the log of all
       threads spawned *)
    Definition Rref : option val * xworld * list ev := ref nm p w0.
    Definition Rlog : list trec := rlog nm p w0.

    (* SCHEDULE INDEPENDENCE, NESTED BLOCKS.  For hereditarily block-structured code p of any
       nesting depth that obeys the name discipline [wf], run by thread c of a pool in which nobody
       else runs, in the per-name product world: under EVERY schedule, in every reachable state s,
       (1) if the caller is finished, its outcome and its own event sequence (since s0) are the
           reference's;
       (2) every thread created since s0 (at any depth) that is finished carries a name, has an
           outcome and an own event sequence that are a record of the reference's log;
       (3) if the caller RETURNED, the run is over: every thread is finished;
       (4) if every thread is finished (returned or panicked), the whole extended world - every
           component's state and, for every thread NAME, the sequence of events made under that
           name - is the reference's final world.
       The reference is a function of p, nm and the initial world alone: nothing depends on the
       schedule. *)
    Theorem schedule_independence_nested sched :
      let s := run_thr sched s0 in
      (forall r, fin s c r -> r = fst (fst Rref) /\ skipn base (xevs s c) = snd Rref) /\
      (forall y r, L0 <= y -> fin s y r -> finrec s y Rlog) /\
      (forall v, fin s c (Some v) -> finished s = true) /\
      (finished s = true -> forall n, xw s n = snd (fst Rref) n).
    Proof.
      intros s. destruct (ninv_reachable sched) as (Hv & Hx & HL & Hold & D & HT & HD). fold s in Hv, Hx, HL, Hold, HT, HD.
      split; [|split; [|split]].
      - intros r Hf. eapply TInv_fin; eauto.
      - intros y r Hy Hf. eapply TInv_log; eauto. apply HD. split; [exact Hy|].
        destruct Hf as (th & Hth & _). eapply nth_error_Some_lt; eauto.
      - intros v Hf. apply finished_iff. intros y Hun.
        destruct (TInv_returned _ _ _ _ _ _ _ _ _ Hwf HT Hf) as [Hrec _].
        assert (Hyl : y < List.length (pool s)).
        { destruct Hun as (th & Hth & _). eapply nth_error_Some_lt; eauto. }
        destruct (Nat.eq_dec y c) as [->|Hne]; [eapply fin_not_unfinished; eauto|].
        destruct (Nat.lt_ge_cases y L0) as [Hlt|Hge].
        + destruct (Hold y Hlt Hne) as [r Hr]. eapply fin_not_unfinished; eauto.
        + destruct (finrec_fin _ _ _ (Hrec y (proj2 (HD y) (conj Hge Hyl)))) as [r Hr].
          eapply fin_not_unfinished; eauto.
      - intros Hfin n. rewrite finished_iff in Hfin.
        apply (TInv_allfin _ _ _ _ _ _ _ _ Hwf HT); [| |exact I].
        + destruct Hx as (th & Hth & _). eapply not_unfinished_fin; eauto.
        + intros y Hy. apply HD in Hy. destruct (thr_exists _ _ _ (proj2 Hy)) as [th Hth].
          eapply not_unfinished_fin; eauto.
    Qed.

    (* C07, the property wanted: ANY TWO SCHEDULES AGREE.
       (a) whenever the caller is finished under both, its result and its own events coincide;
       (b) whenever the run is finished under both (every thread finished), moreover the state of
           every component of the world and EVERY THREAD NAME's event sequence coincide. *)
    Corollary two_schedules_agree_nested sched1 sched2 :
      let s1 := run_thr sched1 s0 in
      let s2 := run_thr sched2 s0 in
      (forall r1 r2, fin s1 c r1 -> fin s2 c r2 ->
         r1 = r2 /\ skipn base (xevs s1 c) = skipn base (xevs s2 c)) /\
      (finished s1 = true -> finished s2 = true ->
         result_of c s1 = result_of c s2 /\
         (forall n, world s1 n = world s2 n) /\
         (forall n, nev n s1 = nev n s2)).
    Proof.
      intros s1 s2.
      destruct (schedule_independence_nested sched1) as (Hc1 & _ & _ & Hw1).
      destruct (schedule_independence_nested sched2) as (Hc2 & _ & _ & Hw2).
      fold s1 in Hc1, Hw1. fold s2 in Hc2, Hw2.
      assert (Ha : forall r1 r2, fin s1 c r1 -> fin s2 c r2 ->
                   r1 = r2 /\ skipn base (xevs s1 c) = skipn base (xevs s2 c)).
      { intros r1 r2 H1 H2. destruct (Hc1 _ H1) as [-> ->]. destruct (Hc2 _ H2) as [-> ->]. auto. }
      split; [exact Ha|]. intros Hf1 Hf2.
      assert (Hx : forall sched, finished (run_thr sched s0) = true -> exists r, fin (run_thr sched s0) c r).
      { intros sched Hf. destruct (ninv_reachable sched) as (_ & (th & Hth & _) & _).
        rewrite finished_iff in Hf. eapply not_unfinished_fin; eauto. }
      destruct (Hx sched1 Hf1) as [r1 Hr1]. destruct (Hx sched2 Hf2) as [r2 Hr2].
      fold s1 in Hr1. fold s2 in Hr2.
      split; [|split].
      - rewrite (fin_result_of _ _ _ Hr1), (fin_result_of _ _ _ Hr2). f_equal. now apply Ha.
      - intros n. pose proof (Hw1 Hf1 n) as E1. pose proof (Hw2 Hf2 n) as E2.
        unfold xw in E1, E2. rewrite <- E2 in E1. now injection E1.
      - intros n. pose proof (Hw1 Hf1 n) as E1. pose proof (Hw2 Hf2 n) as E2.
        unfold xw in E1, E2. rewrite <- E2 in E1. now injection E1.
    Qed.
  End Top.
End Indep.

Print Assumptions schedule_independence_nested.
Print Assumptions two_schedules_agree_nested.

(* ================================================================== *)
(** * 8. From a state with a single thread: [init]                    *)
(* ================================================================== *)

Section Init.
  Variable cstate : Type.
  Variable h : option string -> ev -> cstate -> option val * cstate.
  Variable p : prog.
  Variable nm : option string.
  Variable w : pworld cstate.
  Hypothesis Hwf : wf nm p.

  (* the initial extended world: the given components, empty logs *)
  Definition xinit : xworld cstate := fun n => (w n, []).
  Definition s_init : state (pworld cstate) := init nm (compile p) w.

  Notation run := (run_thr (pw_handle cstate h)).

  Lemma init_others x : x <> 0 -> ~ unfinished (pworld cstate) s_init x.
  Proof. intros Hx (th & Hth & _). unfold thr_of in Hth. destruct x as [|[|x]]; [congruence|discriminate|discriminate]. Qed.

  Lemma init_tvalid : tvalid cstate s_init.
  Proof. intros x []. Qed.

  (* SCHEDULE INDEPENDENCE from a single running thread (thread 0 = the caller), every schedule:
     (1) the caller, when finished: outcome and own events = the reference's;
     (2) every other thread (all are created by the run, at any nesting depth), when finished:
         (its name, its outcome, its own events) is a record of the reference log;
     (3) the caller returned => the run is over;
     (4) the run is over => every component of the world and every thread NAME's event
         sequence are the reference's. *)
  Theorem schedule_independence_init sched :
    let s := run sched s_init in
    let R := ref cstate h nm p xinit in
    (forall r, fin _ s 0 r -> r = fst (fst R) /\ events_of 0 s = snd R) /\
    (forall y r, 1 <= y -> fin _ s y r ->
       exists th, thr_of _ s y = Some th /\
                  In (th_name th, r, events_of y s) (rlog cstate h nm p xinit)) /\
    (forall v, fin _ s 0 (Some v) -> finished s = true) /\
    (finished s = true ->
     forall n, world s n = fst (snd (fst R) n) /\ nev cstate n s = snd (snd (fst R) n)).
  Proof.
    intros s R.
    destruct (schedule_independence_nested cstate h p nm s_init 0 (mkThread nm None (compile p))
                Hwf eq_refl eq_refl eq_refl init_others init_tvalid sched) as (H1 & H2 & H3 & H4).
    fold s in H1, H2, H3, H4.
    split; [|split; [|split]].
    - intros r Hr. exact (H1 r Hr).
    - intros y r Hy Hf. destruct (H2 y r Hy Hf) as (th & r' & Hth & Ho & Hin).
      exists th. split; [exact Hth|]. destruct Hf as (th' & Hth' & Ho'). rewrite Hth in Hth'; injection Hth' as <-.
      rewrite Ho in Ho'. injection Ho' as <-. exact Hin.
    - exact H3.
    - intros Hf n. specialize (H4 Hf n). unfold xw in H4.
      change (Rref cstate h p nm s_init) with R in H4. rewrite <- H4. split; reflexivity.
  Qed.

  (* C07: any two schedules agree - on the caller's result and own events whenever it is finished
     under both; on everything (result, world, every thread name's event sequence) whenever the
     run is finished under both *)
  Corollary two_schedules_agree_init sched1 sched2 :
    let s1 := run sched1 s_init in
    let s2 := run sched2 s_init in
    (forall r1 r2, fin _ s1 0 r1 -> fin _ s2 0 r2 -> r1 = r2 /\ events_of 0 s1 = events_of 0 s2) /\
    (finished s1 = true -> finished s2 = true ->
       result_of 0 s1 = result_of 0 s2 /\
       (forall n, world s1 n = world s2 n) /\
       (forall n, nev cstate n s1 = nev cstate n s2)).
  Proof.
    exact (two_schedules_agree_nested cstate h p nm s_init 0 (mkThread nm None (compile p))
             Hwf eq_refl eq_refl eq_refl init_others init_tvalid sched1 sched2).
  Qed.

  (* "the run finishes" is not vacuous: block-structured code is well-scoped, so the fair
     round-robin is a schedule that finishes the run (ThreadsProps.fair_schedule_finishes) *)
  Lemma ws_compile_mut :
    (forall q H, ws (compile q) H) /\ (forall ps, Forall (fun nt => ws (snd nt) []) (cnts ps)).
  Proof.
    apply prog_progs_ind; cbn; auto.
    - intros B post kids IHk K IH H. apply ws_gblock; auto.
  Qed.

  Theorem finishing_schedule_exists : exists sched, finished (run sched s_init) = true.
  Proof.
    destruct (fair_schedule_finishes _ (pw_handle cstate h) s_init) as [fuel Hf].
    { apply ws_init. apply ws_compile_mut. }
    destruct (run_fuel_is_a_schedule _ (pw_handle cstate h) fuel s_init) as [sched Hs].
    exists sched. now rewrite <- Hs.
  Qed.

  (* hence the reference IS the result of a run, and of every run that finishes: in particular of
     the one that runs each child to completion at its spawn point (the sequential macro's
     left-to-right evaluation, which is how [ref] is defined) *)
  Corollary every_finished_run_is_the_reference :
    (exists sched, finished (run sched s_init) = true) /\
    forall sched, finished (run sched s_init) = true ->
      result_of 0 (run sched s_init) = Some (fst (fst (ref cstate h nm p xinit))) /\
      events_of 0 (run sched s_init) = snd (ref cstate h nm p xinit).
  Proof.
    split; [exact finishing_schedule_exists|]. intros sched Hf.
    destruct (schedule_independence_init sched) as (H1 & _).
    assert (Hx : exists r, fin _ (run sched s_init) 0 r).
    { destruct (ninv_reachable cstate h p nm s_init 0 (mkThread nm None (compile p))
                  Hwf eq_refl eq_refl eq_refl init_others init_tvalid sched) as (_ & (th & Hth & _) & _).
      rewrite finished_iff in Hf. eapply not_unfinished_fin; eauto. }
    destruct Hx as [r Hr]. destruct (H1 r Hr) as [E1 E2]. split; [|exact E2].
    rewrite (fin_result_of _ _ _ _ Hr). now rewrite E1.
  Qed.
End Init.

Print Assumptions schedule_independence_init.
Print Assumptions two_schedules_agree_init.
Print Assumptions every_finished_run_is_the_reference.

(* ================================================================== *)
(** * 9. Examples: a nested program under different schedules (vm_compute) *)
(* ================================================================== *)

Module ExNestedIndep.
  Import ExBlock ExIndep.
  (* the product world of ThreadsProps.ExIndep: every thread NAME has its own counter; a call of
     closure n answers n + counter *)
  Definition pcall (n : Z) (k : val -> prog) : prog := PVis (ECall (VOpq n) []) k.
  Definition pchild (n : Z) : prog := pcall n (fun v => pcall (n + 100) (fun _ => PRet v)).

  (* child "p" of the first block contains a block (children "x", "y"); so does child "q"
     (child "u", then an event of its own); the continuation makes an event and runs a SECOND
     block that reuses the names "q" (its counter goes on from where the first "q" left it) and
     "x" (now one level higher). *)
  Definition p_inner : prog :=
    PBlock val unwrap_post (PCons "x" (pchild 4) (PCons "y" (pchild 5) PNil))
           (fun vs => PRet (VTuple vs)).
  Definition q_inner : prog :=
    PBlock val unwrap_post (PCons "u" (pchild 6) PNil)
           (fun vs => pcall 3 (fun v => PRet (VTuple (v :: vs)))).
  Definition second (v : val) (vs : list val) : prog :=
    PBlock val unwrap_post (PCons "q" (pchild 7) (PCons "x" (pchild 9) PNil))
           (fun vs2 => PRet (VTuple (v :: vs ++ vs2))).
  Definition progNN : prog :=
    PBlock val unwrap_post (PCons "p" p_inner (PCons "q" q_inner PNil))
           (fun vs => pcall 8 (fun v => second v vs)).

  Definition hN := pw_handle nat c_handle.
  Definition sNN : state (pworld nat) := s_init nat progNN (Some "main") (fun _ => 0).
  Definition RNN := ref nat c_handle (Some "main") progNN (xinit nat (fun _ => 0)).

  (* three schedules: the fair round-robin; youngest thread first; and one that runs "q" and its
     child before "p" gets to spawn (entries naming disabled or non-existent threads are skipped) *)
  Definition sched_rr (s : state (pworld nat)) := run_fuel hN 40 s.
  Definition sched_young : list nat := flat_map (fun _ => [8; 7; 6; 5; 4; 3; 2; 1; 0]) (seq 0 30).
  Definition sched_q_first : list nat :=
    [0; 0; 2; 2; 3; 3; 3; 2; 2; 1; 1] ++ flat_map (fun _ => [0; 1; 2; 3; 4; 5; 6; 7; 8]) (seq 0 30).

  (* the pools differ: thread 2 is "q" or "x", thread 3 is "x", "q" or "u" - the handles a thread
     receives depend on the schedule ... *)
  Example pools_differ :
    map th_name (pool (sched_rr sNN)) =
      [Some "main"; Some "p"; Some "q"; Some "x"; Some "y"; Some "u"; Some "q"; Some "x"] /\
    map th_name (pool (run_thr hN sched_young sNN)) =
      [Some "main"; Some "p"; Some "x"; Some "q"; Some "u"; Some "y"; Some "q"; Some "x"] /\
    map th_name (pool (run_thr hN sched_q_first sNN)) =
      [Some "main"; Some "p"; Some "q"; Some "u"; Some "x"; Some "y"; Some "q"; Some "x"].
  Proof. vm_compute. repeat split; reflexivity. Qed.

  (* ... the traces differ ... *)
  Example traces_differ :
    map fst (rev (trace (sched_rr sNN))) <> map fst (rev (trace (run_thr hN sched_young sNN))).
  Proof. vm_compute. discriminate. Qed.

  (* ... but the result, the caller's events and every name's event sequence are the reference's *)
  Definition agrees_with_reference (s : state (pworld nat)) : Prop :=
    finished s = true /\
    result_of 0 s = Some (fst (fst RNN)) /\
    events_of 0 s = snd RNN /\
    map (fun n => (world s (Some n), nev nat (Some n) s)) ["main"; "p"; "q"; "x"; "y"; "u"] =
    map (fun n => snd (fst RNN) (Some n)) ["main"; "p"; "q"; "x"; "y"; "u"].

  Example run_rr_agrees : agrees_with_reference (sched_rr sNN).
  Proof. vm_compute. repeat split; reflexivity. Qed.
  Example run_young_agrees : agrees_with_reference (run_thr hN sched_young sNN).
  Proof. vm_compute. repeat split; reflexivity. Qed.
  Example run_q_first_agrees : agrees_with_reference (run_thr hN sched_q_first sNN).
  Proof. vm_compute. repeat split; reflexivity. Qed.

  (* what the reference says (so that the agreement above is not an agreement on nothing) *)
  Example reference_value :
    fst (fst RNN) =
      Some (VTuple [VInt 8; VTuple [VInt 4; VInt 5]; VTuple [VInt 3; VInt 6]; VInt 8; VInt 11]) /\
    List.length (snd RNN) = 1 /\
    snd (snd (fst RNN) (Some "q")) =
      [ECall (VOpq 3) []; ECall (VOpq 7) []; ECall (VOpq 107) []] /\
    List.length (rlog nat c_handle (Some "main") progNN (xinit nat (fun _ => 0))) = 7.
  Proof. vm_compute. repeat split; reflexivity. Qed.

  (* the hypotheses of the theorems hold for this program: the name discipline *)
  Ltac names :=
    repeat match goal with
           | H : _ \/ _ |- _ => destruct H
           | H : exists _, _ |- _ => destruct H
           | H : False |- _ => destruct H
           | H : inscope _ _ _ |- _ => unfold inscope in H; cbn in H
           | H : Some _ = Some _ |- _ => first [discriminate H | injection H as H; subst]
           | H : ?n = Some _ |- _ => subst n
           end.

  Example progNN_wf : wf (Some "main") progNN.
  Proof.
    cbn. repeat split; try discriminate; try apply unwrap_post_strict; auto;
      try (intros; cbn; repeat split; try discriminate; try apply unwrap_post_strict; auto);
      try (cbn; intros; intro; names; discriminate).
  Qed.

  (* the theorem, instantiated for ALL pairs of schedules of this program *)
  Example progNN_all_schedules sched1 sched2 :
    finished (run_thr hN sched1 sNN) = true -> finished (run_thr hN sched2 sNN) = true ->
    result_of 0 (run_thr hN sched1 sNN) = result_of 0 (run_thr hN sched2 sNN) /\
    forall n, nev nat n (run_thr hN sched1 sNN) = nev nat n (run_thr hN sched2 sNN).
  Proof.
    intros H1 H2.
    destruct (two_schedules_agree_init nat c_handle progNN (Some "main") (fun _ => 0) progNN_wf sched1 sched2)
      as [_ H]. destruct (H H1 H2) as (Hr & _ & Hn). auto.
  Qed.

  (* and it IS the value computed above, under every schedule that finishes the run *)
  Example progNN_value sched :
    finished (run_thr hN sched sNN) = true ->
    result_of 0 (run_thr hN sched sNN) =
      Some (Some (VTuple [VInt 8; VTuple [VInt 4; VInt 5]; VTuple [VInt 3; VInt 6]; VInt 8; VInt 11])).
  Proof.
    intros Hf.
    destruct (every_finished_run_is_the_reference nat c_handle progNN (Some "main") (fun _ => 0) progNN_wf) as [_ H].
    destruct (H sched Hf) as [E _]. unfold hN, sNN. rewrite E. f_equal; exact (proj1 reference_value).
  Qed.

  (* [compile] produces the blocks of ThreadsProps: this is hb code *)
  Example progNN_hb : hb (compile progNN).
  Proof. exact (hb_compile _ _ progNN_wf). Qed.
End ExNestedIndep.

Print Assumptions ExNestedIndep.progNN_all_schedules.
Print Assumptions ExNestedIndep.progNN_value.

(* a run with PANICS: grandchild "x" panics (closure 13), so "p" panics in its first join
   (`.join().unwrap()`) without waiting for "y", and the caller panics in its first join without
   waiting for "q"; "y" and "q" run on, detached.  Still nothing depends on the schedule. *)
Module ExNestedPanic.
  Import ExBlock ExIndep ExNestedIndep.
  Definition cp_handle (nm : option string) (e : ev) (sg : nat) : option val * nat :=
    match e with
    | ECall (VOpq 13) _ => (None, S sg)
    | _ => c_handle nm e sg
    end.
  Definition progP : prog :=
    PBlock val unwrap_post
      (PCons "p" (PBlock val unwrap_post
                    (PCons "x" (pcall 13 (fun v => PRet v)) (PCons "y" (pchild 5) PNil))
                    (fun vs => PRet (VTuple vs)))
      (PCons "q" (pchild 6) PNil))
      (fun vs => pcall 8 (fun v => PRet (VTuple (v :: vs)))).
  Definition hP := pw_handle nat cp_handle.
  Definition sP : state (pworld nat) := s_init nat progP (Some "main") (fun _ => 0).
  Definition RP := ref nat cp_handle (Some "main") progP (xinit nat (fun _ => 0)).

  Definition agreesP (s : state (pworld nat)) : Prop :=
    finished s = true /\
    result_of 0 s = Some (fst (fst RP)) /\
    events_of 0 s = snd RP /\
    map (fun n => (world s (Some n), nev nat (Some n) s)) ["main"; "p"; "q"; "x"; "y"] =
    map (fun n => snd (fst RP) (Some n)) ["main"; "p"; "q"; "x"; "y"].

  Example panic_rr_agrees : agreesP (run_fuel hP 30 sP).
  Proof. vm_compute. repeat split; reflexivity. Qed.
  Example panic_young_agrees : agreesP (run_thr hP sched_young sP).
  Proof. vm_compute. repeat split; reflexivity. Qed.
  (* the caller panics at once (as soon as "x" has), long before "y" and "q" are finished *)
  Example panic_early :
    let s := run_thr hP [0; 0; 1; 1; 3; 1; 0] sP in
    result_of 0 s = Some None /\ result_of 1 s = Some None /\ result_of 3 s = Some None /\
    thr_finished 2 s = false /\ thr_finished 4 s = false /\
    result_of 0 s = Some (fst (fst RP)).
  Proof. vm_compute. repeat split; reflexivity. Qed.

  Example reference_value_P :
    fst (fst RP) = None /\ snd RP = [] /\
    snd (snd (fst RP) (Some "y")) = [ECall (VOpq 5) []; ECall (VOpq 105) []] /\
    snd (snd (fst RP) (Some "q")) = [ECall (VOpq 6) []; ECall (VOpq 106) []].
  Proof. vm_compute. repeat split; reflexivity. Qed.

  Example progP_wf : wf (Some "main") progP.
  Proof.
    cbn. repeat split; try discriminate; try apply unwrap_post_strict; auto;
      try (intros; cbn; repeat split; try discriminate; try apply unwrap_post_strict; auto);
      try (cbn; intros; intro; names; discriminate).
  Qed.
End ExNestedPanic.

(* ================================================================== *)
(** * 10. The generated names <parent>_join_<i> obey the name discipline *)
(* ================================================================== *)

(* code that follows the `__tb` discipline of ThreadsProps section 9: in every block run by a
   thread named nm the children are named [child_name nm i] for pairwise distinct branch indices i,
   hereditarily; blocks are non-empty and [post] is strict *)
Fixpoint tbp (nm : option string) (p : prog) : Prop :=
  match p with
  | PRet _ | PPanic _ => True
  | PVis e k => forall v, tbp nm (k v)
  | PBlock B post kids K =>
      kids <> PNil /\ strict_post post /\ (exists idx, ktb nm kids idx /\ NoDup idx) /\
      forall bs, tbp nm (K bs)
  end
with ktb (nm : option string) (ps : progs) (idx : list nat) : Prop :=
  match ps, idx with
  | PNil, [] => True
  | PCons a q r, i :: idx' => a = child_name nm i /\ tbp (Some a) q /\ ktb nm r idx'
  | _, _ => False
  end.

(* n is the name of child i of nm, or of a thread below it *)
Definition inchild (nm : option string) (i : nat) (n : option string) : Prop :=
  exists P, n = Some (child_name nm i +++ path_suffix P).

Definition name_pre (nm : option string) : string :=
  match nm with Some s => s +++ "_join_" | None => "join_" end.

Lemma child_name_pre nm i : child_name nm i = name_pre nm +++ dec i.
Proof. destruct nm; cbn; [now rewrite sapp_assoc|reflexivity]. Qed.

Lemma all_digits_sep s r : all_digits (s +++ String "_" r) = false.
Proof.
  induction s as [|c s IH]; cbn; [reflexivity|]. rewrite IH. apply Bool.andb_false_r.
Qed.

Lemma path_suffix_cases P : path_suffix P = "" \/ exists r, path_suffix P = String "_" r.
Proof. destruct P as [|i P]; cbn; [now left|right; eauto]. Qed.

Lemma inchild_inj nm i j n : inchild nm i n -> inchild nm j n -> i = j.
Proof.
  intros [P ->] [Q H]. injection H as H. rewrite !child_name_pre, !sapp_assoc in H.
  apply sapp_inj_l in H.
  destruct (path_suffix_cases P) as [EP|[rp EP]], (path_suffix_cases Q) as [EQ|[rq EQ]]; rewrite EP, EQ in H.
  - rewrite !sapp_nil_r in H. now apply dec_inj.
  - exfalso. rewrite sapp_nil_r in H. pose proof (dec_digits i) as D. rewrite H, all_digits_sep in D. discriminate.
  - exfalso. rewrite sapp_nil_r in H. pose proof (dec_digits j) as D. rewrite <- H, all_digits_sep in D. discriminate.
  - apply digits_sep_inj in H; try apply dec_digits. apply dec_inj. apply H.
Qed.

Lemma sapp_length (a b : string) : String.length (a +++ b) = String.length a + String.length b.
Proof. induction a as [|c a IH]; cbn; auto. Qed.

Lemma inchild_not_self nm i : ~ inchild nm i nm.
Proof.
  intros [P H]. destruct nm as [s|]; [|discriminate]. injection H as H.
  apply (f_equal String.length) in H. cbn in H. rewrite !sapp_length in H. cbn in H. lia.
Qed.

Lemma inchild_below a j nm i n : a = child_name nm i -> inchild (Some a) j n -> inchild nm i n.
Proof.
  intros -> [P ->]. exists (j :: P). cbn [path_suffix child_name]. now rewrite !sapp_assoc.
Qed.

Lemma tbp_uses_mut :
  (forall p nm, tbp nm p -> forall n, uses p n -> exists j, inchild nm j n) /\
  (forall ps nm idx, ktb nm ps idx -> forall n, kuses ps n -> exists j, In j idx /\ inchild nm j n).
Proof.
  apply prog_progs_ind; cbn.
  - intros v nm _ n [].
  - intros n0 nm _ n [].
  - intros e k IH nm H n [v Hv]. eapply IH; eauto.
  - intros B post kids IHk K IH nm (_ & _ & (idx & Hk & _) & HK) n [Hn|[bs Hn]].
    + destruct (IHk _ _ Hk n Hn) as (j & _ & Hj). eauto.
    + eapply IH; eauto.
  - intros nm idx _ n [].
  - intros a q IHq r IHr nm [|i idx] H n Hn; [destruct H|]. destruct H as (Ha & Hq & Hr).
    destruct Hn as [[->|Hn]|Hn].
    + exists i. split; [now left|]. exists []. cbn. now rewrite sapp_nil_r, Ha.
    + destruct (IHq _ Hq n Hn) as (j & Hj). exists i. split; [now left|]. eapply inchild_below; eauto.
    + destruct (IHr _ _ Hr n Hn) as (j & Hin & Hj). exists j. split; [now right|exact Hj].
Qed.

(* THE GENERATED NAMING OBEYS THE DISCIPLINE *)
Lemma tbp_wf_mut :
  (forall p nm, tbp nm p -> wf nm p) /\
  (forall ps nm idx, ktb nm ps idx -> NoDup idx -> kwf ps).
Proof.
  apply prog_progs_ind; cbn; auto.
  - intros B post kids IHk K IH nm (Hne & Hs & (idx & Hk & Hnd) & HK).
    split; [exact Hne|]. split; [exact Hs|]. split; [|split; [eapply IHk; eauto|auto]].
    intros Hu. destruct (proj2 tbp_uses_mut _ _ _ Hk _ Hu) as (j & _ & Hj). eapply inchild_not_self; eauto.
  - intros a q IHq r IHr nm [|i idx] H Hnd; [destruct H|]. destruct H as (Ha & Hq & Hr).
    apply NoDup_cons_iff in Hnd. destruct Hnd as [Hni Hnd'].
    split; [auto|]. split; [|eapply IHr; eauto].
    intros n Hs Hu.
    assert (Hi : inchild nm i n).
    { destruct Hs as [->|Hs].
      - exists []. cbn. now rewrite sapp_nil_r, Ha.
      - destruct (proj1 tbp_uses_mut _ _ Hq _ Hs) as (j & Hj). eapply inchild_below; eauto. }
    destruct (proj2 tbp_uses_mut _ _ _ Hr _ Hu) as (j & Hin & Hj).
    rewrite (inchild_inj _ _ _ _ Hi Hj) in Hni. contradiction.
Qed.

Theorem generated_names_wf p nm : tbp nm p -> wf nm p.
Proof. apply tbp_wf_mut. Qed.

Print Assumptions generated_names_wf.

(* hence: code with the generated names is schedule independent *)
Corollary generated_code_schedule_independent
          cstate (h : option string -> ev -> cstate -> option val * cstate) p nm (w : pworld cstate) :
  tbp nm p ->
  forall sched1 sched2,
  let s1 := run_thr (pw_handle cstate h) sched1 (s_init cstate p nm w) in
  let s2 := run_thr (pw_handle cstate h) sched2 (s_init cstate p nm w) in
  (forall r1 r2, fin _ s1 0 r1 -> fin _ s2 0 r2 -> r1 = r2 /\ events_of 0 s1 = events_of 0 s2) /\
  (finished s1 = true -> finished s2 = true ->
     result_of 0 s1 = result_of 0 s2 /\
     (forall n, world s1 n = world s2 n) /\
     (forall n, nev cstate n s1 = nev cstate n s2)).
Proof.
  intros H sched1 sched2. exact (two_schedules_agree_init cstate h p nm w (generated_names_wf p nm H) sched1 sched2).
Qed.

Print Assumptions generated_code_schedule_independent.
