(* C16 on the reference semantics with options (SpecOpts.v): what custom_joiner / lazy_branches /
   transpose_results(false) mean, for every program, every macro kind, every abstract user-code semantics
   and every world.  Equation form: each theorem exhibits the shape of a step / of the step sequencing.
   Non-vacuity examples (concrete programs under the world of Concrete.v) at the end. *)
From Coq Require Import Lia ZArith.
From Join Require Import Tok Names Ast Comp Std Denote Spec SpecOpts CompLaws Leaves.
Local Open Scope nat_scope.

Ltac nbs := repeat (rewrite bind_assoc || rewrite bind_ret_l || rewrite bind_panic).

Lemma mapM_ret {A B} (f : A -> B) (l : list A) : mapM (fun x => Ret (f x)) l = Ret (map f l).
Proof. induction l as [|x r IH]; cbn [mapM map]; [reflexivity|]. rewrite IH. reflexivity. Qed.

Lemma mapM_ext {A B} (f g : A -> comp B) l : (forall x, f x = g x) -> mapM f l = mapM g l.
Proof. intros H. induction l as [|x r IH]; cbn [mapM]; [reflexivity|]. rewrite H, IH. reflexivity. Qed.

Lemma Forall2_len {A B} (R : A -> B -> Prop) l l' : Forall2 R l l' -> List.length l' = List.length l.
Proof. induction 1; cbn; auto. Qed.

Lemma leaves_mapM_len {A B} (f : A -> comp B) (l : list A) :
  leaves (mapM f l) (fun ys => List.length ys = List.length l).
Proof.
  eapply leaves_weaken; [|apply (leaves_mapM f (fun _ _ => True)); intros; apply leaves_true].
  intros ys H. exact (Forall2_len _ _ _ H).
Qed.

(* calling the closure of a lazy branch runs the chain - every time it is called *)
Lemma thunk_call (c : comp dval) :
  match thunk_of c with DF f => f [] = (let! d := c in to_val d) | _ => False end.
Proof. reflexivity. Qed.

(* `builder.spawn(move || chain).unwrap()`: the chain is the body of the new thread *)
Lemma spawn_thread_thunk name (c : comp dval) :
  spawn_thread (DBuilder name) (thunk_of c)
  = Spawn name (let! d := c in to_val d) (fun h => Ret (DV (VHandle h))).
Proof. reflexivity. Qed.

(* lazy_branches(false) in a thread kind: `Builder::spawn` gets something that is not a closure *)
Lemma spawn_thread_value name v : spawn_thread (DBuilder name) (DV v) = Panic P_ILLTYPED.
Proof. reflexivity. Qed.

Section Props.
  Variable msem : string -> option (list operand) -> dval -> list dval -> comp dval.
  Variable dotsem : operand -> list (string * option val) -> dval -> comp dval.
  Variable callsem : val -> list dval -> comp dval.
  Variable awaitsem : val -> comp val.
  Variable so : sopts.
  Variable p : sprog.
  Let cfg := sp_cfg p.
  Notation n := (List.length (sp_trees p)).

  Notation step_result_opts := (step_result_opts msem dotsem callsem awaitsem so p).
  Notation steps_opts := (steps_opts msem dotsem callsem awaitsem so p).
  Notation branch_arg := (branch_arg msem dotsem callsem so p).
  Notation chain := (chain msem dotsem callsem p).

  (* ------------------------------------------------------------------ custom joiner *)

  (* everything a step with several active branches does BEFORE the joiner is applied: thread builders (thread
     kinds), the captures, the joiner expression, one argument per active branch in branch order (a value, a
     thunk, a spawned handle / task); it returns the joiner and the argument list *)
  Definition joiner_input (jt : operand) (k : nat) (st : state) : comp (dval * list dval) :=
    let sn := snap_of p st in
    let acts := actives p k in
    if is_async cfg then
      let! cp := captures p sn k acts in
      let! jv := Vis (EEval jt sn) (fun v => Ret (DV v)) in
      let! ds := mapM (fun b => let! d := branch_arg sn cp k st b in
                                if is_spawn cfg then spawn_task d else Ret d) acts in
      Ret (jv, ds)
    else if is_spawn cfg then
      let! builders := mapM (fun b => thread_builder (Z.of_nat b)) acts in
      let! cp := captures p sn k acts in
      let! jv := Vis (EEval jt sn) (fun v => Ret (DV v)) in
      let! hs := mapM (fun nb => let! a := branch_arg sn cp k st (snd nb) in spawn_thread (fst nb) a)
                      (combine builders acts) in
      Ret (jv, hs)
    else
      let! cp := captures p sn k acts in
      let! jv := Vis (EEval jt sn) (fun v => Ret (DV v)) in
      let! ds := mapM (branch_arg sn cp k st) acts in
      Ret (jv, ds).

  (* .. and AFTER it: nothing - except in the thread kinds, where the handles of its output are joined *)
  Definition joiner_post (k : nat) (r : dval) : comp dval :=
    if negb (is_async cfg) && is_spawn cfg then join_handles (List.length (actives p k)) r else Ret r.

  Lemma eval_joiner_some jt sn A (K : option dval -> comp A) : so_joiner so = Some jt ->
    bind (eval_joiner so sn) K = bind (Vis (EEval jt sn) (fun v => Ret (DV v))) (fun jv => K (Some jv)).
  Proof. intros H. unfold eval_joiner. rewrite H. reflexivity. Qed.

  (* C16: in a step with more than one active branch the joiner is applied exactly ONCE, to one argument per
     active branch *)
  Theorem joiner_called_once_per_multi_step k st jt :
    so_joiner so = Some jt -> 1 < List.length (actives p k) ->
    step_result_opts k st =
    (let! jd := joiner_input jt k st in
     let! r := apply callsem (fst jd) (snd jd) in
     joiner_post k r).
  Proof.
    intros Hj Hm. apply Nat.ltb_lt in Hm.
    unfold SpecOpts.step_result_opts, joiner_input, joiner_post. fold cfg. rewrite Hm.
    destruct (is_async cfg); cbn [negb andb].
    - nbs. apply bind_ext. intros cp. rewrite (eval_joiner_some jt _ _ _ Hj). nbs.
      apply bind_ext. intros jv. nbs. apply bind_ext. intros ds. nbs. cbn [fst snd]. symmetry. apply bind_ret_r.
    - destruct (is_spawn cfg); cbn [andb].
      + nbs. apply bind_ext. intros bs. nbs. apply bind_ext. intros cp. rewrite (eval_joiner_some jt _ _ _ Hj). nbs.
        apply bind_ext. intros jv. nbs. apply bind_ext. intros hs. nbs. reflexivity.
      + nbs. apply bind_ext. intros cp. rewrite (eval_joiner_some jt _ _ _ Hj). nbs.
        apply bind_ext. intros jv. nbs. apply bind_ext. intros ds. nbs. cbn [fst snd]. symmetry. apply bind_ret_r.
  Qed.

  (* .. exactly `length (actives k)` arguments .. *)
  Theorem joiner_receives_one_argument_per_active_branch k st jt :
    leaves (joiner_input jt k st) (fun jd => List.length (snd jd) = List.length (actives p k)).
  Proof.
    unfold joiner_input. destruct (is_async cfg); [|destruct (is_spawn cfg)].
    - apply leaves_bind. eapply leaves_weaken; [|apply leaves_true]. intros cp _.
      cbn [bind leaves]. intros v. apply leaves_bind.
      eapply leaves_weaken; [|apply leaves_mapM_len]. intros ds Hl. exact Hl.
    - apply leaves_bind. eapply leaves_weaken; [|apply leaves_mapM_len]. intros bs Hb.
      apply leaves_bind. eapply leaves_weaken; [|apply leaves_true]. intros cp _.
      cbn [bind leaves]. intros v. apply leaves_bind.
      eapply leaves_weaken; [|apply leaves_mapM_len]. intros hs Hl. cbn [leaves snd].
      rewrite Hl, combine_length, Hb. apply Nat.min_id.
    - apply leaves_bind. eapply leaves_weaken; [|apply leaves_true]. intros cp _.
      cbn [bind leaves]. intros v. apply leaves_bind.
      eapply leaves_weaken; [|apply leaves_mapM_len]. intros ds Hl. exact Hl.
  Qed.

  (* .. in branch order: the i-th argument is what the i-th active branch hands over (R is an ARBITRARY
     description of that, e.g. "the thunk of b's chain", "a value of b's chain") *)
  Theorem joiner_arguments_in_branch_order k st jt (R : nat -> dval -> Prop) :
    is_spawn cfg = false ->
    (forall sn cp b, In b (actives p k) -> leaves (branch_arg sn cp k st b) (R b)) ->
    leaves (joiner_input jt k st) (fun jd => Forall2 R (actives p k) (snd jd)).
  Proof.
    intros Hs HR. unfold joiner_input. rewrite Hs. destruct (is_async cfg).
    - apply leaves_bind. eapply leaves_weaken; [|apply leaves_true]. intros cp _.
      cbn [bind leaves]. intros v. apply leaves_bind.
      eapply leaves_weaken; [|apply (leaves_mapM _ R)].
      + intros ds H. exact H.
      + intros b Hb. rewrite bind_ret_r. apply HR. exact Hb.
    - apply leaves_bind. eapply leaves_weaken; [|apply leaves_true]. intros cp _.
      cbn [bind leaves]. intros v. apply leaves_bind.
      eapply leaves_weaken; [|apply (leaves_mapM _ R)].
      + intros ds H. exact H.
      + intros b Hb. apply HR. exact Hb.
  Qed.

  (* ------------------------------------------------------------------ the joiner's output is the step result *)

  (* what the macro does with the result of step k (fuel' = number of steps after k) *)
  Definition after_step (fuel' k : nat) (st : state) (sr : dval) : comp dval :=
    let last := Nat.eqb fuel' 0 in
    let acts := actives p k in
    if negb (is_try cfg) then
      let! ds := extract acts sr in
      let st' := set_all st acts ds in
      if last then final_tuple p st' else steps_opts fuel' (S k) st'
    else if so_transpose so then
      let! ds := extract acts sr in
      let st' := set_all st acts ds in
      if last then transpose awaitsem p (seq 0 n) st'
      else
        let! oks := mapM classify ds in
        match first_false oks ds with
        | Some d => std_map d (fun _ => Panic P_UNREACHABLE)
        | None => steps_opts fuel' (S k) st'
        end
    else
      match sr with
      | DV (VErr e) => Ret (DV (VErr e))
      | DV (VOk w) =>
          if last then
            if Nat.ltb 1 n then
              let! ds := extract acts (DV w) in
              let st' := set_all st acts ds in
              match filter (fun b => negb (active p k b)) (seq 0 n) with
              | [] => let! t := final_tuple p st' in let! tv := to_val t in Ret (DV (VOk tv))
              | inactive => transpose awaitsem p inactive st'
              end
            else Ret (DV (VOk w))
          else
            let! d := (if is_async cfg
                       then let! rew := rewrap acts w in
                            Ret (match rew with
                                 | [d] => d
                                 | _ => DV (VTuple (match all_vals rew with Some l => l | None => [] end))
                                 end)
                       else Ret (DV w)) in
            let! ds := extract acts d in
            steps_opts fuel' (S k) (set_all st acts ds)
      | _ => Panic P_ILLTYPED
      end.

  (* every step is run once, and everything after it depends on it only through its result *)
  Lemma steps_opts_step fuel k st :
    steps_opts (S fuel) k st = let! sr := step_result_opts k st in after_step fuel k st sr.
  Proof. reflexivity. Qed.

  (* C16: what the joiner returns is used as the step result (thread kinds: after joining its handles) *)
  Theorem joiner_output_is_step_result fuel k st jt :
    so_joiner so = Some jt -> 1 < List.length (actives p k) ->
    steps_opts (S fuel) k st =
    (let! jd := joiner_input jt k st in
     let! r := apply callsem (fst jd) (snd jd) in
     let! sr := joiner_post k r in
     after_step fuel k st sr).
  Proof.
    intros Hj Hm. rewrite steps_opts_step, (joiner_called_once_per_multi_step k st jt Hj Hm).
    rewrite bind_assoc. apply bind_ext. intros jd. rewrite bind_assoc. reflexivity.
  Qed.

  Lemma joiner_post_id k r : negb (is_async cfg) && is_spawn cfg = false -> joiner_post k r = Ret r.
  Proof. intros H. unfold joiner_post. rewrite H. reflexivity. Qed.

  (* .. as it is, in every kind but the thread kinds *)
  Corollary joiner_output_is_step_result_as_is fuel k st jt :
    so_joiner so = Some jt -> 1 < List.length (actives p k) -> negb (is_async cfg) && is_spawn cfg = false ->
    steps_opts (S fuel) k st =
    (let! jd := joiner_input jt k st in
     let! r := apply callsem (fst jd) (snd jd) in
     after_step fuel k st r).
  Proof.
    intros Hj Hm Hk. rewrite (joiner_output_is_step_result fuel k st jt Hj Hm).
    apply bind_ext. intros jd. apply bind_ext. intros r. rewrite (joiner_post_id k r Hk). reflexivity.
  Qed.

  (* .. non-try kinds: it is destructured over the active branches *)
  Lemma after_step_nontry fuel k st sr : is_try cfg = false ->
    after_step fuel k st sr =
    (let! ds := extract (actives p k) sr in
     let st' := set_all st (actives p k) ds in
     if Nat.eqb fuel 0 then final_tuple p st' else steps_opts fuel (S k) st').
  Proof. intros Ht. unfold after_step. rewrite Ht. reflexivity. Qed.

  (* ------------------------------------------------------------------ one active branch: no joiner *)

  (* C16: a step with one active branch is the step of the macro without options: no joiner, no thunk *)
  Theorem single_branch_step_ignores_joiner k st :
    List.length (actives p k) <= 1 ->
    step_result_opts k st = step_result msem dotsem callsem awaitsem p k st.
  Proof.
    intros Hl. assert (Hm : Nat.ltb 1 (List.length (actives p k)) = false) by (apply Nat.ltb_ge; lia).
    unfold SpecOpts.step_result_opts, step_result. fold cfg. rewrite Hm.
    destruct (is_async cfg); [reflexivity|]. rewrite andb_false_r. reflexivity.
  Qed.

  (* ------------------------------------------------------------------ lazy branches *)

  (* C16: with lazy_branches(true) the joiner's arguments are zero-argument closures, one per active branch, in
     branch order; the chains occur nowhere else in the step *)
  Theorem lazy_branches_are_thunks k st jt :
    so_joiner so = Some jt -> so_lazy so = true -> 1 < List.length (actives p k) -> is_spawn cfg = false ->
    step_result_opts k st =
    (let sn := snap_of p st in
     let! cp := captures p sn k (actives p k) in
     let! jv := Vis (EEval jt sn) (fun v => Ret (DV v)) in
     apply callsem jv (map (fun b => thunk_of (chain sn cp k st b)) (actives p k))).
  Proof.
    intros Hj Hl Hm Hs. rewrite (joiner_called_once_per_multi_step k st jt Hj Hm).
    unfold joiner_input, joiner_post, SpecOpts.branch_arg. rewrite Hs, Hl, andb_false_r. cbv zeta.
    destruct (is_async cfg).
    - nbs. apply bind_ext. intros cp. nbs. apply bind_ext. intros jv.
      rewrite (mapM_ext _ (fun b => Ret (thunk_of (chain (snap_of p st) cp k st b)))) by (intros b; nbs; reflexivity).
      rewrite mapM_ret. nbs. cbn [fst snd]. apply bind_ret_r.
    - nbs. apply bind_ext. intros cp. nbs. apply bind_ext. intros jv.
      rewrite mapM_ret. nbs. cbn [fst snd]. apply bind_ret_r.
  Qed.

  Lemma all_vals_thunks {A} (f : A -> comp dval) (l : list A) : l <> [] -> all_vals (map (fun b => thunk_of (f b)) l) = None.
  Proof. destruct l; [congruence|reflexivity]. Qed.

  (* C16: the events of a lazy branch happen when the joiner calls the closure, not before: with a joiner that does
     not call its arguments (whatever closures it is given, it makes no P-event) the step makes no P-event -
     WHATEVER the chains of the step would do (P is an arbitrary class of events, e.g. all events of the chains) *)
  Theorem lazy_branch_runs_only_when_called k st jt (P : ev -> Prop) :
    so_joiner so = Some jt -> so_lazy so = true -> 1 < List.length (actives p k) -> is_spawn cfg = false ->
    no_event P (captures p (snap_of p st) k (actives p k)) ->       (* the block operands, evaluated ahead of the step *)
    ~ P (EEval jt (snap_of p st)) ->                                  (* the joiner expression *)
    (forall jv ds, no_event P (callsem jv ds)) ->                     (* the joiner: it does not call its arguments *)
    no_event P (step_result_opts k st).
  Proof.
    intros Hj Hl Hm Hs Hcap Hjt Hcall. rewrite (lazy_branches_are_thunks k st jt Hj Hl Hm Hs). cbv zeta.
    apply no_event_bind; [exact Hcap|]. intros cp. cbn [bind no_event]. split; [exact Hjt|]. intros v.
    unfold apply. rewrite all_vals_thunks; [apply Hcall|].
    destruct (actives p k); [cbn in Hm; lia|discriminate].
  Qed.

  (* thread kinds (lazy by default): the chain is the body of the spawned thread; the joiner gets the handles *)
  Theorem lazy_thread_branches_run_in_their_threads k st jt :
    so_joiner so = Some jt -> so_lazy so = true -> 1 < List.length (actives p k) ->
    is_async cfg = false -> is_spawn cfg = true ->
    step_result_opts k st =
    (let sn := snap_of p st in
     let acts := actives p k in
     let! builders := mapM (fun b => thread_builder (Z.of_nat b)) acts in
     let! cp := captures p sn k acts in
     let! jv := Vis (EEval jt sn) (fun v => Ret (DV v)) in
     let! hs := mapM (fun nb => spawn_thread (fst nb) (thunk_of (chain sn cp k st (snd nb)))) (combine builders acts) in
     let! r := apply callsem jv hs in
     join_handles (List.length acts) r).
  Proof.
    intros Hj Hl Hm Ha Hs. rewrite (joiner_called_once_per_multi_step k st jt Hj Hm).
    unfold joiner_input, joiner_post, SpecOpts.branch_arg. rewrite Ha, Hs, Hl. cbv zeta. cbn [negb andb].
    nbs. apply bind_ext. intros bs. nbs. apply bind_ext. intros cp. nbs. apply bind_ext. intros jv. nbs.
    rewrite (mapM_ext _ (fun nb => spawn_thread (fst nb) (thunk_of (chain (snap_of p st) cp k st (snd nb)))))
      by (intros nb; nbs; reflexivity).
    apply bind_ext. intros hs. nbs. reflexivity.
  Qed.

  (* ------------------------------------------------------------------ transpose_results(false) *)

  (* the result of the last step when the macro does not transpose *)
  Definition last_result_no_transpose (k : nat) (st : state) (w : val) : comp dval :=
    if Nat.ltb 1 n then
      let! ds := extract (actives p k) (DV w) in
      let st' := set_all st (actives p k) ds in
      match filter (fun b => negb (active p k b)) (seq 0 n) with
      | [] => let! t := final_tuple p st' in let! tv := to_val t in Ret (DV (VOk tv))     (* Ok(tuple) *)
      | inactive => transpose awaitsem p inactive st'        (* transposition over the already finished branches *)
      end
    else Ret (DV (VOk w)).

  (* C16: transpose_results(false) - in EVERY step of a try macro the step result (with a custom joiner: the
     joiner's output) is matched as a whole: `Err e` ends the macro with `Err e` at once; `Ok w` is
     destructured over the active branches (async: payloads re-wrapped in Ok) and the next step goes on; the
     last step returns `Ok(tuple)` resp. the transposition over the finished branches *)
  Theorem transpose_off_step_flow fuel k st :
    is_try cfg = true -> so_transpose so = false ->
    steps_opts (S fuel) k st =
    (let! sr := step_result_opts k st in
     match sr with
     | DV (VErr e) => Ret (DV (VErr e))
     | DV (VOk w) =>
         if Nat.eqb fuel 0 then last_result_no_transpose k st w
         else
           let! d := (if is_async cfg
                      then let! rew := rewrap (actives p k) w in
                           Ret (match rew with
                                | [d] => d
                                | _ => DV (VTuple (match all_vals rew with Some l => l | None => [] end))
                                end)
                      else Ret (DV w)) in
           let! ds := extract (actives p k) d in
           steps_opts fuel (S k) (set_all st (actives p k) ds)
     | _ => Panic P_ILLTYPED
     end).
  Proof.
    intros Ht HT. cbn [SpecOpts.steps_opts]. fold cfg. rewrite Ht, HT. reflexivity.
  Qed.

  (* .. the Err case: nothing of a later step, and no transposition, is part of the computation *)
  Corollary transpose_off_err_ends_macro fuel k st e :
    is_try cfg = true -> so_transpose so = false ->
    after_step fuel k st (DV (VErr e)) = Ret (DV (VErr e)).
  Proof. intros Ht HT. unfold after_step. rewrite Ht, HT. reflexivity. Qed.

  (* .. the Ok case of a sync try macro, not the last step *)
  Corollary transpose_off_ok_goes_on fuel k st w :
    is_try cfg = true -> so_transpose so = false -> is_async cfg = false ->
    after_step (S fuel) k st (DV (VOk w)) =
    (let! ds := extract (actives p k) (DV w) in steps_opts (S fuel) (S k) (set_all st (actives p k) ds)).
  Proof. intros Ht HT Ha. unfold after_step. rewrite Ht, HT, Ha. reflexivity. Qed.

  (* .. together with a custom joiner: the joiner's output is the already transposed Result *)
  Corollary transpose_off_joiner_output_is_the_result fuel k st jt :
    is_try cfg = true -> so_transpose so = false -> so_joiner so = Some jt ->
    1 < List.length (actives p k) -> negb (is_async cfg) && is_spawn cfg = false ->
    steps_opts (S fuel) k st =
    (let! jd := joiner_input jt k st in
     let! r := apply callsem (fst jd) (snd jd) in
     match r with
     | DV (VErr e) => Ret (DV (VErr e))
     | _ => after_step fuel k st r
     end).
  Proof.
    intros Ht HT Hj Hm Hk. rewrite (joiner_output_is_step_result_as_is fuel k st jt Hj Hm Hk).
    apply bind_ext. intros jd. apply bind_ext. intros r.
    destruct r as [[]| | | | | |]; try reflexivity. apply transpose_off_err_ends_macro; assumption.
  Qed.

  (* transpose_results(true) in an async try macro is the per-branch check of the sync kinds *)
  Theorem transpose_on_step_flow fuel k st :
    is_try cfg = true -> so_transpose so = true ->
    steps_opts (S fuel) k st =
    (let! sr := step_result_opts k st in
     let! ds := extract (actives p k) sr in
     let st' := set_all st (actives p k) ds in
     if Nat.eqb fuel 0 then transpose awaitsem p (seq 0 n) st'
     else
       let! oks := mapM classify ds in
       match first_false oks ds with
       | Some d => std_map d (fun _ => Panic P_UNREACHABLE)
       | None => steps_opts fuel (S k) st'
       end).
  Proof. intros Ht HT. cbn [SpecOpts.steps_opts]. fold cfg. rewrite Ht, HT. reflexivity. Qed.
End Props.

(* a step with one active branch does not depend on the options at all *)
Corollary single_branch_step_independent_of_options msem dotsem callsem awaitsem so so' p k st :
  List.length (actives p k) <= 1 ->
  step_result_opts msem dotsem callsem awaitsem so p k st = step_result_opts msem dotsem callsem awaitsem so' p k st.
Proof.
  intros H. rewrite !single_branch_step_ignores_joiner by exact H. reflexivity.
Qed.

Print Assumptions joiner_called_once_per_multi_step.
Print Assumptions joiner_output_is_step_result.
Print Assumptions single_branch_step_ignores_joiner.
Print Assumptions lazy_branch_runs_only_when_called.
Print Assumptions transpose_off_step_flow.

(* ====================================================================== non-vacuity *)
(* Concrete programs under the concrete world of Concrete.v (rule-table world, sequential runner with a log;
   `Check.run_top`): the premises of the theorems above are satisfiable, the flows they describe are taken, and the
   generated code does the same (RefineOpts.gen_refines_spec_opts applies: `wf_opts`, `gen`, `prepare` succeed). *)
From Join Require Import Ir Gen Concrete Check RefineProg RefineOpts.

Module Examples.
  Local Open Scope Z_scope.

  (* the user's operands: x0 = 1, y0 = 2, z0 = 7;  g = |x| if x % 7 == 0 { Err(99) } else { Ok(x + 10) };
     ga = |x| x + 10, ha = |x| x + 20;  jn = |a, b, ..| Ok((a, b, ..)) (logs the `let` names it sees);  jt = |a, b, ..| (a, b, ..);
     jc = || (100, 200) *)
  Definition tbl : list opinfo :=
    [ mkOp ["x0"] 1 (KConst (VInt 1)) false; mkOp ["y0"] 2 (KConst (VInt 2)) false; mkOp ["z0"] 9 (KConst (VInt 7)) false;
      mkOp ["g"] 3 (KResIf 7 0 10 99) false; mkOp ["ga"] 7 (KAdd 10) false; mkOp ["ha"] 8 (KAdd 20) false;
      mkOp ["jn"] 5 KTupleOk true; mkOp ["jt"] 6 KTuple false;
      mkOp ["jc"] 4 (KOrElseOpt (VTuple [VInt 100; VInt 200])) false ].

  Definition run_opts_with (callsem : val -> list dval -> comp dval) (cfg : config) (inp : input) : list string :=
    match prepare cfg inp with
    | Some sp => run_show tbl (Some "main"%string) (run_top cfg (spec_opts c_msem c_dotsem callsem c_await (resolve cfg inp) sp))
    | None => ["<NoSpec>"%string]
    end.
  Definition run_opts := run_opts_with c_callsem.

  Definition refines (cfg : config) (inp : input) : Prop :=
    wf_opts inp /\
    exists e sp, gen cfg inp = Ok e /\ prepare cfg inp = Some sp /\
      den (user_names inp) c_msem c_dotsem c_callsem c_await e empty_env
      = spec_opts c_msem c_dotsem c_callsem c_await (resolve cfg inp) sp.

  Ltac wf_opts_tac :=
    constructor; cbn;
    [ repeat constructor; cbn; intuition discriminate
    | repeat constructor
    | repeat constructor
    | repeat constructor; cbn; try reflexivity; try discriminate ].
  Ltac refines_tac :=
    match goal with
    | |- refines ?cfg ?inp =>
        let Hwf := fresh "Hwf" in
        assert (Hwf : wf_opts inp) by wf_opts_tac;
        split; [exact Hwf|];
        let e := eval vm_compute in (gen cfg inp) in
        let sp := eval vm_compute in (prepare cfg inp) in
        match e with Ok ?e' => match sp with Some ?sp' =>
          exists e', sp';
          assert (Hg : gen cfg inp = Ok e') by (vm_compute; reflexivity);
          assert (Hp : prepare cfg inp = Some sp') by (vm_compute; reflexivity);
          split; [exact Hg|split; [exact Hp|]];
          exact (gen_refines_spec_opts c_msem c_dotsem c_callsem c_await cfg inp e' sp' Hwf Hg Hp)
        end end
    end.

  Definition cfg_join := mkConfig false false false.
  Definition cfg_try := mkConfig false true false.
  Definition cfg_spawn := mkConfig false false true.

  (* ---- 1. try_join! { let a = x0 ~-> ga, y0 ~-> ha, custom_joiner(jn) lazy_branches(true) transpose_results(false) }
          two steps with two active branches each: the joiner is applied twice, each time to the two branches in
          order, AFTER which (lazy) the branches' events happen inside the joiner call; its output Ok((..)) is the
          step result and, in the last step, the macro's result *)
  Definition ex1 : input :=
    mkInput
      [ mkBranch (Some ([TI "a"], "a"%string))
          [ mkAction Initial false NoMove [[TI "x0"]]; mkAction Then true NoMove [[TI "ga"]] ];
        mkBranch None [ mkAction Initial false NoMove [[TI "y0"]]; mkAction Then true NoMove [[TI "ha"]] ] ]
      None None (Some [TI "jn"]) (Some false) (Some true).

  Example ex1_run :
    run_opts cfg_try ex1 =
    ["Ok((11,22))"; "E5{a=?}"; "E1"; "E2"; "C5(1,2)"; "E5{a=1}"; "E7"; "C7(1)"; "E8"; "C8(2)"; "C5(11,22)"]%string.
  Proof. vm_compute. reflexivity. Qed.
  Example ex1_generated_code_agrees : model_run cfg_try ex1 tbl = run_opts cfg_try ex1.
  Proof. vm_compute. reflexivity. Qed.
  Example ex1_refines : refines cfg_try ex1.
  Proof. refines_tac. Qed.
  (* the premises of joiner_called_once_per_multi_step / lazy_branches_are_thunks / transpose_off_step_flow hold in
     both steps *)
  Example ex1_premises : exists sp, prepare cfg_try ex1 = Some sp /\
    so_joiner (resolve cfg_try ex1) = Some [TI "jn"] /\ so_lazy (resolve cfg_try ex1) = true /\
    so_transpose (resolve cfg_try ex1) = false /\ is_try (sp_cfg sp) = true /\ is_spawn (sp_cfg sp) = false /\
    (1 < List.length (actives sp 0))%nat /\ (1 < List.length (actives sp 1))%nat /\ max_depth sp = 2%nat.
  Proof. eexists. split; [vm_compute; reflexivity|]. cbn. repeat split; lia. Qed.

  (* ---- 2. try_join! { z0 -> g ~-> g, transpose_results(false) }: the first step's result is Err(99); the macro
          returns it at once - nothing of step 1 (a second E3 / C3) happens.  With x0 instead: Ok(11), destructured, step 1 runs *)
  Definition ex2 (first : string) : input :=
    mkInput
      [ mkBranch None [ mkAction Initial false NoMove [[TI first]]; mkAction Then false NoMove [[TI "g"]];
                        mkAction Then true NoMove [[TI "g"]] ] ]
      None None None (Some false) None.
  Example ex2_err_run : run_opts cfg_try (ex2 "z0") = ["Err(99)"; "E3"; "E9"; "C3(7)"]%string.
  Proof. vm_compute. reflexivity. Qed.
  Example ex2_ok_run : run_opts cfg_try (ex2 "x0") = ["Ok(21)"; "E3"; "E1"; "C3(1)"; "E3"; "C3(11)"]%string.
  Proof. vm_compute. reflexivity. Qed.
  Example ex2_refines : refines cfg_try (ex2 "z0") /\ refines cfg_try (ex2 "x0").
  Proof. split; refines_tac. Qed.

  (* ---- 3. join_spawn! { x0 ~-> ga, y0 ~-> ha, z0, custom_joiner(jt) } (lazy by default): step 0 has three active
          branches, step 1 two: the joiner gets the JoinHandles (3, then 2); the chains run in their threads *)
  Definition ex3 : input :=
    mkInput
      [ mkBranch None [ mkAction Initial false NoMove [[TI "x0"]]; mkAction Then true NoMove [[TI "ga"]] ];
        mkBranch None [ mkAction Initial false NoMove [[TI "y0"]]; mkAction Then true NoMove [[TI "ha"]] ];
        mkBranch None [ mkAction Initial false NoMove [[TI "z0"]] ] ]
      None None (Some [TI "jt"]) None None.
  Example ex3_spawn_run :
    run_opts cfg_spawn ex3 =
    ["(11,22,7)"; "E6"; "C6(<handle>,<handle>,<handle>)"; "E6"; "C6(<handle>,<handle>)";
     "main_join_0@E1"; "main_join_0@E7"; "main_join_0@C7(1)"; "main_join_1@E2"; "main_join_1@E8"; "main_join_1@C8(2)";
     "main_join_2@E9"]%string.
  Proof. vm_compute. reflexivity. Qed.
  (* the same program as join! (not lazy): the branches run BEFORE the joiner is applied to their values *)
  Example ex3_join_run :
    run_opts cfg_join ex3 =
    ["(11,22,7)"; "E6"; "E1"; "E2"; "E9"; "C6(1,2,7)"; "E6"; "E7"; "C7(1)"; "E8"; "C8(2)"; "C6(11,22)"]%string.
  Proof. vm_compute. reflexivity. Qed.
  Example ex3_refines : refines cfg_spawn ex3 /\ refines cfg_join ex3.
  Proof. split; refines_tac. Qed.

  (* ---- 4. join! { x0 ~-> ga ~-> ha, y0, custom_joiner(jt) }: only step 0 has two active branches - one joiner
          application; steps 1 and 2 have one active branch and never see the joiner *)
  Definition ex4 : input :=
    mkInput
      [ mkBranch None [ mkAction Initial false NoMove [[TI "x0"]]; mkAction Then true NoMove [[TI "ga"]];
                        mkAction Then true NoMove [[TI "ha"]] ];
        mkBranch None [ mkAction Initial false NoMove [[TI "y0"]] ] ]
      None None (Some [TI "jt"]) None None.
  Example ex4_run : run_opts cfg_join ex4 = ["(31,2)"; "E6"; "E1"; "E2"; "C6(1,2)"; "E7"; "C7(1)"; "E8"; "C8(11)"]%string.
  Proof. vm_compute. reflexivity. Qed.
  Example ex4_refines : refines cfg_join ex4.
  Proof. refines_tac. Qed.
  Example ex4_premises : exists sp, prepare cfg_join ex4 = Some sp /\
    (1 < List.length (actives sp 0))%nat /\ (List.length (actives sp 1) <= 1)%nat /\ (List.length (actives sp 2) <= 1)%nat.
  Proof. eexists. split; [vm_compute; reflexivity|]. cbn. repeat split; lia. Qed.

  (* ---- 5. join! { x0, y0, custom_joiner(jc) lazy_branches(true) } with a joiner that does NOT call the closures
          it is given: no event of a branch (E1, E2) happens at all; a joiner that calls them: they happen, inside *)
  Definition ex5 : input :=
    mkInput
      [ mkBranch None [ mkAction Initial false NoMove [[TI "x0"]] ];
        mkBranch None [ mkAction Initial false NoMove [[TI "y0"]] ] ]
      None None (Some [TI "jc"]) None (Some true).
  Definition callsem_nocall (f : val) (ds : list dval) : comp dval := Vis (ECall f []) (fun v => Ret (DV v)).
  Example ex5_nocall_run : run_opts_with callsem_nocall cfg_join ex5 = ["(100,200)"; "E4"; "C4()"]%string.
  Proof. vm_compute. reflexivity. Qed.
  Definition callsem_callall (f : val) (ds : list dval) : comp dval :=
    let! _ := mapM (fun d => match d with DF g => g [] | _ => Panic P_ILLTYPED end) ds in
    Vis (ECall f []) (fun v => Ret (DV v)).
  Example ex5_call_run : run_opts_with callsem_callall cfg_join ex5 = ["(100,200)"; "E4"; "E1"; "E2"; "C4()"]%string.
  Proof. vm_compute. reflexivity. Qed.
  Example ex5_refines : refines cfg_join ex5.
  Proof. refines_tac. Qed.
  (* lazy_branch_runs_only_when_called applies: P = "an operand of a branch is evaluated" *)
  Definition branch_event (e : ev) : Prop :=
    match e with EEval o _ => o = [TI "x0"] \/ o = [TI "y0"] | _ => False end.
  Example ex5_no_branch_event : exists sp, prepare cfg_join ex5 = Some sp /\
    forall st, no_event branch_event
                 (step_result_opts c_msem c_dotsem callsem_nocall c_await (resolve cfg_join ex5) sp 0 st).
  Proof.
    eexists. split; [vm_compute; reflexivity|]. intros st.
    apply (lazy_branch_runs_only_when_called c_msem c_dotsem callsem_nocall c_await _ _ 0 st [TI "jc"]); try reflexivity.
    - cbn. lia.
    - cbn. intros [H|H]; discriminate H.
    - intros jv ds. cbn. split; [exact (fun H => H)|]. intros v. exact I.
  Qed.
End Examples.

Print Assumptions Examples.ex1_refines.
Print Assumptions Examples.ex5_no_branch_event.
