(* Non-vacuity of the refinement theorem: a concrete program (let names, a wrapper, a hoisted block
   operand, different depths, try + handler) meets `wf`, is accepted by `gen` and by `prepare`, and the
   theorem instantiates for the concrete world of Concrete.v (no hypothesis on the user-code semantics
   is left to discharge). *)
From Coq Require Import ZArith Lia.
From Join Require Import Tok Names Ast Ir Gen Comp Std Denote Spec Concrete NamesInj CompLaws Render
     RefineBase RefineChain RefineProg RefineSteps RefineTop.

(* try_join!{ let a = x0 |> >>> |> {blk} <<< ~=> g, y0 ~|> h ~|> i, map => hd } *)
Definition ex_inp : input :=
  mkInput
    [ mkBranch (Some ([TI "a"], "a"))
        [ mkAction Initial false NoMove [[TI "x0"]];
          mkAction Map false Wrap [[TP "|" false]];
          mkAction Map false NoMove [[TG DBrace [TI "blk"]]];
          mkAction UNWRAP false Unwrap [];
          mkAction AndThen true NoMove [[TI "g"]] ];
      mkBranch None
        [ mkAction Initial false NoMove [[TI "y0"]];
          mkAction Map true NoMove [[TI "h"]];
          mkAction Map true NoMove [[TI "i"]] ] ]
    (Some (HMap, [TI "hd"])) None None None None.

Lemma ex_wf : wf ex_inp.
Proof.
  constructor; try reflexivity.
  - cbn. repeat constructor; cbn; intuition discriminate.
  - cbn. repeat constructor.
  - cbn. repeat constructor.
  - cbn. repeat constructor; cbn; try reflexivity; try discriminate.
Qed.

Definition ex_cfgs : list config :=
  [ mkConfig false true false; mkConfig false true true; mkConfig true true false; mkConfig true true true ].

Lemma ex_gen_ok : forall cfg, In cfg ex_cfgs ->
  exists e sp, gen cfg ex_inp = Ok e /\ prepare cfg ex_inp = Some sp.
Proof.
  intros cfg H. cbn in H.
  repeat (destruct H as [<-|H]; [eexists; eexists; split; vm_compute; reflexivity|]). contradiction.
Qed.

(* the theorem applies: den (gen ..) = spec .. for the concrete world, all four try kinds *)
Example ex_refines : forall cfg, In cfg ex_cfgs ->
  exists e sp, gen cfg ex_inp = Ok e /\ prepare cfg ex_inp = Some sp /\
    den (user_names ex_inp) c_msem c_dotsem c_callsem c_await e empty_env = spec c_msem c_dotsem c_callsem c_await sp.
Proof.
  intros cfg H. destruct (ex_gen_ok cfg H) as (e & sp & Hg & Hp). exists e, sp. repeat split; auto.
  apply (gen_refines_spec c_msem c_dotsem c_callsem c_await cfg ex_inp e sp ex_wf Hg Hp).
Qed.

Print Assumptions ex_refines.
