(* GenPropsB - C15/C13 `config_rejection_exact`: `gen` returns `ConfigError k` exactly in the four
   documented situations, in priority order; and the unfolding of `gen` used by all other GenProps files.
   For ALL configurations and ALL inputs (no well-formedness hypothesis). *)
From Coq Require Import Lia.
From Join Require Import Tok Names Ast Ir Gen GenPropsBase.

(* ---------------------------------------------------------------------------------------------- *)
(** * The verdict of JoinOutput::new as a function of (cfg, inp) *)

Definition has_fcp (inp : input) : bool := match i_fcp inp with Some _ => true | None => false end.

Definition config_verdict (cfg : config) (inp : input) : option N :=
  if negb (is_try cfg) && (is_hkind HMap (i_handler inp) || is_hkind HAndThen (i_handler inp)) then Some 1%N
  else if is_try cfg && is_hkind HThen (i_handler inp) then Some 2%N
  else if negb (is_async cfg) && has_fcp inp then Some 3%N
  else match i_branches inp with [] => Some 4%N | _ => None end.

(* the futures path the generator works with: the user's, else `::futures` for async kinds, else none *)
Definition eff_fcp (cfg : config) (inp : input) : option operand :=
  match i_fcp inp with
  | Some p => Some p
  | None => if is_async cfg then Some default_futures_path else None
  end.
(* the effective option flags (C16 defaults) *)
Definition eff_lazy (cfg : config) (inp : input) : bool :=
  opt_default (i_lazy inp) (is_spawn cfg && negb (is_async cfg)).
Definition eff_transpose (cfg : config) (inp : input) : bool :=
  opt_default (i_transpose inp) (is_try cfg && negb (is_async cfg)).

(* the JoinOutput value built from an accepted input *)
Definition the_jout (cfg : config) (inp : input) : jout :=
  let chains := map (fun b => split_steps (b_members b)) (i_branches inp) in
  let depths := map (fun c => List.length c) chains in
  {| j_cfg := cfg; j_chains := chains; j_pats := map b_pat (i_branches inp);
     j_depths := depths; j_branch_count := List.length (i_branches inp);
     j_max := list_max depths; j_handler := i_handler inp; j_fcp := eff_fcp cfg inp; j_joiner := i_joiner inp;
     j_lazy := eff_lazy cfg inp; j_transpose := eff_transpose cfg inp |}.

Lemma jout_new_unfold cfg inp :
  jout_new cfg inp (eff_fcp cfg inp) =
  match config_verdict cfg inp with Some k => ConfigError k | None => Ok (the_jout cfg inp) end.
Proof.
  unfold jout_new, config_verdict.
  destruct (negb (is_try cfg) && (is_hkind HMap (i_handler inp) || is_hkind HAndThen (i_handler inp))); [reflexivity|].
  destruct (is_try cfg && is_hkind HThen (i_handler inp)); [reflexivity|].
  assert (Hf : (negb (is_async cfg) && match eff_fcp cfg inp with Some _ => true | None => false end)
               = (negb (is_async cfg) && has_fcp inp)).
  { unfold eff_fcp, has_fcp. destruct (i_fcp inp); [reflexivity|]. destruct (is_async cfg); reflexivity. }
  rewrite Hf. destruct (negb (is_async cfg) && has_fcp inp); [reflexivity|].
  destruct (i_branches inp) eqn:Eb; [reflexivity|]. unfold the_jout. rewrite Eb. reflexivity.
Qed.

(* The unfolding of `gen` everything else is built on. *)
Theorem gen_unfold cfg inp :
  gen cfg inp =
  match config_verdict cfg inp with Some k => ConfigError k | None => gen_output (the_jout cfg inp) end.
Proof.
  unfold gen. fold (eff_fcp cfg inp). rewrite jout_new_unfold.
  destruct (config_verdict cfg inp); reflexivity.
Qed.

Lemma gen_ok_unfold cfg inp e :
  gen cfg inp = Ok e -> config_verdict cfg inp = None /\ gen_output (the_jout cfg inp) = Ok e.
Proof. rewrite gen_unfold. destruct (config_verdict cfg inp); [discriminate|auto]. Qed.

(* ---------------------------------------------------------------------------------------------- *)
(** * config_rejection_exact *)

Theorem gen_config_error_iff cfg inp k :
  gen cfg inp = ConfigError k <-> config_verdict cfg inp = Some k.
Proof.
  rewrite gen_unfold. destruct (config_verdict cfg inp) as [k'|].
  - split; intros H; inversion H; reflexivity.
  - split; [|discriminate]. intros H. exfalso. exact (no_cfg_gen_output _ _ H).
Qed.

(* the four documented reasons, as propositions *)
Definition handler_is (k : hkind) (inp : input) : Prop := exists h, i_handler inp = Some (k, h).
Definition rej_not_try_handler (cfg : config) (inp : input) : Prop :=     (* 1: `map`/`and_then` in a non-try macro *)
  is_try cfg = false /\ (handler_is HMap inp \/ handler_is HAndThen inp).
Definition rej_try_then (cfg : config) (inp : input) : Prop :=            (* 2: `then` in a try macro *)
  is_try cfg = true /\ handler_is HThen inp.
Definition rej_sync_fcp (cfg : config) (inp : input) : Prop :=            (* 3: futures_crate_path in a non-async macro *)
  is_async cfg = false /\ i_fcp inp <> None.
Definition rej_no_branch (inp : input) : Prop := i_branches inp = [].     (* 4: no branch *)

Lemma is_hkind_true k h : is_hkind k h = true <-> exists o, h = Some (k, o).
Proof.
  unfold is_hkind. destruct h as [[k' o]|].
  - destruct k', k; split; intros H; try discriminate; eauto;
      destruct H as (o' & H); inversion H.
  - split; [discriminate|]. intros (o & H); discriminate.
Qed.

Lemma rej1_reflect cfg inp :
  negb (is_try cfg) && (is_hkind HMap (i_handler inp) || is_hkind HAndThen (i_handler inp)) = true
  <-> rej_not_try_handler cfg inp.
Proof.
  unfold rej_not_try_handler, handler_is.
  rewrite andb_true_iff, orb_true_iff, negb_true_iff, !is_hkind_true. reflexivity.
Qed.
Lemma rej2_reflect cfg inp : is_try cfg && is_hkind HThen (i_handler inp) = true <-> rej_try_then cfg inp.
Proof. unfold rej_try_then, handler_is. rewrite andb_true_iff, is_hkind_true. reflexivity. Qed.
Lemma rej3_reflect cfg inp : negb (is_async cfg) && has_fcp inp = true <-> rej_sync_fcp cfg inp.
Proof.
  unfold rej_sync_fcp, has_fcp. rewrite andb_true_iff, negb_true_iff.
  destruct (i_fcp inp); split; intros [H1 H2]; split; auto; try discriminate; congruence.
Qed.

Lemma not_true_false (b : bool) P : (b = true <-> P) -> (b = false <-> ~ P).
Proof.
  intros [H1 H2]. destruct b; split; intros H; try discriminate.
  - exfalso; apply H; auto.
  - intros HP. apply H2 in HP. discriminate.
  - reflexivity.
Qed.

Theorem config_rejection_exact cfg inp k :
  gen cfg inp = ConfigError k <->
     (k = 1%N /\ rej_not_try_handler cfg inp)
  \/ (k = 2%N /\ ~ rej_not_try_handler cfg inp /\ rej_try_then cfg inp)
  \/ (k = 3%N /\ ~ rej_not_try_handler cfg inp /\ ~ rej_try_then cfg inp /\ rej_sync_fcp cfg inp)
  \/ (k = 4%N /\ ~ rej_not_try_handler cfg inp /\ ~ rej_try_then cfg inp /\ ~ rej_sync_fcp cfg inp /\ rej_no_branch inp).
Proof.
  rewrite gen_config_error_iff. unfold config_verdict.
  pose proof (rej1_reflect cfg inp) as R1. pose proof (rej2_reflect cfg inp) as R2.
  pose proof (rej3_reflect cfg inp) as R3.
  pose proof (not_true_false _ _ R1) as N1. pose proof (not_true_false _ _ R2) as N2.
  pose proof (not_true_false _ _ R3) as N3.
  destruct (negb (is_try cfg) && (is_hkind HMap (i_handler inp) || is_hkind HAndThen (i_handler inp))).
  { split.
    - intros H; inversion H. left. split; [reflexivity|]. apply R1; reflexivity.
    - intros [[-> _]|[(_ & H & _)|[(_ & H & _)|(_ & H & _)]]]; try reflexivity;
        exfalso; apply H, R1; reflexivity. }
  destruct (is_try cfg && is_hkind HThen (i_handler inp)).
  { split.
    - intros H; inversion H. right; left. split; [reflexivity|]. split; [apply N1|apply R2]; reflexivity.
    - intros [[_ H]|[(-> & _)|[(_ & _ & H & _)|(_ & _ & H & _)]]]; try reflexivity.
      + apply R1 in H; discriminate.
      + exfalso; apply H, R2; reflexivity.
      + exfalso; apply H, R2; reflexivity. }
  destruct (negb (is_async cfg) && has_fcp inp).
  { split.
    - intros H; inversion H. right; right; left. split; [reflexivity|]. split; [apply N1|split; [apply N2|apply R3]]; reflexivity.
    - intros [[_ H]|[(_ & _ & H)|[(-> & _)|(_ & _ & _ & H & _)]]]; try reflexivity.
      + apply R1 in H; discriminate.
      + apply R2 in H; discriminate.
      + exfalso; apply H, R3; reflexivity. }
  unfold rej_no_branch. destruct (i_branches inp) as [|b bs].
  - split.
    + intros H; inversion H. right; right; right. split; [reflexivity|]. split; [apply N1|split; [apply N2|split; [apply N3|]]]; reflexivity.
    + intros [[_ H]|[(_ & _ & H)|[(_ & _ & _ & H)|(-> & _)]]]; try reflexivity.
      * apply R1 in H; discriminate.
      * apply R2 in H; discriminate.
      * apply R3 in H; discriminate.
  - split; [discriminate|].
    intros [[_ H]|[(_ & _ & H)|[(_ & _ & _ & H)|(_ & _ & _ & _ & H)]]].
    + apply R1 in H; discriminate.
    + apply R2 in H; discriminate.
    + apply R3 in H; discriminate.
    + discriminate.
Qed.

(* "gen never returns ConfigError for any other reason": the code is one of 1..4 *)
Corollary config_error_codes cfg inp k :
  gen cfg inp = ConfigError k -> k = 1%N \/ k = 2%N \/ k = 3%N \/ k = 4%N.
Proof. rewrite config_rejection_exact. tauto. Qed.

(* an accepted configuration with at least one branch is never rejected *)
Corollary config_accept cfg inp :
  ~ rej_not_try_handler cfg inp -> ~ rej_try_then cfg inp -> ~ rej_sync_fcp cfg inp -> i_branches inp <> [] ->
  forall k, gen cfg inp <> ConfigError k.
Proof.
  intros H1 H2 H3 H4 k H. apply config_rejection_exact in H. unfold rej_no_branch in H. tauto.
Qed.

Print Assumptions gen_unfold.
Print Assumptions config_rejection_exact.

(* ---------------------------------------------------------------------------------------------- *)
(** * Non-vacuity: all four codes and acceptance are reached, by computation *)

Definition opx (s : string) : operand := [TI s].
Definition ini (s : string) : action := mkAction Initial false NoMove [opx s].
Definition ex_branch : branch := mkBranch None [ini "a"; mkAction Map false NoMove [opx "f"]].
Definition ex_inp (h : option (hkind * operand)) (fcp : option operand) (bs : list branch) : input :=
  mkInput bs h fcp None None None.
Definition cfg_sync := mkConfig false false false.
Definition cfg_try := mkConfig false true false.
Definition cfg_async_try := mkConfig true true false.

Example ex_code1 : gen cfg_sync (ex_inp (Some (HMap, opx "h")) None [ex_branch]) = ConfigError 1.
Proof. vm_compute. reflexivity. Qed.
Example ex_code1_wins : gen cfg_sync (ex_inp (Some (HAndThen, opx "h")) (Some (opx "fut")) []) = ConfigError 1.
Proof. vm_compute. reflexivity. Qed.
Example ex_code2 : gen cfg_try (ex_inp (Some (HThen, opx "h")) (Some (opx "fut")) []) = ConfigError 2.
Proof. vm_compute. reflexivity. Qed.
Example ex_code3 : gen cfg_try (ex_inp (Some (HMap, opx "h")) (Some (opx "fut")) []) = ConfigError 3.
Proof. vm_compute. reflexivity. Qed.
Example ex_code4 : gen cfg_async_try (ex_inp (Some (HMap, opx "h")) (Some (opx "fut")) []) = ConfigError 4.
Proof. vm_compute. reflexivity. Qed.
Example ex_accept : exists e, gen cfg_async_try (ex_inp (Some (HMap, opx "h")) (Some (opx "fut")) [ex_branch]) = Ok e.
Proof. vm_compute. eexists. reflexivity. Qed.
