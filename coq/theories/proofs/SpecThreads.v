(* The tie between the reference semantics and the thread machine's block theorems: the step of a
   thread-spawning macro with more than one active branch, as Spec.v defines it, IS the
   `std_thread_step` shape that ThreadsProps.v proves to be a spawn-all / join-all block. *)
From Coq Require Import ZArith.
From Join Require Import Tok Names Ast Comp Std Denote Spec CompLaws Threads ThreadsProps.

Theorem spec_spawn_step_is_thread_step :
  forall msem dotsem callsem awaitsem (p : sprog) k st,
    is_async (sp_cfg p) = false -> is_spawn (sp_cfg p) = true ->
    Nat.ltb 1 (List.length (actives p k)) = true ->
    step_result msem dotsem callsem awaitsem p k st =
    std_thread_step (actives p k) (captures p (snap_of p st) k (actives p k))
                    (fun cp b => let! d := chain msem dotsem callsem p (snap_of p st) cp k st b in to_val d).
Proof.
  intros msem dotsem callsem awaitsem p k st Ha Hs Hm.
  unfold step_result. rewrite Ha, Hs, Hm. cbn [andb].
  unfold std_thread_step, std_spawn_join.
  apply bind_ext; intros builders. apply bind_ext; intros cp.
  reflexivity.
Qed.
Print Assumptions spec_spawn_step_is_thread_step.

(* a step with ONE active branch of a thread-spawning macro contains no thread operation of its own:
   it is the sequential step *)
Theorem spec_spawn_single_is_sequential :
  forall msem dotsem callsem awaitsem (p : sprog) k st b,
    is_async (sp_cfg p) = false -> actives p k = [b] ->
    step_result msem dotsem callsem awaitsem p k st =
    (let! cp := captures p (snap_of p st) k [b] in chain msem dotsem callsem p (snap_of p st) cp k st b).
Proof.
  intros msem dotsem callsem awaitsem p k st b Ha Hacts.
  unfold step_result. rewrite Ha, Hacts. cbn [List.length Nat.ltb Nat.leb andb].
  rewrite Bool.andb_false_r. reflexivity.
Qed.
Print Assumptions spec_spawn_single_is_sequential.
