(* GenPropsC - C10 `operands_occur_once`: the user-written token lists that occur in the expansion are, as a
   multiset, exactly the user's operands of the input - nothing dropped, nothing duplicated.
   The census `atoms` tags every occurrence with HOW it occurs:
     UExpr o     an expression operand spliced in place (`RUser o`)
     UBound x o  an expression operand bound by `let x = o;` (hoisted block operands: x = __ewB_E_I; handler: x = __h)
     UType o     a type operand in a turbofish (`=>[T]`, `<-> A, B, C, D`)
     UDot o      the member tokens of `..` / `>.`
   Main theorem `atoms_exact` (under wf_parsed): Permutation (atoms e) (input_atoms inp).  *)
From Coq Require Import Lia Permutation.
From Join Require Import Tok Names Ast Ir Gen GenPropsBase GenPropsB GenPropsA.

(* ---------------------------------------------------------------------------------------------- *)
(** * The census of user tokens *)

Inductive uatom :=
| UExpr (o : operand)
| UBound (x : string) (o : operand)
| UType (o : operand)
| UDot (o : operand).

Fixpoint atoms (e : rexpr) : list uatom :=
  let es := fix go (l : list rexpr) : list uatom :=
              match l with [] => [] | x :: r => atoms x ++ go r end in
  let ss := fix go (l : list rstmt) : list uatom :=
              match l with [] => [] | s :: r => atoms_stmt s ++ go r end in
  match e with
  | RUser o => [UExpr o]
  | RVar _ | RUsize _ | RBool _ | RUnreachable | RJoinMac _ _ => []
  | RBlock s e | RAsyncMove s e => ss s ++ atoms e
  | RAwait e | RBoxPin e | RField e _ | RClosure _ e | RClosureIgn e | RMoveThunk e
  | RNot e | RRef e | ROk e => atoms e
  | RTuple l | RArray l | RJuxt l => es l
  | RMeth r _ tf args => atoms r ++ match tf with Some tys => map UType tys | None => [] end ++ es args
  | RGlue r _ args => atoms r ++ es args
  | RDot r o => atoms r ++ [UDot o]
  | RCall f args => atoms f ++ es args
  | RThenCall o arg => atoms o ++ atoms arg
  | RIfLetSome _ s t e => atoms s ++ atoms t ++ atoms e
  | RMatchIdx s arms =>
      atoms s ++ (fix go (l : list (nat * rexpr)) : list uatom :=
                    match l with [] => [] | ix :: r => atoms (snd ix) ++ go r end) arms
  | RMatchOk s _ a => atoms s ++ atoms a
  end
with atoms_stmt (s : rstmt) : list uatom :=
  match s with
  | SLet p e => match p, e with
                | PIdent x, RUser o => [UBound x o]
                | _, _ => atoms e
                end
  | SExpr e => atoms e
  | SFn _ _ _ body => atoms body
  | STbFn | SSpawnTokioFn _ | SUseFutures _ => []
  end.

Notation A_es := (flat_map atoms).
Notation A_ss := (flat_map atoms_stmt).

Lemma at_list l :
  (fix go (l : list rexpr) : list uatom := match l with [] => [] | x :: r => atoms x ++ go r end) l = A_es l.
Proof. induction l as [|x r IH]; [reflexivity|]. cbn [flat_map]. now rewrite IH. Qed.
Lemma at_stmts l :
  (fix go (l : list rstmt) : list uatom := match l with [] => [] | s :: r => atoms_stmt s ++ go r end) l = A_ss l.
Proof. induction l as [|x r IH]; [reflexivity|]. cbn [flat_map]. now rewrite IH. Qed.
Lemma at_arms l :
  (fix go (l : list (nat * rexpr)) : list uatom := match l with [] => [] | ix :: r => atoms (snd ix) ++ go r end) l
  = flat_map (fun ix => atoms (snd ix)) l.
Proof. induction l as [|x r IH]; [reflexivity|]. cbn [flat_map]. now rewrite IH. Qed.

Lemma a_RBlock ss e : atoms (RBlock ss e) = A_ss ss ++ atoms e.
Proof. cbn [atoms]. now rewrite at_stmts. Qed.
Lemma a_RAsyncMove ss e : atoms (RAsyncMove ss e) = A_ss ss ++ atoms e.
Proof. cbn [atoms]. now rewrite at_stmts. Qed.
Lemma a_RTuple l : atoms (RTuple l) = A_es l.
Proof. cbn [atoms]. now rewrite at_list. Qed.
Lemma a_RArray l : atoms (RArray l) = A_es l.
Proof. cbn [atoms]. now rewrite at_list. Qed.
Lemma a_RJuxt l : atoms (RJuxt l) = A_es l.
Proof. cbn [atoms]. now rewrite at_list. Qed.
Lemma a_RMeth r m tf args :
  atoms (RMeth r m tf args) = atoms r ++ match tf with Some tys => map UType tys | None => [] end ++ A_es args.
Proof. cbn [atoms]. now rewrite at_list. Qed.
Lemma a_RGlue r m args : atoms (RGlue r m args) = atoms r ++ A_es args.
Proof. cbn [atoms]. now rewrite at_list. Qed.
Lemma a_RCall f args : atoms (RCall f args) = atoms f ++ A_es args.
Proof. cbn [atoms]. now rewrite at_list. Qed.
Lemma a_RMatchIdx s arms : atoms (RMatchIdx s arms) = atoms s ++ flat_map (fun ix => atoms (snd ix)) arms.
Proof. cbn [atoms]. now rewrite at_arms. Qed.

(* a `let` whose right-hand side is not a bare user expression contributes the atoms of that side *)
Definition not_user (e : rexpr) : Prop := match e with RUser _ => False | _ => True end.
Lemma a_SLet p e : not_user e -> atoms_stmt (SLet p e) = atoms e.
Proof. destruct p, e; cbn; tauto. Qed.
Lemma a_SLet_tuple ps e : atoms_stmt (SLet (PTuple ps) e) = atoms e.
Proof. destruct e; reflexivity. Qed.

Ltac asimp :=
  repeat (rewrite ?a_RBlock, ?a_RAsyncMove, ?a_RTuple, ?a_RArray, ?a_RJuxt, ?a_RMeth, ?a_RGlue, ?a_RCall,
            ?a_RMatchIdx, ?a_SLet_tuple; cbn [atoms atoms_stmt flat_map map app]).

(* ---------------------------------------------------------------------------------------------- *)
(** * A small Permutation solver for concatenations *)

Ltac norm_cons :=
  repeat match goal with
         | |- context [?x :: ?l] => lazymatch l with [] => fail | _ => change (x :: l) with ([x] ++ l) end
         end.
Ltac perm_norm := cbn [app]; norm_cons; rewrite <- ?app_assoc; rewrite ?app_nil_r.
Ltac perm_rot := eapply Permutation_trans; [|apply Permutation_app_comm]; rewrite <- ?app_assoc.
Ltac perm_head n :=
  first [ apply Permutation_refl
        | apply Permutation_app_head
        | lazymatch n with S ?m => perm_rot; perm_head m end ].
Ltac perm := perm_norm; let n := constr:(12%nat) in repeat (perm_head n).

Lemma perm_test (a b c : list nat) x : Permutation (a ++ x :: b ++ c) (c ++ [x] ++ [] ++ b ++ a).
Proof. perm. Qed.

Lemma flat_map_nil {A B} (f : A -> list B) l : (forall x, In x l -> f x = []) -> flat_map f l = [].
Proof. induction l as [|x r IH]; intros H; cbn [flat_map]; [reflexivity|]. rewrite H, IH; auto; [intros; apply H; now right|now left]. Qed.

Lemma flat_map_app_perm {A B} (g h : A -> list B) l :
  Permutation (flat_map (fun x => g x ++ h x) l) (flat_map g l ++ flat_map h l).
Proof.
  induction l as [|x r IH]; cbn [flat_map]; [constructor|].
  eapply Permutation_trans; [apply Permutation_app_head, IH|]. perm.
Qed.

Lemma flat_map_perm_ext {A B} (f g : A -> list B) l :
  (forall x, In x l -> Permutation (f x) (g x)) -> Permutation (flat_map f l) (flat_map g l).
Proof.
  induction l as [|x r IH]; intros H; cbn [flat_map]; [constructor|].
  apply Permutation_app; [apply H; now left|apply IH; intros; apply H; now right].
Qed.

(* ---------------------------------------------------------------------------------------------- *)
(** * What each member of a chain contributes *)

Definition tag_expr (b e : nat) (io : nat * operand) : uatom :=
  if is_block (snd io) then UBound (n_ew b e (fst io)) (snd io) else UExpr (snd io).

(* member a, at position e of its step, in branch b *)
Definition action_atoms (b e : nat) (a : action) : list uatom :=
  match a_mv a with
  | NoMove =>
      match a_comb a with
      | Dot => map UDot (a_ops a)
      | Collect | Unzip => map UType (a_ops a)
      | c => if has_inner_exprs c then map (tag_expr b e) (enum_from 0 (a_ops a)) else []
      end
  | Wrap | Unwrap => []        (* `>>>`: the placeholder closure is replaced by the generated one; `<<<`: no operand *)
  end.
Definition step_atoms (b e : nat) (acts : list action) : list uatom :=
  flat_map (fun ea => action_atoms b (fst ea) (snd ea)) (enum_from e acts).

(* ---- hoisting ---- *)
Definition hoisted_atoms (b e : nat) (ia : nat * rexpr) : list uatom :=
  match snd ia with
  | RUser o => [tag_expr b e (fst ia, o)]
  | a => atoms a
  end.

Lemma hoist_atoms b e args : forall i ds rs,
  hoist b e i args = (ds, rs) ->
  Permutation (A_ss ds ++ A_es rs) (flat_map (hoisted_atoms b e) (enum_from i args)).
Proof.
  induction args as [|a r IH]; intros i ds rs H; cbn [hoist] in H.
  - inversion H; subst. constructor.
  - destruct (hoist b e (S i) r) as [ds' rs'] eqn:E. specialize (IH _ _ _ E).
    cbn [enum_from flat_map]. unfold hoisted_atoms at 1. cbn [fst snd]. unfold tag_expr. cbn [fst snd].
    destruct a; cbn [arg_is_block] in H;
      try (inversion H; subst; cbn [flat_map];
           eapply Permutation_trans; [|apply Permutation_app_head, IH]; perm).
    destruct (is_block o); inversion H; subst; cbn [flat_map atoms_stmt atoms].
    + eapply Permutation_trans; [|apply Permutation_app_head, IH]. perm.
    + eapply Permutation_trans; [|apply Permutation_app_head, IH]. perm.
Qed.

(* exactly one `let __ewB_E_I = {block};` per block operand, holding the block, and the operand replaced by the
   binding - everything else untouched *)
Theorem hoist_spec b e args : forall i,
  hoist b e i args =
  (map (fun ia => SLet (PIdent (n_ew b e (fst ia))) (snd ia))
       (filter (fun ia => arg_is_block (snd ia)) (enum_from i args)),
   map (fun ia => if arg_is_block (snd ia) then RVar (n_ew b e (fst ia)) else snd ia) (enum_from i args)).
Proof.
  induction args as [|a r IH]; intros i; cbn [hoist enum_from filter map]; [reflexivity|].
  rewrite IH. cbn [snd fst]. destruct (arg_is_block a); reflexivity.
Qed.

Lemma enum_from_map {A B} (f : A -> B) l : forall i, enum_from i (map f l) = map (fun ix => (fst ix, f (snd ix))) (enum_from i l).
Proof. induction l as [|x r IH]; intros i; cbn [map enum_from]; [reflexivity|]. now rewrite IH. Qed.

Lemma hoisted_user b e ops : forall i,
  flat_map (hoisted_atoms b e) (enum_from i (map RUser ops)) = map (tag_expr b e) (enum_from i ops).
Proof.
  induction ops as [|o r IH]; intros i; cbn [map enum_from flat_map]; [reflexivity|].
  rewrite IH. reflexivity.
Qed.

(* ---- expand ---- *)
Definition expand_expected (c : comb) (prev : rexpr) (args : list rexpr) (ops : list operand) : list uatom :=
  match c with
  | Initial => A_es args
  | Dot => atoms prev ++ map UDot ops
  | Collect | Unzip => atoms prev ++ map UType ops
  | Flatten | Enumerate | UNWRAP => atoms prev
  | _ => atoms prev ++ A_es args
  end.

Lemma expand_atoms cfg prev c args ops r :
  expand cfg prev c args ops = Ok r -> Permutation (atoms r) (expand_expected c prev args ops).
Proof.
  unfold expand, meth1, expand_expected.
  destruct c;
    try (destruct args as [|f [|g [|h l]]]; intros H; inversion H; subst; asimp; perm; fail);
    try (destruct ops as [|o [|o' l]]; intros H; inversion H; subst; asimp; perm; fail);
    try (intros H; inversion H; subst; asimp; perm; fail).
  - (* Inspect *) destruct args as [|f [|g l]]; intros H; inversion H; subst.
    destruct (is_async cfg); asimp; perm.
Qed.
