(* GenPropsC - C10 `operands_occur_once`: the user-written token lists that occur in the expansion are, as a
   multiset, exactly the user's operands of the input - nothing dropped, nothing duplicated.
   The census `atoms` tags every occurrence with HOW it occurs:
     UExpr o     an expression operand spliced in place (`RUser o`)
     UBound x o  an expression operand bound by `let x = o;` (hoisted block operands: x = __ewB_E_I; handler: x = __h)
     UType o     a type operand in a turbofish (`=>[T]`, `<-> A, B, C, D`)
     UDot o      the member tokens of `..` / `>.`
   Main theorem `atoms_exact` (under wf_parsed): Permutation (atoms e) (input_atoms inp).  *)
From Coq Require Import Lia Permutation.
From Join Require Import Tok Names Ast Ir Gen GenPropsBase GenPropsB GenPropsA.

(* ---------------------------------------------------------------------------------------------- *)
(** * The census of user tokens *)

Inductive uatom :=
| UExpr (o : operand)
| UBound (x : string) (o : operand)
| UType (o : operand)
| UDot (o : operand).

Fixpoint atoms (e : rexpr) : list uatom :=
  let es := fix go (l : list rexpr) : list uatom :=
              match l with [] => [] | x :: r => atoms x ++ go r end in
  let ss := fix go (l : list rstmt) : list uatom :=
              match l with [] => [] | s :: r => atoms_stmt s ++ go r end in
  match e with
  | RUser o => [UExpr o]
  | RVar _ | RUsize _ | RBool _ | RUnreachable | RJoinMac _ _ => []
  | RBlock s e | RAsyncMove s e => ss s ++ atoms e
  | RAwait e | RBoxPin e | RField e _ | RClosure _ e | RClosureMove _ e | RClosureIgn e | RMoveThunk e
  | RNot e | RRef e | ROk e => atoms e
  | RTuple l | RArray l | RJuxt l => es l
  | RMeth r _ tf args => atoms r ++ match tf with Some tys => map UType tys | None => [] end ++ es args
  | RGlue r _ args => atoms r ++ es args
  | RDot r o => atoms r ++ [UDot o]
  | RCall f args => atoms f ++ es args
  | RThenCall o arg => atoms o ++ atoms arg
  | RIfLetSome _ s t e => atoms s ++ atoms t ++ atoms e
  | RMatchIdx s arms =>
      atoms s ++ (fix go (l : list (nat * rexpr)) : list uatom :=
                    match l with [] => [] | ix :: r => atoms (snd ix) ++ go r end) arms
  | RMatchOk s _ a => atoms s ++ atoms a
  end
with atoms_stmt (s : rstmt) : list uatom :=
  match s with
  | SLet p e => match p, e with
                | PIdent x, RUser o => [UBound x o]
                | _, _ => atoms e
                end
  | SExpr e => atoms e
  | SFn _ _ _ body => atoms body
  | STbFn | SSpawnTokioFn _ | SUseFutures _ => []
  end.

Notation A_es := (flat_map atoms).
Notation A_ss := (flat_map atoms_stmt).

Lemma at_list l :
  (fix go (l : list rexpr) : list uatom := match l with [] => [] | x :: r => atoms x ++ go r end) l = A_es l.
Proof. induction l as [|x r IH]; [reflexivity|]. cbn [flat_map]. now rewrite IH. Qed.
Lemma at_stmts l :
  (fix go (l : list rstmt) : list uatom := match l with [] => [] | s :: r => atoms_stmt s ++ go r end) l = A_ss l.
Proof. induction l as [|x r IH]; [reflexivity|]. cbn [flat_map]. now rewrite IH. Qed.
Lemma at_arms l :
  (fix go (l : list (nat * rexpr)) : list uatom := match l with [] => [] | ix :: r => atoms (snd ix) ++ go r end) l
  = flat_map (fun ix => atoms (snd ix)) l.
Proof. induction l as [|x r IH]; [reflexivity|]. cbn [flat_map]. now rewrite IH. Qed.

Lemma a_RBlock ss e : atoms (RBlock ss e) = A_ss ss ++ atoms e.
Proof. cbn [atoms]. now rewrite at_stmts. Qed.
Lemma a_RAsyncMove ss e : atoms (RAsyncMove ss e) = A_ss ss ++ atoms e.
Proof. cbn [atoms]. now rewrite at_stmts. Qed.
Lemma a_RTuple l : atoms (RTuple l) = A_es l.
Proof. cbn [atoms]. now rewrite at_list. Qed.
Lemma a_RArray l : atoms (RArray l) = A_es l.
Proof. cbn [atoms]. now rewrite at_list. Qed.
Lemma a_RJuxt l : atoms (RJuxt l) = A_es l.
Proof. cbn [atoms]. now rewrite at_list. Qed.
Lemma a_RMeth r m tf args :
  atoms (RMeth r m tf args) = atoms r ++ match tf with Some tys => map UType tys | None => [] end ++ A_es args.
Proof. cbn [atoms]. now rewrite at_list. Qed.
Lemma a_RGlue r m args : atoms (RGlue r m args) = atoms r ++ A_es args.
Proof. cbn [atoms]. now rewrite at_list. Qed.
Lemma a_RCall f args : atoms (RCall f args) = atoms f ++ A_es args.
Proof. cbn [atoms]. now rewrite at_list. Qed.
Lemma a_RMatchIdx s arms : atoms (RMatchIdx s arms) = atoms s ++ flat_map (fun ix => atoms (snd ix)) arms.
Proof. cbn [atoms]. now rewrite at_arms. Qed.

(* a `let` whose right-hand side is not a bare user expression contributes the atoms of that side *)
Definition not_user (e : rexpr) : Prop := match e with RUser _ => False | _ => True end.
Lemma a_SLet p e : not_user e -> atoms_stmt (SLet p e) = atoms e.
Proof. destruct p, e; cbn; tauto. Qed.
Lemma a_SLet_tuple ps e : atoms_stmt (SLet (PTuple ps) e) = atoms e.
Proof. destruct e; reflexivity. Qed.

Ltac asimp :=
  repeat (rewrite ?a_RBlock, ?a_RAsyncMove, ?a_RTuple, ?a_RArray, ?a_RJuxt, ?a_RMeth, ?a_RGlue, ?a_RCall,
            ?a_RMatchIdx, ?a_SLet_tuple; cbn [atoms atoms_stmt flat_map map app]; rewrite ?at_list, ?at_stmts, ?at_arms).

(* ---------------------------------------------------------------------------------------------- *)
(** * A small Permutation solver for concatenations *)

Ltac norm_cons :=
  repeat match goal with
         | |- context [?x :: ?l] => lazymatch l with [] => fail | _ => change (x :: l) with ([x] ++ l) end
         end.
Ltac perm_norm := cbn [app]; norm_cons; rewrite <- ?app_assoc; rewrite ?app_nil_r.
Ltac perm_rot := eapply Permutation_trans; [|apply Permutation_app_comm]; rewrite <- ?app_assoc.
Ltac perm_head n :=
  first [ apply Permutation_refl
        | apply Permutation_app_head
        | lazymatch n with S ?m => perm_rot; perm_head m end ].
Ltac perm := perm_norm; let n := constr:(12%nat) in repeat (perm_head n).

Lemma perm_test (a b c : list nat) x : Permutation (a ++ x :: b ++ c) (c ++ [x] ++ [] ++ b ++ a).
Proof. perm. Qed.

Lemma flat_map_nil {A B} (f : A -> list B) l : (forall x, In x l -> f x = []) -> flat_map f l = [].
Proof. induction l as [|x r IH]; intros H; cbn [flat_map]; [reflexivity|]. rewrite H, IH; auto; [intros; apply H; now right|now left]. Qed.

Lemma flat_map_app_perm {A B} (g h : A -> list B) l :
  Permutation (flat_map (fun x => g x ++ h x) l) (flat_map g l ++ flat_map h l).
Proof.
  induction l as [|x r IH]; cbn [flat_map]; [constructor|].
  eapply Permutation_trans; [apply Permutation_app_head, IH|]. perm.
Qed.

Lemma flat_map_perm_ext {A B} (f g : A -> list B) l :
  (forall x, In x l -> Permutation (f x) (g x)) -> Permutation (flat_map f l) (flat_map g l).
Proof.
  induction l as [|x r IH]; intros H; cbn [flat_map]; [constructor|].
  apply Permutation_app; [apply H; now left|apply IH; intros; apply H; now right].
Qed.

(* ---------------------------------------------------------------------------------------------- *)
(** * What each member of a chain contributes *)

Definition tag_expr (b e : nat) (io : nat * operand) : uatom :=
  if is_block (snd io) then UBound (n_ew b e (fst io)) (snd io) else UExpr (snd io).

(* member a, at position e of its step, in branch b *)
Definition action_atoms (b e : nat) (a : action) : list uatom :=
  match a_mv a with
  | NoMove =>
      match a_comb a with
      | Dot => map UDot (a_ops a)
      | Collect | Unzip => map UType (a_ops a)
      | c => if has_inner_exprs c then map (tag_expr b e) (enum_from 0 (a_ops a)) else []
      end
  | Wrap | Unwrap => []        (* `>>>`: the placeholder closure is replaced by the generated one; `<<<`: no operand *)
  end.
Definition step_atoms (b e : nat) (acts : list action) : list uatom :=
  flat_map (fun ea => action_atoms b (fst ea) (snd ea)) (enum_from e acts).

(* ---- hoisting ---- *)
Definition hoisted_atoms (b e : nat) (ia : nat * rexpr) : list uatom :=
  match snd ia with
  | RUser o => [tag_expr b e (fst ia, o)]
  | a => atoms a
  end.

Lemma hoist_atoms b e args : forall i ds rs,
  hoist b e i args = (ds, rs) ->
  Permutation (A_ss ds ++ A_es rs) (flat_map (hoisted_atoms b e) (enum_from i args)).
Proof.
  induction args as [|a r IH]; intros i ds rs H; cbn [hoist] in H.
  - inversion H; subst. constructor.
  - destruct (hoist b e (S i) r) as [ds' rs'] eqn:E. specialize (IH _ _ _ E).
    cbn [enum_from flat_map]. unfold hoisted_atoms at 1. cbn [fst snd]. unfold tag_expr. cbn [fst snd].
    destruct a; cbn [arg_is_block] in H;
      try solve [inversion H; subst; cbn [flat_map];
                 eapply Permutation_trans; [|apply Permutation_app_head, IH]; perm].
    destruct (is_block o); inversion H; subst; cbn [flat_map atoms_stmt atoms].
    + eapply Permutation_trans; [|apply Permutation_app_head, IH]. perm.
    + eapply Permutation_trans; [|apply Permutation_app_head, IH]. perm.
Qed.

(* exactly one `let __ewB_E_I = {block};` per block operand, holding the block, and the operand replaced by the
   binding - everything else untouched *)
Theorem hoist_spec b e args : forall i,
  hoist b e i args =
  (map (fun ia => SLet (PIdent (n_ew b e (fst ia))) (snd ia))
       (filter (fun ia => arg_is_block (snd ia)) (enum_from i args)),
   map (fun ia => if arg_is_block (snd ia) then RVar (n_ew b e (fst ia)) else snd ia) (enum_from i args)).
Proof.
  induction args as [|a r IH]; intros i; cbn [hoist enum_from filter map]; [reflexivity|].
  rewrite IH. cbn [snd fst]. destruct (arg_is_block a); reflexivity.
Qed.

Lemma enum_from_map {A B} (f : A -> B) l : forall i, enum_from i (map f l) = map (fun ix => (fst ix, f (snd ix))) (enum_from i l).
Proof. induction l as [|x r IH]; intros i; cbn [map enum_from]; [reflexivity|]. now rewrite IH. Qed.

Lemma hoisted_user b e ops : forall i,
  flat_map (hoisted_atoms b e) (enum_from i (map RUser ops)) = map (tag_expr b e) (enum_from i ops).
Proof.
  induction ops as [|o r IH]; intros i; cbn [map enum_from flat_map]; [reflexivity|].
  rewrite IH. reflexivity.
Qed.

(* ---- expand ---- *)
Definition expand_expected (c : comb) (prev : rexpr) (args : list rexpr) (ops : list operand) : list uatom :=
  match c with
  | Initial => A_es args
  | Dot => atoms prev ++ map UDot ops
  | Collect | Unzip => atoms prev ++ map UType ops
  | Flatten | Enumerate | UNWRAP => atoms prev
  | _ => atoms prev ++ A_es args
  end.

Lemma expand_atoms cfg prev c args ops r :
  expand cfg prev c args ops = Ok r -> Permutation (atoms r) (expand_expected c prev args ops).
Proof.
  unfold expand, meth1, expand_expected.
  destruct c;
    try (destruct args as [|f [|g [|h l]]]; intros H; inversion H; subst; asimp; perm; fail);
    try (destruct ops as [|o [|o' l]]; intros H; inversion H; subst; asimp; perm; fail);
    try (intros H; inversion H; subst; asimp; perm; fail).
  - (* Inspect *) destruct args as [|f [|g l]]; intros H; inversion H; subst.
    destruct (is_async cfg); asimp; perm.
Qed.

(* ---- one NoMove member: gen_def_and_step ---- *)
Definition ops_atoms (c : comb) (ops : list operand) : list uatom :=
  match c with Dot => map UDot ops | Collect | Unzip => map UType ops | _ => [] end.

Lemma action_atoms_hoistable b e x :
  a_mv x = NoMove -> is_replaceable (a_comb x) && has_inner_exprs (a_comb x) = true ->
  has_inner_exprs (a_comb x) = true /\
  action_atoms b e x = map (tag_expr b e) (enum_from 0 (a_ops x)) /\
  forall prev rs ops, expand_expected (a_comb x) prev rs ops =
                      (if comb_eqb (a_comb x) Initial then [] else atoms prev) ++ A_es rs.
Proof.
  intros Hm Hf. unfold action_atoms. rewrite Hm.
  destruct (a_comb x); cbn in *; try discriminate; repeat split; reflexivity.
Qed.

Lemma action_atoms_plain b e x :
  a_mv x = NoMove -> act_okb x = true ->
  is_replaceable (a_comb x) && has_inner_exprs (a_comb x) = false ->
  comb_eqb (a_comb x) Initial = false /\
  action_atoms b e x = ops_atoms (a_comb x) (a_ops x) /\
  forall prev args, expand_expected (a_comb x) prev args (a_ops x) = atoms prev ++ ops_atoms (a_comb x) (a_ops x).
Proof.
  intros Hm Hok Hf. unfold action_atoms, act_okb, mv_okb in *. rewrite Hm in *.
  apply andb_true_iff in Hok as [_ Hok].
  destruct (a_comb x); cbn in *; try discriminate; repeat split; intros; rewrite ?app_nil_r; reflexivity.
Qed.

Lemma gen_def_and_step_atoms cfg defs prev x b e ds' s :
  act_okb x = true -> a_mv x = NoMove ->
  gen_def_and_step cfg defs prev (mk_pos x b e) = Ok (ds', s) ->
  exists ds, ds' = defs ++ ds /\
    Permutation (A_ss ds ++ atoms s)
                ((if comb_eqb (a_comb x) Initial then [] else atoms prev) ++ action_atoms b e x).
Proof.
  intros Hok Hm H. pose proof (act_ok_pos_ok x b e Hok Hm) as Hp.
  unfold gen_def_and_step in H. rewrite (separate_block_expr_spec _ Hp) in H.
  unfold mk_pos in H; cbn [p_comb p_args p_ops p_branch p_expr] in H.
  destruct (is_replaceable (a_comb x) && has_inner_exprs (a_comb x)) eqn:Ef.
  - destruct (action_atoms_hoistable b e x Hm Ef) as (Hin & Hact & Hexp). rewrite Hin in H.
    destruct (hoist b e 0 (map RUser (a_ops x))) as [ds rs] eqn:Eh.
    inv_bind H. inversion H; subst. exists ds. split; [reflexivity|].
    pose proof (hoist_atoms _ _ _ _ _ _ Eh) as Hh. rewrite hoisted_user in Hh.
    pose proof (expand_atoms _ _ _ _ _ _ E) as He. rewrite Hexp in He. rewrite Hact.
    eapply Permutation_trans; [apply Permutation_app_head, He|].
    eapply Permutation_trans; [|apply Permutation_app_head, Hh]. perm.
  - destruct (action_atoms_plain b e x Hm Hok Ef) as (Hni & Hact & Hexp). rewrite Hni, Hact.
    inv_bind H. inversion H; subst. exists []. split; [reflexivity|]. cbn [flat_map app].
    pose proof (expand_atoms _ _ _ _ _ _ E) as He. rewrite Hexp in He. exact He.
Qed.

(* the wrapper closure, in either form (`|__v| e` / `move |__v| e`), holds exactly the atoms of its body *)
Lemma atoms_wrapper_closure cfg e : atoms (wrapper_closure cfg e) = atoms e.
Proof. unfold wrapper_closure. destruct (is_async cfg && is_spawn cfg); reflexivity. Qed.

(* a wrapper combinator receiving its closure *)
Lemma wrapper_step_atoms cfg defs cur w prev ds' s :
  can_be_wrapper (p_comb w) = true ->
  gen_def_and_step cfg defs cur (set_args w [wrapper_closure cfg prev]) = Ok (ds', s) ->
  ds' = defs /\ Permutation (atoms s) (atoms cur ++ atoms prev).
Proof.
  intros Hc H. unfold gen_def_and_step in H.
  rewrite (separate_block_expr_spec _ (can_be_wrapper_pos_ok w _ Hc)) in H.
  unfold set_args in H; cbn [p_comb p_args p_ops p_branch p_expr] in H.
  assert (Hh : (if is_replaceable (p_comb w) && has_inner_exprs (p_comb w)
                then hoist (p_branch w) (p_expr w) 0 [wrapper_closure cfg prev] else ([], [wrapper_closure cfg prev]))
               = ([], [wrapper_closure cfg prev])).
  { unfold wrapper_closure.
    destruct (is_replaceable (p_comb w) && has_inner_exprs (p_comb w)), (is_async cfg && is_spawn cfg); reflexivity. }
  rewrite Hh in H. inv_bind H. inversion H; subst. split; [apply app_nil_r|].
  pose proof (expand_atoms _ _ _ _ _ _ E) as He.
  eapply Permutation_trans; [exact He|].
  destruct (p_comb w); cbn in Hc; try discriminate; cbn [expand_expected flat_map]; rewrite atoms_wrapper_closure, app_nil_r; reflexivity.
Qed.

(* ---------------------------------------------------------------------------------------------- *)
(** * The wrapper stack machine neither drops nor duplicates *)

Definition stk_atoms (stk : list (rexpr * option pos)) : list uatom := flat_map (fun x => atoms (fst x)) stk.
Definition acc_atoms (a : acc) : list uatom := A_ss (a_defs a) ++ stk_atoms (a_stk a).

Lemma A_ss_app l l' : A_ss (l ++ l') = A_ss l ++ A_ss l'.
Proof. apply flat_map_app. Qed.

Lemma wrap_last_atoms cfg a a' d :
  stk_inv (S d) a -> wrap_last cfg a = Ok a' ->
  Permutation (acc_atoms a') (acc_atoms a) /\ stk_inv d a'.
Proof.
  intros Hi H. split.
  - destruct Hi as ([prev w0] & rest & Hs & Hl & Hf). unfold wrap_last in H. rewrite Hs in H.
    destruct rest as [|[cur ow] rest']; [discriminate|].
    inversion Hf as [|? ? (w & Hw & Hc) Hf']; subst. cbn [snd] in Hw. subst ow.
    rewrite (can_be_wrapper_replace _ _ Hc) in H. inv_bind H. destruct x as [ds' s]. inversion H; subst.
    destruct (wrapper_step_atoms _ _ _ _ _ _ _ Hc E) as [-> Hp].
    unfold acc_atoms. cbn [a_defs a_stk fst snd]. rewrite Hs. unfold stk_atoms. cbn [flat_map fst].
    apply Permutation_app_head.
    eapply Permutation_trans; [apply Permutation_app_tail, Hp|]. perm.
  - destruct (wrap_last_total cfg a d Hi) as (a'' & E & Hi'). congruence.
Qed.

Definition next_depth (m : mv) (d : nat) : nat := match m with Wrap => S d | Unwrap => pred d | NoMove => d end.

Lemma process_action_atoms cfg x b e a a' d :
  stk_inv d a -> act_okb x = true ->
  (a_mv x = Unwrap -> 0 < d) ->
  (a_comb x = Initial -> exists prev w rest, a_stk a = (prev, w) :: rest /\ atoms prev = []) ->
  process_action cfg (mk_pos x b e) (a_mv x) a = Ok a' ->
  Permutation (acc_atoms a') (acc_atoms a ++ action_atoms b e x) /\ stk_inv (next_depth (a_mv x) d) a'.
Proof.
  intros Hi Hok Hu Hini H.
  assert (Hinv : stk_inv (next_depth (a_mv x) d) a').
  { pose proof Hok as Hok'. unfold act_okb, mv_okb in Hok'. apply andb_true_iff in Hok' as [_ Hm].
    destruct (process_action_total cfg (mk_pos x b e) (a_mv x) a d Hi) as (a'' & E & Hi').
    - destruct (a_mv x) eqn:Em; [exact Hm|apply Hu; reflexivity|apply act_ok_pos_ok; assumption].
    - rewrite H in E. inversion E; subst a''. exact Hi'. }
  split; [|exact Hinv].
  unfold process_action in H. destruct (a_mv x) eqn:Em.
  - (* Wrap *) assert (Hnil : action_atoms b e x = []) by (unfold action_atoms; rewrite Em; reflexivity).
    rewrite Hnil, app_nil_r.
    destruct (a_stk a) as [|[s w] rest] eqn:Es; [discriminate|]. inversion H; subst.
    unfold acc_atoms, stk_atoms. cbn [a_defs a_stk flat_map fst atoms]. rewrite Es. cbn [flat_map fst app].
    reflexivity.
  - (* Unwrap *) assert (Hnil : action_atoms b e x = []) by (unfold action_atoms; rewrite Em; reflexivity).
    rewrite Hnil, app_nil_r.
    destruct d as [|d']; [specialize (Hu eq_refl); lia|].
    eapply wrap_last_atoms; eauto.
  - (* NoMove *) destruct (a_stk a) as [|[prev w] rest] eqn:Es; [discriminate|].
    inv_bind H. destruct x0 as [ds' s]. inversion H; subst.
    destruct (gen_def_and_step_atoms _ _ _ _ _ _ _ _ Hok Em E) as (ds & -> & Hp).
    unfold acc_atoms, stk_atoms. cbn [a_defs a_stk fst snd flat_map]. rewrite Es. cbn [flat_map fst].
    rewrite A_ss_app.
    assert (Hprev : Permutation ((if comb_eqb (a_comb x) Initial then [] else atoms prev)) (atoms prev)).
    { destruct (comb_eqb (a_comb x) Initial) eqn:Ec; [|reflexivity]. apply comb_eqb_iff in Ec.
      destruct (Hini Ec) as (p' & w' & r' & Heq & Hnil). inversion Heq; subst. rewrite Hnil. constructor. }
    pose proof (Permutation_trans Hp (Permutation_app_tail (action_atoms b e x) Hprev)) as Hp'.
    set (R := flat_map (fun x0 : rexpr * option pos => atoms (fst x0)) rest).
    apply Permutation_trans with (A_ss (a_defs a) ++ (A_ss ds ++ atoms s) ++ R); [perm|].
    eapply Permutation_trans; [apply Permutation_app_head, Permutation_app_tail, Hp'|]. perm.
Qed.

Lemma process_actions_atoms cfg b acts : forall e d a a',
  stk_inv d a -> Forall (fun x => act_okb x = true) acts -> balancedb d acts = true ->
  Forall (fun x => a_comb x <> Initial) acts ->
  process_actions cfg b e acts a = Ok a' ->
  Permutation (acc_atoms a') (acc_atoms a ++ step_atoms b e acts) /\ exists d', stk_inv d' a'.
Proof.
  induction acts as [|x r IH]; intros e d a a' Hi Hok Hb Hni H; cbn [process_actions] in H.
  - inversion H; subst. unfold step_atoms. cbn. rewrite app_nil_r. split; [reflexivity|eauto].
  - inversion Hok as [|? ? Hx Hr]; subst. inversion Hni as [|? ? Hxi Hri]; subst. inv_bind H.
    cbn [balancedb] in Hb.
    destruct (process_action_atoms cfg x b e a x0 d Hi Hx) as [Hp Hinv]; auto.
    { intros Hm. rewrite Hm in Hb. destruct d; [discriminate|lia]. }
    { intros Hc. congruence. }
    destruct (IH (S e) (next_depth (a_mv x) d) x0 a' Hinv Hr) as [Hp' Hd']; auto.
    { unfold next_depth. destruct (a_mv x); auto. destruct d; [discriminate|exact Hb]. }
    split; [|exact Hd'].
    unfold step_atoms in *. cbn [enum_from flat_map fst snd].
    eapply Permutation_trans; [exact Hp'|].
    eapply Permutation_trans; [apply Permutation_app_tail, Hp|]. perm.
Qed.

Lemma close_all_atoms cfg : forall fuel a d ds s,
  stk_inv d a -> close_all fuel cfg a = Ok (ds, s) -> Permutation (A_ss ds ++ atoms s) (acc_atoms a).
Proof.
  induction fuel as [|fuel IH]; intros a d ds s Hi H; cbn [close_all] in H;
    pose proof Hi as ([s0 w0] & rest & Hs & Hl & Hf); rewrite Hs in H.
  - destruct rest as [|y r]; [|discriminate]. inversion H; subst.
    unfold acc_atoms, stk_atoms. rewrite Hs. cbn [flat_map fst]. rewrite app_nil_r. reflexivity.
  - destruct rest as [|y r].
    + inversion H; subst. unfold acc_atoms, stk_atoms. rewrite Hs. cbn [flat_map fst]. rewrite app_nil_r. reflexivity.
    + inv_bind H. cbn [List.length] in Hl. destruct d as [|d']; [lia|].
      destruct (wrap_last_atoms cfg a x d' Hi E) as [Hp Hi'].
      eapply Permutation_trans; [eapply IH; eauto|exact Hp].
Qed.

(* one step of one branch: every operand of its members, tagged, exactly once *)
Definition step_wf (acts : list action) : Prop :=
  Forall (fun x => act_okb x = true) acts /\ balancedb 0 acts = true /\
  Forall (fun x => a_comb x <> Initial) (tl acts).

Lemma wrap_into_block_atoms j x : atoms (wrap_into_block j (RVar x)) = [].
Proof. unfold wrap_into_block. destruct (is_async (j_cfg j)); reflexivity. Qed.

Theorem gen_branch_step_atoms j b prev acts ds s :
  step_wf acts -> gen_branch_step j b prev acts = Ok (ds, s) ->
  Permutation (A_ss ds ++ atoms s) (step_atoms b 0 acts).
Proof.
  intros (Hok & Hb & Hni) H. unfold gen_branch_step in H. inv_bind H.
  set (a0 := {| a_defs := []; a_stk := [(wrap_into_block j (RVar prev), None)] |}) in *.
  assert (Hi0 : stk_inv 0 a0).
  { eexists _, _. cbn [a_stk a0]. split; [reflexivity|]. split; [reflexivity|constructor]. }
  assert (Ha0 : acc_atoms a0 = []).
  { unfold acc_atoms, stk_atoms, a0. cbn [a_defs a_stk flat_map fst]. rewrite wrap_into_block_atoms. reflexivity. }
  assert (Hx : Permutation (acc_atoms x) (step_atoms b 0 acts) /\ exists d', stk_inv d' x).
  { destruct acts as [|x1 r]; cbn [process_actions] in E.
    - inversion E; subst. rewrite Ha0. split; [reflexivity|eauto].
    - inv_bind E. inversion Hok as [|? ? Hx1 Hr]; subst. cbn [tl] in Hni. cbn [balancedb] in Hb.
      destruct (process_action_atoms (j_cfg j) x1 b 0 a0 x0 0 Hi0 Hx1) as [Hp Hinv]; auto.
      { intros Hm. rewrite Hm in Hb. discriminate. }
      { intros _. eexists _, _, _. split; [reflexivity|apply wrap_into_block_atoms]. }
      destruct (process_actions_atoms (j_cfg j) b r 1 (next_depth (a_mv x1) 0) x0 x Hinv Hr) as [Hp' Hd']; auto.
      { unfold next_depth. destruct (a_mv x1); auto. discriminate. }
      split; [|exact Hd']. unfold step_atoms in *. cbn [enum_from flat_map fst snd].
      eapply Permutation_trans; [exact Hp'|]. rewrite Ha0 in Hp. cbn [app] in Hp.
      apply Permutation_app_tail. exact Hp. }
  destruct Hx as [Hp (d' & Hi')].
  eapply Permutation_trans; [eapply close_all_atoms; eauto|exact Hp].
Qed.

(* ---------------------------------------------------------------------------------------------- *)
(** * Steps *)

Lemma A_es_map_nil {A} (f : A -> rexpr) l : (forall x, atoms (f x) = []) -> A_es (map f l) = [].
Proof. intros H. induction l as [|x r IH]; cbn [map flat_map]; [reflexivity|]. now rewrite H, IH. Qed.
Lemma A_ss_map_nil {A} (f : A -> rstmt) l : (forall x, atoms_stmt (f x) = []) -> A_ss (map f l) = [].
Proof. intros H. induction l as [|x r IH]; cbn [map flat_map]; [reflexivity|]. now rewrite H, IH. Qed.

Lemma wrap_branch_atoms j k b c : atoms (wrap_branch j k b c) = atoms c.
Proof.
  unfold wrap_branch. destruct (Nat.ltb 1 (active_count j k)); [|reflexivity].
  destruct (j_lazy j), (is_spawn (j_cfg j)), (is_async (j_cfg j)); asimp; rewrite ?app_nil_r; reflexivity.
Qed.

Lemma nth_error_nth' {A} (l : list A) k d x : nth_error l k = Some x -> nth k l d = x.
Proof. revert k. induction l as [|y r IH]; intros [|k] H; cbn in *; try discriminate; [now inversion H|auto]. Qed.
Lemma nth_error_none_nth {A} (l : list A) k d : nth_error l k = None -> nth k l d = d.
Proof. revert k. induction l as [|y r IH]; intros [|k] H; cbn in *; try discriminate; auto. Qed.

Definition chains_wf (chs : list (list (list action))) : Prop := Forall (fun ch => Forall step_wf ch) chs.

(* what the branches contribute to step k (branch indices from b) *)
Definition branches_step_atoms (k b : nat) (chs : list (list (list action))) : list uatom :=
  flat_map (fun ic => step_atoms (fst ic) 0 (nth k (snd ic) [])) (enum_from b chs).

Lemma gen_branches_atoms j k vars chs : forall b defs cs,
  chains_wf chs -> gen_branches j k vars b chs = Ok (defs, cs) ->
  Permutation (A_ss defs ++ A_es cs) (branches_step_atoms k b chs).
Proof.
  induction chs as [|ch rest IH]; intros b defs cs Hwf H; cbn [gen_branches] in H.
  - inversion H; subst. constructor.
  - inversion Hwf as [|? ? Hch Hrest]; subst. inv_bind H. destruct x as [d0 c0].
    specialize (IH _ _ _ Hrest E). unfold branches_step_atoms in *. cbn [enum_from flat_map fst snd].
    destruct (nth_error ch k) as [[|a acts]|] eqn:En.
    + inversion H; subst. rewrite (nth_error_nth' _ _ _ _ En). exact IH.
    + inv_bind H. destruct x as [ds s]. inversion H; subst. cbn [fst snd flat_map].
      rewrite (nth_error_nth' _ _ _ _ En). rewrite A_ss_app, wrap_branch_atoms.
      assert (Hs : step_wf (a :: acts)).
      { rewrite Forall_forall in Hch. apply Hch. eapply nth_error_In; eauto. }
      pose proof (gen_branch_step_atoms _ _ _ _ _ _ Hs E0) as Hp.
      apply Permutation_trans with ((A_ss ds ++ atoms s) ++ (A_ss d0 ++ A_es c0)); [perm|].
      apply Permutation_app; assumption.
    + inversion H; subst. rewrite (nth_error_none_nth _ _ _ En). exact IH.
Qed.

Definition joiner_atoms_at (j : jout) (k : nat) : list uatom :=
  if Nat.ltb 1 (active_count j k)
  then match j_joiner j with Some jt => [UExpr jt] | None => [] end
  else [].

Lemma indexed_sr_atoms j sr k i : atoms (indexed_sr j sr k i) = [].
Proof. unfold indexed_sr. destruct (Nat.ltb 1 (active_count j k)); reflexivity. Qed.

Lemma thread_builders_atoms j k sr tbs sjs :
  thread_builders j k sr = (tbs, sjs) -> A_ss tbs = [] /\ A_ss sjs = [].
Proof.
  unfold thread_builders.
  destruct (is_async (j_cfg j) || negb (is_spawn (j_cfg j)) || Nat.ltb (active_count j k) 2);
    intros H; inversion H; subst; [split; reflexivity|]. split.
  - apply A_ss_map_nil. reflexivity.
  - cbn [flat_map]. rewrite app_nil_r. rewrite a_SLet by exact I. rewrite a_RTuple.
    apply A_es_map_nil. intros ib. asimp. rewrite indexed_sr_atoms. reflexivity.
Qed.

Lemma gen_step_atoms j k vars sr stmts :
  chains_wf (j_chains j) -> gen_step j k vars sr = Ok stmts ->
  Permutation (A_ss stmts) (joiner_atoms_at j k ++ branches_step_atoms k 0 (j_chains j)).
Proof.
  intros Hwf H. unfold gen_step in H. inv_bind H. destruct x as [defs chains].
  pose proof (gen_branches_atoms _ _ _ _ _ _ _ Hwf E) as Hp. unfold joiner_atoms_at.
  destruct (is_async (j_cfg j)) eqn:Ea.
  - inversion H; subst. rewrite A_ss_app. cbn [flat_map]. rewrite app_nil_r.
    destruct (Nat.ltb 1 (active_count j k)).
    + destruct (j_joiner j) as [jt|]; rewrite a_SLet by exact I; asimp.
      * eapply Permutation_trans; [|apply (Permutation_app_head [UExpr jt]), Hp]. perm.
      * exact Hp.
    + rewrite a_SLet by exact I. cbn [atoms app].
      destruct chains as [|c [|c' l]]; rewrite ?a_RJuxt; cbn [flat_map] in *; rewrite ?app_nil_r in *; exact Hp.
  - destruct (thread_builders j k sr) as [tbs sjs] eqn:Et.
    destruct (thread_builders_atoms _ _ _ _ _ Et) as [H1 H2].
    inversion H; subst. rewrite !A_ss_app. cbn [flat_map]. rewrite H1, H2. cbn [app]. rewrite ?app_nil_r.
    destruct (Nat.ltb 1 (active_count j k)); [destruct (j_joiner j) as [jt|]|]; rewrite a_SLet by exact I; asimp.
    + eapply Permutation_trans; [|apply (Permutation_app_head [UExpr jt]), Hp]. perm.
    + exact Hp.
    + exact Hp.
Qed.

(* ---- join_steps: the glue between steps contains no user tokens ---- *)
Lemma is_succ_atoms x : atoms (is_succ x) = [].
Proof. reflexivity. Qed.
Lemma tuple_of_atoms vars : atoms (tuple_of vars) = [].
Proof. unfold tuple_of. rewrite a_RTuple. apply A_es_map_nil. reflexivity. Qed.
Lemma extract_step_atoms j sr pats k : atoms_stmt (extract_step j sr pats k) = [].
Proof. unfold extract_step. rewrite a_SLet_tuple. reflexivity. Qed.
Lemma transposer_atoms vars ret : forall t, transposer vars ret = Some t -> atoms t = atoms ret.
Proof.
  induction vars as [|x r IH]; intros t H; cbn [transposer] in H; [discriminate|].
  destruct r as [|y r'].
  - inversion H; subst. asimp. now rewrite app_nil_r.
  - destruct (transposer (y :: r') ret) as [acc|] eqn:E; [|discriminate]. inversion H; subst.
    asimp. rewrite app_nil_r. apply IH. reflexivity.
Qed.

Definition next_atoms (next : option body) : list uatom :=
  match next with Some (nss, ne) => A_ss nss ++ atoms ne | None => [] end.

Lemma join_steps_atoms j k step next pats vars sr ss e :
  (is_try (j_cfg j) = true -> Nat.ltb k (j_max j - 1) = false -> next = None) ->
  join_steps j k step next pats vars sr = Ok (ss, e) ->
  Permutation (A_ss ss ++ atoms e) (A_ss step ++ next_atoms next).
Proof.
  intros Hn. unfold join_steps, next_atoms.
  pose proof (extract_step_atoms j sr pats k) as Hx.
  destruct (is_try (j_cfg j)) eqn:Et; cbn [andb].
  - destruct (Nat.ltb k (j_max j - 1)) eqn:Ek.
    + destruct next as [[nss ne]|]; [|destruct (j_transpose j); discriminate].
      destruct (j_transpose j).
      * intros H; inversion H; subst. rewrite A_ss_app. cbn [flat_map]. rewrite Hx. asimp.
        rewrite A_es_map_nil by (intros; apply is_succ_atoms).
        rewrite (flat_map_nil (fun ix : nat * rexpr => atoms (snd ix))).
        2:{ intros ix Hix. apply in_map_iff in Hix as (nv & <- & _). reflexivity. }
        perm.
      * intros H; inversion H; subst. asimp. rewrite A_ss_app.
        assert (Hc : A_ss (if is_async (j_cfg j)
                           then [SLet (PIdent sr) (RTuple (map (fun ib => ROk (indexed_sr j sr k (fst ib)))
                                                               (enum_from 0 (active_branches j k))));
                                 extract_step j sr pats k]
                           else [extract_step j sr pats k]) = []).
        { destruct (is_async (j_cfg j)); cbn [flat_map]; rewrite Hx; [|reflexivity].
          rewrite a_SLet by exact I. rewrite a_RTuple. rewrite A_es_map_nil; [reflexivity|].
          intros ib. cbn [atoms]. apply indexed_sr_atoms. }
        rewrite Hc. perm.
    + rewrite (Hn eq_refl eq_refl). rewrite app_nil_r.
      destruct (j_transpose j); cbn [andb].
      * destruct (transposer vars (tuple_of vars)) as [t|] eqn:E; [|discriminate].
        intros H; inversion H; subst. rewrite A_ss_app. cbn [flat_map]. rewrite Hx.
        rewrite (transposer_atoms _ _ _ E), tuple_of_atoms. perm.
      * destruct (Nat.ltb 1 (j_branch_count j)).
        -- destruct (map snd (filter (fun iv => negb (is_active j k (fst iv))) (enum_from 0 vars))) as [|r0 rs].
           ++ intros H; inversion H; subst. asimp. rewrite Hx, tuple_of_atoms. perm.
           ++ destruct (transposer (r0 :: rs) (tuple_of vars)) as [t|] eqn:E; [|discriminate].
              intros H; inversion H; subst. asimp. rewrite Hx, (transposer_atoms _ _ _ E), tuple_of_atoms. perm.
        -- intros H; inversion H; subst. asimp. perm.
  - rewrite andb_false_r. destruct next as [[nss ne]|]; intros H; inversion H; subst.
    + rewrite !A_ss_app. cbn [flat_map]. rewrite Hx. perm.
    + rewrite A_ss_app. cbn [flat_map]. rewrite Hx, tuple_of_atoms. perm.
Qed.

Definition step_total_atoms (j : jout) (k : nat) : list uatom :=
  joiner_atoms_at j k ++ branches_step_atoms k 0 (j_chains j).

Lemma gen_steps_atoms j pats vars : forall n k r,
  chains_wf (j_chains j) -> k + n = j_max j ->
  gen_steps j pats vars k n = Ok r ->
  Permutation (next_atoms r) (flat_map (step_total_atoms j) (seq k n)) /\ (0 < n -> r <> None).
Proof.
  induction n as [|n IH]; intros k r Hwf Hk H; cbn [gen_steps] in H.
  - inversion H; subst. split; [constructor|lia].
  - inv_bind H. inv_bind H. inv_bind H. inversion H; subst. destruct x1 as [ss e].
    destruct (IH (S k) x Hwf) as [Hp Hne]; [lia|exact E|].
    split; [|discriminate]. cbn [next_atoms seq flat_map].
    pose proof (gen_step_atoms _ _ _ _ _ Hwf E0) as Hs.
    eapply Permutation_trans; [eapply join_steps_atoms; [|exact E1]|].
    + intros _ Hlt. apply Nat.ltb_ge in Hlt. destruct n as [|n'].
      * cbn [gen_steps] in E. now inversion E.
      * lia.
    + apply Permutation_app; assumption.
Qed.

Definition handler_atoms (h : option (hkind * operand)) : list uatom :=
  match h with Some (_, o) => [UBound n_h o] | None => [] end.

Lemma gen_handle_atoms j : atoms (gen_handle j) = [].
Proof.
  unfold gen_handle.
  assert (Hcall : atoms (RBlock [SLet (PTuple (map PIdent (map n_r (seq 0 (j_branch_count j))))) (RVar n_rs)]
                                (RCall (RVar n_h) (map RVar (map n_r (seq 0 (j_branch_count j)))))) = []).
  { asimp. apply A_es_map_nil. reflexivity. }
  assert (Hw : atoms (wrap_into_block j (RVar n_rs)) = []) by apply wrap_into_block_atoms.
  assert (Hvars : A_es (map RVar (map n_r (seq 0 (j_branch_count j)))) = []) by (apply A_es_map_nil; reflexivity).
  destruct (j_handler j) as [[[| |] h]|]; destruct (is_async (j_cfg j)); asimp; rewrite ?Hw; asimp;
    rewrite ?Hvars; reflexivity.
Qed.

Theorem gen_output_atoms j e :
  chains_wf (j_chains j) -> gen_output j = Ok e ->
  Permutation (atoms e) (handler_atoms (j_handler j) ++ flat_map (step_total_atoms j) (seq 0 (j_max j))).
Proof.
  intros Hwf H. unfold gen_output in H. inv_bind H.
  destruct (gen_steps_atoms _ _ _ _ _ _ Hwf (Nat.add_0_l _) E) as [Hp _].
  destruct x as [[sss se]|]; [|discriminate]. cbn [next_atoms] in Hp.
  assert (Htail : Permutation
            (A_ss (match j_handler j with Some (_, h) => [SLet (PIdent n_h) (RUser h)] | None => [] end
                   ++ [SLet (PIdent n_rs) (RBlock sss se)]))
            (handler_atoms (j_handler j) ++ flat_map (step_total_atoms j) (seq 0 (j_max j)))).
  { rewrite A_ss_app. cbn [flat_map]. rewrite a_SLet by exact I. rewrite a_RBlock, app_nil_r.
    apply Permutation_app; [|exact Hp]. destruct (j_handler j) as [[hk h]|]; reflexivity. }
  destruct (is_async (j_cfg j)); inversion H; subst; asimp; rewrite gen_handle_atoms, app_nil_r.
  - destruct (is_spawn (j_cfg j)); cbn [app flat_map atoms_stmt]; exact Htail.
  - destruct (is_spawn (j_cfg j)); cbn [app flat_map atoms_stmt]; exact Htail.
Qed.

(* ---------------------------------------------------------------------------------------------- *)
(** * From "per step, per branch" to "per branch, per step" *)

Lemma flat_map_map' {A B C} (f : B -> list C) (g : A -> B) l : flat_map f (map g l) = flat_map (fun x => f (g x)) l.
Proof. induction l as [|x r IH]; cbn [map flat_map]; [reflexivity|]. now rewrite IH. Qed.

Lemma flat_map_swap {A B C} (F : A -> B -> list C) ks l :
  Permutation (flat_map (fun k => flat_map (fun x => F k x) l) ks)
              (flat_map (fun x => flat_map (fun k => F k x) ks) l).
Proof.
  induction l as [|x r IH]; cbn [flat_map].
  - rewrite flat_map_nil; [constructor|reflexivity].
  - eapply Permutation_trans; [apply flat_map_app_perm|]. apply Permutation_app_head, IH.
Qed.

Lemma nth_nil {A} k (d : A) : nth k [] d = d.
Proof. destruct k; reflexivity. Qed.

Lemma flat_map_steps {B} (f : list action -> list B) (ch : list (list action)) : forall m,
  f [] = [] -> List.length ch <= m ->
  flat_map (fun k => f (nth k ch [])) (seq 0 m) = flat_map f ch.
Proof.
  induction ch as [|s r IH]; intros m Hf Hm.
  - cbn [flat_map]. apply flat_map_nil. intros k _. now rewrite nth_nil.
  - destruct m as [|m']; [cbn in Hm; lia|]. cbn [seq flat_map nth]. f_equal.
    rewrite <- seq_shift, flat_map_map'. cbn [nth]. apply IH; [exact Hf|cbn in Hm; lia].
Qed.

Lemma joiner_total j : forall ks,
  flat_map (joiner_atoms_at j) ks =
  match j_joiner j with
  | Some jt => repeat (UExpr jt) (List.length (filter (fun k => Nat.ltb 1 (active_count j k)) ks))
  | None => []
  end.
Proof.
  induction ks as [|k r IH]; cbn [flat_map filter].
  - destruct (j_joiner j); reflexivity.
  - rewrite IH. unfold joiner_atoms_at. destruct (Nat.ltb 1 (active_count j k)); destruct (j_joiner j); reflexivity.
Qed.

(* ---------------------------------------------------------------------------------------------- *)
(** * The theorem *)

Definition depths (inp : input) : list nat :=
  map (fun c : list (list action) => List.length c) (map (fun b => split_steps (b_members b)) (i_branches inp)).
(* step k is a multi-branch step: more than one branch is still active *)
Definition multi_step (inp : input) (k : nat) : bool :=
  Nat.ltb 1 (List.length (filter (fun d => Nat.ltb k d) (depths inp))).
Definition multi_steps (inp : input) : nat :=
  List.length (filter (multi_step inp) (seq 0 (list_max (depths inp)))).

Definition branch_atoms (bi : nat) (b : branch) : list uatom :=
  flat_map (step_atoms bi 0) (split_steps (b_members b)).

Definition input_atoms (inp : input) : list uatom :=
  handler_atoms (i_handler inp) ++
  match i_joiner inp with Some jt => repeat (UExpr jt) (multi_steps inp) | None => [] end ++
  flat_map (fun ib => branch_atoms (fst ib) (snd ib)) (enum_from 0 (i_branches inp)).

Lemma wf_chains_wf cfg inp : wf_parsed inp -> chains_wf (j_chains (the_jout cfg inp)).
Proof.
  intros Hwf. unfold chains_wf. cbn [the_jout j_chains]. apply Forall_forall. intros ch Hch.
  apply in_map_iff in Hch as (b & <- & Hb). unfold wf_parsed in Hwf. rewrite Forall_forall in Hwf.
  destruct (Hwf b Hb) as (m0 & rest & Heq & _ & Hd & _ & Hni & Hok & Hnest).
  apply Forall_forall. intros s Hs. split; [|split].
  - apply Forall_forall. intros x Hx. apply act_okb_iff.
    rewrite Forall_forall in Hok. apply Hok. eapply split_steps_members; eauto.
  - apply nest_some_iff_balanced. rewrite Forall_forall in Hnest. auto.
  - rewrite Heq in Hs. cbn [split_steps] in Hs. rewrite Hd in Hs.
    rewrite Forall_forall in Hni. apply Forall_forall. intros x Hx. apply Hni.
    destruct (split_steps rest) as [|g gs] eqn:Er; [exfalso; exact (split_steps_nonempty rest Er)|].
    destruct Hs as [<-|Hs].
    + cbn [tl] in Hx. apply (split_steps_members rest g x); [rewrite Er; now left|exact Hx].
    + apply (split_steps_members rest s x); [rewrite Er; now right|].
      destruct s; [destruct Hx|now right].
Qed.

Lemma steps_rearranged (chs : list (list (list action))) m b0 :
  (forall ch, In ch chs -> List.length ch <= m) ->
  Permutation (flat_map (fun k => branches_step_atoms k b0 chs) (seq 0 m))
              (flat_map (fun ic => flat_map (step_atoms (fst ic) 0) (snd ic)) (enum_from b0 chs)).
Proof.
  intros Hm. unfold branches_step_atoms.
  eapply Permutation_trans; [apply (flat_map_swap (fun k ic => step_atoms (fst ic) 0 (nth k (snd ic) [])))|].
  apply flat_map_perm_ext. intros [bi ch] Hin. cbn [fst snd].
  rewrite (flat_map_steps (step_atoms bi 0)); [reflexivity|reflexivity|].
  apply Hm. clear Hm. revert b0 Hin. induction chs as [|c r IH]; intros b0 Hin; [destruct Hin|].
  cbn [enum_from] in Hin. destruct Hin as [Heq|Hin]; [inversion Heq; now left|right; eapply IH; eauto].
Qed.

Theorem atoms_exact cfg inp e :
  wf_parsed inp -> gen cfg inp = Ok e -> Permutation (atoms e) (input_atoms inp).
Proof.
  intros Hwf H. apply gen_ok_unfold in H as [_ H].
  pose proof (gen_output_atoms _ _ (wf_chains_wf cfg inp Hwf) H) as Hp.
  eapply Permutation_trans; [exact Hp|]. unfold input_atoms. cbn [the_jout j_handler].
  apply Permutation_app_head. unfold step_total_atoms.
  eapply Permutation_trans; [apply flat_map_app_perm|]. apply Permutation_app.
  - rewrite joiner_total. cbn [the_jout j_joiner j_max]. reflexivity.
  - cbn [the_jout j_chains j_max].
    eapply Permutation_trans; [apply steps_rearranged|].
    + intros ch Hch. apply list_max_ge. apply (in_map (fun c : list (list action) => List.length c)). exact Hch.
    + rewrite enum_from_map, flat_map_map'. reflexivity.
Qed.

Print Assumptions atoms_exact.

(* ---------------------------------------------------------------------------------------------- *)
(** * Projections: the plain multisets of expression / type / member operands *)

(* the `RUser` leaves of a term, by a plain traversal *)
Fixpoint leaves (e : rexpr) : list operand :=
  let es := fix go (l : list rexpr) : list operand :=
              match l with [] => [] | x :: r => leaves x ++ go r end in
  let ss := fix go (l : list rstmt) : list operand :=
              match l with [] => [] | s :: r => leaves_stmt s ++ go r end in
  match e with
  | RUser o => [o]
  | RVar _ | RUsize _ | RBool _ | RUnreachable | RJoinMac _ _ => []
  | RBlock s e | RAsyncMove s e => ss s ++ leaves e
  | RAwait e | RBoxPin e | RField e _ | RClosure _ e | RClosureMove _ e | RClosureIgn e | RMoveThunk e
  | RNot e | RRef e | ROk e => leaves e
  | RTuple l | RArray l | RJuxt l => es l
  | RMeth r _ _ args | RGlue r _ args => leaves r ++ es args
  | RDot r _ => leaves r
  | RCall f args => leaves f ++ es args
  | RThenCall o arg => leaves o ++ leaves arg
  | RIfLetSome _ s t e => leaves s ++ leaves t ++ leaves e
  | RMatchIdx s arms =>
      leaves s ++ (fix go (l : list (nat * rexpr)) : list operand :=
                     match l with [] => [] | ix :: r => leaves (snd ix) ++ go r end) arms
  | RMatchOk s _ a => leaves s ++ leaves a
  end
with leaves_stmt (s : rstmt) : list operand :=
  match s with
  | SLet _ e | SExpr e => leaves e
  | SFn _ _ _ body => leaves body
  | STbFn | SSpawnTokioFn _ | SUseFutures _ => []
  end.

(* the type operands (turbofish fields of the user's methods) and the member-access operands *)
Fixpoint tyfields (e : rexpr) : list operand :=
  let es := fix go (l : list rexpr) : list operand :=
              match l with [] => [] | x :: r => tyfields x ++ go r end in
  let ss := fix go (l : list rstmt) : list operand :=
              match l with [] => [] | s :: r => tyfields_stmt s ++ go r end in
  match e with
  | RUser _ | RVar _ | RUsize _ | RBool _ | RUnreachable | RJoinMac _ _ => []
  | RBlock s e | RAsyncMove s e => ss s ++ tyfields e
  | RAwait e | RBoxPin e | RField e _ | RClosure _ e | RClosureMove _ e | RClosureIgn e | RMoveThunk e
  | RNot e | RRef e | ROk e => tyfields e
  | RTuple l | RArray l | RJuxt l => es l
  | RMeth r _ tf args => tyfields r ++ match tf with Some tys => tys | None => [] end ++ es args
  | RGlue r _ args => tyfields r ++ es args
  | RDot r _ => tyfields r
  | RCall f args => tyfields f ++ es args
  | RThenCall o arg => tyfields o ++ tyfields arg
  | RIfLetSome _ s t e => tyfields s ++ tyfields t ++ tyfields e
  | RMatchIdx s arms =>
      tyfields s ++ (fix go (l : list (nat * rexpr)) : list operand :=
                       match l with [] => [] | ix :: r => tyfields (snd ix) ++ go r end) arms
  | RMatchOk s _ a => tyfields s ++ tyfields a
  end
with tyfields_stmt (s : rstmt) : list operand :=
  match s with
  | SLet _ e | SExpr e => tyfields e
  | SFn _ _ _ body => tyfields body
  | STbFn | SSpawnTokioFn _ | SUseFutures _ => []
  end.

Fixpoint dotfields (e : rexpr) : list operand :=
  let es := fix go (l : list rexpr) : list operand :=
              match l with [] => [] | x :: r => dotfields x ++ go r end in
  let ss := fix go (l : list rstmt) : list operand :=
              match l with [] => [] | s :: r => dotfields_stmt s ++ go r end in
  match e with
  | RUser _ | RVar _ | RUsize _ | RBool _ | RUnreachable | RJoinMac _ _ => []
  | RBlock s e | RAsyncMove s e => ss s ++ dotfields e
  | RAwait e | RBoxPin e | RField e _ | RClosure _ e | RClosureMove _ e | RClosureIgn e | RMoveThunk e
  | RNot e | RRef e | ROk e => dotfields e
  | RTuple l | RArray l | RJuxt l => es l
  | RMeth r _ _ args | RGlue r _ args => dotfields r ++ es args
  | RDot r o => dotfields r ++ [o]
  | RCall f args => dotfields f ++ es args
  | RThenCall o arg => dotfields o ++ dotfields arg
  | RIfLetSome _ s t e => dotfields s ++ dotfields t ++ dotfields e
  | RMatchIdx s arms =>
      dotfields s ++ (fix go (l : list (nat * rexpr)) : list operand :=
                        match l with [] => [] | ix :: r => dotfields (snd ix) ++ go r end) arms
  | RMatchOk s _ a => dotfields s ++ dotfields a
  end
with dotfields_stmt (s : rstmt) : list operand :=
  match s with
  | SLet _ e | SExpr e => dotfields e
  | SFn _ _ _ body => dotfields body
  | STbFn | SSpawnTokioFn _ | SUseFutures _ => []
  end.

Definition expr_of (a : uatom) : list operand := match a with UExpr o | UBound _ o => [o] | _ => [] end.
Definition type_of (a : uatom) : list operand := match a with UType o => [o] | _ => [] end.
Definition dot_of (a : uatom) : list operand := match a with UDot o => [o] | _ => [] end.


Lemma SLet_expr_of p e : flat_map expr_of (atoms_stmt (SLet p e)) = flat_map expr_of (atoms e).
Proof. destruct p, e; reflexivity. Qed.
Lemma SLet_type_of p e : flat_map type_of (atoms_stmt (SLet p e)) = flat_map type_of (atoms e).
Proof. destruct p, e; reflexivity. Qed.
Lemma SLet_dot_of p e : flat_map dot_of (atoms_stmt (SLet p e)) = flat_map dot_of (atoms e).
Proof. destruct p, e; reflexivity. Qed.

Lemma type_of_map_UType tys : flat_map type_of (map UType tys) = tys.
Proof. induction tys as [|t r IH]; cbn; [reflexivity|]. now rewrite IH. Qed.
Lemma expr_of_map_UType tys : flat_map expr_of (map UType tys) = [].
Proof. induction tys as [|t r IH]; cbn; [reflexivity|]. exact IH. Qed.
Lemma dot_of_map_UType tys : flat_map dot_of (map UType tys) = [].
Proof. induction tys as [|t r IH]; cbn; [reflexivity|]. exact IH. Qed.

Ltac proj_list Hrec l :=
  let x := fresh "x" in let r := fresh "r" in let IH := fresh "IH" in
  induction l as [|x r IH]; cbn [flat_map]; [reflexivity|];
  rewrite ?flat_map_app; rewrite IH; rewrite (Hrec x); reflexivity.

(* the plain traversals are the projections of the census *)
Fixpoint leaves_atoms (e : rexpr) : leaves e = flat_map expr_of (atoms e)
with leaves_atoms_stmt (s : rstmt) : leaves_stmt s = flat_map expr_of (atoms_stmt s).
Proof.
  - assert (Hes : forall l, (fix go (l : list rexpr) : list operand :=
                               match l with [] => [] | x :: r => leaves x ++ go r end) l
                            = flat_map expr_of (A_es l)).
    { intros l. induction l as [|x r IH]; cbn [flat_map]; [reflexivity|].
      rewrite flat_map_app, IH, (leaves_atoms x). reflexivity. }
    assert (Hss : forall l, (fix go (l : list rstmt) : list operand :=
                               match l with [] => [] | s :: r => leaves_stmt s ++ go r end) l
                            = flat_map expr_of (A_ss l)).
    { intros l. induction l as [|x r IH]; cbn [flat_map]; [reflexivity|].
      rewrite flat_map_app, IH, (leaves_atoms_stmt x). reflexivity. }
    destruct e; cbn [leaves]; rewrite ?Hes, ?Hss;
      rewrite ?a_RBlock, ?a_RAsyncMove, ?a_RTuple, ?a_RArray, ?a_RJuxt, ?a_RMeth, ?a_RGlue, ?a_RCall;
      cbn [atoms]; rewrite ?flat_map_app; rewrite ?expr_of_map_UType; cbn [flat_map expr_of app];
      repeat match goal with |- context [leaves ?x] => rewrite (leaves_atoms x) end; try reflexivity.
    + destruct tf; rewrite ?expr_of_map_UType; reflexivity.
    + rewrite app_nil_r. reflexivity.
    + rewrite at_arms. f_equal.
      induction arms as [|ix r IH]; cbn [flat_map]; [reflexivity|].
      rewrite flat_map_app, IH, (leaves_atoms (snd ix)). reflexivity.
  - destruct s; cbn [leaves_stmt]; rewrite ?SLet_expr_of; cbn [atoms_stmt]; try apply leaves_atoms; reflexivity.
Qed.

Lemma type_of_map_UDot l : flat_map type_of (map UDot l) = [].
Proof. induction l as [|t r IH]; cbn; [reflexivity|]. exact IH. Qed.
Lemma dot_of_map_UDot l : flat_map dot_of (map UDot l) = l.
Proof. induction l as [|t r IH]; cbn; [reflexivity|]. now rewrite IH. Qed.
Lemma expr_of_map_UDot l : flat_map expr_of (map UDot l) = [].
Proof. induction l as [|t r IH]; cbn; [reflexivity|]. exact IH. Qed.

Fixpoint tyfields_atoms (e : rexpr) : tyfields e = flat_map type_of (atoms e)
with tyfields_atoms_stmt (s : rstmt) : tyfields_stmt s = flat_map type_of (atoms_stmt s).
Proof.
  - assert (Hes : forall l, (fix go (l : list rexpr) : list operand :=
                               match l with [] => [] | x :: r => tyfields x ++ go r end) l
                            = flat_map type_of (A_es l)).
    { intros l. induction l as [|x r IH]; cbn [flat_map]; [reflexivity|].
      rewrite flat_map_app, IH, (tyfields_atoms x). reflexivity. }
    assert (Hss : forall l, (fix go (l : list rstmt) : list operand :=
                               match l with [] => [] | s :: r => tyfields_stmt s ++ go r end) l
                            = flat_map type_of (A_ss l)).
    { intros l. induction l as [|x r IH]; cbn [flat_map]; [reflexivity|].
      rewrite flat_map_app, IH, (tyfields_atoms_stmt x). reflexivity. }
    destruct e; cbn [tyfields]; rewrite ?Hes, ?Hss;
      rewrite ?a_RBlock, ?a_RAsyncMove, ?a_RTuple, ?a_RArray, ?a_RJuxt, ?a_RMeth, ?a_RGlue, ?a_RCall;
      cbn [atoms]; rewrite ?flat_map_app; cbn [flat_map type_of app];
      repeat match goal with |- context [tyfields ?x] => rewrite (tyfields_atoms x) end; try reflexivity.
    + destruct tf; rewrite ?type_of_map_UType; reflexivity.
    + rewrite app_nil_r. reflexivity.
    + rewrite at_arms. f_equal.
      induction arms as [|ix r IH]; cbn [flat_map]; [reflexivity|].
      rewrite flat_map_app, IH, (tyfields_atoms (snd ix)). reflexivity.
  - destruct s; cbn [tyfields_stmt]; rewrite ?SLet_type_of; cbn [atoms_stmt]; try apply tyfields_atoms; reflexivity.
Qed.

Fixpoint dotfields_atoms (e : rexpr) : dotfields e = flat_map dot_of (atoms e)
with dotfields_atoms_stmt (s : rstmt) : dotfields_stmt s = flat_map dot_of (atoms_stmt s).
Proof.
  - assert (Hes : forall l, (fix go (l : list rexpr) : list operand :=
                               match l with [] => [] | x :: r => dotfields x ++ go r end) l
                            = flat_map dot_of (A_es l)).
    { intros l. induction l as [|x r IH]; cbn [flat_map]; [reflexivity|].
      rewrite flat_map_app, IH, (dotfields_atoms x). reflexivity. }
    assert (Hss : forall l, (fix go (l : list rstmt) : list operand :=
                               match l with [] => [] | s :: r => dotfields_stmt s ++ go r end) l
                            = flat_map dot_of (A_ss l)).
    { intros l. induction l as [|x r IH]; cbn [flat_map]; [reflexivity|].
      rewrite flat_map_app, IH, (dotfields_atoms_stmt x). reflexivity. }
    destruct e; cbn [dotfields]; rewrite ?Hes, ?Hss;
      rewrite ?a_RBlock, ?a_RAsyncMove, ?a_RTuple, ?a_RArray, ?a_RJuxt, ?a_RMeth, ?a_RGlue, ?a_RCall;
      cbn [atoms]; rewrite ?flat_map_app; rewrite ?dot_of_map_UType; cbn [flat_map dot_of app];
      repeat match goal with |- context [dotfields ?x] => rewrite (dotfields_atoms x) end; try reflexivity.
    + destruct tf; rewrite ?dot_of_map_UType; reflexivity.
    + rewrite at_arms. f_equal.
      induction arms as [|ix r IH]; cbn [flat_map]; [reflexivity|].
      rewrite flat_map_app, IH, (dotfields_atoms (snd ix)). reflexivity.
  - destruct s; cbn [dotfields_stmt]; rewrite ?SLet_dot_of; cbn [atoms_stmt]; try apply dotfields_atoms; reflexivity.
Qed.

(* ---------------------------------------------------------------------------------------------- *)
(** * C10 in plain terms *)

(* which of a member's operands are expressions / types / member tokens *)
Definition expr_operands (a : action) : list operand :=
  match a_mv a with
  | NoMove => if has_inner_exprs (a_comb a) && negb (comb_eqb (a_comb a) Dot) then a_ops a else []
  | Wrap | Unwrap => []
  end.
Definition type_operands (a : action) : list operand :=
  match a_mv a with
  | NoMove => match a_comb a with Collect | Unzip => a_ops a | _ => [] end
  | Wrap | Unwrap => []
  end.
Definition dot_operands (a : action) : list operand :=
  match a_mv a with
  | NoMove => match a_comb a with Dot => a_ops a | _ => [] end
  | Wrap | Unwrap => []
  end.

(* on parser output these are ALL operands of a member - except the generated placeholder closure `|__v| __v` that
   a `>>>` member holds, which the generator replaces by the closure it builds; a `<<<` member has no operand *)
Lemma operands_partition a :
  act_ok a -> a_mv a = NoMove -> a_ops a = expr_operands a ++ type_operands a ++ dot_operands a.
Proof.
  intros (Har & _ & Hu) Hm. unfold expr_operands, type_operands, dot_operands. rewrite Hm.
  destruct (a_comb a) eqn:Ec; cbn [has_inner_exprs comb_eqb negb andb app]; rewrite ?app_nil_r; try reflexivity;
    cbn in Har; destruct (a_ops a) as [|o l]; try reflexivity; try discriminate.
Qed.
Lemma unwrap_no_operands a : act_ok a -> a_mv a = Unwrap -> a_ops a = [].
Proof.
  intros (Har & _ & Hu) Hm. apply Hu in Hm. rewrite Hm in Har. cbn in Har.
  destruct (a_ops a); [reflexivity|discriminate].
Qed.

Lemma Permutation_flat_map' {A B} (f : A -> list B) l l' : Permutation l l' -> Permutation (flat_map f l) (flat_map f l').
Proof.
  induction 1; cbn [flat_map]; auto.
  - apply Permutation_app_head. assumption.
  - rewrite !app_assoc. apply Permutation_app_tail, Permutation_app_comm.
  - eapply Permutation_trans; eauto.
Qed.

Lemma flat_map_flat_map {A B C} (f : A -> list B) (g : B -> list C) l :
  flat_map g (flat_map f l) = flat_map (fun x => flat_map g (f x)) l.
Proof. induction l as [|x r IH]; cbn [flat_map]; [reflexivity|]. now rewrite flat_map_app, IH. Qed.

Lemma flat_map_concat' {A B} (f : A -> list B) (l : list (list A)) :
  flat_map (flat_map f) l = flat_map f (List.concat l).
Proof. induction l as [|x r IH]; cbn [flat_map List.concat]; [reflexivity|]. now rewrite flat_map_app, IH. Qed.

Lemma flat_map_enum_snd {A B} (f : A -> list B) l : forall i,
  flat_map (fun ix => f (snd ix)) (enum_from i l) = flat_map f l.
Proof. induction l as [|x r IH]; intros i; cbn [enum_from flat_map snd]; [reflexivity|]. now rewrite IH. Qed.

Lemma tag_expr_of b e ops : forall i, flat_map expr_of (map (tag_expr b e) (enum_from i ops)) = ops.
Proof.
  induction ops as [|o r IH]; intros i; cbn [enum_from map flat_map]; [reflexivity|]. rewrite IH.
  unfold tag_expr. cbn [fst snd]. destruct (is_block o); reflexivity.
Qed.
Lemma tag_type_of b e ops : forall i, flat_map type_of (map (tag_expr b e) (enum_from i ops)) = [].
Proof.
  induction ops as [|o r IH]; intros i; cbn [enum_from map flat_map]; [reflexivity|]. rewrite IH.
  unfold tag_expr. cbn [fst snd]. destruct (is_block o); reflexivity.
Qed.
Lemma tag_dot_of b e ops : forall i, flat_map dot_of (map (tag_expr b e) (enum_from i ops)) = [].
Proof.
  induction ops as [|o r IH]; intros i; cbn [enum_from map flat_map]; [reflexivity|]. rewrite IH.
  unfold tag_expr. cbn [fst snd]. destruct (is_block o); reflexivity.
Qed.

Lemma action_expr_of b e a : flat_map expr_of (action_atoms b e a) = expr_operands a.
Proof.
  unfold action_atoms, expr_operands. destruct (a_mv a); try reflexivity.
  destruct (a_comb a); cbn [has_inner_exprs comb_eqb negb andb];
    rewrite ?tag_expr_of, ?expr_of_map_UType, ?expr_of_map_UDot; reflexivity.
Qed.
Lemma action_type_of b e a : flat_map type_of (action_atoms b e a) = type_operands a.
Proof.
  unfold action_atoms, type_operands. destruct (a_mv a); try reflexivity.
  destruct (a_comb a); cbn [has_inner_exprs];
    rewrite ?tag_type_of, ?type_of_map_UType, ?type_of_map_UDot; reflexivity.
Qed.
Lemma action_dot_of b e a : flat_map dot_of (action_atoms b e a) = dot_operands a.
Proof.
  unfold action_atoms, dot_operands. destruct (a_mv a); try reflexivity.
  destruct (a_comb a); cbn [has_inner_exprs];
    rewrite ?tag_dot_of, ?dot_of_map_UType, ?dot_of_map_UDot; reflexivity.
Qed.

Section ProjBranch.
  Variable pr : uatom -> list operand.
  Variable sel : action -> list operand.
  Hypothesis Hact : forall b e a, flat_map pr (action_atoms b e a) = sel a.

  Lemma step_proj b acts : forall e, flat_map pr (step_atoms b e acts) = flat_map sel acts.
  Proof.
    unfold step_atoms. induction acts as [|a r IH]; intros e; cbn [enum_from flat_map fst snd]; [reflexivity|].
    now rewrite flat_map_app, Hact, IH.
  Qed.
  Lemma branch_proj bi b : flat_map pr (branch_atoms bi b) = flat_map sel (b_members b).
  Proof.
    unfold branch_atoms. rewrite flat_map_flat_map.
    rewrite (flat_map_ext _ (flat_map sel)) by (intros s; apply step_proj).
    rewrite flat_map_concat', split_steps_concat. reflexivity.
  Qed.
  Lemma branches_proj bs : forall i,
    flat_map pr (flat_map (fun ib => branch_atoms (fst ib) (snd ib)) (enum_from i bs))
    = flat_map (fun b => flat_map sel (b_members b)) bs.
  Proof.
    intros i. rewrite flat_map_flat_map.
    rewrite (flat_map_ext _ (fun ib => flat_map sel (b_members (snd ib)))) by (intros ib; apply branch_proj).
    apply (flat_map_enum_snd (fun b => flat_map sel (b_members b))).
  Qed.
End ProjBranch.

Definition handler_operand (inp : input) : list operand :=
  match i_handler inp with Some (_, h) => [h] | None => [] end.
Definition joiner_copies (inp : input) : list operand :=
  match i_joiner inp with Some jt => repeat jt (multi_steps inp) | None => [] end.

Lemma expr_of_repeat jt n : flat_map expr_of (repeat (UExpr jt) n) = repeat jt n.
Proof. induction n as [|n IH]; cbn; [reflexivity|]. now rewrite IH. Qed.
Lemma type_of_repeat jt n : flat_map type_of (repeat (UExpr jt) n) = [].
Proof. induction n as [|n IH]; cbn; [reflexivity|]. exact IH. Qed.
Lemma dot_of_repeat jt n : flat_map dot_of (repeat (UExpr jt) n) = [].
Proof. induction n as [|n IH]; cbn; [reflexivity|]. exact IH. Qed.

(* C10(1): the user expressions in the expansion = the expression operands of all members + the handler
   expression + the custom joiner once per multi-branch step; as multisets *)
Theorem operands_occur_once cfg inp e :
  wf_parsed inp -> gen cfg inp = Ok e ->
  Permutation (leaves e)
              (handler_operand inp ++ joiner_copies inp ++
               flat_map (fun b => flat_map expr_operands (b_members b)) (i_branches inp)).
Proof.
  intros Hwf H. rewrite leaves_atoms.
  eapply Permutation_trans; [apply Permutation_flat_map', (atoms_exact cfg inp e Hwf H)|].
  unfold input_atoms. rewrite !flat_map_app.
  rewrite (branches_proj expr_of expr_operands action_expr_of).
  apply Permutation_app; [|apply Permutation_app; [|reflexivity]].
  - unfold handler_atoms, handler_operand. destruct (i_handler inp) as [[hk h]|]; reflexivity.
  - unfold joiner_copies. destruct (i_joiner inp); [rewrite expr_of_repeat|]; reflexivity.
Qed.

Theorem type_operands_occur_once cfg inp e :
  wf_parsed inp -> gen cfg inp = Ok e ->
  Permutation (tyfields e) (flat_map (fun b => flat_map type_operands (b_members b)) (i_branches inp)).
Proof.
  intros Hwf H. rewrite tyfields_atoms.
  eapply Permutation_trans; [apply Permutation_flat_map', (atoms_exact cfg inp e Hwf H)|].
  unfold input_atoms. rewrite !flat_map_app.
  rewrite (branches_proj type_of type_operands action_type_of).
  replace (flat_map type_of (handler_atoms (i_handler inp))) with (@nil operand)
    by (unfold handler_atoms; destruct (i_handler inp) as [[hk h]|]; reflexivity).
  replace (flat_map type_of match i_joiner inp with Some jt => repeat (UExpr jt) (multi_steps inp) | None => [] end)
    with (@nil operand) by (destruct (i_joiner inp); [rewrite type_of_repeat|]; reflexivity).
  reflexivity.
Qed.

Theorem dot_operands_occur_once cfg inp e :
  wf_parsed inp -> gen cfg inp = Ok e ->
  Permutation (dotfields e) (flat_map (fun b => flat_map dot_operands (b_members b)) (i_branches inp)).
Proof.
  intros Hwf H. rewrite dotfields_atoms.
  eapply Permutation_trans; [apply Permutation_flat_map', (atoms_exact cfg inp e Hwf H)|].
  unfold input_atoms. rewrite !flat_map_app.
  rewrite (branches_proj dot_of dot_operands action_dot_of).
  replace (flat_map dot_of (handler_atoms (i_handler inp))) with (@nil operand)
    by (unfold handler_atoms; destruct (i_handler inp) as [[hk h]|]; reflexivity).
  replace (flat_map dot_of match i_joiner inp with Some jt => repeat (UExpr jt) (multi_steps inp) | None => [] end)
    with (@nil operand) by (destruct (i_joiner inp); [rewrite dot_of_repeat|]; reflexivity).
  reflexivity.
Qed.

(* hoisting: a `let x = <user expr>;` in the expansion is the handler binding or the binding of a BLOCK operand
   under its own name __ew<branch>_<position>_<operand index>; and no block operand of a hoistable member is spliced
   in place *)
Theorem bound_atoms_are_blocks cfg inp e x o :
  wf_parsed inp -> gen cfg inp = Ok e -> In (UBound x o) (atoms e) ->
  (x = n_h /\ exists hk, i_handler inp = Some (hk, o)) \/
  (exists b k i, x = n_ew b k i /\ is_block o = true).
Proof.
  intros Hwf H Hin. apply (Permutation_in _ (atoms_exact cfg inp e Hwf H)) in Hin.
  unfold input_atoms in Hin. apply in_app_or in Hin as [Hin|Hin].
  - left. unfold handler_atoms in Hin. destruct (i_handler inp) as [[hk h]|]; [|destruct Hin].
    destruct Hin as [Heq|[]]. inversion Heq; subst. eauto.
  - right. apply in_app_or in Hin as [Hin|Hin].
    + destruct (i_joiner inp); [|destruct Hin]. apply repeat_spec in Hin. discriminate.
    + apply in_flat_map in Hin as ([bi b] & _ & Hin). unfold branch_atoms in Hin. cbn [fst snd] in Hin.
      apply in_flat_map in Hin as (s & _ & Hin). unfold step_atoms in Hin.
      apply in_flat_map in Hin as ([k a] & _ & Hin). cbn [fst snd] in Hin. unfold action_atoms in Hin.
      destruct (a_mv a); try (destruct Hin; fail).
      assert (Htag : In (UBound x o) (map (tag_expr bi k) (enum_from 0 (a_ops a))) ->
                     exists b k i, x = n_ew b k i /\ is_block o = true).
      { intros Ht. apply in_map_iff in Ht as ([i o'] & Ht & _). unfold tag_expr in Ht. cbn [fst snd] in Ht.
        destruct (is_block o') eqn:Eb; inversion Ht; subst. eauto. }
      destruct (a_comb a); cbn [has_inner_exprs] in Hin; try (apply Htag, Hin); try (destruct Hin; fail);
        apply in_map_iff in Hin as (o' & Ht & _); discriminate.
Qed.

Print Assumptions operands_occur_once.
Print Assumptions type_operands_occur_once.
Print Assumptions dot_operands_occur_once.
Print Assumptions bound_atoms_are_blocks.

(* ---------------------------------------------------------------------------------------------- *)
(** * Non-vacuity (the 3-branch input of GenPropsA: wrappers, block operands, depths 3/1/2, joiner, handler) *)

Definition ex_cfg := mkConfig false true true.      (* try_join_spawn! *)

Example ex_atoms_concrete :
  exists e, gen ex_cfg ex_input = Ok e /\
    atoms e =
    [UBound "__h" (T "hd"); UBound "__ew0_3_0" (blk "g"); UBound "__ew2_0_0" (blk "c"); UExpr (T "my_joiner");
     UExpr (T "a"); UExpr (T "h"); UExpr (T "b"); UDot (T "len");
     UType (T "T1"); UType (T "T2"); UType (T "T3"); UType (T "T4");
     UBound "__ew0_0_0" (blk "k"); UExpr (T "my_joiner"); UType (T "Vec"); UBound "__ew0_0_0" (blk "z"); UExpr (T "f2")].
Proof. eexists. split; vm_compute; reflexivity. Qed.

(* the theorem applied: hypotheses hold, and the right-hand side is the explicit list of the user's operands;
   the joiner occurs twice (steps 0 and 1 have 3 resp. 2 active branches, step 2 has one) *)
Example ex_operands_once :
  exists e, gen ex_cfg ex_input = Ok e /\
    Permutation (leaves e)
      [T "hd"; T "my_joiner"; T "my_joiner"; T "a"; blk "g"; T "h"; blk "k"; blk "z"; T "f2"; T "b"; blk "c"] /\
    Permutation (tyfields e) [T "T1"; T "T2"; T "T3"; T "T4"; T "Vec"] /\
    Permutation (dotfields e) [T "len"].
Proof.
  destruct (gen ex_cfg ex_input) as [e| |] eqn:E; try (vm_compute in E; discriminate).
  exists e. split; [reflexivity|].
  pose proof (operands_occur_once ex_cfg ex_input e ex_input_wf' E) as H1.
  pose proof (type_operands_occur_once ex_cfg ex_input e ex_input_wf' E) as H2.
  pose proof (dot_operands_occur_once ex_cfg ex_input e ex_input_wf' E) as H3.
  vm_compute in H1, H2, H3. auto.
Qed.
Example ex_multi_steps : multi_steps ex_input = 2.
Proof. vm_compute. reflexivity. Qed.

(* why wf_parsed is needed (none of these can come out of the parser): an `Initial` member that is not first
   discards everything before it; an operand on `^^>` is ignored *)
Example ex_not_wf_drops :
  let inp := mkInput [mkBranch None [act Initial false NoMove [T "a"]; act Map false NoMove [T "f"];
                                     act Initial false NoMove [T "b"]; act Flatten false NoMove [T "junk"]]]
                     None None None None None in
  wf_parsedb inp = false /\
  exists e, gen (mkConfig false false false) inp = Ok e /\ leaves e = [T "b"].
Proof. split; [vm_compute; reflexivity|]. eexists. split; vm_compute; reflexivity. Qed.
