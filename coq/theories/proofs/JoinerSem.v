(* C16, run-time meaning of the statement the generator emits for a step with a custom joiner
   (GenPropsE.joiner_once_per_multi_step: the step-result binding IS `let __srK = j(chains);`): *)
From Coq Require Import ZArith.
From Join Require Import Tok Names Ast Ir Comp Std Denote CompLaws.

Section Joiner.
  Variable unames : list string.
  Variable msem : string -> option (list operand) -> dval -> list dval -> comp dval.
  Variable dotsem : operand -> list (string * option val) -> dval -> comp dval.
  Variable callsem : val -> list dval -> comp dval.
  Variable awaitsem : val -> comp val.
  Notation D := (den unames msem dotsem callsem awaitsem).
  Notation X := (exec unames msem dotsem callsem awaitsem).

  (* the joiner expression is evaluated once, then the chains of exactly the active branches in branch order, then the
     joiner is invoked ONCE on them, and what it returns is the step result (bound to __srK) *)
  Theorem custom_joiner_step_meaning jt chains sr ρ :
    X (SLet (PIdent sr) (RCall (RUser jt) chains)) ρ =
    (let! j := D (RUser jt) ρ in
     let! ds := mapM (fun c => D c ρ) chains in
     let! r := apply callsem j ds in
     Ret (upd ρ sr r)).
  Proof.
    assert (E : forall l, dens_with (fun x => D x ρ) l = mapM (fun c => D c ρ) l).
    { induction l as [|x l IH]; cbn [dens_with mapM]; [reflexivity|]. rewrite IH. reflexivity. }
    change (X (SLet (PIdent sr) (RCall (RUser jt) chains)) ρ)
      with (let! d := (let! df := D (RUser jt) ρ in let! ds := dens_with (fun x => D x ρ) chains in apply callsem df ds) in
            match bind_pat (PIdent sr) d ρ with Some ρ' => Ret ρ' | None => Panic P_ILLTYPED end).
    rewrite E, !bind_assoc. apply bind_ext; intros j.
    rewrite !bind_assoc. apply bind_ext; intros ds. reflexivity.
  Qed.

  (* with lazy_branches(true) each chain is handed over as a zero-argument closure that runs the chain when called *)
  Theorem lazy_branch_is_a_thunk body ρ :
    D (RMoveThunk body) ρ =
    Ret (DF (fun vs => match vs with
                       | [] => let! d := D body ρ in to_val d
                       | _ => Panic P_ILLTYPED end)).
  Proof. reflexivity. Qed.

  (* transpose_results(false): the joiner's output is treated as the already transposed Result *)
  Theorem no_transpose_step_meaning sr x arm ρ :
    D (RMatchOk (RVar sr) x arm) ρ =
    (let! d := D (RVar sr) ρ in
     match d with
     | DV (VOk v) => D arm (upd ρ x (DV v))
     | DV (VErr e) => Ret (DV (VErr e))
     | _ => Panic P_ILLTYPED
     end).
  Proof. reflexivity. Qed.
End Joiner.
Print Assumptions custom_joiner_step_meaning.
