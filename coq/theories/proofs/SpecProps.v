(* Properties of the reference semantics (Spec.v), for every program, every abstract user-code
   semantics and every world (the world is the set of all answers to `Vis`; see Leaves.v). *)
From Coq Require Import Lia ZArith.
From Join Require Import Tok Names Ast Comp Std Denote Spec CompLaws Leaves.
Local Open Scope nat_scope.

(* ------------------------------------------------------------------ state bookkeeping *)
Lemma set1_length st b d : List.length (set1 st b d) = List.length st.
Proof. revert b; induction st as [|x st IH]; intros [|b]; cbn [set1 List.length]; auto. Qed.

Lemma nth_set1_eq st b d : b < List.length st -> nth b (set1 st b d) None = Some d.
Proof.
  revert b; induction st as [|x st IH]; intros [|b] H; cbn [set1 nth List.length] in *; try lia; auto.
  apply IH; lia.
Qed.

Lemma nth_set1_neq st b b' d : b <> b' -> nth b' (set1 st b d) None = nth b' st None.
Proof.
  revert b b'; induction st as [|x st IH]; intros [|b] [|b'] H; cbn [set1 nth]; try reflexivity; try congruence.
  apply IH; congruence.
Qed.

Lemma set_all_length st acts ds : List.length (set_all st acts ds) = List.length st.
Proof.
  revert st ds; induction acts as [|b acts IH]; intros st [|d ds]; cbn [set_all]; auto.
  rewrite IH. apply set1_length.
Qed.

(* a branch that is not active in the step keeps its value untouched *)
Lemma nth_set_all_notin st acts ds b :
  ~ In b acts -> nth b (set_all st acts ds) None = nth b st None.
Proof.
  revert st ds; induction acts as [|a acts IH]; intros st [|d ds] H; cbn [set_all]; auto.
  rewrite IH by (intro; apply H; right; assumption).
  apply nth_set1_neq. intro; apply H; left; assumption.
Qed.

(* the j-th active branch receives the j-th value *)
Lemma nth_set_all_in (R : nat -> dval -> Prop) st acts ds b :
  NoDup acts -> Forall (fun a => a < List.length st) acts -> Forall2 R acts ds -> In b acts ->
  exists d, nth b (set_all st acts ds) None = Some d /\ R b d.
Proof.
  intros ND. revert st ds; induction ND as [|a acts Hna ND IH]; intros st ds HF H2 Hin; [destruct Hin|].
  inversion H2 as [|a' d acts' ds' HR H2' E1 E2]; subst. cbn [set_all].
  inversion HF as [|a'' l Ha HF']; subst.
  destruct Hin as [->|Hin].
  - exists d. split; [|assumption].
    rewrite nth_set_all_notin by assumption. apply nth_set1_eq; assumption.
  - apply IH; auto. apply Forall_forall; intros x Hx. rewrite set1_length.
    rewrite Forall_forall in HF'. apply HF'; assumption.
Qed.

Lemma all_vals_map ds vs : all_vals ds = Some vs -> ds = map DV vs.
Proof.
  revert vs; induction ds as [|d ds IH]; intros vs H; cbn [all_vals] in H.
  - inversion H; reflexivity.
  - destruct d; try discriminate. destruct (all_vals ds) as [vs'|]; [|discriminate].
    inversion H; subst. cbn [map]. f_equal. apply IH; reflexivity.
Qed.

Lemma all_vals_length ds vs : all_vals ds = Some vs -> List.length vs = List.length ds.
Proof. intros H. apply all_vals_map in H. subst. rewrite map_length. reflexivity. Qed.

Lemma Forall2_length {A B} (R : A -> B -> Prop) l l' : Forall2 R l l' -> List.length l = List.length l'.
Proof. induction 1; cbn; auto. Qed.

Section Props.
  Variable msem : string -> option (list operand) -> dval -> list dval -> comp dval.
  Variable dotsem : operand -> list (string * option val) -> dval -> comp dval.
  Variable callsem : val -> list dval -> comp dval.
  Variable awaitsem : val -> comp val.
  Variable p : sprog.
  Let cfg := sp_cfg p.
  Notation n := (List.length (sp_trees p)).

  Notation steps := (steps msem dotsem callsem awaitsem p).
  Notation step_result := (step_result msem dotsem callsem awaitsem p).
  Notation chain := (chain msem dotsem callsem p).

  (* ---------------------------------------------------------------- active branches *)
  Lemma actives_spec k b : In b (actives p k) <-> b < n /\ active p k b = true.
  Proof.
    unfold actives. rewrite filter_In, in_seq. intuition lia.
  Qed.
  Lemma actives_NoDup k : NoDup (actives p k).
  Proof. unfold actives. apply NoDup_filter. apply seq_NoDup. Qed.
  Lemma actives_lt k : Forall (fun b => b < n) (actives p k).
  Proof. apply Forall_forall. intros b H. apply actives_spec in H. tauto. Qed.
  Lemma active_depth k b : active p k b = true <-> k < depth p b.
  Proof. unfold active. apply Nat.ltb_lt. Qed.

  Lemma depth_le_max b : b < n -> depth p b <= max_depth p.
  Proof.
    unfold depth, max_depth. generalize (sp_trees p). intros l. revert b.
    induction l as [|t l IH]; intros [|b] H; cbn [List.length nth map fold_right] in *; try lia.
    specialize (IH b). lia.
  Qed.

  (* ---------------------------------------------------------------- C04: result positions *)
  (* T b k d : "d is a value that branch b's chain produced in step k" - an ARBITRARY predicate *)
  Variable T : nat -> nat -> dval -> Prop.

  (* state invariant after k steps: every branch holds a value of its latest step so far *)
  Definition StateOK (k : nat) (st : state) : Prop :=
    List.length st = n /\
    forall b, b < n -> 0 < k -> exists d, nth b st None = Some d /\ T b (Nat.min (k - 1) (depth p b - 1)) d.

  Definition is_dv (d : dval) : Prop := match d with DV _ => True | _ => False end.

  (* the macro's result: element b is a value of branch b's LAST step; a bare value for one branch *)
  Definition ResultOK (r : dval) : Prop :=
    (n = 1 -> T 0 (depth p 0 - 1) r) /\
    (n <> 1 -> exists vs, r = DV (VTuple vs) /\ List.length vs = n /\
                          forall b, b < n -> T b (depth p b - 1) (DV (nth b vs VUnit))).

  Lemma final_tuple_ok st :
    (forall b, b < n -> 1 <= depth p b) ->
    StateOK (max_depth p) st -> 0 < max_depth p -> leaves (final_tuple p st) ResultOK.
  Proof.
    intros Hd [Hlen Hst] Hpos. unfold final_tuple.
    assert (Hget : leaves (mapM (get st) (seq 0 n)) (fun ds => Forall2 (fun b d => T b (depth p b - 1) d) (seq 0 n) ds)).
    { apply leaves_mapM. intros b Hb. apply in_seq in Hb. destruct (Hst b) as (d & Hn & HT); [lia|lia|].
      unfold get. rewrite Hn. cbn. pose proof (depth_le_max b ltac:(lia)).
      replace (Nat.min (max_depth p - 1) (depth p b - 1)) with (depth p b - 1) in HT by lia. exact HT. }
    apply leaves_bind. eapply leaves_weaken; [|exact Hget].
    intros ds H2. pose proof (Forall2_length _ _ _ H2) as Hl. rewrite seq_length in Hl.
    destruct ds as [|d [|d' ds']].
    - (* n = 0 *) cbn in Hl. cbn. unfold vals_tuple. cbn. split; [intros; lia|]. intros _. exists []. repeat split; auto. intros; lia.
    - (* n = 1: the bare value *)
      cbn [leaves]. cbn in Hl. split; [|intros; lia]. intros _.
      rewrite Hl in H2. cbn in H2. inversion H2; subst. assumption.
    - unfold vals_tuple. destruct (all_vals (d :: d' :: ds')) as [vs|] eqn:Ev; cbn [leaves]; [|exact I].
      split; [intros Hn1; rewrite Hn1 in Hl; cbn in Hl; lia|]. intros _.
      exists vs. split; [reflexivity|]. pose proof (all_vals_length _ _ Ev) as Hvl. split; [lia|].
      intros b Hb. apply all_vals_map in Ev. rewrite Ev in H2.
      assert (Hnth : forall l l' i, Forall2 (fun b d => T b (depth p b - 1) d) l (map DV l') -> i < List.length l ->
                                   T (nth i l 0) (depth p (nth i l 0) - 1) (DV (nth i l' VUnit))).
      { clear. induction l as [|x l IH]; intros [|y l'] i H Hi; cbn in *; try lia; inversion H; subst.
        destruct i; auto. apply IH; auto. lia. }
      specialize (Hnth (seq 0 n) vs b H2). rewrite seq_length, seq_nth in Hnth by lia. apply Hnth; lia.
  Qed.

  (* what the chains compute is arbitrary; all we assume is that T describes it *)
  Hypothesis chain_T : forall sn cp k st b, leaves (chain sn cp k st b) (T b k).

  Lemma extract_vals_tuple acts ds :
    List.length ds = List.length acts ->
    leaves (let! sr := (match acts with [_] => match ds with [d] => Ret d | _ => Panic P_STUCK end | _ => vals_tuple ds end) in extract acts sr)
           (fun ds' => ds' = ds).
  Proof.
    intros Hl. destruct acts as [|a [|a' acts']].
    - destruct ds; [|discriminate]. cbn. reflexivity.
    - destruct ds as [|d [|]]; try discriminate. cbn. reflexivity.
    - unfold vals_tuple. destruct (all_vals ds) as [vs|] eqn:Ev; cbn [bind leaves]; [|exact I].
      cbn [extract]. rewrite (all_vals_length _ _ Ev), Hl, Nat.eqb_refl. cbn. symmetry. apply all_vals_map; assumption.
  Qed.

  (* one step of the sequential kinds: the j-th extracted value is the j-th active branch's chain value *)
  Lemma step_extract_sync k st :
    is_async cfg = false -> is_spawn cfg = false ->
    leaves (let! sr := step_result k st in extract (actives p k) sr)
           (fun ds => Forall2 (fun b d => T b k d) (actives p k) ds).
  Proof.
    intros Ha Hs. unfold step_result. fold cfg. rewrite Ha, Hs. cbn [andb].
    rewrite bind_assoc. apply leaves_bind. eapply leaves_weaken; [|apply leaves_true]. intros cp _.
    set (acts := actives p k).
    destruct (Nat.ltb 1 (List.length acts)) eqn:Hm.
    - rewrite bind_assoc. apply leaves_bind.
      eapply leaves_weaken; [|apply (leaves_mapM _ (fun b d => T b k d)); intros; apply chain_T].
      intros ds H2. pose proof (Forall2_length _ _ _ H2) as Hl. symmetry in Hl.
      pose proof (extract_vals_tuple acts ds Hl) as E.
      apply Nat.ltb_lt in Hm. destruct acts as [|a [|a' acts']]; cbn in Hm; try lia.
      eapply leaves_weaken; [|exact E]. intros ds' ->. assumption.
    - destruct acts as [|a [|a' acts']] eqn:Ea.
      + cbn. exact I.
      + apply leaves_bind. eapply leaves_weaken; [|apply chain_T]. intros d Hd. cbn. constructor; [assumption|constructor].
      + cbn in Hm. discriminate.
  Qed.

  Hypothesis depth_pos : forall b, b < n -> 1 <= depth p b.

  Lemma state_step k st ds :
    StateOK k st -> Forall2 (fun b d => T b k d) (actives p k) ds -> StateOK (S k) (set_all st (actives p k) ds).
  Proof.
    intros [Hlen Hst] H2. split; [rewrite set_all_length; assumption|].
    intros b Hb _. replace (S k - 1) with k by lia.
    destruct (active p k b) eqn:Hact.
    - assert (Hin : In b (actives p k)) by (apply actives_spec; auto).
      destruct (nth_set_all_in (fun b d => T b k d) st (actives p k) ds b) as (d & Hn & HT); auto.
      { apply actives_NoDup. } { rewrite Hlen. apply actives_lt. }
      exists d. split; [assumption|]. apply active_depth in Hact.
      replace (Nat.min k (depth p b - 1)) with k by lia. assumption.
    - assert (Hnin : ~ In b (actives p k)) by (rewrite actives_spec; intros [_ H]; congruence).
      rewrite nth_set_all_notin by assumption.
      assert (Hk : depth p b <= k). { destruct (Nat.ltb_spec k (depth p b)) as [H|H]; [|assumption]. apply active_depth in H. congruence. }
      pose proof (depth_pos b Hb).
      destruct (Hst b Hb) as (d & Hn & HT); [lia|].
      exists d. split; [assumption|].
      replace (Nat.min k (depth p b - 1)) with (Nat.min (k - 1) (depth p b - 1)) by lia. assumption.
  Qed.

  (* C04 for the sequential non-try macro (join!), for every branch count and depth profile *)
  Theorem result_positions_join :
    is_async cfg = false -> is_spawn cfg = false -> is_try cfg = false ->
    forall fuel k st, fuel + k = max_depth p -> StateOK k st -> leaves (steps fuel k st) ResultOK.
  Proof.
    intros Ha Hs Ht. induction fuel as [|fuel IH]; intros k st Hk Hst; [exact I|].
    cbn [Spec.steps]. fold cfg. rewrite Ht. cbn [negb].
    rewrite <- bind_assoc. apply leaves_bind.
    eapply leaves_weaken; [|apply step_extract_sync; assumption].
    intros ds H2. pose proof (state_step k st ds Hst H2) as Hst'.
    destruct (Nat.eqb fuel 0) eqn:Hf.
    - apply Nat.eqb_eq in Hf. subst fuel. apply final_tuple_ok; try assumption; try lia.
      replace (max_depth p) with (S k) by lia. assumption.
    - apply IH; [lia|assumption].
  Qed.
End Props.

(* ====================================================================== C05: try macros *)
(* Option family (fam = true) or Result family (fam = false) *)
Definition wrapf (fam : bool) (v : val) : val := if fam then VSome v else VOk v.
Definition failf (fam : bool) (w : val) : bool :=
  match fam, w with true, VNone => true | false, VErr _ => true | _, _ => false end.
Definition wellf (fam : bool) (w v : val) : Prop := w = wrapf fam v \/ failf fam w = true.

(* the first branch in [i, i+m) whose value is a failure *)
Fixpoint first_fail_from (fam : bool) (w : nat -> val) (i m : nat) : option nat :=
  match m with
  | 0 => None
  | S m' => if failf fam (w i) then Some i else first_fail_from fam w (S i) m'
  end.

Definition bare_or_tuple (vs : list val) : val := match vs with [v] => v | _ => VTuple vs end.

Section Transpose.
  Variable awaitsem : val -> comp val.
  Variable p : sprog.
  Notation n := (List.length (sp_trees p)).
  Variable fam : bool.
  Variables w v : nat -> val.       (* branch b holds w b; when it is a success its payload is v b *)
  Hypothesis well : forall b, b < n -> wellf fam (w b) (v b).

  Definition StEq (st : state) (g : nat -> dval) : Prop :=
    List.length st = n /\ forall b, b < n -> nth b st None = Some (g b).

  Lemma StEq_set1 st g b d : b < n -> StEq st g -> StEq (set1 st b d) (fun b' => if Nat.eqb b' b then d else g b').
  Proof.
    intros Hb [Hl Hg]. split; [rewrite set1_length; assumption|].
    intros b' Hb'. destruct (Nat.eqb_spec b' b) as [->|Hne].
    - apply nth_set1_eq. lia.
    - rewrite nth_set1_neq by congruence. apply Hg; assumption.
  Qed.

  Lemma get_StEq st g b : StEq st g -> b < n -> get st b = Ret (g b).
  Proof. intros [_ Hg] Hb. unfold get. rewrite Hg by assumption. reflexivity. Qed.

  Lemma mapM_get st g l : StEq st g -> Forall (fun b => b < n) l -> mapM (get st) l = Ret (map g l).
  Proof.
    intros H. induction l as [|b l IH]; intros HF; cbn [mapM map]; [reflexivity|].
    inversion HF; subst. rewrite (get_StEq st g b H) by assumption. cbn [bind]. rewrite IH by assumption. reflexivity.
  Qed.

  Lemma final_tuple_payloads st :
    StEq st (fun b => DV (v b)) -> 1 <= n ->
    final_tuple p st = Ret (DV (bare_or_tuple (map v (seq 0 n)))).
  Proof.
    clear well. intros H Hn. unfold final_tuple. rewrite (mapM_get st _ _ H).
    2:{ apply Forall_forall. intros b Hb. apply in_seq in Hb. lia. }
    cbn [bind]. destruct n as [|[|m]] eqn:En; [lia| |].
    - reflexivity.
    - change (seq 0 (S (S m))) with (0 :: 1 :: seq 2 m). cbn [map]. unfold vals_tuple.
      assert (E : forall l, all_vals (map (fun b => DV (v b)) l) = Some (map v l)).
      { induction l as [|x l IH]; cbn [map all_vals]; [reflexivity|]. rewrite IH. reflexivity. }
      change (DV (v 0) :: DV (v 1) :: map (fun b => DV (v b)) (seq 2 m)) with (map (fun b => DV (v b)) (0 :: 1 :: seq 2 m)).
      rewrite E. reflexivity.
  Qed.

  Lemma transpose_cons2 b b' r st :
    transpose awaitsem p (b :: b' :: r) st =
    (let! d := get st b in
     std_and_then awaitsem d (fun vs => match vs with
                                        | [x] => let! t := transpose awaitsem p (b' :: r) (set1 st b (DV x)) in to_val t
                                        | _ => Panic P_ILLTYPED end)).
  Proof. reflexivity. Qed.

  (* the state while transposing: branches below i already hold their payloads *)
  Definition mid (i : nat) : nat -> dval := fun b => if Nat.ltb b i then DV (v b) else DV (w b).

  Lemma mid_step i st : i < n -> StEq st (mid i) -> StEq (set1 st i (DV (v i))) (mid (S i)).
  Proof.
    intros Hi H. pose proof (StEq_set1 st (mid i) i (DV (v i)) Hi H) as [Hl Hg]. split; [assumption|].
    intros b Hb. rewrite Hg by assumption. f_equal. unfold mid.
    destruct (Nat.eqb_spec b i) as [->|Hne].
    - replace (Nat.ltb i (S i)) with true by (symmetry; apply Nat.ltb_lt; lia). reflexivity.
    - destruct (Nat.ltb_spec b i) as [H1|H1], (Nat.ltb_spec b (S i)) as [H2|H2]; try reflexivity; lia.
  Qed.

  (* C05, final step: Some/Ok of the tuple of payloads iff every branch succeeded; otherwise the value of the
     LOWEST-NUMBERED failing branch, unchanged *)
  Theorem transpose_first_failure : forall m i st,
    i + m = n -> 1 <= m -> StEq st (mid i) ->
    transpose awaitsem p (seq i m) st =
    Ret (DV (match first_fail_from fam w i m with
             | Some b => w b
             | None => wrapf fam (bare_or_tuple (map v (seq 0 n)))
             end)).
  Proof.
    induction m as [|m IH]; intros i st Him Hm H; [lia|].
    assert (Hi : i < n) by lia.
    destruct m as [|m'].
    - (* the last branch: map *)
      cbn [seq transpose first_fail_from]. rewrite (get_StEq st _ i H Hi). cbn [bind].
      unfold mid at 1. rewrite Nat.ltb_irrefl.
      destruct (well i Hi) as [E|E].
      + rewrite E. assert (Hnf : failf fam (wrapf fam (v i)) = false) by (destruct fam; reflexivity). rewrite Hnf.
        pose proof (mid_step i st Hi H) as H'.
        assert (Hfin : StEq (set1 st i (DV (v i))) (fun b => DV (v b))).
        { destruct H' as [Hl Hg]. split; [assumption|]. intros b Hb. rewrite Hg by assumption. unfold mid.
          replace (Nat.ltb b (S i)) with true by (symmetry; apply Nat.ltb_lt; lia). reflexivity. }
        destruct fam; cbn [wrapf std_map]; rewrite (final_tuple_payloads _ Hfin) by lia; reflexivity.
      + rewrite E. destruct fam, (w i); cbn in E; try discriminate; reflexivity.
    - (* and_then *)
      change (seq i (S (S m'))) with (i :: S i :: seq (S (S i)) m').
      rewrite transpose_cons2. change (S i :: seq (S (S i)) m') with (seq (S i) (S m')).
      cbn [first_fail_from]. rewrite (get_StEq st _ i H Hi). cbn [bind].
      unfold mid at 1. rewrite Nat.ltb_irrefl.
      destruct (well i Hi) as [E|E].
      + rewrite E. assert (Hnf : failf fam (wrapf fam (v i)) = false) by (destruct fam; reflexivity). rewrite Hnf.
        pose proof (mid_step i st Hi H) as H'.
        destruct fam; cbn [wrapf std_and_then]; rewrite (IH (S i) _ ltac:(lia) ltac:(lia) H'); reflexivity.
      + rewrite E. destruct fam, (w i); cbn in E; try discriminate; reflexivity.
  Qed.
End Transpose.

(* ====================================================================== C05 / C06: the per-step check *)
Definition cls (d : dval) : option bool :=
  match d with
  | DV (VSome _) | DV (VOk _) => Some true
  | DV VNone | DV (VErr _) => Some false
  | _ => None
  end.

Lemma classify_cls d : classify d = match cls d with Some b => Ret b | None => Panic P_ILLTYPED end.
Proof. destruct d as [[]| | | | | |]; reflexivity. Qed.

(* the first value, in branch order, that is a failure *)
Fixpoint first_fail_list (ds : list dval) : option dval :=
  match ds with
  | [] => None
  | d :: r => match cls d with Some false => Some d | _ => first_fail_list r end
  end.
Definition all_classified (ds : list dval) : bool :=
  forallb (fun d => match cls d with Some _ => true | None => false end) ds.

Lemma mapM_classify ds :
  mapM classify ds = if all_classified ds then Ret (map (fun d => match cls d with Some b => b | None => true end) ds)
                     else Panic P_ILLTYPED.
Proof.
  induction ds as [|d ds IH]; cbn [mapM all_classified forallb map]; [reflexivity|].
  rewrite classify_cls. destruct (cls d) as [b|]; cbn [bind andb]; [|reflexivity].
  rewrite IH. fold (all_classified ds). destruct (all_classified ds); reflexivity.
Qed.

Lemma first_false_cls ds :
  all_classified ds = true ->
  first_false (map (fun d => match cls d with Some b => b | None => true end) ds) ds = first_fail_list ds.
Proof.
  induction ds as [|d ds IH]; cbn [all_classified forallb map first_false first_fail_list]; [reflexivity|].
  destruct (cls d) as [[|]|]; cbn [andb]; intros H; try discriminate; auto.
Qed.

Lemma std_map_failure d f : cls d = Some false -> std_map d f = Ret d.
Proof. destruct d as [[]| | | | | |]; cbn; intros H; try discriminate; reflexivity. Qed.

Lemma first_fail_list_cls ds d : first_fail_list ds = Some d -> cls d = Some false /\ In d ds.
Proof.
  induction ds as [|x ds IH]; cbn [first_fail_list]; [discriminate|].
  destruct (cls x) as [[|]|] eqn:E; intros H.
  - destruct (IH H); split; auto. right; assumption.
  - inversion H; subst. split; auto. left; reflexivity.
  - destruct (IH H); split; auto. right; assumption.
Qed.

(* the check made after every non-final step of a sequential / thread try macro: the value of the
   lowest-numbered failing branch is returned AS IS and the continuation K (all later steps, the handler)
   is not part of the computation any more *)
Theorem per_step_check (ds : list dval) (K : comp dval) :
  (let! oks := mapM classify ds in
   match first_false oks ds with
   | Some d => std_map d (fun _ => Panic P_UNREACHABLE)
   | None => K
   end)
  = if all_classified ds then match first_fail_list ds with Some d => Ret d | None => K end
    else Panic P_ILLTYPED.
Proof.
  rewrite mapM_classify. destruct (all_classified ds) eqn:E; cbn [bind]; [|reflexivity].
  rewrite first_false_cls by assumption.
  destruct (first_fail_list ds) as [d|] eqn:F; [|reflexivity].
  apply std_map_failure. apply first_fail_list_cls in F. tauto.
Qed.

Section TrySteps.
  Variable msem : string -> option (list operand) -> dval -> list dval -> comp dval.
  Variable dotsem : operand -> list (string * option val) -> dval -> comp dval.
  Variable callsem : val -> list dval -> comp dval.
  Variable awaitsem : val -> comp val.
  Variable p : sprog.
  Notation n := (List.length (sp_trees p)).
  Notation steps := (steps msem dotsem callsem awaitsem p).
  Notation step_result := (step_result msem dotsem callsem awaitsem p).

  (* C05 + C06 for try_join! / try_join_spawn!: the shape of every step *)
  Theorem try_steps_sync fuel k st :
    is_try (sp_cfg p) = true -> is_async (sp_cfg p) = false ->
    steps (S fuel) k st =
    (let! sr := step_result k st in
     let! ds := extract (actives p k) sr in
     let st' := set_all st (actives p k) ds in
     if Nat.eqb fuel 0 then transpose awaitsem p (seq 0 n) st'
     else if all_classified ds
          then match first_fail_list ds with
               | Some d => Ret d                       (* the failure itself; nothing of a later step runs *)
               | None => steps fuel (S k) st'
               end
          else Panic P_ILLTYPED).
  Proof.
    intros Ht Ha. cbn [Spec.steps]. rewrite Ht, Ha. cbn [negb].
    apply bind_ext; intros sr. apply bind_ext; intros ds.
    destruct (Nat.eqb fuel 0); [reflexivity|].
    apply per_step_check.
  Qed.

  (* C03 for every kind, as far as the calling thread is concerned: step k is run to its end - its result `sr`
     is available - before anything of step k+1 exists, and step k+1 starts from the state in which every
     active branch holds ITS OWN step-k value (set_all; see nth_set_all_in / nth_set_all_notin) *)
  Theorem steps_are_sequential_nontry fuel k st :
    is_try (sp_cfg p) = false ->
    steps (S fuel) k st =
    (let! sr := step_result k st in
     let! ds := extract (actives p k) sr in
     let st' := set_all st (actives p k) ds in
     if Nat.eqb fuel 0 then final_tuple p st' else steps fuel (S k) st').
  Proof. intros Ht. cbn [Spec.steps]. rewrite Ht. reflexivity. Qed.

  (* ------------------------------------------------------------------ C13: handlers (sequential kinds) *)
  Notation handle_results := (handle_results callsem awaitsem p).
  Notation call_handler := (call_handler callsem p).

  (* the handler receives the values in branch order (one value when there is one branch) *)
  Theorem handler_args_in_branch_order hv vs :
    List.length vs = n -> n <> 1 -> call_handler hv (DV (VTuple vs)) = apply callsem hv (map DV vs).
  Proof.
    intros Hl Hn. unfold Spec.call_handler. destruct n as [|[|m]] eqn:E; try congruence;
      rewrite Hl, Nat.eqb_refl; reflexivity.
  Qed.
  Theorem handler_single_branch hv rs : n = 1 -> call_handler hv rs = apply callsem hv [rs].
  Proof. intros Hn. unfold Spec.call_handler. rewrite Hn. reflexivity. Qed.

  Theorem then_always_once hv rs :
    is_async (sp_cfg p) = false -> handle_results (Some (HThen, hv)) rs = call_handler hv rs.
  Proof. intros Ha. unfold Spec.handle_results. rewrite Ha. apply bind_ret_r. Qed.

  Theorem then_awaited_async hv rs :
    is_async (sp_cfg p) = true ->
    handle_results (Some (HThen, hv)) rs = (let! d := call_handler hv rs in let! v := await_d awaitsem d in Ret (DV v)).
  Proof. intros Ha. unfold Spec.handle_results. rewrite Ha. reflexivity. Qed.

  Theorem map_and_then_skip_failure k hv fam w :
    is_async (sp_cfg p) = false -> failf fam w = true -> k = HMap \/ k = HAndThen ->
    handle_results (Some (k, hv)) (DV w) = Ret (DV w).                (* the handler is not called *)
  Proof.
    intros Ha Hf [->| ->]; unfold Spec.handle_results; rewrite Ha; destruct fam, w; cbn in Hf; try discriminate; reflexivity.
  Qed.

  Theorem map_on_success hv fam x :
    is_async (sp_cfg p) = false ->
    handle_results (Some (HMap, hv)) (DV (wrapf fam x)) =
    (let! d := call_handler hv (DV x) in let! y := to_val d in Ret (DV (wrapf fam y))).     (* Some/Ok (f ..), f called once *)
  Proof.
    intros Ha. unfold Spec.handle_results. rewrite Ha. destruct fam; cbn [wrapf std_map]; rewrite bind_assoc; reflexivity.
  Qed.

  Theorem and_then_on_success hv fam x :
    is_async (sp_cfg p) = false ->
    handle_results (Some (HAndThen, hv)) (DV (wrapf fam x)) =
    (let! d := call_handler hv (DV x) in let! y := to_val d in Ret (DV y)).                 (* f .. itself *)
  Proof.
    intros Ha. unfold Spec.handle_results. rewrite Ha. destruct fam; cbn [wrapf std_and_then]; rewrite bind_assoc; reflexivity.
  Qed.

  Theorem no_handler rs : handle_results None rs = Ret rs.
  Proof. reflexivity. Qed.
End TrySteps.

(* ====================================================================== C12: `let` names *)
Section Names.
  Variable p : sprog.
  Variable T : nat -> nat -> dval -> Prop.
  Notation n := (List.length (sp_trees p)).

  Definition shown (d : option dval) : option val := match d with Some (DV v) => Some v | _ => None end.

  (* what a snapshot contains: for every named branch, in branch order, the value the branch holds *)
  Lemma snap_of_entries names st x ov :
    In (x, ov) (flat_map (fun nv : option string * option dval => match fst nv with Some y => [(y, shown (snd nv))] | None => [] end) (combine names st)) ->
    exists b, nth_error names b = Some (Some x) /\ exists od, nth_error st b = Some od /\ ov = shown od.
  Proof.
    revert st. induction names as [|nm names IH]; intros [|d st] H; cbn in H; try contradiction.
    destruct nm as [y|]; cbn in H.
    - destruct H as [E|H].
      + inversion E; subst. exists 0. cbn. split; [reflexivity|]. exists d. auto.
      + destruct (IH st H) as (b & Hb & od & Hs & Ho). exists (S b). cbn. eauto.
    - destruct (IH st H) as (b & Hb & od & Hs & Ho). exists (S b). cbn. eauto.
  Qed.

  (* C12: the snapshot every capture of step k (k >= 1) sees maps the name of branch b to a value that branch b
     produced in its MOST RECENT step so far - step min(k-1, depth b - 1): also after the branch has finished;
     in try macros the state holds the still wrapped value, so that is what the name shows *)
  Theorem name_sees_latest_step_result k st x ov :
    StateOK p T k st -> 0 < k -> List.length (sp_names p) = n ->
    In (x, ov) (snap_of p st) ->
    exists b d, b < n /\ nth_error (sp_names p) b = Some (Some x) /\ nth b st None = Some d /\
                T b (Nat.min (k - 1) (depth p b - 1)) d /\ ov = shown (Some d).
  Proof.
    intros [Hlen Hst] Hk Hnames Hin. unfold snap_of in Hin.
    assert (Hin' : In (x, ov) (flat_map (fun nv : option string * option dval => match fst nv with Some y => [(y, shown (snd nv))] | None => [] end)
                                        (combine (sp_names p) st))).
    { erewrite flat_map_ext; [exact Hin|]. intros [[y|] [[v| | | | | |]|]]; reflexivity. }
    destruct (snap_of_entries _ _ _ _ Hin') as (b & Hb & od & Hs & Ho).
    assert (Hbn : b < n). { rewrite <- Hlen. apply nth_error_Some. congruence. }
    destruct (Hst b Hbn Hk) as (d & Hd & HT).
    assert (od = Some d). { apply nth_error_nth with (d := None) in Hs. congruence. }
    subst od. exists b, d. repeat split; auto.
  Qed.
End Names.
