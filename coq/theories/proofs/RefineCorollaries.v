(* Corollaries of the refinement theorem: facts proved on the reference semantics (SpecProps.v)
   transported to the meaning of the GENERATED code, `den (gen cfg inp)`. *)
From Coq Require Import ZArith Lia.
From Join Require Import Tok Names Ast Ir Gen Comp Std Denote Spec NamesInj CompLaws Render.
From Join Require Leaves SpecProps.
From Join Require Import RefineBase RefineChain RefineProg RefineSteps RefineTop.

(* what `prepare` copies from the input *)
Lemma prepare_fields cfg inp sp : prepare cfg inp = Some sp ->
  sp_cfg sp = cfg /\ sp_handler sp = i_handler inp /\
  Forall2 (fun br tr => Forall2 (fun acts t => nest acts = Some t) (split_steps (b_members br)) tr)
          (i_branches inp) (sp_trees sp).
Proof.
  unfold prepare.
  destruct (all_some (map (fun b => all_some (map nest (split_at_deferred (b_members b)))) (i_branches inp)))
    as [trees|] eqn:Et; [|discriminate].
  intros H; inversion H; subst sp; clear H. cbn [sp_cfg sp_handler sp_trees]. repeat split.
  apply all_some_Forall2 in Et. eapply Forall2_impl; [|exact Et]. cbn beta. intros br tr Hs.
  apply all_some_Forall2 in Hs. rewrite split_at_deferred_eq in Hs. exact Hs.
Qed.

(* every branch has at least one step *)
Lemma prepare_depth_pos cfg inp sp : prepare cfg inp = Some sp ->
  forall b, b < List.length (sp_trees sp) -> 1 <= depth sp b.
Proof.
  intros Hp b Hb. destruct (prepare_fields cfg inp sp Hp) as (_ & _ & HF).
  unfold depth.
  assert (Hlen : List.length (i_branches inp) = List.length (sp_trees sp)) by (eapply Forall2_length'; eauto).
  pose proof (Forall2_nth _ _ _ (mkBranch None []) [] HF b) as H. rewrite Hlen in H. specialize (H Hb).
  apply Forall2_length' in H. rewrite <- H.
  destruct (split_steps_shape (b_members (nth b (i_branches inp) (mkBranch None [])))) as (g & gs & E & _).
  rewrite E. cbn. lia.
Qed.

Section Corollaries.
  Variable msem : string -> option (list operand) -> dval -> list dval -> comp dval.
  Variable dotsem : operand -> list (string * option val) -> dval -> comp dval.
  Variable callsem : val -> list dval -> comp dval.
  Variable awaitsem : val -> comp val.

  Notation steps := (steps msem dotsem callsem awaitsem).
  Definition init_state (sp : sprog) : state := map (fun _ => None) (sp_trees sp).

  (* a sync macro without handler is its steps *)
  Lemma spec_no_handler_sync sp :
    is_async (sp_cfg sp) = false -> sp_handler sp = None ->
    spec msem dotsem callsem awaitsem sp = steps sp (max_depth sp) 0 (init_state sp).
  Proof.
    intros Ha Hh. unfold spec, run_body. rewrite Ha, Hh. cbn [bind]. unfold handle_results. apply bind_ret_r.
  Qed.

  (* the generated code of a sync macro without handler denotes the steps of the reference semantics *)
  Theorem den_gen_is_steps cfg inp e sp :
    is_async cfg = false -> i_handler inp = None ->
    wf inp -> gen cfg inp = Ok e -> prepare cfg inp = Some sp ->
    den (user_names inp) msem dotsem callsem awaitsem e empty_env = steps sp (max_depth sp) 0 (init_state sp).
  Proof.
    intros Ha Hh Hwf Hg Hp. destruct (prepare_fields cfg inp sp Hp) as (Hc & Hhs & _).
    rewrite (gen_refines_spec msem dotsem callsem awaitsem cfg inp e sp Hwf Hg Hp).
    apply spec_no_handler_sync; congruence.
  Qed.

  (* C04 on the generated code: join! - element b of the result is a value of branch b's last step
     (T is an arbitrary description of what branch b's chain produces in step k) *)
  Theorem den_gen_result_positions inp e sp (T : nat -> nat -> dval -> Prop) :
    let cfg := {| is_async := false; is_try := false; is_spawn := false |} in
    i_handler inp = None ->
    wf inp -> gen cfg inp = Ok e -> prepare cfg inp = Some sp ->
    (forall sn cp k st b, Leaves.leaves (chain msem dotsem callsem sp sn cp k st b) (T b k)) ->
    Leaves.leaves (den (user_names inp) msem dotsem callsem awaitsem e empty_env) (SpecProps.ResultOK sp T).
  Proof.
    intros cfg Hh Hwf Hg Hp HT. destruct (prepare_fields cfg inp sp Hp) as (Hc & _ & _).
    rewrite (den_gen_is_steps cfg inp e sp eq_refl Hh Hwf Hg Hp).
    apply (SpecProps.result_positions_join msem dotsem callsem awaitsem sp T HT (prepare_depth_pos cfg inp sp Hp));
      try (rewrite Hc; reflexivity).
    - lia.
    - split; [unfold init_state; apply map_length|]. intros b _ H0. lia.
  Qed.

  (* C05/C06 on the generated code: try_join! / try_join_spawn! - the shape of the first step (and, through
     SpecProps.try_steps_sync again, of every later one) *)
  Theorem den_gen_try_first_step cfg inp e sp :
    is_async cfg = false -> is_try cfg = true -> i_handler inp = None ->
    wf inp -> gen cfg inp = Ok e -> prepare cfg inp = Some sp ->
    den (user_names inp) msem dotsem callsem awaitsem e empty_env =
    (let! sr := step_result msem dotsem callsem awaitsem sp 0 (init_state sp) in
     let! ds := extract (actives sp 0) sr in
     let st' := set_all (init_state sp) (actives sp 0) ds in
     if Nat.eqb (max_depth sp - 1) 0 then transpose awaitsem sp (seq 0 (List.length (sp_trees sp))) st'
     else if SpecProps.all_classified ds
          then match SpecProps.first_fail_list ds with
               | Some d => Ret d
               | None => steps sp (max_depth sp - 1) 1 st'
               end
          else Panic P_ILLTYPED).
  Proof.
    intros Ha Ht Hh Hwf Hg Hp. destruct (prepare_fields cfg inp sp Hp) as (Hc & _ & HF).
    rewrite (den_gen_is_steps cfg inp e sp Ha Hh Hwf Hg Hp).
    assert (Hmax : 1 <= max_depth sp).
    { destruct (gen_inv cfg inp e Hg) as (fcp & j & Hj & _ & _).
      pose proof (rel_of_gen cfg inp fcp j sp Hwf Hj Hp) as HR.
      pose proof (rel_n_pos _ _ _ HR) as Hpos. rewrite <- (rel_n_trees _ _ _ HR) in Hpos.
      pose proof (prepare_depth_pos cfg inp sp Hp 0 Hpos) as Hd.
      pose proof (SpecProps.depth_le_max sp 0 Hpos). lia. }
    replace (max_depth sp) with (S (max_depth sp - 1)) at 1 by lia.
    apply SpecProps.try_steps_sync; rewrite Hc; assumption.
  Qed.
End Corollaries.

Print Assumptions den_gen_is_steps.
Print Assumptions den_gen_result_positions.
Print Assumptions den_gen_try_first_step.
