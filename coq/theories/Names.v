(* Name constructors: join_impl/src/join/name_constructors.rs *)
From Coq Require Import DecimalString Decimal.
From Join Require Import Tok.

Definition dec (n : nat) : string := NilEmpty.string_of_uint (Nat.to_uint n).

Definition n_var (i : nat) : string := "__v" +++ dec i.            (* construct_var_name (unused by the generator) *)
Definition n_sr (k : nat) : string := "__sr" +++ dec k.            (* construct_step_results_name *)
Definition n_r (i : nat) : string := "__r" +++ dec i.              (* construct_result_name *)
Definition n_j (i : nat) : string := "__j" +++ dec i.              (* construct_thread_builder_name *)
Definition n_inspect : string := "__inspect".
Definition n_spawn_tokio : string := "__spawn_tokio".
Definition n_rs : string := "__rs".
Definition n_h : string := "__h".
Definition n_v : string := "__v".
Definition n_ew (b e i : nat) : string := "__ew" +++ dec b +++ "_" +++ dec e +++ "_" +++ dec i.   (* construct_expr_wrapper_name *)
Definition n_tb : string := "__tb".
Definition n_handler_tmp : string := "__handler".
Definition n_fail_index : string := "__fail_index".
Definition n_future : string := "__future".
