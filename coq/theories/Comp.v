(* Values, events, and the computation tree that gives generated code its meaning. *)
From Coq Require Import ZArith.
From Join Require Import Tok.

Inductive val :=
| VUnit
| VBool (b : bool)
| VInt (z : Z)
| VOpq (n : Z)                       (* an opaque user value / closure, identified by a number *)
| VStr (s : string)
| VNone | VSome (v : val)
| VOk (v : val) | VErr (v : val)
| VTuple (vs : list val)
| VList (vs : list val)
| VHandle (h : nat).                 (* a JoinHandle *)

(* Interaction with user code and the environment. *)
Inductive ev :=
| EEval (o : operand) (snap : list (string * option val))
     (* the user expression o is evaluated; snap = what the user's `let` names hold at that point *)
| ECall (f : val) (args : list val)  (* the user closure f is invoked *)
| EThreadName.                       (* ::std::thread::current().name() *)

Inductive comp (A : Type) :=
| Ret (a : A)
| Panic (why : N)
| Vis (e : ev) (k : val -> comp A)
| Spawn (name : string) (t : comp val) (k : nat -> comp A)    (* std::thread::Builder::name(..).spawn *)
| Join (h : nat) (k : option val -> comp A).                  (* JoinHandle::join: None = the thread panicked *)
Arguments Ret {A} a.
Arguments Panic {A} why.
Arguments Vis {A} e k.
Arguments Spawn {A} name t k.
Arguments Join {A} h k.

Fixpoint bind {A B} (c : comp A) (f : A -> comp B) : comp B :=
  match c with
  | Ret a => f a
  | Panic n => Panic n
  | Vis e k => Vis e (fun v => bind (k v) f)
  | Spawn name t k => Spawn name t (fun h => bind (k h) f)
  | Join h k => Join h (fun r => bind (k r) f)
  end.
Notation "'let!' x ':=' c 'in' k" := (bind c (fun x => k)) (at level 200, x pattern, c at level 100, k at level 200).

(* panic codes *)
Definition P_UNBOUND : N := 1.       (* unbound identifier: generated code would not compile *)
Definition P_ILLTYPED : N := 2.      (* ill-typed use: generated code would not compile *)
Definition P_UNREACHABLE : N := 3.   (* unreachable!() *)
Definition P_UNWRAP : N := 4.        (* .unwrap() on None / Err *)
Definition P_USER : N := 5.          (* a panic raised by user code *)
Definition P_STUCK : N := 6.         (* construct without a meaning in this model *)

(* denotable values: plain values, closures (kept outside val), futures, and two helper items *)
Inductive carg := CV (v : val) | CF (f : list val -> comp val).   (* argument of a fn item *)

Inductive dval :=
| DV (v : val)
| DF (f : list val -> comp val)      (* a generated closure *)
| DFn (f : list carg -> comp val)    (* a generated fn item (its parameters may be closures) *)
| DFut (c : comp val)                (* a future: running it is polling it to completion *)
| DBuilder (name : string)           (* a ::std::thread::Builder with its name *)
| DTb                                (* the item __tb *)
| DSpawnTokio.                       (* the item __spawn_tokio *)

Definition to_val (d : dval) : comp val :=
  match d with DV v => Ret v | _ => Panic P_ILLTYPED end.

Fixpoint mapM {A B} (f : A -> comp B) (l : list A) : comp (list B) :=
  match l with
  | [] => Ret []
  | x :: r => let! y := f x in let! ys := mapM f r in Ret (y :: ys)
  end.
