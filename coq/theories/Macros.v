(* join/src/lib.rs: the twelve proc-macro entry points and the configuration each passes to generate_join.
   This table is compared with the table extracted from the Rust source on every C07 run (tools/fam.py). *)
From Join Require Import Tok Ast.

Definition macro_table : list (string * config) :=
  [ ("try_join",             mkConfig false true  false);
    ("try_join_async",       mkConfig true  true  false);
    ("try_join_spawn",       mkConfig false true  true);
    ("try_spawn",            mkConfig false true  true);
    ("try_join_async_spawn", mkConfig true  true  true);
    ("try_async_spawn",      mkConfig true  true  true);
    ("join",                 mkConfig false false false);
    ("join_async",           mkConfig true  false false);
    ("join_spawn",           mkConfig false false true);
    ("spawn",                mkConfig false false true);
    ("join_async_spawn",     mkConfig true  false true);
    ("async_spawn",          mkConfig true  false true) ].

Fixpoint macro_config (name : string) (t : list (string * config)) : option config :=
  match t with
  | [] => None
  | (n, c) :: r => if String.eqb n name then Some c else macro_config name r
  end.

Definition config_eqb (a b : config) : bool :=
  Bool.eqb (is_async a) (is_async b) && Bool.eqb (is_try a) (is_try b) && Bool.eqb (is_spawn a) (is_spawn b).

(* comparison with the table extracted from lib.rs: 0 = equal *)
Fixpoint table_diff (a b : list (string * config)) : nat :=
  match a, b with
  | [], [] => 0
  | (n, c) :: a', (n', c') :: b' => if String.eqb n n' && config_eqb c c' then table_diff a' b' else 1
  | _, _ => 1
  end.
