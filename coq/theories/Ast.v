(* Parsed macro input: the data JoinInputDefault holds. *)
From Join Require Import Tok.

Inductive comb :=
| Map | Dot | Filter | Inspect | Then | AndThen | Or | OrElse | MapErr | Initial
| Chain | Flatten | Collect | Enumerate | Find | Fold | TryFold | Unzip | Zip
| Partition | FilterMap | FindMap | UNWRAP.

Definition comb_eqb (a b : comb) : bool :=
  match a, b with
  | Map, Map | Dot, Dot | Filter, Filter | Inspect, Inspect | Then, Then | AndThen, AndThen
  | Or, Or | OrElse, OrElse | MapErr, MapErr | Initial, Initial | Chain, Chain | Flatten, Flatten
  | Collect, Collect | Enumerate, Enumerate | Find, Find | Fold, Fold | TryFold, TryFold
  | Unzip, Unzip | Zip, Zip | Partition, Partition | FilterMap, FilterMap | FindMap, FindMap
  | UNWRAP, UNWRAP => true
  | _, _ => false
  end.

Inductive mv := Wrap | Unwrap | NoMove.
Definition mv_eqb (a b : mv) : bool :=
  match a, b with Wrap, Wrap | Unwrap, Unwrap | NoMove, NoMove => true | _, _ => false end.

(* One member of a chain: ExprGroup<ActionExpr>.  a_ops are the operands the variant holds:
   expressions for the expression-taking combinators, types for Collect/Unzip (empty list =
   `None`), nothing for Flatten/Enumerate/UNWRAP. *)
Record action := mkAction {
  a_comb : comb;
  a_deferred : bool;      (* ApplicationType::Deferred *)
  a_mv : mv;              (* MoveType *)
  a_ops : list operand
}.

Inductive ekind := KProcess | KErr | KInitial.
Definition kind_of (c : comb) : ekind :=
  match c with Or | OrElse | MapErr => KErr | Initial => KInitial | _ => KProcess end.

(* InnerExpr::inner_exprs : which variants expose expression operands *)
Definition has_inner_exprs (c : comb) : bool :=
  match c with
  | Collect | Unzip | Flatten | Enumerate | UNWRAP => false
  | _ => true
  end.
(* InnerExpr::is_replaceable *)
Definition is_replaceable (c : comb) : bool :=
  match c with
  | Dot | Collect | Unzip | Flatten | Enumerate => false
  | _ => true
  end.
(* Combinator::can_be_wrapper *)
Definition can_be_wrapper (c : comb) : bool :=
  match c with
  | Map | AndThen | Filter | Inspect | FilterMap | Find | FindMap | Partition | OrElse | MapErr => true
  | _ => false
  end.

Definition last_error {A} (l : list A) : option A := match rev l with [] => None | x :: _ => Some x end.

(* InnerExpr::replace_inner_exprs (process_expr.rs:56-90, err_expr.rs, initial_expr.rs) *)
Definition replace_inner_exprs (c : comb) (exprs : list operand) : option (list operand) :=
  match last_error exprs with
  | None => None
  | Some lst =>
      match c with
      | Fold | TryFold =>
          match exprs with fst :: _ => Some [fst; lst] | [] => None end
      | Or | OrElse | MapErr | Initial => Some [lst]
      | Map | Filter | AndThen | Then | Inspect | Chain | FilterMap | FindMap | Find | Partition | Zip =>
          match exprs with [_] => Some [lst] | _ => None end
      | _ => None
      end
  end.

(* ---- is_block_expr (parse/utils.rs:33) on tokens: syn's Expr::Block is
        outer attributes, an optional label, a brace group ---- *)
Fixpoint strip_attrs (ts : list tt) : list tt :=
  match ts with
  | TP c _ :: TG DBracket _ :: r => if String.eqb c "#" then strip_attrs r else ts
  | _ => ts
  end.
Definition is_block (o : operand) : bool :=
  match strip_attrs o with
  | [TG DBrace _] => true
  | [TP q _; TI _; TP c _; TG DBrace _] => String.eqb q "'" && String.eqb c ":"
  | _ => false
  end.

Fixpoint enum_from {A} (i : nat) (l : list A) : list (nat * A) :=
  match l with [] => [] | x :: r => (i, x) :: enum_from (S i) r end.

Record branch := mkBranch {
  b_pat : option (operand * string);   (* `let <PatIdent tokens> =` and the bare identifier *)
  b_members : list action
}.

Inductive hkind := HMap | HThen | HAndThen.

Record input := mkInput {
  i_branches : list branch;
  i_handler : option (hkind * operand);
  i_fcp : option operand;             (* futures_crate_path *)
  i_joiner : option operand;          (* custom_joiner *)
  i_transpose : option bool;          (* transpose_results *)
  i_lazy : option bool                (* lazy_branches *)
}.

Record config := mkConfig { is_async : bool; is_try : bool; is_spawn : bool }.
